(* C20FirstP: "no earlier format of the list claims a text written by format k" decided on the regenerated lists.
   For every format k of a list: the shapes of its texts (proofs/RegexAbsP.v) and, by the may-match analysis, the
   earlier formats that MAY match somewhere in such a text (`claim_table`).  Where that set is empty, first match is a
   theorem with no hypothesis about the other formats (the text on its own: rest = []); where it is not, the hypothesis
   shrinks to the listed pairs. *)
From LR Require Import lib.Base model.GoTime model.Regex model.DateFmt model.DateOk model.LqlTime gen.DateTables.
From LR Require Import proofs.GoTimeP proofs.RegexP proofs.DateFmtP proofs.LqlTimeP proofs.C20TablesP proofs.RegexAbsP.
From Coq Require Import Strings.String ZArith Lia.
Open Scope bool_scope.

(* ---- the shapes of a token's texts, computed once per kind ---- *)
Definition all_kinds : list kind :=
  [KYYYY; KYY; KMMMM; KMMM; KMM; KM; KDDDD; KDDD; KDD; K_D; KD; KHH; Khh; Kh; Kmm; Km; Kss; Ks; KSSS; KP; KZ5; KZ4; KZ3].
Definition kind_idx (k : kind) : nat :=
  match k with
  | KYYYY => 0 | KYY => 1 | KMMMM => 2 | KMMM => 3 | KMM => 4 | KM => 5 | KDDDD => 6 | KDDD => 7 | KDD => 8 | K_D => 9
  | KD => 10 | KHH => 11 | Khh => 12 | Kh => 13 | Kmm => 14 | Km => 15 | Kss => 16 | Ks => 17 | KSSS => 18 | KP => 19
  | KZ5 => 20 | KZ4 => 21 | KZ3 => 22
  end.
Lemma kind_idx_ok k : nth_error all_kinds (kind_idx k) = Some k. Proof. destruct k; reflexivity. Qed.

Definition abs_tab : list (list (list abyte)) := Eval vm_compute in map (fun k => abs_vals (vals k)) all_kinds.
Lemma abs_tab_eq : abs_tab = map (fun k => abs_vals (vals k)) all_kinds. Proof. vm_compute. reflexivity. Qed.

Definition tokv (t : tok) : list (list abyte) :=
  match t with
  | TK k _ => match nth_error abs_tab (kind_idx k) with Some v => v | None => [] end
  | TL b => [[AB b]]
  | TSp n => [repeat (AB x20) n]
  end.

Lemma tokv_sound t w : In w (tvals t) -> exists a, In a (tokv t) /\ concrs w a.
Proof.
  destruct t as [k i|b|n]; cbn [tvals tokv].
  - intros H. rewrite abs_tab_eq. rewrite nth_error_map, kind_idx_ok. cbn [option_map]. apply abs_vals_sound. exact H.
  - intros [<-|[]]. exists [AB b]. split; [left; reflexivity|]. repeat constructor.
  - intros [<-|[]]. exists (repeat (AB x20) n). split; [left; reflexivity|].
    induction n as [|n IH]; cbn [repeat]; constructor; [reflexivity|exact IH].
Qed.

Definition shapes (l : list tok) : list (list abyte) := shapes_with tokv l.

Lemma shapes_ok l0 c l : civil_ok l0 c -> exists sh, In sh (shapes l) /\ concrs (render_toks l c) sh.
Proof. intros Hc. exact (shapes_sound tokv l0 c Hc tokv_sound l). Qed.

(* ---- the table: for every k the earlier formats that may match in a text of format k ---- *)
Definition claim_table (formats : list bytes) (fs : list (option cfmt)) : list (list nat) :=
  map (fun k => may_claimers fs k (shapes (the_tokens (nth k formats [])))) (seq 0 (List.length formats)).

Definition known_claims : list (list nat) := Eval vm_compute in claim_table known_formats known_c.
Lemma known_claims_eq : known_claims = claim_table known_formats known_c. Proof. vm_compute. reflexivity. Qed.
Definition lql_claims : list (list nat) := Eval vm_compute in claim_table lql_formats lql_c.
Lemma lql_claims_eq : lql_claims = claim_table lql_formats lql_c. Proof. vm_compute. reflexivity. Qed.

Lemma nth_error_map_seq {A} (g : nat -> A) n : forall s k, (k < n)%nat -> nth_error (map g (seq s n)) k = Some (g (s + k)%nat).
Proof.
  induction n as [|n IH]; intros s k Hk; [lia|]. cbn [seq map]. destruct k as [|k]; cbn [nth_error].
  - rewrite Nat.add_0_r. reflexivity.
  - rewrite IH by lia. f_equal. f_equal. lia.
Qed.

Lemma claim_table_nth formats fs k cl : nth_error (claim_table formats fs) k = Some cl ->
  cl = may_claimers fs k (shapes (the_tokens (nth k formats []))).
Proof.
  intros H. unfold claim_table in H.
  assert (Hk : (k < List.length formats)%nat).
  { assert (Hl : (k < List.length (map (fun k0 => may_claimers fs k0 (shapes (the_tokens (nth k0 formats [])))) (seq 0 (List.length formats))))%nat)
      by (apply nth_error_Some; rewrite H; discriminate).
    rewrite map_length, seq_length in Hl. exact Hl. }
  rewrite (nth_error_map_seq _ _ 0 k Hk) in H. injection H as <-. reflexivity.
Qed.

(* ---- first match: the first format that parses answers, and every format that may parse before k gives the same answer ---- *)
Lemma parse_all_first now text r : forall fs i k cf, nth_error fs k = Some (Some cf) -> parse_one now cf text = Some r ->
  (forall j, (j < k)%nat -> exists cj, nth_error fs j = Some (Some cj) /\ (parse_one now cj text = None \/ parse_one now cj text = Some r)) ->
  exists j, (j <= k)%nat /\ parse_all_from i now fs text = Some ((i + j)%nat, r).
Proof.
  induction fs as [|o fs IH]; intros i k cf Hk Hp He; [destruct k; discriminate|].
  destruct k as [|k].
  - cbn in Hk. injection Hk as ->. exists 0%nat. split; [lia|]. cbn [parse_all_from]. rewrite Hp, Nat.add_0_r. reflexivity.
  - destruct (He 0%nat ltac:(lia)) as (c0 & H0 & Hc0). cbn in H0. injection H0 as ->. cbn [parse_all_from].
    destruct Hc0 as [Hn|Hs].
    + rewrite Hn. destruct (IH (S i) k cf Hk Hp) as (j & Hj & E).
      { intros j Hj. exact (He (S j) ltac:(lia)). }
      exists (S j). split; [lia|]. rewrite E. f_equal. f_equal. lia.
    + rewrite Hs. exists 0%nat. split; [lia|]. rewrite Nat.add_0_r. reflexivity.
Qed.

Section OneList.
  Variable formats : list bytes.
  Variable claims : list (list nat).
  Hypothesis Hsub : forall f, In f formats -> In f all_formats.
  Let fs := map (compile_with terms_table) formats.
  Hypothesis Hclaims : claims = claim_table formats fs.

  Lemma fs_nth j fj : nth_error formats j = Some fj ->
    exists lj cj, tokens terms_table fj = Some lj /\ nth_error fs j = Some (Some cj) /\ compile_with terms_table fj = Some cj /\
      forall now c rest, civil_ok lj c -> sep_ok rest -> parse_one now cj (render_toks lj c ++ rest) = Some (denotes now lj c).
  Proof.
    intros Hj. destruct (self_of_table fj (Hsub fj (nth_error_In _ _ Hj))) as (lj & cj & Ht & Hcj & Hp).
    exists lj, cj. split; [exact Ht|]. split; [|split; [exact Hcj|exact Hp]].
    unfold fs. rewrite nth_error_map, Hj. cbn [option_map]. rewrite Hcj. reflexivity.
  Qed.

  (* the hypothesis about earlier formats shrinks to the pairs of the table; for them: the earlier format does not parse
     the text, or it reads the same instant *)
  Theorem first_match_own k f cl : nth_error formats k = Some f -> nth_error claims k = Some cl ->
    forall now c, civil_ok (the_tokens f) c ->
    let text := render_toks (the_tokens f) c in
    (forall j cj, In j cl -> nth_error fs j = Some (Some cj) ->
       parse_one now cj text = None \/ parse_one now cj text = Some (denotes now (the_tokens f) c)) ->
    exists j, (j <= k)%nat /\ parse_all now fs text = Some (j, denotes now (the_tokens f) c).
  Proof.
    intros Hk Hcl now c Hc text Hpairs.
    destruct (fs_nth k f Hk) as (l & cf & Ht & Hn & _ & Hp).
    assert (El : the_tokens f = l) by (unfold the_tokens; rewrite Ht; reflexivity).
    rewrite Hclaims in Hcl. apply claim_table_nth in Hcl.
    replace (nth k formats []) with f in Hcl by (symmetry; apply nth_error_nth; exact Hk).
    destruct (shapes_ok (the_tokens f) c (the_tokens f) Hc) as (sh & Hsh & Hcs). fold text in Hcs.
    assert (Hself : parse_one now cf text = Some (denotes now (the_tokens f) c)).
    { specialize (Hp now c [] ltac:(rewrite <- El; exact Hc) (or_introl eq_refl)). rewrite app_nil_r in Hp.
      unfold text. rewrite El. exact Hp. }
    destruct (parse_all_first now text _ fs 0%nat k cf Hn Hself) as (j & Hj & E).
    { intros j Hj.
      assert (Hkl : (k < List.length formats)%nat) by (apply nth_error_Some; rewrite Hk; discriminate).
      assert (Hjf : exists fj, nth_error formats j = Some fj).
      { destruct (nth_error formats j) as [fj|] eqn:Ej; [exists fj; reflexivity|].
        apply nth_error_None in Ej. exfalso. clear - Ej Hj Hkl. lia. }
      destruct Hjf as (fj & Hfj). destruct (fs_nth j fj Hfj) as (lj & cj & _ & Hnj & _ & _).
      exists cj. split; [exact Hnj|].
      destruct (in_dec Nat.eq_dec j cl) as [Hin|Hnot]; [exact (Hpairs j cj Hin Hnj)|].
      left. subst cl. exact (may_claimers_sound fs k (shapes (the_tokens f)) j cj text sh now Hj Hnj Hnot Hsh Hcs). }
    exists j. split; [exact Hj|]. unfold parse_all. rewrite E. reflexivity.
  Qed.

  (* no pair for k in the table: format k answers, with no hypothesis about the other formats *)
  Theorem first_match_own_clean k f : nth_error formats k = Some f -> nth_error claims k = Some [] ->
    forall now c, civil_ok (the_tokens f) c ->
    parse_all now fs (render_toks (the_tokens f) c) = Some (k, denotes now (the_tokens f) c).
  Proof.
    intros Hk Hcl now c Hc.
    pose proof (first_match_partial formats Hsub k f Hk now c [] Hc (or_introl eq_refl)) as P. cbv zeta in P.
    rewrite app_nil_r in P. apply P. clear P.
    intros j fj Hj Hfj. destruct (fs_nth j fj Hfj) as (lj & cj & _ & Hnj & Hcj & _). exists cj. split; [exact Hcj|].
    rewrite Hclaims in Hcl. apply claim_table_nth in Hcl.
    replace (nth k formats []) with f in Hcl by (symmetry; apply nth_error_nth; exact Hk).
    destruct (shapes_ok (the_tokens f) c (the_tokens f) Hc) as (sh & Hsh & Hcs).
    eapply (may_claimers_sound fs k _ j cj _ sh now Hj Hnj); [|exact Hsh|exact Hcs].
    rewrite <- Hcl. intros [].
  Qed.
End OneList.

(* ---- the two lists of the code ---- *)
Lemma known_sub : forall f, In f known_formats -> In f all_formats.
Proof. intros f H. apply in_or_app. left. exact H. Qed.
Lemma lql_sub : forall f, In f lql_formats -> In f all_formats.
Proof. intros f H. apply in_or_app. right. exact H. Qed.
Lemma known_claims_ok : known_claims = claim_table known_formats (map (compile_with terms_table) known_formats).
Proof. rewrite <- known_c_eq. exact known_claims_eq. Qed.
Lemma lql_claims_ok : lql_claims = claim_table lql_formats (map (compile_with terms_table) lql_formats).
Proof. rewrite <- lql_c_eq. exact lql_claims_eq. Qed.

(* the pairs (k, earlier formats that may match in a text of format k), as the tables have them now *)
Definition pairs_of (claims : list (list nat)) : list (nat * list nat) :=
  filter (fun p => match snd p with [] => false | _ => true end) (combine (seq 0 (List.length claims)) claims).
Lemma known_pairs : pairs_of known_claims =
  [(7, [6]); (13, [12]); (16, [15]); (17, [15; 16]); (18, [15; 16; 17]); (20, [19]); (23, [22]); (26, [25]); (27, [25; 26]);
   (29, [28]); (31, [30]); (34, [33]); (55, [54]); (56, [54; 55]); (57, [54]); (58, [54; 57])]%nat.
Proof. vm_compute. reflexivity. Qed.
Lemma lql_pairs : pairs_of lql_claims =
  [(7, [6]); (13, [12]); (16, [15]); (17, [15; 16]); (18, [15; 16; 17]); (20, [19]); (23, [22]); (26, [25]); (27, [25; 26]);
   (29, [28]); (31, [30]); (34, [33]); (55, [54]); (56, [54; 55]); (57, [54]); (58, [54; 57]); (59, [54]); (60, [54]);
   (62, [54]); (63, [54]); (65, [54]); (66, [54])]%nat.
Proof. vm_compute. reflexivity. Qed.

(* ---- an LQL literal written in a format is neither a relative literal nor a named constant ---- *)
Definition letters : cls := CRanges [(65, 90); (97, 122)]%N.
Definition lit_safe (sh : list abyte) : bool :=
  match sh with
  | a :: _ => negb (amay (cbyte x2d) a) && existsb (fun x => negb (amay letters x)) sh
  | [] => false
  end.

Lemma to_lower_b_minus b : b <> x2d -> to_lower_b b <> x2d.
Proof. destruct b; intros H; try (exfalso; apply H; reflexivity); cbn; discriminate. Qed.

Lemma parse_relative_head b tl : b <> x2d -> parse_relative (b :: tl) = None.
Proof. intros H. destruct b; try reflexivity. exfalso. apply H. reflexivity. Qed.

Lemma names_lower dt i k : index_of dt const_names i = Some k -> Forall (fun b => is_lower b = true) dt.
Proof.
  unfold const_names. cbn [index_of].
  destruct (bytes_eqb (B "minute") dt) eqn:E1; [apply bytes_eqb_eq in E1; subst dt; intros _; repeat constructor|].
  destruct (bytes_eqb (B "hour") dt) eqn:E2; [apply bytes_eqb_eq in E2; subst dt; intros _; repeat constructor|].
  destruct (bytes_eqb (B "day") dt) eqn:E3; [apply bytes_eqb_eq in E3; subst dt; intros _; repeat constructor|].
  destruct (bytes_eqb (B "week") dt) eqn:E4; [apply bytes_eqb_eq in E4; subst dt; intros _; repeat constructor|].
  discriminate.
Qed.

Lemma nonletter_stays b : cls_has letters b = false -> is_lower (to_lower_b b) = false.
Proof. destruct b; cbn; intros H; try reflexivity; discriminate H. Qed.

Lemma lit_safe_sound text sh : concrs text sh -> lit_safe sh = true ->
  parse_relative (to_lower text) = None /\ index_of (to_lower text) const_names 0 = None.
Proof.
  intros Hc Hs. destruct Hc as [|b a w aw Hb Hw]; [discriminate|]. cbn [lit_safe] in Hs.
  apply andb_true_iff in Hs as [H1 H2]. split.
  - cbn [to_lower map]. apply parse_relative_head. apply to_lower_b_minus. intros ->.
    apply negb_true_iff in H1. rewrite (amay_sound (cbyte x2d) x2d a Hb) in H1; [discriminate|reflexivity].
  - destruct (index_of (to_lower (b :: w)) const_names 0) as [k|] eqn:E; [|reflexivity]. exfalso.
    apply names_lower in E. apply existsb_exists in H2 as (x & Hx & Hn). apply negb_true_iff in Hn.
    assert (Hall : concrs (b :: w) (a :: aw)) by (constructor; assumption).
    clear - E Hx Hn Hall. revert E. generalize (b :: w) (a :: aw) Hall Hx. clear b w a aw Hall Hx.
    induction 1 as [|b0 a0 w0 aw0 Hb0 Hw0 IH]; [intros []|]. intros [->|Hin] E; inversion E; subst.
    + assert (cls_has letters b0 = false).
      { destruct (cls_has letters b0) eqn:El; [|reflexivity]. rewrite (amay_sound letters b0 x Hb0 El) in Hn. discriminate. }
      rewrite (nonletter_stays b0 H) in H1. discriminate.
    + apply IH; assumption.
Qed.

Lemma lql_literals_safe : forallb (fun f => forallb lit_safe (shapes (the_tokens f))) lql_formats = true.
Proof. vm_compute. reflexivity. Qed.

(* an absolute LQL literal written in a format of the LQL list that no earlier format can claim *)
Theorem lql_abs_own_clean k f : nth_error lql_formats k = Some f -> nth_error lql_claims k = Some [] ->
  forall now c lit, civil_ok (the_tokens f) c -> trim_sp lit = render_toks (the_tokens f) c ->
  lql_parse now lql_list lit = LAbs (nanos (denotes now (the_tokens f) c)).
Proof.
  intros Hk Hcl now c lit Hc Hl.
  destruct (shapes_ok (the_tokens f) c (the_tokens f) Hc) as (sh & Hsh & Hcs).
  assert (Hsafe : lit_safe sh = true).
  { pose proof lql_literals_safe as H. rewrite forallb_forall in H. specialize (H f (nth_error_In _ _ Hk)).
    rewrite forallb_forall in H. exact (H sh Hsh). }
  destruct (lit_safe_sound _ _ Hcs Hsafe) as [Hr Hi].
  apply (lql_abs_partial k f Hk now c lit Hc Hl Hr Hi).
  intros j fj Hj Hfj.
  destruct (fs_nth lql_formats lql_sub j fj Hfj) as (lj & cj & _ & Hnj & Hcj & _). exists cj. split; [exact Hcj|].
  pose proof lql_claims_ok as Hok. rewrite Hok in Hcl. apply claim_table_nth in Hcl.
  replace (nth k lql_formats []) with f in Hcl by (symmetry; apply nth_error_nth; exact Hk).
  eapply (may_claimers_sound _ k _ j cj _ sh now Hj Hnj); [|exact Hsh|exact Hcs].
  rewrite <- Hcl. intros [].
Qed.
