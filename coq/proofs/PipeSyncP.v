(* Lemmas about model/PipeSync.v: the exactly-once invariant over every schedule. *)
From LR Require Import lib.Base model.PipeSync.

(* ---------- list facts ---------- *)
Lemma skipn_app_le {A} (n : nat) (l b : list A) : n <= length l -> skipn n (l ++ b) = skipn n l ++ b.
Proof.
  revert l. induction n as [|n IH]; intros l H; [reflexivity|].
  destruct l as [|x l]; cbn in H; [lia|]. cbn. apply IH. lia.
Qed.

Lemma firstn_app_le {A} (k : nat) (x b : list A) : k <= length x -> firstn k (x ++ b) = firstn k x.
Proof.
  intros H. rewrite firstn_app. replace (k - length x) with 0 by lia. cbn. apply app_nil_r.
Qed.

Lemma nth_error_skipn {A} (n k : nat) (l : list A) : nth_error (skipn n l) k = nth_error l (n + k).
Proof.
  revert l. induction n as [|n IH]; intros l; [reflexivity|].
  destruct l as [|x l]; cbn; [destruct k; reflexivity|]. apply IH.
Qed.

Lemma firstn_S_nth {A} (k : nat) (l : list A) (e : A) : nth_error l k = Some e -> firstn (S k) l = firstn k l ++ [e].
Proof.
  revert l. induction k as [|k IH]; intros l H; destruct l as [|x l]; cbn in H; try discriminate.
  - injection H as ->. reflexivity.
  - change (x :: firstn (S k) l = x :: (firstn k l ++ [e])). f_equal. apply IH. exact H.
Qed.

Lemma firstn_window {A} (n0 cp : nat) (l : list A) (e : A) :
  n0 <= cp -> nth_error l cp = Some e ->
  firstn (S cp - n0) (skipn n0 l) = firstn (cp - n0) (skipn n0 l) ++ [e].
Proof.
  intros H1 H2. replace (S cp - n0) with (S (cp - n0)) by lia.
  apply firstn_S_nth. rewrite nth_error_skipn. replace (n0 + (cp - n0)) with cp by lia. exact H2.
Qed.

Lemma filter_true {A} (l : list A) : filter (fun _ => true) l = l.
Proof. induction l as [|x l IH]; cbn; [reflexivity|]. rewrite IH. reflexivity. Qed.

Lemma filter_all {A} (f : A -> bool) (l : list A) : forallb f l = true -> filter f l = l.
Proof.
  induction l as [|x l IH]; cbn; [reflexivity|]. intros H. apply andb_true_iff in H as [H1 H2].
  rewrite H1, (IH H2). reflexivity.
Qed.

(* ---------- the chain of pending notifications ---------- *)
Fixpoint chain (a : nat) (l : list (nat * nat)) (z : nat) : Prop :=
  match l with
  | [] => a = z
  | (x, y) :: tl => x = a /\ x < y /\ chain y tl z
  end.

Lemma chain_le a l z : chain a l z -> a <= z.
Proof.
  revert a. induction l as [|[x y] l IH]; cbn; intros a H; [lia|].
  destruct H as (-> & H1 & H2). specialize (IH _ H2). lia.
Qed.

Lemma chain_snoc a l z z' : chain a l z -> z < z' -> chain a (l ++ [(z, z')]) z'.
Proof.
  revert a. induction l as [|[x y] l IH]; cbn; intros a H Hz.
  - subst. repeat split; [exact Hz].
  - destruct H as (-> & H1 & H2). repeat split; [exact H1|]. apply IH; assumption.
Qed.

Section WithTags.
Variable tags : list (bytes * bytes).
Variable af : bool.
Variable n0 : nat.     (* length of the source at creation time *)

Definition lk (s : st) : nat := match desc s with Some d => p_lkp d | None => n0 end.
Definition ps (s : st) : nat := match desc s with Some d => p_pos d | None => n0 end.
(* how far the copy has got *)
Definition hw (s : st) : nat :=
  match wrk s with
  | Some (WCopy cp) | Some (WSave cp) | Some (WCheck cp) | Some (WWait cp) | Some (WRetry cp) => cp
  | _ => ps s
  end.

Definition wrk_ok (s : st) : Prop :=
  match wrk s with
  | None => match desc s with Some d => p_chg d = false /\ p_lkp d <= p_pos d | None => True end
  | Some ph => exists d, desc s = Some d /\ p_chg d = true /\
                         match ph with WCheck cp | WWait cp => p_pos d = cp | _ => True end
  end.

Record Inv (s : st) : Prop := {
  i_chain : chain (lk s) (queue s ++ infl s) (length (log s));
  i_n0 : n0 <= ps s;
  i_pos_hw : ps s <= hw s;
  i_hw_len : hw s <= cfrm s;
  i_cfrm : cfrm s <= length (log s);
  i_dst : dst s = map (transform tags) (filter (passes af) (firstn (hw s - n0) (skipn n0 (log s))));
  i_wrk : wrk_ok s
}.

Lemma Inv_init pre c0 : n0 = length pre -> c0 = length pre -> Inv (init pre c0).
Proof.
  intros -> H. constructor; cbn; try lia; try reflexivity; try exact I.
  all: rewrite ?Nat.sub_diag; reflexivity.
Qed.

Ltac break1 :=
  match goal with
  | |- context [match ?x with _ => _ end] => destruct x eqn:?
  end.

Lemma alive_step_eq s l : alive (step af tags s l) = alive s && match l with LDelete => false | _ => true end.
Proof.
  destruct l; cbn [step]; unfold work_step, worker_done, on_write_event, refuse_step;
    repeat break1; cbn; repeat match goal with H : alive s = _ |- _ => rewrite H; clear H end;
    rewrite ?andb_true_r, ?andb_false_r; reflexivity.
Qed.

Lemma alive_step s l : alive (step af tags s l) = true -> alive s = true /\ l <> LDelete.
Proof.
  rewrite alive_step_eq. intros H. apply andb_true_iff in H as [H1 H2]. split; [exact H1|].
  intros ->. discriminate.
Qed.

Lemma alive_run s sched : alive (run af tags s sched) = true -> alive s = true.
Proof.
  revert s. induction sched as [|l tl IH]; intros s H; [exact H|].
  cbn in H. apply IH in H. apply alive_step in H. apply H.
Qed.

Ltac inv_intro H := destruct H as [Hch Hn0 Hph Hhl Hcf Hd Hw].

(* start_worker keeps positions *)
Lemma start_worker_spec d :
  (start_worker d = ({| p_pos := p_pos d; p_lkp := p_lkp d; p_chg := true |}, Some WStart) /\ p_chg d = false /\ p_pos d < p_lkp d)
  \/ (start_worker d = (d, None) /\ (p_chg d = true \/ p_lkp d <= p_pos d)).
Proof.
  unfold start_worker. destruct (p_chg d) eqn:E1; cbn [negb andb].
  - right. split; [reflexivity|left; reflexivity].
  - destruct (p_pos d <? p_lkp d) eqn:E2.
    + left. apply Nat.ltb_lt in E2. repeat split; try reflexivity; assumption.
    + right. apply Nat.ltb_ge in E2. split; [reflexivity|right; exact E2].
Qed.

Ltac simp := cbn -[Nat.ltb Nat.leb Nat.eqb Nat.sub skipn firstn filter map length app] in *.
Ltac unf := unfold wrk_ok, hw, ps, lk in *; simp.

Lemma Inv_write s e b : Inv s -> Inv (step af tags s (LWrite (e :: b))).
Proof.
  intros H. inv_intro H. destruct s as [L c T Q D W X A]. unf.
  assert (Hlen : length (L ++ e :: b) = length L + S (length b)) by (rewrite app_length; reflexivity).
  assert (Hn : n0 <= length L) by (destruct W as [[| cp | cp | cp | cp | | cp]|]; destruct D; lia).
  constructor; unf; try assumption; try (rewrite Hlen; lia).
  - rewrite app_assoc, Hlen. apply chain_snoc; [exact Hch|lia].
  - rewrite skipn_app_le by exact Hn. rewrite firstn_app_le; [exact Hd|]. rewrite skipn_length. lia.
Qed.

Lemma Inv_enq s : Inv s -> Inv (step af tags s (LEnq 0)).
Proof.
  intros H. inv_intro H. destruct s as [L c T Q D W X A]. unf.
  destruct T as [|we t]; simp; [constructor; unf; assumption|].
  constructor; unf; try assumption. rewrite <- app_assoc. exact Hch.
Qed.

Lemma Inv_flush s : Inv s -> Inv (step af tags s LFlush).
Proof.
  intros H. inv_intro H. destruct s as [L c T Q D W X A]. unf.
  constructor; unf; try assumption; destruct W as [[| cp | cp | cp | cp | | cp]|]; destruct D; lia.
Qed.

Lemma Inv_deliver s : alive s = true -> Inv s -> Inv (step af tags s LDeliver).
Proof.
  intros Ha H. inv_intro H. destruct s as [L c T Q D W X A]. unf. subst A.
  destruct Q as [|[a b] q]; simp; [constructor; unf; assumption|].
  destruct Hch as (Hal & Hab & Hch). unfold on_write_event. simp.
  destruct D as [d|].
  - (* known source *)
    set (d1 := {| p_pos := p_pos d; p_lkp := b; p_chg := p_chg d |}).
    destruct (start_worker_spec d1) as [(-> & Hc & Hlt)|(-> & Hor)]; simp.
    + destruct W as [ph|]; [destruct Hw as (d' & Hd' & Hc' & _); injection Hd' as <-; congruence|].
      constructor; unf; try assumption; try lia. eexists. repeat split.
    + constructor; unf; try assumption.
      destruct W as [ph|].
      * destruct Hw as (d' & Hd' & Hc' & Hp). injection Hd' as <-. exists d1. repeat split; assumption.
      * destruct Hw as (Hc' & _). destruct Hor as [Hor|Hor]; [congruence|]. split; assumption.
  - (* first notification of this source *)
    set (d1 := {| p_pos := a; p_lkp := b; p_chg := false |}).
    destruct W as [ph|]; [destruct Hw as (d' & Hd' & _); discriminate|].
    destruct (start_worker_spec d1) as [(-> & Hc & Hlt)|(-> & Hor)]; simp.
    + subst a. constructor; unf; try assumption; try lia. eexists. repeat split.
    + destruct Hor as [Hor|Hor]; [discriminate|]. lia.
Qed.

Lemma Inv_work s : alive s = true -> Inv s -> Inv (step af tags s LWork).
Proof.
  intros Ha H. inv_intro H. destruct s as [L c T Q D W X A]. unf. subst A. unfold work_step. simp.
  destruct W as [[| cp | cp | cp | cp | | cp]|]; [| | | | | | |constructor; unf; assumption].
  - (* WStart *)
    destruct Hw as (d & -> & Hc & _). simp. rewrite Nat.min_l by lia.
    constructor; unf; try assumption; try lia. exists d. repeat split; assumption.
  - (* WCopy *)
    destruct Hw as (d & -> & Hc & _). simp.
    destruct (cp <? c) eqn:El.
    + apply Nat.ltb_lt in El.
      destruct (nth_error L cp) as [e|] eqn:En.
      * assert (Hcl : cp < length L) by (apply nth_error_Some; congruence).
        assert (Hwin := firstn_window n0 cp L e ltac:(lia) En).
        destruct (passes af e) eqn:Ep; constructor; unf; try assumption; try lia.
        { rewrite Hwin, filter_app, map_app, Hd. cbn [filter]. rewrite Ep. reflexivity. }
        { exists d. repeat split; assumption. }
        { rewrite Hwin, filter_app, map_app, Hd. cbn [filter]. rewrite Ep. cbn [map]. rewrite app_nil_r. reflexivity. }
        { exists d. repeat split; assumption. }
      * constructor; unf; try assumption. exists d. repeat split; assumption.
    + constructor; unf; try assumption. exists d. repeat split; assumption.
  - (* WSave *)
    destruct Hw as (d & -> & Hc & _). simp.
    constructor; unf; try assumption; try lia. eexists. repeat split. exact Hc.
  - (* WCheck *)
    destruct Hw as (d & -> & Hc & Hp). simp.
    destruct (cp <? c); constructor; unf; try assumption; exists d; repeat split; assumption.
  - (* WWait *)
    destruct Hw as (d & -> & Hc & Hp). simp.
    destruct (cp <? c); constructor; unf; try assumption; exists d; repeat split; assumption.
  - (* WDone *)
    destruct Hw as (d & -> & Hc & _). unfold worker_done. simp.
    set (d1 := {| p_pos := p_pos d; p_lkp := p_lkp d; p_chg := false |}).
    destruct (start_worker_spec d1) as [(-> & _ & Hlt)|(-> & Hor)]; simp.
    + constructor; unf; try assumption. eexists. repeat split.
    + destruct Hor as [Hor|Hor]; [discriminate|].
      constructor; unf; try assumption. split; [reflexivity|exact Hor].
  - (* WRetry *)
    destruct Hw as (d & -> & Hc & _). simp.
    constructor; unf; try assumption. exists d. repeat split; assumption.
Qed.

Lemma Inv_timeout s : Inv s -> Inv (step af tags s LTimeout).
Proof.
  intros H. inv_intro H. destruct s as [L c T Q D W X A]. unf.
  destruct W as [[| cp | cp | cp | cp | | cp]|]; try (constructor; unf; assumption).
  destruct Hw as (d & -> & Hc & Hp). simp. subst cp.
  constructor; unf; try assumption; try lia. exists d. repeat split; assumption.
Qed.

Lemma Inv_restart s : Inv s -> Inv (step af tags s LRestart).
Proof.
  intros H. cbn [step]. destruct (quiescent s && alive s) eqn:Eqa; [|exact H].
  apply andb_true_iff in Eqa as [Hq _]. unfold quiescent in Hq.
  inv_intro H. destruct s as [L c T Q D W X A]. unf.
  destruct T; [|discriminate]. destruct Q; [|discriminate].
  apply andb_true_iff in Hq as [Hcl Hq]. apply Nat.eqb_eq in Hcl. simp. cbn [app chain] in Hch.
  destruct D as [d|].
  - destruct W as [[| cp | cp | cp | cp | | cp]|]; try discriminate.
    + apply Nat.leb_le in Hq. destruct Hw as (d' & Hd' & Hc & Hp). injection Hd' as <-.
      constructor; unf; try assumption; try lia; try (rewrite Hp; exact Hd); try (split; [reflexivity|lia]).
    + destruct Hw as (Hc & Hle). constructor; unf; try assumption; try lia.
  - destruct W as [ph|]; [destruct Hw as (d' & Hd' & _); discriminate|].
    constructor; unf; try assumption; try lia.
Qed.

(* a refused destination write keeps the invariant: the records before cp are stored, the worker will hand cp over
   again; saving cp meanwhile (save = true) moves Pos up to the high-water mark *)
Lemma Inv_refuse s save : Inv s -> Inv (step af tags s (LRefuse save)).
Proof.
  intros H. cbn [step]. unfold refuse_step.
  destruct (wrk s) as [[| cp | cp | cp | cp | | cp]|] eqn:Ew; try exact H.
  destruct (cp <? cfrm s) eqn:El; [|exact H].
  destruct (nth_error (log s) cp) as [e|] eqn:En; [|exact H].
  destruct (passes af e); [|exact H].
  inv_intro H. destruct s as [L c T Q D W X A]. unf. subst W.
  destruct Hw as (d & -> & Hc & _). simp.
  destruct save; constructor; unf; try assumption; try lia; eexists; repeat split; assumption.
Qed.

Lemma Inv_step s l : alive s = true -> l <> LDelete -> enq_in_order l -> notifies l -> Inv s -> Inv (step af tags s l).
Proof.
  intros Ha Hnd Hord Hnt H. destruct l.
  - destruct batch as [|e b]; [exact H|]. apply Inv_write. exact H.
  - cbn in Hord. subst i. apply Inv_enq. exact H.
  - apply Inv_flush. exact H.
  - apply Inv_deliver; assumption.
  - apply Inv_work; assumption.
  - apply Inv_timeout. exact H.
  - congruence.
  - apply Inv_restart. exact H.
  - apply Inv_refuse. exact H.
  - destruct Hnt.
Qed.

Lemma Inv_run s sched : alive (run af tags s sched) = true -> Forall enq_in_order sched -> Forall notifies sched ->
  Inv s -> Inv (run af tags s sched).
Proof.
  revert s. induction sched as [|l tl IH]; intros s Ha Hord Hnt H; [exact H|].
  cbn in *. inversion Hord as [|? ? Hl Htl]; subst. inversion Hnt as [|? ? Hn Hntl]; subst.
  pose proof (alive_run _ _ Ha) as Ha1. destruct (alive_step _ _ Ha1) as [Ha0 Hnd].
  apply IH; [exact Ha|exact Htl|exact Hntl|]. apply Inv_step; assumption.
Qed.

(* at quiescence the copy has reached the end of the source *)
Lemma quiescent_complete s : Inv s -> quiescent s = true ->
  dst s = map (transform tags) (filter (passes af) (skipn n0 (log s))).
Proof.
  intros H Hq. unfold quiescent in Hq.
  destruct (infl s) eqn:Ei; [|discriminate]. destruct (queue s) eqn:Eq; [|discriminate].
  apply andb_true_iff in Hq as [Hcl Hq]. apply Nat.eqb_eq in Hcl.
  inv_intro H. rewrite Ei, Eq in Hch. cbn in Hch. unfold wrk_ok, hw, ps, lk in *.
  assert (Hhw : hw s = length (log s)).
  { unfold hw, ps. destruct (wrk s) as [[| cp | cp | cp | cp | | cp]|] eqn:Ew; try discriminate.
    - apply Nat.leb_le in Hq. lia.
    - destruct (desc s) as [d|]; [destruct Hw as (_ & Hle); lia|lia]. }
  unfold hw, ps in Hhw. rewrite Hd. f_equal. f_equal.
  apply firstn_all2. rewrite skipn_length. lia.
Qed.

(* the events written after creation all satisfy F *)
Definition keep_inv (s : st) : Prop := forallb e_keep (skipn n0 (log s)) = true.

Lemma log_step s l : log (step af tags s l) = match l with LWrite b => log s ++ b | _ => log s end.
Proof.
  destruct l; cbn [step]; unfold work_step, worker_done, on_write_event, refuse_step; repeat break1; cbn; rewrite ?app_nil_r; reflexivity.
Qed.

Lemma keep_step s l : n0 <= length (log s) -> write_all_keep l -> keep_inv s -> keep_inv (step af tags s l).
Proof.
  unfold keep_inv. intros Hn Hk H. rewrite log_step. destruct l; try exact H.
  rewrite skipn_app_le by exact Hn. rewrite forallb_app, H. exact Hk.
Qed.

Lemma log_len_step s l : length (log s) <= length (log (step af tags s l)).
Proof. rewrite log_step. destruct l; rewrite ?app_length; lia. Qed.

Lemma keep_run s sched : n0 <= length (log s) -> Forall write_all_keep sched -> keep_inv s -> keep_inv (run af tags s sched).
Proof.
  revert s. induction sched as [|l tl IH]; intros s Hn Hk H; [exact H|].
  cbn. inversion Hk; subst. apply IH; [|assumption|apply keep_step; assumption].
  pose proof (log_len_step s l). lia.
Qed.

End WithTags.

(* ---------- the exactness theorem in its partial form ---------- *)
Theorem exact_partial af tags pre c0 sched :
  c0 = length pre ->
  (af = true \/ Forall write_all_keep sched) ->
  Forall enq_in_order sched -> Forall notifies sched ->
  let s := run af tags (init pre c0) sched in
  alive s = true -> quiescent s = true ->
  dst s = expected tags (length pre) (log s).
Proof.
  intros Hc Hf Hord Hnt s Ha Hq. unfold expected.
  assert (HI : Inv tags af (length pre) s).
  { apply Inv_run; [exact Ha|exact Hord|exact Hnt|]. apply Inv_init; [reflexivity|exact Hc]. }
  rewrite (quiescent_complete tags af (length pre) s HI Hq).
  f_equal. destruct Hf as [->|Hk].
  - reflexivity.
  - destruct af; [reflexivity|]. cbn [passes].
    assert (HK : keep_inv (length pre) s).
    { apply keep_run; [cbn; lia|exact Hk|]. unfold keep_inv. cbn. rewrite skipn_all. reflexivity. }
    unfold keep_inv in HK. rewrite filter_true, (filter_all _ _ HK). reflexivity.
Qed.

(* ---------- deletion ---------- *)
Definition copying (s : st) : bool := match wrk s with Some (WCopy _) => true | _ => false end.

Ltac break2 :=
  match goal with
  | |- context [match ?x with _ => _ end] => destruct x eqn:?
  end.

Lemma dead_step af tags s l : alive s = false -> copying s = false ->
  let s' := step af tags s l in alive s' = false /\ copying s' = false /\ dst s' = dst s.
Proof.
  intros Ha Hc. destruct s as [L c T Q D W X A]. unfold copying in *. cbn in Ha, Hc. subst A.
  destruct l; cbn [step]; unfold work_step, worker_done, on_write_event, refuse_step, start_worker, quiescent; cbn;
    repeat (break2; cbn); cbn in *; try discriminate; repeat split; try reflexivity; try assumption.
  all: match goal with H : (if ?x then _ else _) = _ |- _ => destruct x; discriminate end.
Qed.

Lemma dead_run af tags s sched : alive s = false -> copying s = false -> dst (run af tags s sched) = dst s.
Proof.
  revert s. induction sched as [|l tl IH]; intros s Ha Hc; [reflexivity|].
  cbn. destruct (dead_step af tags s l Ha Hc) as (H1 & H2 & H3). rewrite IH; assumption.
Qed.

(* while the batch being copied at the moment of deletion is completed, the destination only grows by
   events of the source (no duplicates: positions strictly increase) -- stated as: dst is extended *)
Lemma dst_prefix_step af tags s l : exists x, dst (step af tags s l) = dst s ++ x.
Proof.
  destruct l; cbn [step]; try (exists []; rewrite app_nil_r; reflexivity).
  - destruct batch; exists []; rewrite app_nil_r; reflexivity.
  - destruct (nth_error (infl s) i); exists []; rewrite app_nil_r; reflexivity.
  - destruct (queue s) as [|[a b] q]; [exists []; rewrite app_nil_r; reflexivity|].
    destruct (alive s); [|exists []; rewrite app_nil_r; reflexivity].
    unfold on_write_event. destruct (start_worker _). exists []; rewrite app_nil_r; reflexivity.
  - unfold work_step. destruct (wrk s) as [[| cp | cp | cp | cp | | cp]|]; try (exists []; rewrite app_nil_r; reflexivity).
    + destruct (desc s); [destruct (alive s)|]; exists []; rewrite app_nil_r; reflexivity.
    + destruct (cp <? cfrm s); [|exists []; rewrite app_nil_r; reflexivity].
      destruct (nth_error (log s) cp) as [e|]; [|exists []; rewrite app_nil_r; reflexivity].
      destruct (passes af e); [exists [transform tags e]; reflexivity|exists []; rewrite app_nil_r; reflexivity].
    + destruct (desc s); exists []; rewrite app_nil_r; reflexivity.
    + destruct (alive s); [destruct (cp <? cfrm s)|]; exists []; rewrite app_nil_r; reflexivity.
    + destruct (alive s); [destruct (cp <? cfrm s)|]; exists []; rewrite app_nil_r; reflexivity.
    + unfold worker_done. destruct (desc s); [destruct (alive s); [destruct (start_worker _)|]|]; exists []; rewrite app_nil_r; reflexivity.
    + destruct (alive s); exists []; rewrite app_nil_r; reflexivity.
  - destruct (wrk s) as [[| cp | cp | cp | cp | | cp]|]; exists []; rewrite app_nil_r; reflexivity.
  - destruct (quiescent s && alive s); exists []; rewrite app_nil_r; reflexivity.
  - unfold refuse_step. repeat break2; exists []; rewrite app_nil_r; reflexivity.
Qed.

(* ---------- re-arm (used by C11): an idle descriptor is never behind its last notification ---------- *)
Definition ends_ok (s : st) : Prop := Forall (fun we : nat * nat => snd we <= length (log s)) (queue s ++ infl s).
Definition lkp_ok (s : st) : Prop := match desc s with Some d => p_lkp d <= length (log s) | None => True end.

Record rearm_ok (s : st) : Prop := { r_wrk : wrk_ok s; r_lkp : lkp_ok s; r_ends : ends_ok s }.

Ltac simp2 := cbn -[Nat.ltb Nat.leb Nat.eqb Nat.sub skipn firstn filter map length app] in *.
Ltac unf2 := unfold wrk_ok, lkp_ok, ends_ok in *; simp2.

Lemma In_remove_nth {A} (i : nat) (l : list A) x : In x (remove_nth i l) -> In x l.
Proof.
  revert i. induction l as [|y t IH]; intros i Hx; [destruct i; destruct Hx|].
  destruct i; cbn in Hx; [right; exact Hx|]. destruct Hx as [<-|Hx]; [left; reflexivity|right; eapply IH; exact Hx].
Qed.

(* for a live pipe; a deleted pipe's finishing worker starts no successor (startWorker: !pp.deleted), so its idle
   descriptor may stay behind LastKnwnPos *)
Lemma rearm_step af tags s l : alive s = true -> rearm_ok s -> rearm_ok (step af tags s l).
Proof.
  intros Halive [Hw Hl He]. destruct s as [L c T Q D W X A]. unf2. subst A. destruct l; simp2.
  - (* LWrite *)
    destruct batch as [|e b]; simp2; [constructor; unf2; assumption|].
    assert (Hlen : length (L ++ e :: b) = length L + S (length b)) by (rewrite app_length; reflexivity).
    constructor; unf2; try assumption.
    + destruct D; [lia|exact I].
    + rewrite app_assoc. apply Forall_app. split.
      * eapply Forall_impl; [|exact He]. cbn. intros a Ha. lia.
      * constructor; [|constructor]. cbn. lia.
  - (* LEnq *)
    destruct (nth_error T i) as [we|] eqn:En; simp2; [|constructor; unf2; assumption].
    constructor; unf2; try assumption.
    apply Forall_app in He as [Hea Heb]. rewrite <- app_assoc. apply Forall_app. split; [exact Hea|].
    apply Forall_forall. intros x Hx. rewrite Forall_forall in Heb. apply Heb.
    cbn in Hx. destruct Hx as [<-|Hx]; [eapply nth_error_In; exact En|eapply In_remove_nth; exact Hx].
  - (* LFlush *)
    constructor; unf2; assumption.
  - (* LDeliver *)
    destruct Q as [|[a b] q]; simp2; [constructor; unf2; assumption|].
    inversion He as [|? ? Hb He']; subst. cbn in Hb.
    unfold on_write_event. simp2.
    destruct D as [d|].
    + set (d1 := {| p_pos := p_pos d; p_lkp := b; p_chg := p_chg d |}).
      destruct (start_worker_spec d1) as [(-> & Hc & Hlt)|(-> & Hor)]; simp2.
      * destruct W as [ph|]; [destruct Hw as (d' & Hd' & Hc' & _); injection Hd' as <-; congruence|].
        constructor; unf2; try assumption. eexists. repeat split.
      * constructor; unf2; try assumption.
        destruct W as [ph|].
        { destruct Hw as (d' & Hd' & Hc' & Hp). injection Hd' as <-. exists d1. repeat split; assumption. }
        { destruct Hw as (Hc' & _). destruct Hor as [Hor|Hor]; [congruence|]. split; assumption. }
    + set (d1 := {| p_pos := a; p_lkp := b; p_chg := false |}).
      destruct W as [ph|]; [destruct Hw as (d' & Hd' & _); discriminate|].
      destruct (start_worker_spec d1) as [(-> & Hc & Hlt)|(-> & Hor)]; simp2.
      * constructor; unf2; try assumption. eexists. repeat split.
      * destruct Hor as [Hor|Hor]; [discriminate|]. constructor; unf2; try assumption. split; [reflexivity|exact Hor].
  - (* LWork *)
    unfold work_step. simp2.
    destruct W as [[| cp | cp | cp | cp | | cp]|]; [| | | | | | |constructor; unf2; assumption].
    + destruct Hw as (d & -> & Hc & _). simp2.
      constructor; unf2; try assumption; exists d; repeat split; assumption.
    + destruct Hw as (d & -> & Hc & _). simp2.
      destruct (cp <? c); [destruct (nth_error L cp) as [e|]; [destruct (passes af e)|]|];
        constructor; unf2; try assumption; exists d; repeat split; assumption.
    + destruct Hw as (d & -> & Hc & _). simp2.
      constructor; unf2; try assumption. eexists. repeat split. exact Hc.
    + destruct Hw as (d & -> & Hc & Hp). simp2.
      destruct (cp <? c); constructor; unf2; try assumption; exists d; repeat split; assumption.
    + destruct Hw as (d & -> & Hc & Hp). simp2.
      destruct (cp <? c); constructor; unf2; try assumption; exists d; repeat split; assumption.
    + destruct Hw as (d & -> & Hc & _). unfold worker_done. simp2.
      set (d1 := {| p_pos := p_pos d; p_lkp := p_lkp d; p_chg := false |}).
      destruct (start_worker_spec d1) as [(-> & _ & Hlt)|(-> & Hor)]; simp2.
      * constructor; unf2; try assumption. eexists. repeat split.
      * destruct Hor as [Hor|Hor]; [discriminate|].
        constructor; unf2; try assumption. split; [reflexivity|exact Hor].
    + destruct Hw as (d & -> & Hc & _). simp2.
      constructor; unf2; try assumption; exists d; repeat split; assumption.
  - (* LTimeout *)
    destruct W as [[| cp | cp | cp | cp | | cp]|]; try (constructor; unf2; assumption).
    destruct Hw as (d & -> & Hc & Hp). simp2.
    constructor; unf2; try assumption. exists d. repeat split; assumption.
  - (* LDelete *)
    constructor; unf2; assumption.
  - (* LRestart *)
    destruct (quiescent _ && true) eqn:Eqa; [|constructor; unf2; assumption].
    apply andb_true_iff in Eqa as [Hq _]. unfold quiescent in Hq. simp2.
    destruct T; [|discriminate]. destruct Q; [|discriminate].
    apply andb_true_iff in Hq as [Hcl Hq]. apply Nat.eqb_eq in Hcl.
    destruct D as [d|].
    + destruct W as [[| cp | cp | cp | cp | | cp]|]; try discriminate.
      * apply Nat.leb_le in Hq. destruct Hw as (d' & Hd' & Hc & Hp). injection Hd' as <-.
        constructor; unf2; try assumption. split; [reflexivity|lia].
      * destruct Hw as (Hc & Hle). constructor; unf2; try assumption. split; [reflexivity|exact Hle].
    + destruct W as [ph|]; [destruct Hw as (d' & Hd' & _); discriminate|].
      constructor; unf2; assumption.
  - (* LRefuse *)
    unfold refuse_step. simp2.
    destruct W as [[| cp | cp | cp | cp | | cp]|]; try (constructor; unf2; assumption).
    destruct (cp <? c); [|constructor; unf2; assumption].
    destruct (nth_error L cp) as [e|]; [|constructor; unf2; assumption].
    destruct (passes af e); [|constructor; unf2; assumption].
    destruct Hw as (d & -> & Hc & _). simp2.
    destruct save; constructor; unf2; try assumption; eexists; repeat split; assumption.
  - (* LDropEnq *)
    constructor; unf2; try assumption.
    apply Forall_app in He as [Hea Heb]. apply Forall_app. split; [exact Hea|].
    apply Forall_forall. intros x Hx. rewrite Forall_forall in Heb. apply Heb. eapply In_remove_nth; exact Hx.
Qed.

Lemma rearm_init pre c0 : rearm_ok (init pre c0).
Proof. constructor; unfold wrk_ok, lkp_ok, ends_ok; cbn; try exact I. constructor. Qed.

Lemma rearm_run af tags s sched : alive (run af tags s sched) = true -> rearm_ok s -> rearm_ok (run af tags s sched).
Proof.
  revert s. induction sched as [|l tl IH]; intros s Ha H; [exact H|]. cbn in *. apply IH; [exact Ha|].
  apply rearm_step; [|exact H].
  pose proof (alive_run tags af _ _ Ha) as Ha1. destruct (alive_step tags af _ _ Ha1) as [Ha0 _]. exact Ha0.
Qed.

(* ---------- many sources: the product run projects to single-source runs ---------- *)
Lemma pstep_nth af : forall tagss ss i l j ds dt, length tagss = length ss ->
  nth j (pstep af tagss ss i l) ds = if (j =? i) && (j <? length ss) then step af (nth j tagss dt) (nth j ss ds) l else nth j ss ds.
Proof.
  induction tagss as [|tg ttl IH]; intros ss i l j ds dt Hlen; destruct ss as [|s tl]; cbn in Hlen; try discriminate.
  - cbn. rewrite andb_false_r. reflexivity.
  - destruct i, j; cbn [pstep nth Nat.eqb]; try reflexivity.
    cbn [length]. rewrite (IH tl i l j ds dt) by lia. reflexivity.
Qed.

Lemma pstep_length af : forall tagss ss i l, length (pstep af tagss ss i l) = length ss.
Proof.
  induction tagss as [|tg ttl IH]; intros ss i l; destruct ss as [|s tl]; cbn; try reflexivity.
  destruct i; cbn; [reflexivity|]. rewrite IH. reflexivity.
Qed.

Lemma prun_nth af tagss : forall sched ss j ds dt, length tagss = length ss -> j < length ss ->
  nth j (prun af tagss ss sched) ds = run af (nth j tagss dt) (nth j ss ds) (proj j sched).
Proof.
  induction sched as [|[i l] tl IH]; intros ss j ds dt Hlen Hj; [reflexivity|].
  cbn [prun proj]. rewrite (IH (pstep af tagss ss i l) j ds dt) by (rewrite pstep_length; assumption).
  rewrite (pstep_nth af tagss ss i l j ds dt Hlen).
  assert (Hjl : (j <? length ss) = true) by (apply Nat.ltb_lt; exact Hj). rewrite Hjl, andb_true_r.
  rewrite Nat.eqb_sym. destruct (i =? j); reflexivity.
Qed.

(* ---------- DELETE PIPE + CREATE PIPE under the same name: a new epoch with fresh positions ---------- *)
Lemma recreate_quiescent s : quiescent s = true -> recreate s = init (log s) (length (log s)).
Proof.
  unfold quiescent, recreate, recreate_v, code_state_survives_delete, init. destruct (infl s); [|discriminate]. destruct (queue s); [|discriminate].
  intros H. apply andb_true_iff in H. destruct H as [H _]. apply Nat.eqb_eq in H. rewrite H. reflexivity.
Qed.

Theorem recreate_exact af tags s1 sched :
  quiescent s1 = true ->
  (af = true \/ Forall write_all_keep sched) -> Forall enq_in_order sched -> Forall notifies sched ->
  let s := run af tags (recreate s1) sched in
  alive s = true -> quiescent s = true -> dst s = expected tags (length (log s1)) (log s).
Proof.
  intros Hq Hf Ho Hn. rewrite (recreate_quiescent s1 Hq).
  exact (exact_partial af tags (log s1) _ sched eq_refl Hf Ho Hn).
Qed.

(* ---------- the destination is write-only for the protocol: a prefix in front of it is carried along ---------- *)
Lemma step_add_dst af tags d0 s l : step af tags (add_dst d0 s) l = add_dst d0 (step af tags s l).
Proof.
  destruct s as [L c T Q D W X A]. unfold add_dst.
  destruct l; cbn [step]; unfold work_step, worker_done, on_write_event, refuse_step, start_worker, quiescent, upd_dst; cbn;
    repeat (break2; cbn); rewrite ?app_assoc; reflexivity.
Qed.

Lemma run_add_dst af tags d0 s sched : run af tags (add_dst d0 s) sched = add_dst d0 (run af tags s sched).
Proof.
  revert s. induction sched as [|l tl IH]; intros s; [reflexivity|].
  cbn [run]. rewrite step_add_dst. apply IH.
Qed.

(* ---------- the source partition deleted and created again: exactness continues behind what was copied ---------- *)
Theorem drop_source_exact af tags s1 sched :
  alive s1 = true ->
  (af = true \/ Forall write_all_keep sched) -> Forall enq_in_order sched -> Forall notifies sched ->
  let s := run af tags (drop_source s1) sched in
  alive s = true -> quiescent s = true -> dst s = dst s1 ++ expected tags 0 (log s).
Proof.
  intros Ha1 Hf Ho Hn.
  assert (E : drop_source s1 = add_dst (dst s1) (init [] 0)).
  { unfold drop_source, add_dst, init, upd_dst. cbn. rewrite Ha1, app_nil_r. reflexivity. }
  rewrite E, run_add_dst. cbn zeta. unfold add_dst, upd_dst. cbn [alive quiescent dst log infl queue cfrm wrk].
  intros Ha Hq. f_equal.
  exact (exact_partial af tags [] 0 sched eq_refl Hf Ho Hn Ha Hq).
Qed.

(* ---------- a destination that refuses record cp every time: the worker stays at cp, nothing more is copied ---------- *)
Lemma refuse_cycle af tags s cp e :
  alive s = true -> wrk s = Some (WCopy cp) -> (cp <? cfrm s) = true -> nth_error (log s) cp = Some e -> passes af e = true ->
  desc s <> None ->
  step af tags (step af tags s (LRefuse false)) LWork = s.
Proof.
  intros Ha Hw Hl Hn Hp Hd. destruct s as [L c T Q D W X A]. cbn in *. subst A W.
  unfold refuse_step. cbn. rewrite Hl, Hn, Hp. destruct D as [d|]; [|congruence].
  cbn. unfold work_step. cbn. reflexivity.
Qed.

Theorem refused_forever af tags s cp e n :
  alive s = true -> wrk s = Some (WCopy cp) -> (cp <? cfrm s) = true -> nth_error (log s) cp = Some e -> passes af e = true ->
  desc s <> None ->
  run af tags s (concat (repeat [LRefuse false; LWork] n)) = s.
Proof.
  intros Ha Hw Hl Hn Hp Hd. induction n as [|n IH]; [reflexivity|].
  cbn [repeat concat app run]. rewrite (refuse_cycle af tags s cp e) by assumption. exact IH.
Qed.

(* ---------- a deleted pipe stays deleted across a clean restart when the registry was saved without it ---------- *)
Theorem deleted_stays_deleted af tags s sched :
  alive s = false -> dst (run af tags (restart_after_delete true s) sched) = dst s.
Proof.
  intros Ha. unfold restart_after_delete. rewrite Ha.
  rewrite dead_run; reflexivity.
Qed.
