(* Lemmas about model/Persist.v *)
From LR Require Import lib.Base model.Persist.
From Coq Require Import Sorting.Sorted.
Open Scope Z_scope.

Lemma mem_nat_In p l : mem_nat p l = true <-> In p l.
Proof.
  unfold mem_nat. rewrite existsb_exists. split.
  - intros [x [H E]]. apply Nat.eqb_eq in E. subst. exact H.
  - intros H. exists p. split; [exact H|apply Nat.eqb_refl].
Qed.

Lemma forallb_mem l m : (forall p, In p l -> In p m) -> forallb (fun j => mem_nat j m) l = true.
Proof. intros H. apply forallb_forall. intros x Hx. apply mem_nat_In. apply H. exact Hx. Qed.

(* ---------- the tag index file ---------- *)
Lemma with_data_set_tindex d a b : with_data (set_tindex d a b) = with_data d.
Proof. reflexivity. Qed.

Lemma tindex_init_whole d m : d_tdat d = Some (Whole m) -> (forall p, In p (with_data d) -> In p m) -> tindex_init d = Some m.
Proof. intros H J. unfold tindex_init. rewrite H. cbn [decode]. rewrite forallb_mem by exact J. reflexivity. Qed.

Lemma tapply_jrnl e d : d_jrnl (tapply e d) = d_jrnl d.
Proof. destruct e as [|c|c]; cbn; try reflexivity. destruct c; reflexivity. Qed.

Lemma tsave_jrnl fx d m : d_jrnl (tsave fx d m) = d_jrnl d.
Proof.
  unfold tsave. generalize (tsave_effs fx d m). intros l. revert d.
  induction l as [|e l IH]; intros d; [reflexivity|]. cbn [fold_left]. rewrite IH. apply tapply_jrnl.
Qed.

Lemma tsave_tdat fx d m : d_tdat (tsave fx d m) = Some (Whole m).
Proof.
  unfold tsave, tsave_effs. destruct (fx_atomic fx); [reflexivity|]. destruct (d_tdat d); reflexivity.
Qed.

Lemma tsave_other fx d m : d_cdat (tsave fx d m) = d_cdat d /\ d_pdat (tsave fx d m) = d_pdat d /\ d_next (tsave fx d m) = d_next d.
Proof.
  unfold tsave, tsave_effs. destruct (fx_atomic fx); [repeat split|]. destruct (d_tdat d); repeat split.
Qed.

(* the atomic saver: every crash point leaves the old or the new index *)
Lemma crash_atomic d m d' : crash_at d [TWriteTmpRename (Whole m)] d' -> d' = d \/ d' = set_tindex d (Some (Whole m)) (d_tbak d).
Proof.
  intros H. inversion H as [| ? ? ? ? H1 | |]; subst.
  - left. reflexivity.
  - inversion H1; subst. right. reflexivity.
  - left. reflexivity.
Qed.

Definition tindex_crash_statement (fx : fixes) : Prop :=
  forall d m_old m_new d',
    d_tdat d = Some (Whole m_old) ->
    (forall p, In p (with_data d) -> In p m_old /\ In p m_new) ->
    crash_at d (tsave_effs fx d m_new) d' ->
    tindex_init d' = Some m_old \/ tindex_init d' = Some m_new.

Lemma tindex_crash_atomic fx : fx_atomic fx = true -> tindex_crash_statement fx.
Proof.
  intros F d mo mn d' Hd J C. unfold tsave_effs in C. rewrite F in C.
  destruct (crash_atomic _ _ _ C) as [-> | ->].
  - left. apply tindex_init_whole; [exact Hd|]. intros p Hp. apply (J p Hp).
  - right. apply tindex_init_whole; [reflexivity|]. intros p Hp. apply (J p Hp).
Qed.

(* ---------- a crash between savers ---------- *)
Lemma lookup_filter_has_data p j : NoDup (map fst j) ->
  match lookup p (filter has_data j) with Some (_, evs) => evs | None => [] end =
  match lookup p j with Some (_, evs) => evs | None => [] end.
Proof.
  induction j as [|[q [c evs]] j IH]; intros ND; [reflexivity|]. cbn [map fst] in ND. inversion ND as [|? ? Hq ND']. subst.
  cbn [filter]. unfold has_data at 1. cbn [snd].
  destruct evs as [|e evs].
  - cbn [lookup]. destruct (Nat.eqb q p) eqn:E.
    + apply Nat.eqb_eq in E. subst q. rewrite (IH ND').
      assert (lookup p j = None) as ->; [|reflexivity].
      clear -Hq. induction j as [|[r v] j IH]; [reflexivity|]. cbn [lookup]. destruct (Nat.eqb r p) eqn:E.
      * apply Nat.eqb_eq in E. subst. exfalso. apply Hq. left. reflexivity.
      * apply IH. intros H. apply Hq. right. exact H.
    + apply IH. exact ND'.
  - cbn [lookup]. destruct (Nat.eqb q p); [reflexivity|apply IH; exact ND'].
Qed.

Lemma events_of_filter p j : NoDup (map fst j) -> events_of p (filter has_data j) = events_of p j.
Proof. intros ND. unfold events_of. apply lookup_filter_has_data. exact ND. Qed.

Lemma with_data_filter j a b c e n g : with_data (mkDisk a b c e (filter has_data j) n g) = with_data (mkDisk a b c e j n g).
Proof.
  unfold with_data. cbn [d_jrnl]. f_equal. induction j as [|x j IH]; [reflexivity|]. cbn [filter].
  destruct (has_data x) eqn:E; cbn [filter]; rewrite ?E, IH; reflexivity.
Qed.

Lemma prog_init_ignores fx d : fx_prog fx = true -> exists l, prog_init fx d = Some l.
Proof.
  intros F. unfold prog_init, prog_fold. induction (d_prog d) as [|[t c] l IH]; cbn [fold_right]; [eexists; reflexivity|].
  destruct IH as [l0 ->]. cbn [snd fst]. destruct c; [eexists; reflexivity|]. rewrite F. eexists; reflexivity.
Qed.

(* start on a directory whose tag index and pipes file are whole *)
Lemma start_whole fx d parts pipes : fx_prog fx = true -> d_tdat d = Some (Whole parts) -> (forall p, In p (with_data d) -> In p parts) ->
  pipes_init d = Some pipes -> keys_nodup d ->
  exists m' d', start fx d = Some (m', d') /\ m_parts m' = parts /\ m_pipes m' = pipes /\ m_buf m' = [] /\
                (forall p, events_of p (d_jrnl d') = events_of p (d_jrnl d)) /\ d_tdat d' = Some (Whole parts).
Proof.
  intros Fg Ht J Hp ND. unfold start. destruct (prog_init_ignores fx d Fg) as [prog ->]. rewrite (tindex_init_whole d parts Ht J), Hp.
  eexists. eexists. split; [reflexivity|]. cbn [m_parts m_pipes m_buf]. repeat split.
  - intros p. rewrite tsave_jrnl. cbn [d_jrnl]. apply events_of_filter. exact ND.
  - apply tsave_tdat.
Qed.

(* ---------- graceful stop, then start ---------- *)
Definition clean_statement (fx : fixes) : Prop :=
  forall m d, consistent m d -> keys_nodup d ->
  exists m' d', start fx (graceful fx m d) = Some (m', d') /\
                m_parts m' = m_parts m /\ m_pipes m' = m_pipes m /\
                (forall p, events_of p (d_jrnl d') = acked m d p).

Lemma flush_all_nobuf m d : m_buf m = [] -> d_jrnl (snd (flush_all m d)) = d_jrnl d.
Proof. intros H. unfold flush_all. rewrite H. reflexivity. Qed.

Lemma clean_quiescent fx m d : fx_prog fx = true -> consistent m d -> keys_nodup d -> m_buf m = [] ->
  exists m' d', start fx (graceful fx m d) = Some (m', d') /\
                m_parts m' = m_parts m /\ m_pipes m' = m_pipes m /\
                (forall p, events_of p (d_jrnl d') = acked m d p).
Proof.
  intros Fg (Ht & Hj & _) ND Hb.
  assert (G : exists c, graceful fx m d = mkDisk (d_tdat d) (d_tbak d) (Some (Whole c)) (Some (Whole (m_pipes m))) (d_jrnl d) (d_next d) (clobber_twin fx (d_prog d))).
  { unfold graceful. destruct (fx_sync fx).
    - unfold flush_all. rewrite Hb. cbn. eexists. reflexivity.
    - eexists. reflexivity. }
  destruct G as [c G]. rewrite G.
  destruct (start_whole fx (mkDisk (d_tdat d) (d_tbak d) (Some (Whole c)) (Some (Whole (m_pipes m))) (d_jrnl d) (d_next d) (clobber_twin fx (d_prog d)))
                        (m_parts m) (m_pipes m) Fg Ht Hj eq_refl ND) as (m' & d' & S & P1 & P2 & _ & E & _).
  exists m', d'. split; [exact S|]. split; [exact P1|]. split; [exact P2|].
  intros p. rewrite E. unfold acked. cbn [d_jrnl]. rewrite Hb. cbn. rewrite app_nil_r. reflexivity.
Qed.

(* ---------- SIGKILL between two saver effects ---------- *)
Lemma kill_then_start fx m d pipes : fx_prog fx = true -> consistent m d -> keys_nodup d -> pipes_init d = Some pipes ->
  exists m' d', start fx (killed m d) = Some (m', d') /\ m_parts m' = m_parts m /\ m_pipes m' = pipes /\
                (forall p, events_of p (d_jrnl d') = events_of p (d_jrnl d)).
Proof.
  intros Fg (Ht & Hj & _) ND Hp. unfold killed.
  destruct (start_whole fx d (m_parts m) pipes Fg Ht Hj Hp ND) as (m' & d' & S & P1 & P2 & _ & E & _).
  exists m', d'. repeat split; assumption.
Qed.

(* ---------- pipe definitions ---------- *)
Definition pipes_crash_statement (fx : fixes) : Prop :=
  forall m d steps, d_pdat d = Some (Whole (m_pipes m)) ->
  let md := run_steps fx (m, d) steps in
  pipes_init (killed (fst md) (snd md)) = Some (m_pipes (fst md)).

Lemma drop_disk fx d p parts :
  let d' := fold_left (fun d e => dapply fx e d) (drop_effs fx p parts) d in
  d_tdat d' = Some (Whole parts) /\ d_jrnl d' = remove_key p (d_jrnl d) /\ d_pdat d' = d_pdat d /\ d_cdat d' = d_cdat d.
Proof.
  unfold drop_effs. destruct (fx_drop fx); cbn [fold_left dapply].
  - split; [apply tsave_tdat|]. split; [rewrite tsave_jrnl; reflexivity|].
    destruct (tsave_other fx (mkDisk (d_tdat d) (d_tbak d) (d_cdat d) (d_pdat d) (remove_key p (d_jrnl d)) (d_next d) (d_prog d)) parts) as (A & B & _).
    split; [exact B|exact A].
  - cbn [d_tdat d_jrnl d_pdat d_cdat]. split; [apply tsave_tdat|]. split; [rewrite tsave_jrnl; reflexivity|].
    destruct (tsave_other fx d parts) as (A & B & _). split; [exact B|exact A].
Qed.

Lemma do_write_pdat fx m d p ts : d_pdat d = Some (Whole (m_pipes m)) ->
  d_pdat (snd (do_write fx m d p ts)) = Some (Whole (m_pipes (fst (do_write fx m d p ts)))).
Proof.
  intros H. unfold do_write.
  destruct (negb (mem_nat p (m_parts m))); destruct (lookup p (m_cur m)); cbn [fst snd m_pipes d_pdat];
    rewrite ?(proj1 (proj2 (tsave_other fx d _))); exact H.
Qed.

Lemma do_step_pdat fx m d s : fx_pipes fx = true -> fx_reg fx = true -> d_pdat d = Some (Whole (m_pipes m)) ->
  d_pdat (snd (do_step fx (m, d) s)) = Some (Whole (m_pipes (fst (do_step fx (m, d) s)))).
Proof.
  intros F Fr H. destruct s as [p ts| |n|n|p|n s t|p ts]; cbn [do_step].
  - apply do_write_pdat. exact H.
  - cbn. exact H.
  - destruct (mem_nat n (m_pipes m)); [exact H|]. rewrite F. reflexivity.
  - destruct (mem_nat n (m_pipes m)); [|exact H]. rewrite F. reflexivity.
  - destruct (mem_nat p (m_parts m)); [|exact H]. cbn [fst snd m_pipes].
    rewrite (proj1 (proj2 (proj2 (drop_disk fx d p _)))). exact H.
  - destruct (mem_nat s (m_parts m)); [|exact H]. rewrite Fr. cbn [negb andb].
    match goal with |- context [do_write fx m d t ?x] => pose proof (do_write_pdat fx m d t x H) as E; destruct (do_write fx m d t x) as [m1 d1] end.
    exact E.
  - destruct (lookup p (m_cur m)); [|apply do_write_pdat; exact H].
    pose proof (do_write_pdat fx m d p ts H) as E. destruct (do_write fx m d p ts) as [m1 d1]. exact E.
Qed.

Lemma pipes_crash_fixed fx : fx_pipes fx = true -> fx_reg fx = true -> pipes_crash_statement fx.
Proof.
  intros F Fr m d steps H. cbn zeta. unfold killed, pipes_init.
  assert (G : forall l md, d_pdat (snd md) = Some (Whole (m_pipes (fst md))) ->
              d_pdat (snd (run_steps fx md l)) = Some (Whole (m_pipes (fst (run_steps fx md l))))).
  { induction l as [|s l IH]; intros [m0 d0] H0; [exact H0|]. cbn [run_steps fold_left]. apply IH.
    apply (do_step_pdat fx m0 d0 s F Fr H0). }
  rewrite (G steps (m, d) H). reflexivity.
Qed.

Lemma pipes_torn_refuses fx d k : d_pdat d = Some (Torn k) -> start fx d = None.
Proof. intros H. unfold start, pipes_init. rewrite H. cbn [decode]. destruct (prog_init fx d); [|reflexivity]. destruct (tindex_init d); reflexivity. Qed.

Lemma tindex_torn_refuses fx d k : d_tdat d = Some (Torn k) -> start fx d = None.
Proof. intros H. unfold start, tindex_init. rewrite H. destruct (prog_init fx d); reflexivity. Qed.

(* ---------- a hull rebuilt from the chunk hides nothing when timestamps do not decrease ---------- *)
Lemma sorted_le_last l : StronglySorted Z.le l -> forall x d, In x l -> x <= last l d.
Proof.
  induction 1 as [|a l S IH F]; intros x d Hx; [destruct Hx|].
  destruct l as [|b l]; [destruct Hx as [<-|[]]; cbn; lia|].
  destruct Hx as [E|Hx].
  - subst a. change (last (x :: b :: l) d) with (last (b :: l) d). rewrite Forall_forall in F.
    pose proof (IH b d (or_introl eq_refl)). pose proof (F b (or_introl eq_refl)). lia.
  - change (last (a :: b :: l) d) with (last (b :: l) d). apply IH. exact Hx.
Qed.

Lemma range_rebuilt evs lo hi t : StronglySorted Z.le evs -> In t evs -> in_range lo hi t = true ->
  In t (range_query (light_hull evs) evs lo hi).
Proof.
  intros S Ht R. unfold range_query, light_hull. destruct evs as [|e evs]; [destruct Ht|].
  pose proof (sorted_le_last _ S t e Ht) as L.
  unfold in_range in R. apply andb_true_iff in R as [R1 R2]. apply Z.leb_le in R1.
  apply Z.leb_le in R2.
  assert (e <= t) by (inversion S as [|? ? S' F]; subst; destruct Ht as [<-|Ht]; [lia|]; rewrite Forall_forall in F; exact (F t Ht)).
  assert ((Z.max e (last (e :: evs) e) <? lo) = false) as -> by (apply Z.ltb_ge; lia).
  assert ((hi <? Z.min e (last (e :: evs) e)) = false) as -> by (apply Z.ltb_ge; lia). cbn [orb].
  apply filter_In. split; [exact Ht|]. unfold in_range. apply andb_true_iff. split; apply Z.leb_le; lia.
Qed.

Definition range_after_start_statement (fx : fixes) : Prop :=
  forall d m' d', start fx d = Some (m', d') -> forall p t lo hi,
  In t (events_of p (d_jrnl d')) -> in_range lo hi t = true ->
  In t (range_query (hull_of p m') (events_of p (d_jrnl d')) lo hi).

(* ---------- the repair "Shutdown syncs the journals" ---------- *)
Lemma lookup_update_same {A} p (v : A) l : lookup p (update p v l) = Some v.
Proof.
  induction l as [|[q w] l IH]; cbn [update lookup]; [rewrite Nat.eqb_refl; reflexivity|].
  destruct (Nat.eqb q p) eqn:E; cbn [lookup]; rewrite E; [reflexivity|exact IH].
Qed.

Lemma lookup_update_other {A} p q (v : A) l : q <> p -> lookup q (update p v l) = lookup q l.
Proof.
  intros N. induction l as [|[r w] l IH]; cbn [update lookup].
  - assert (Nat.eqb p q = false) as -> by (apply Nat.eqb_neq; congruence). reflexivity.
  - destruct (Nat.eqb r p) eqn:E; cbn [lookup].
    + apply Nat.eqb_eq in E. subst r. assert (Nat.eqb p q = false) as -> by (apply Nat.eqb_neq; congruence). reflexivity.
    + destruct (Nat.eqb r q); [reflexivity|exact IH].
Qed.

Lemma lookup_None_keys {A} p (l : list (nat * A)) : lookup p l = None <-> ~ In p (map fst l).
Proof.
  induction l as [|[q w] l IH]; cbn [lookup map fst]; [split; [intros _ []|reflexivity]|].
  destruct (Nat.eqb q p) eqn:E.
  - apply Nat.eqb_eq in E. subst. split; [discriminate|intros H; exfalso; apply H; left; reflexivity].
  - apply Nat.eqb_neq in E. rewrite IH. split; [intros H [C|C]; [congruence|exact (H C)]|intros H C; apply H; right; exact C].
Qed.

Lemma update_keys_nodup {A} p (v : A) l : NoDup (map fst l) -> NoDup (map fst (update p v l)).
Proof.
  induction l as [|[q w] l IH]; intros ND; cbn [update map fst]; [constructor; [intros []|constructor]|].
  inversion ND as [|? ? Hq ND']. subst. destruct (Nat.eqb q p) eqn:E; cbn [map fst].
  - constructor; assumption.
  - constructor; [|apply IH; exact ND'].
    intros C. apply Hq. clear -C E. apply Nat.eqb_neq in E.
    induction l as [|[r x] l IH]; cbn [update map fst] in *; [destruct C as [C|[]]; congruence|].
    destruct (Nat.eqb r p) eqn:E2; cbn [map fst] in C; [exact C|]. destruct C as [C|C]; [left; exact C|right; apply IH; exact C].
Qed.

Definition flush_fold (cur : list (nat * nat)) (buf : list (nat * list Z)) (j : list (nat * (nat * list Z))) :=
  fold_left (fun j pb => match lookup (fst pb) cur with
                         | Some cid => update (fst pb) (cid, events_of (fst pb) j ++ snd pb) j
                         | None => j
                         end) buf j.

Lemma flush_fold_spec cur buf : NoDup (map fst buf) -> (forall p, In p (map fst buf) -> lookup p cur <> None) ->
  forall j, NoDup (map fst j) ->
  NoDup (map fst (flush_fold cur buf j)) /\ forall p, events_of p (flush_fold cur buf j) = events_of p j ++ get_list p buf.
Proof.
  induction buf as [|[q b] buf IH]; intros NDb Hc j NDj.
  - split; [exact NDj|]. intros p. unfold get_list. cbn. rewrite app_nil_r. reflexivity.
  - cbn [map fst] in NDb. inversion NDb as [|? ? Hq NDb']. subst.
    unfold flush_fold. cbn [fold_left fst snd].
    destruct (lookup q cur) as [cid|] eqn:Lq; [|exfalso; apply (Hc q (or_introl eq_refl)); exact Lq].
    set (j1 := update q (cid, events_of q j ++ b) j).
    destruct (IH NDb' (fun p Hp => Hc p (or_intror Hp)) j1 (update_keys_nodup _ _ _ NDj)) as [N1 E1].
    split; [exact N1|]. intros p. fold (flush_fold cur buf j1). rewrite E1. unfold get_list at 2. cbn [lookup].
    destruct (Nat.eqb q p) eqn:E.
    + apply Nat.eqb_eq in E. subst p. unfold events_of at 1, j1. rewrite lookup_update_same.
      assert (get_list q buf = []) as ->; [|rewrite app_nil_r; reflexivity].
      unfold get_list. assert (lookup q buf = None) as -> by (apply lookup_None_keys; exact Hq). reflexivity.
    + apply Nat.eqb_neq in E. unfold events_of at 1, j1. rewrite lookup_update_other by congruence. reflexivity.
Qed.

Lemma with_data_events d p : keys_nodup d -> (In p (with_data d) <-> events_of p (d_jrnl d) <> []).
Proof.
  unfold keys_nodup, with_data, events_of. generalize (d_jrnl d). intros j ND.
  induction j as [|[q [c evs]] j IH]; cbn [filter map fst lookup]; [split; [intros []|intros H; congruence]|].
  cbn [map fst] in ND. inversion ND as [|? ? Hq ND']. subst. unfold has_data at 1. cbn [snd].
  destruct (Nat.eqb q p) eqn:E.
  - apply Nat.eqb_eq in E. subst q. destruct evs as [|e evs].
    + split; [|intros H; congruence]. intros H. exfalso. apply Hq.
      apply in_map_iff in H as [[r v] [Hr Hin]]. apply filter_In in Hin as [Hin _]. cbn in Hr. subst r.
      apply in_map_iff. exists (p, v). split; [reflexivity|exact Hin].
    + split; [intros _; discriminate|intros _; left; reflexivity].
  - apply Nat.eqb_neq in E. destruct evs as [|e evs]; [exact (IH ND')|].
    cbn [map fst]. rewrite <- (IH ND'). split; [intros [C|C]; [congruence|exact C]|intros C; right; exact C].
Qed.

Lemma clean_with_sync fx : fx_sync fx = true -> fx_prog fx = true -> clean_statement fx.
Proof.
  intros F Fg m d (Ht & Hj & Hb & NDb & Hc) ND.
  destruct (flush_fold_spec (m_cur m) (m_buf m) NDb Hc (d_jrnl d) ND) as [N1 E1].
  unfold graceful. rewrite F. unfold flush_all. fold (flush_fold (m_cur m) (m_buf m) (d_jrnl d)).
  set (j1 := flush_fold (m_cur m) (m_buf m) (d_jrnl d)) in *. cbn [m_hull m_pipes d_tdat d_tbak d_jrnl d_next].
  set (d1 := mkDisk (d_tdat d) (d_tbak d) (Some (Whole (saved_hulls fx (mkMem (m_parts m) [] (m_hull m) (m_pipes m) (m_cur m) (m_prog m) (m_phull m))))) (Some (Whole (m_pipes m))) j1 (d_next d) (clobber_twin fx (d_prog d))).
  assert (J1 : forall p, In p (with_data d1) -> In p (m_parts m)).
  { intros p Hp. apply (with_data_events d1 p N1) in Hp. cbn [d1 d_jrnl] in Hp. rewrite E1 in Hp.
    destruct (events_of p (d_jrnl d)) eqn:Ev.
    - cbn in Hp. apply Hb. unfold get_list in Hp. destruct (lookup p (m_buf m)); congruence.
    - apply Hj. apply (with_data_events d p ND). congruence. }
  destruct (start_whole fx d1 (m_parts m) (m_pipes m) Fg Ht J1 eq_refl N1) as (m' & d' & S & P1 & P2 & _ & E & _).
  exists m', d'. split; [exact S|]. split; [exact P1|]. split; [exact P2|].
  intros p. rewrite E. cbn [d1 d_jrnl]. rewrite E1. reflexivity.
Qed.

(* ---------- a crash inside the pipes save ---------- *)
Definition pipes_save_crash_statement (fx : fixes) : Prop :=
  forall d l_old l_new d', pipes_init d = Some l_old -> pcrash_at fx d l_new d' ->
  pipes_init d' = Some l_old \/ pipes_init d' = Some l_new.

Lemma pipes_save_crash_atomic fx : fx_pipes fx = true -> pipes_save_crash_statement fx.
Proof.
  intros F0 d lo ln d' H C. inversion C as [| |k F]; subst.
  - left. exact H.
  - right. reflexivity.
  - congruence.
Qed.

(* ---------- the crash-shaped states of the savers, as the correspondence check applies them ---------- *)
Definition saver_crash (g : surgery) : Prop :=
  match g with GTRenamed | GTTorn _ | GPTorn _ | GPDrop => True | _ => False end.

Lemma saver_crash_harmless fx prev d g : fx_atomic fx = true -> fx_pipes fx = true -> saver_crash g -> apply_surgery fx prev d g = d.
Proof. intros Fa Fp. destruct g; cbn; rewrite ?Fa, ?Fp; intros H; try destruct H; reflexivity. Qed.

(* ---------- [consistent] and [keys_nodup] hold of every state a server can be in ---------- *)
Lemma tindex_init_Some d m : tindex_init d = Some m -> forall p, In p (with_data d) -> In p m.
Proof.
  unfold tindex_init. intros H p Hp.
  destruct (d_tdat d) as [c|].
  - destruct (decode c) as [m0|]; [|discriminate H].
    destruct (forallb (fun j => mem_nat j m0) (with_data d)) eqn:F; [|discriminate H].
    injection H as <-. rewrite forallb_forall in F. apply mem_nat_In. apply F. exact Hp.
  - destruct (forallb (fun j => mem_nat j []) (with_data d)) eqn:F; [|discriminate H].
    rewrite forallb_forall in F. specialize (F p Hp). discriminate F.
Qed.

Lemma NoDup_keys_filter {A} (f : nat * A -> bool) l : NoDup (map fst l) -> NoDup (map fst (filter f l)).
Proof.
  induction l as [|x l IH]; intros ND; [constructor|]. cbn [map] in ND. inversion ND as [|? ? Hx ND']. subst.
  cbn [filter]. destruct (f x); [|exact (IH ND')]. cbn [map]. constructor; [|exact (IH ND')].
  intros C. apply Hx. apply in_map_iff in C as [y [E Hy]]. apply filter_In in Hy as [Hy _].
  apply in_map_iff. exists y. split; assumption.
Qed.

Lemma start_consistent fx d m' d' : keys_nodup d -> start fx d = Some (m', d') -> consistent m' d' /\ keys_nodup d'.
Proof.
  intros ND S. unfold start in S. destruct (prog_init fx d); [|discriminate S].
  destruct (tindex_init d) as [parts|] eqn:T; [|discriminate S].
  destruct (pipes_init d) as [pipes|]; [|discriminate S].
  injection S as <- <-. pose proof (tindex_init_Some d parts T) as J.
  split; [split; [|split; [|split; [|split]]]|].
  - apply tsave_tdat.
  - cbn [m_parts]. intros p Hp. apply J. unfold with_data in *. rewrite tsave_jrnl in Hp. cbn [d_jrnl] in Hp.
    apply in_map_iff in Hp as [y [E Hy]]. apply filter_In in Hy as [Hy Hd]. apply filter_In in Hy as [Hy _].
    apply in_map_iff. exists y. split; [exact E|]. apply filter_In. split; assumption.
  - cbn [m_buf lookup]. intros p Hp. congruence.
  - cbn [m_buf map]. constructor.
  - cbn [m_buf map]. intros p [].
  - unfold keys_nodup. rewrite tsave_jrnl. cbn [d_jrnl]. apply NoDup_keys_filter. exact ND.
Qed.

Lemma In_update_keys {A} p (v : A) l q : In q (map fst (update p v l)) -> q = p \/ In q (map fst l).
Proof.
  induction l as [|[r w] l IH]; cbn [update map fst]; [intros [E|[]]; left; congruence|].
  destruct (Nat.eqb r p) eqn:E; cbn [map fst].
  - intros H. right. exact H.
  - intros [H|H]; [right; left; exact H|]. destruct (IH H) as [C|C]; [left; exact C|right; right; exact C].
Qed.

Lemma lookup_Some_keys {A} p (l : list (nat * A)) : lookup p l <> None <-> In p (map fst l).
Proof.
  split.
  - intros H. destruct (in_dec Nat.eq_dec p (map fst l)) as [I|N]; [exact I|]. exfalso. apply H. apply lookup_None_keys. exact N.
  - intros I H. apply lookup_None_keys in H. exact (H I).
Qed.

Lemma flush_all_consistent m d : consistent m d -> keys_nodup d ->
  consistent (fst (flush_all m d)) (snd (flush_all m d)) /\ keys_nodup (snd (flush_all m d)).
Proof.
  intros (Ht & Hj & Hb & NDb & Hc) ND.
  destruct (flush_fold_spec (m_cur m) (m_buf m) NDb Hc (d_jrnl d) ND) as [N1 E1].
  unfold flush_all. fold (flush_fold (m_cur m) (m_buf m) (d_jrnl d)). cbn [fst snd].
  set (j1 := flush_fold (m_cur m) (m_buf m) (d_jrnl d)) in *.
  set (d1 := mkDisk (d_tdat d) (d_tbak d) (d_cdat d) (d_pdat d) j1 (d_next d) (d_prog d)).
  split; [|exact N1]. split; [exact Ht|]. split; [|split; [|split]].
  - cbn [m_parts]. intros p Hp. apply (with_data_events d1 p N1) in Hp. cbn [d1 d_jrnl] in Hp. rewrite E1 in Hp.
    destruct (events_of p (d_jrnl d)) eqn:Ev.
    + cbn in Hp. apply Hb. unfold get_list in Hp. destruct (lookup p (m_buf m)); congruence.
    + apply Hj. apply (with_data_events d p ND). congruence.
  - cbn [m_buf lookup]. intros p Hp. congruence.
  - cbn [m_buf map]. constructor.
  - cbn [m_buf map]. intros p [].
Qed.

Lemma do_write_consistent fx m d p ts : consistent m d -> keys_nodup d ->
  consistent (fst (do_write fx m d p ts)) (snd (do_write fx m d p ts)) /\ keys_nodup (snd (do_write fx m d p ts)).
Proof.
  intros C ND.
  destruct C as (Ht & Hj & Hb & NDb & Hc). unfold do_write.
    set (newp := negb (mem_nat p (m_parts m))).
    set (parts := if newp then m_parts m ++ [p] else m_parts m).
    set (d' := if newp then tsave fx d parts else d).
    assert (Pin : In p parts).
    { unfold parts, newp. destruct (mem_nat p (m_parts m)) eqn:E; cbn [negb].
      - apply mem_nat_In. exact E.
      - apply in_or_app. right. left. reflexivity. }
    assert (Pinc : forall q, In q (m_parts m) -> In q parts).
    { intros q Hq. unfold parts. destruct newp; [apply in_or_app; left; exact Hq|exact Hq]. }
    assert (Td : d_tdat d' = Some (Whole parts)).
    { unfold d', parts. destruct newp; [apply tsave_tdat|exact Ht]. }
    assert (Jd : d_jrnl d' = d_jrnl d).
    { unfold d'. destruct newp; [apply tsave_jrnl|reflexivity]. }
    assert (G : forall d'' : disk, d_tdat d'' = d_tdat d' -> d_jrnl d'' = d_jrnl d' ->
                consistent (mkMem parts (update p (get_list p (m_buf m) ++ ts) (m_buf m))
                                  (match widen (lookup (match lookup p (m_cur m) with Some c => c | None => d_next d' end) (m_hull m)) ts with
                                   | Some h => update (match lookup p (m_cur m) with Some c => c | None => d_next d' end) h (m_hull m)
                                   | None => m_hull m end)
                                  (m_pipes m)
                                  (update p (match lookup p (m_cur m) with Some c => c | None => d_next d' end) (m_cur m)) (m_prog m) (m_phull m)) d''
                /\ keys_nodup d'').
    { intros d'' E1 E2. split; [split; [|split; [|split; [|split]]]|].
      - cbn [m_parts]. rewrite E1. exact Td.
      - cbn [m_parts]. intros q Hq. apply Pinc. apply Hj. unfold with_data in *. rewrite E2, Jd in Hq. exact Hq.
      - cbn [m_parts m_buf]. intros q Hq. apply lookup_Some_keys in Hq. apply In_update_keys in Hq as [->|Hq]; [exact Pin|].
        apply Pinc. apply Hb. apply lookup_Some_keys. exact Hq.
      - cbn [m_buf]. apply update_keys_nodup. exact NDb.
      - cbn [m_buf m_cur]. intros q Hq. apply In_update_keys in Hq as [->|Hq].
        + rewrite lookup_update_same. discriminate.
        + destruct (Nat.eq_dec q p) as [->|N]; [rewrite lookup_update_same; discriminate|].
          rewrite lookup_update_other by exact N. apply Hc. exact Hq.
      - unfold keys_nodup. rewrite E2, Jd. exact ND. }
    destruct (lookup p (m_cur m)) as [c|] eqn:L.
    + cbn [fst snd]. apply G; reflexivity.
    + cbn [fst snd]. apply G; reflexivity.
Qed.

Lemma remove_key_keys {A} p (l : list (nat * A)) q : In q (map fst (remove_key p l)) <-> q <> p /\ In q (map fst l).
Proof.
  induction l as [|[r w] l IH]; cbn [remove_key map fst]; [split; [intros []|intros [_ []]]|].
  destruct (Nat.eqb r p) eqn:E.
  - apply Nat.eqb_eq in E. subst r. rewrite IH. split; [intros [N H]; split; [exact N|right; exact H]|].
    intros [N [H|H]]; [congruence|split; assumption].
  - apply Nat.eqb_neq in E. cbn [map fst]. split.
    + intros [H|H]; [subst q; split; [exact E|left; reflexivity]|]. apply IH in H as [N H]. split; [exact N|right; exact H].
    + intros [N [H|H]]; [left; exact H|right; apply IH; split; assumption].
Qed.

Lemma remove_key_nodup {A} p (l : list (nat * A)) : NoDup (map fst l) -> NoDup (map fst (remove_key p l)).
Proof.
  induction l as [|[r w] l IH]; intros ND; cbn [remove_key]; [exact ND|]. cbn [map fst] in ND. inversion ND as [|? ? Hr ND']. subst.
  destruct (Nat.eqb r p); [exact (IH ND')|]. cbn [map fst]. constructor; [|exact (IH ND')].
  intros C. apply remove_key_keys in C as [_ C]. exact (Hr C).
Qed.

Lemma lookup_remove_key_other {A} p q (l : list (nat * A)) : q <> p -> lookup q (remove_key p l) = lookup q l.
Proof.
  intros N. induction l as [|[r w] l IH]; cbn [remove_key lookup]; [reflexivity|].
  destruct (Nat.eqb r p) eqn:E.
  - apply Nat.eqb_eq in E. subst r. assert (Nat.eqb p q = false) as -> by (apply Nat.eqb_neq; congruence). exact IH.
  - cbn [lookup]. destruct (Nat.eqb r q); [reflexivity|exact IH].
Qed.

Lemma with_data_remove_key p j q : In q (map fst (filter has_data (remove_key p j))) -> q <> p /\ In q (map fst (filter has_data j)).
Proof.
  induction j as [|[r w] j IH]; cbn [remove_key filter map]; [intros []|].
  destruct (Nat.eqb r p) eqn:E.
  - intros H. destruct (IH H) as [N I]. split; [exact N|]. destruct (has_data (r, w)); [right; exact I|exact I].
  - apply Nat.eqb_neq in E. cbn [filter]. destruct (has_data (r, w)); cbn [map fst].
    + intros [H|H]; [subst q; split; [exact E|left; reflexivity]|]. destruct (IH H) as [N I]. split; [exact N|right; exact I].
    + exact IH.
Qed.

Lemma do_step_consistent fx m d s : consistent m d -> keys_nodup d ->
  consistent (fst (do_step fx (m, d) s)) (snd (do_step fx (m, d) s)) /\ keys_nodup (snd (do_step fx (m, d) s)).
Proof.
  intros C ND. destruct s as [p ts| |n|n|p|n s t|p ts].
  - cbn [do_step]. apply do_write_consistent; assumption.
  - cbn [do_step]. apply flush_all_consistent; assumption.
  - cbn [do_step]. destruct (mem_nat n (m_pipes m)); [split; assumption|]. cbn [fst snd].
    destruct C as (Ht & Hj & Hb & NDb & Hc).
    destruct (fx_pipes fx); (split; [split; [exact Ht|split; [exact Hj|split; [exact Hb|split; [exact NDb|exact Hc]]]]|exact ND]).
  - cbn [do_step]. destruct (mem_nat n (m_pipes m)); [|split; assumption]. cbn [fst snd].
    destruct C as (Ht & Hj & Hb & NDb & Hc).
    destruct (fx_pipes fx); (split; [split; [exact Ht|split; [exact Hj|split; [exact Hb|split; [exact NDb|exact Hc]]]]|exact ND]).
  - cbn [do_step]. destruct (mem_nat p (m_parts m)); [|split; assumption]. cbn [fst snd].
    destruct C as (Ht & Hj & Hb & NDb & Hc).
    assert (Fin : forall q, q <> p -> In q (m_parts m) -> In q (filter (fun x => negb (Nat.eqb x p)) (m_parts m))).
    { intros q N I. apply filter_In. split; [exact I|]. apply negb_true_iff. apply Nat.eqb_neq. exact N. }
    destruct (drop_disk fx d p (filter (fun x => negb (Nat.eqb x p)) (m_parts m))) as (DT & DJ & _ & _).
    split; [split; [|split; [|split; [|split]]]|].
    + cbn [m_parts]. exact DT.
    + cbn [m_parts]. intros q Hq. unfold with_data in Hq. rewrite DJ in Hq.
      apply with_data_remove_key in Hq as [N I]. apply Fin; [exact N|]. apply Hj. exact I.
    + cbn [m_parts m_buf]. intros q Hq. apply lookup_Some_keys in Hq. apply remove_key_keys in Hq as [N I].
      apply Fin; [exact N|]. apply Hb. apply lookup_Some_keys. exact I.
    + cbn [m_buf]. apply remove_key_nodup. exact NDb.
    + cbn [m_buf m_cur]. intros q Hq. apply remove_key_keys in Hq as [N I].
      rewrite lookup_remove_key_other by exact N. apply Hc. exact I.
    + unfold keys_nodup. rewrite DJ. apply remove_key_nodup. exact ND.
  - cbn [do_step]. destruct (mem_nat s (m_parts m)); [|split; assumption].
    apply do_write_consistent; assumption.
  - cbn [do_step]. destruct (lookup p (m_cur m)); [|apply do_write_consistent; assumption].
    pose proof (do_write_consistent fx m d p ts C ND) as E. destruct (do_write fx m d p ts) as [m1 d1]. exact E.
Qed.

Lemma run_steps_consistent fx l : forall m d, consistent m d -> keys_nodup d ->
  consistent (fst (run_steps fx (m, d) l)) (snd (run_steps fx (m, d) l)) /\ keys_nodup (snd (run_steps fx (m, d) l)).
Proof.
  induction l as [|s l IH]; intros m d C ND; [split; assumption|].
  cbn [run_steps fold_left]. destruct (do_step_consistent fx m d s C ND) as [C1 N1].
  destruct (do_step fx (m, d) s) as [m1 d1]. apply IH; assumption.
Qed.

(* every state of a server that was started on a directory and executed a history *)
Inductive reachable (fx : fixes) : mem -> disk -> Prop :=
| reach : forall d0 m0 d0' l, keys_nodup d0 -> start fx d0 = Some (m0, d0') ->
    reachable fx (fst (run_steps fx (m0, d0') l)) (snd (run_steps fx (m0, d0') l)).

Lemma reachable_consistent fx m d : reachable fx m d -> consistent m d /\ keys_nodup d.
Proof.
  intros [d0 m0 d0' l ND S]. destruct (start_consistent fx d0 m0 d0' ND S) as [C N]. apply run_steps_consistent; assumption.
Qed.

(* ---------- a dropped partition stays dropped; a pipe forwards exactly once ---------- *)
Lemma drop_then_restart m d p : consistent m d -> keys_nodup d ->
  let md := do_step code_fix (m, d) (SDrop p) in
  exists m' d', start code_fix (graceful code_fix (fst md) (snd md)) = Some (m', d') /\
                ~ In p (m_parts m') /\ (forall q, q <> p -> (In q (m_parts m') <-> In q (m_parts m))).
Proof.
  intros C ND md. destruct (do_step_consistent code_fix m d (SDrop p) C ND) as [C1 N1]. fold md in C1, N1.
  destruct (clean_with_sync code_fix eq_refl eq_refl (fst md) (snd md) C1 N1) as (m' & d' & S & P & _ & _).
  exists m', d'. split; [exact S|]. rewrite P. unfold md. cbn [do_step].
  destruct (mem_nat p (m_parts m)) eqn:E; cbn [fst m_parts].
  - split.
    + intros I. apply filter_In in I as [_ I]. rewrite Nat.eqb_refl in I. discriminate I.
    + intros q N. split; [intros I; apply filter_In in I as [I _]; exact I|].
      intros I. apply filter_In. split; [exact I|]. apply negb_true_iff. apply Nat.eqb_neq. exact N.
  - split; [|intros q _; reflexivity]. intros I. apply mem_nat_In in I. congruence.
Qed.

Lemma do_write_acked fx m d p ts : acked (fst (do_write fx m d p ts)) (snd (do_write fx m d p ts)) p = acked m d p ++ ts.
Proof.
  unfold do_write, acked.
  assert (J : forall dd : disk, d_jrnl dd = d_jrnl d -> events_of p (d_jrnl dd) = events_of p (d_jrnl d)) by (intros dd ->; reflexivity).
  destruct (negb (mem_nat p (m_parts m))); destruct (lookup p (m_cur m)); cbn [fst snd m_buf d_jrnl];
    unfold get_list at 1; rewrite lookup_update_same, ?tsave_jrnl, app_assoc; reflexivity.
Qed.

Lemma drain_catches_up fx m d n s t : mem_nat s (m_parts m) = true ->
  lookup n (m_prog m) = Some (length (acked m d t)) ->
  acked m d t = firstn (length (acked m d t)) (events_of s (d_jrnl d)) ->
  let md := do_step fx (m, d) (SDrain n s t) in
  acked (fst md) (snd md) t = events_of s (d_jrnl d) /\
  lookup n (m_prog (fst md)) = Some (length (events_of s (d_jrnl d))) /\
  lookup n (d_prog (snd md)) = Some (Whole (length (events_of s (d_jrnl d)))).
Proof.
  intros R L P md. unfold md. cbn [do_step]. rewrite R, L.
  pose proof (do_write_acked fx m d t (skipn (length (acked m d t)) (events_of s (d_jrnl d)))) as A.
  destruct (do_write fx m d t (skipn (length (acked m d t)) (events_of s (d_jrnl d)))) as [m1 d1].
  cbn [fst snd] in *. split; [|split; cbn [m_prog d_prog]; apply lookup_update_same].
  unfold acked at 1. cbn [m_buf d_jrnl]. fold (acked m1 d1 t). rewrite A. rewrite P at 1. apply firstn_skipn.
Qed.

(* ---------- a crash between the two effects of a partition removal ---------- *)
Definition drop_crash_statement (fx : fixes) : Prop :=
  forall m d p d', consistent m d -> keys_nodup d -> In p (m_parts m) ->
  let parts' := filter (fun x => negb (Nat.eqb x p)) (m_parts m) in
  dcrash_at fx d (drop_effs fx p parts') d' ->
  tindex_init d' = Some (m_parts m) \/ tindex_init d' = Some parts'.

Lemma with_data_remove_key_disk a b c e n g p j q :
  In q (with_data (mkDisk a b c e (remove_key p j) n g)) -> q <> p /\ In q (with_data (mkDisk a b c e j n g)).
Proof. unfold with_data. cbn [d_jrnl]. apply with_data_remove_key. Qed.

Lemma drop_crash_data_first fx : fx_drop fx = true -> drop_crash_statement fx.
Proof.
  intros F m d p d' (Ht & Hj & _) ND Hp parts' C. unfold drop_effs in C. rewrite F in C.
  assert (Fin : forall q, q <> p -> In q (m_parts m) -> In q parts').
  { intros q N I. apply filter_In. split; [exact I|]. apply negb_true_iff. apply Nat.eqb_neq. exact N. }
  inversion C as [|? ? ? ? C1]; subst.
  - left. apply tindex_init_whole; [exact Ht|exact Hj].
  - cbn [dapply] in C1. inversion C1 as [|? ? ? ? C2]; subst.
    + left. apply tindex_init_whole; [exact Ht|]. intros q Hq. apply with_data_remove_key_disk in Hq as [_ I].
      apply Hj. destruct d; exact I.
    + cbn [dapply] in C2. inversion C2; subst. right. apply tindex_init_whole; [apply tsave_tdat|].
      intros q Hq. unfold with_data in Hq. rewrite tsave_jrnl in Hq. cbn [d_jrnl] in Hq.
      apply with_data_remove_key in Hq as [N I]. apply Fin; [exact N|]. apply Hj. exact I.
Qed.

(* ---------- the time-index snapshot is consumed by the start: a crash leaves none ---------- *)
Lemma do_write_cdat fx m d p ts : d_cdat (snd (do_write fx m d p ts)) = d_cdat d.
Proof.
  unfold do_write. destruct (negb (mem_nat p (m_parts m))); destruct (lookup p (m_cur m)); cbn [snd d_cdat];
    rewrite ?(proj1 (tsave_other fx d _)); reflexivity.
Qed.

Lemma do_step_cdat fx m d s : d_cdat (snd (do_step fx (m, d) s)) = d_cdat d.
Proof.
  destruct s as [p ts| |n|n|p|n s t|p ts]; cbn [do_step].
  - apply do_write_cdat.
  - reflexivity.
  - destruct (mem_nat n (m_pipes m)); [reflexivity|]. destruct (fx_pipes fx); reflexivity.
  - destruct (mem_nat n (m_pipes m)); [|reflexivity]. destruct (fx_pipes fx); reflexivity.
  - destruct (mem_nat p (m_parts m)); [|reflexivity]. cbn [snd]. apply (proj2 (proj2 (proj2 (drop_disk fx d p _)))).
  - destruct (mem_nat s (m_parts m)); [|reflexivity].
    match goal with |- context [do_write fx m d t ?x] => pose proof (do_write_cdat fx m d t x) as E; destruct (do_write fx m d t x) as [m1 d1] end.
    exact E.
  - destruct (lookup p (m_cur m)); [|apply do_write_cdat].
    pose proof (do_write_cdat fx m d p ts) as E. destruct (do_write fx m d p ts) as [m1 d1]. exact E.
Qed.

Lemma run_steps_cdat fx l : forall m d, d_cdat (snd (run_steps fx (m, d) l)) = d_cdat d.
Proof.
  induction l as [|s l IH]; intros m d; [reflexivity|]. cbn [run_steps fold_left].
  pose proof (do_step_cdat fx m d s) as E. destruct (do_step fx (m, d) s) as [m1 d1]. cbn [snd] in E.
  change (fold_left (do_step fx) l (m1, d1)) with (run_steps fx (m1, d1) l). rewrite IH. exact E.
Qed.

Lemma reachable_no_snapshot fx m d : fx_snap fx = true -> reachable fx m d -> d_cdat d = None.
Proof.
  intros F [d0 m0 d0' l ND S]. rewrite run_steps_cdat. unfold start in S. destruct (prog_init fx d0); [|discriminate S].
  destruct (tindex_init d0); [|discriminate S]. destruct (pipes_init d0); [|discriminate S].
  injection S as _ <-. rewrite (proj1 (tsave_other fx _ _)). cbn [d_cdat]. rewrite F. reflexivity.
Qed.

Definition chunk_id (pe : nat * (nat * list Z)) : nat := fst (snd pe).
(* chunk ids are unique in a directory (chunk.NewId is time based) *)
Definition chunk_ids_unique (d : disk) : Prop := NoDup (map chunk_id (d_jrnl d)).

Lemma NoDup_map_filter {A B} (g : A -> B) (f : A -> bool) l : NoDup (map g l) -> NoDup (map g (filter f l)).
Proof.
  induction l as [|x l IH]; intros ND; [constructor|]. cbn [map] in ND. inversion ND as [|? ? Hx ND']. subst.
  cbn [filter]. destruct (f x); [|exact (IH ND')]. cbn [map]. constructor; [|exact (IH ND')].
  intros C. apply Hx. apply in_map_iff in C as [y [E Hy]]. apply filter_In in Hy as [Hy _].
  apply in_map_iff. exists y. split; assumption.
Qed.

Lemma light_fill_keeps j : forall s c h, lookup c s = Some h -> lookup c (light_fill j s) = Some h.
Proof.
  unfold light_fill. induction j as [|[q [c0 e]] j IH]; intros s c h L; [exact L|]. cbn [fold_left].
  apply IH. destruct (lookup c0 s) eqn:L0; [exact L|]. destruct (light_hull e); [|exact L].
  rewrite lookup_update_other; [exact L|]. intros ->. congruence.
Qed.

Lemma light_fill_spec j : forall s p cid evs, NoDup (map chunk_id j) ->
  (forall pe, In pe j -> lookup (chunk_id pe) s = None) -> In (p, (cid, evs)) j -> evs <> [] ->
  lookup cid (light_fill j s) = light_hull evs.
Proof.
  induction j as [|[q [c0 e]] j IH]; intros s p cid evs ND Hs I NE; [destruct I|].
  cbn [map] in ND. inversion ND as [|? ? Hc ND']. subst. unfold light_fill. cbn [fold_left].
  fold (light_fill j). pose proof (Hs (q, (c0, e)) (or_introl eq_refl)) as H0. unfold chunk_id in H0. cbn [fst snd] in H0. rewrite H0.
  destruct I as [E|I].
  - injection E as -> -> ->. destruct evs as [|e0 evs]; [congruence|]. cbn [light_hull].
    apply light_fill_keeps. apply lookup_update_same.
  - assert (N : c0 <> cid).
    { intros ->. apply Hc. apply in_map_iff. exists (p, (cid, evs)). split; [reflexivity|exact I]. }
    destruct (light_hull e) as [h|].
    + apply (IH _ p cid evs ND'); [|exact I|exact NE]. intros pe Hpe.
      rewrite lookup_update_other.
      * apply Hs. right. exact Hpe.
      * intros E. apply Hc. rewrite <- E. apply in_map_iff. exists pe. split; [reflexivity|exact Hpe].
    + apply (IH _ p cid evs ND'); [|exact I|exact NE]. intros pe Hpe. apply Hs. right. exact Hpe.
Qed.

Lemma lookup_In {A} p (v : A) l : lookup p l = Some v -> In (p, v) l.
Proof.
  induction l as [|[q w] l IH]; cbn [lookup]; [discriminate|]. destruct (Nat.eqb q p) eqn:E.
  - apply Nat.eqb_eq in E. subst. intros [= ->]. left. reflexivity.
  - intros H. right. exact (IH H).
Qed.

Lemma lookup_map_cur p (j : list (nat * (nat * list Z))) :
  lookup p (map (fun pe => (fst pe, fst (snd pe))) j) = match lookup p j with Some (c, _) => Some c | None => None end.
Proof.
  induction j as [|[q [c e]] j IH]; [reflexivity|]. cbn [map lookup fst snd]. destruct (Nat.eqb q p); [reflexivity|exact IH].
Qed.

(* a start without a snapshot: the hull of every chunk with data is rebuilt from the chunk *)
Lemma start_no_snapshot_hull fx d m' d' p : d_cdat d = None -> chunk_ids_unique d -> start fx d = Some (m', d') ->
  events_of p (d_jrnl d') <> [] -> hull_of p m' = light_hull (events_of p (d_jrnl d')).
Proof.
  intros Hc U S NE. unfold start in S. destruct (prog_init fx d); [|discriminate S].
  destruct (tindex_init d); [|discriminate S]. destruct (pipes_init d); [|discriminate S].
  injection S as <- <-. rewrite tsave_jrnl in *. cbn [d_jrnl] in *.
  set (j := filter has_data (d_jrnl d)) in *. unfold hull_of. cbn [m_cur m_hull].
  rewrite lookup_map_cur. unfold events_of in *. destruct (lookup p j) as [[c e]|] eqn:L; [|congruence].
  unfold cindex_init. rewrite Hc. cbn [prune filter].
  apply (light_fill_spec j [] p c e).
  - apply NoDup_map_filter. exact U.
  - intros pe _. reflexivity.
  - apply lookup_In. exact L.
  - exact NE.
Qed.

Definition range_after_crash_statement (fx : fixes) : Prop :=
  forall m d, reachable fx m d -> chunk_ids_unique d -> (forall p, StronglySorted Z.le (events_of p (d_jrnl d))) ->
  forall m' d', start fx (killed m d) = Some (m', d') -> forall p t lo hi,
  In t (events_of p (d_jrnl d')) -> in_range lo hi t = true ->
  In t (range_query (hull_of p m') (events_of p (d_jrnl d')) lo hi).

Lemma range_after_crash_consumed fx : fx_snap fx = true -> range_after_crash_statement fx.
Proof.
  intros F m d R U Srt m' d' S p t lo hi It Ir. unfold killed in S.
  destruct (reachable_consistent fx m d R) as [_ ND].
  assert (E : events_of p (d_jrnl d') = events_of p (d_jrnl d)).
  { unfold start in S. destruct (prog_init fx d); [|discriminate S]. destruct (tindex_init d); [|discriminate S]. destruct (pipes_init d); [|discriminate S].
    injection S as _ <-. rewrite tsave_jrnl. cbn [d_jrnl]. apply events_of_filter. exact ND. }
  rewrite (start_no_snapshot_hull fx d m' d' p (reachable_no_snapshot fx m d F R) U S).
  - rewrite E in *. apply range_rebuilt; [apply Srt|exact It|exact Ir].
  - intros C. rewrite C in It. destruct It.
Qed.

(* ---------- a torn pipe progress file ---------- *)
Definition progress_torn_statement (fx : fixes) : Prop :=
  forall prev d t k m' d', start fx d = Some (m', d') ->
  exists m1 d1, start fx (apply_surgery fx prev d (GProgTorn t k)) = Some (m1, d1) /\
                m_parts m1 = m_parts m' /\ m_pipes m1 = m_pipes m' /\ m_hull m1 = m_hull m' /\ d_jrnl d1 = d_jrnl d'.

Lemma progress_torn_ignored fx : fx_prog fx = true -> progress_torn_statement fx.
Proof.
  intros F prev d t k m' d' S. cbn [apply_surgery]. destruct (lookup t (d_prog d)) as [c|].
  - set (d1 := mkDisk (d_tdat d) (d_tbak d) (d_cdat d) (d_pdat d) (d_jrnl d) (d_next d) (update t (Torn k) (d_prog d))).
    unfold start in *. destruct (prog_init_ignores fx d F) as [l E]. rewrite E in S.
    destruct (prog_init_ignores fx d1 F) as [l1 ->].
    change (tindex_init d1) with (tindex_init d). change (pipes_init d1) with (pipes_init d).
    destruct (tindex_init d) as [parts|]; [|discriminate S]. destruct (pipes_init d) as [pipes|]; [|discriminate S].
    injection S as <- <-. eexists. eexists. split; [reflexivity|]. cbn [m_parts m_pipes m_hull].
    repeat split. rewrite !tsave_jrnl. reflexivity.
  - exists m', d'. split; [exact S|]. repeat split.
Qed.

(* what the pipe does after it: no position, so the next catch-up starts after what is flushed at that moment *)
Lemma drain_without_position fx m d n s t : mem_nat s (m_parts m) = true -> lookup n (m_prog m) = None ->
  let md := do_step fx (m, d) (SDrain n s t) in
  acked (fst md) (snd md) t = acked m d t /\ lookup n (m_prog (fst md)) = Some (length (events_of s (d_jrnl d))).
Proof.
  intros R L md. unfold md. cbn [do_step]. rewrite R, L. rewrite skipn_all.
  pose proof (do_write_acked fx m d t []) as A. destruct (do_write fx m d t []) as [m1 d1]. cbn [fst snd] in *.
  split; [|cbn [m_prog]; apply lookup_update_same].
  unfold acked at 1. cbn [m_buf d_jrnl]. fold (acked m1 d1 t). rewrite A. apply app_nil_r.
Qed.

(* ---------- the loader's protection: data without a record ---------- *)
Lemma data_without_record_refuses fx d m p : d_tdat d = Some (Whole m) -> In p (with_data d) -> ~ In p m -> start fx d = None.
Proof.
  intros Ht Hp N. unfold start. destruct (prog_init fx d); [|reflexivity].
  assert (tindex_init d = None) as ->; [|reflexivity].
  unfold tindex_init. rewrite Ht. cbn [decode].
  destruct (forallb (fun j => mem_nat j m) (with_data d)) eqn:F; [|reflexivity].
  rewrite forallb_forall in F. specialize (F p Hp). apply mem_nat_In in F. contradiction.
Qed.

(* ---------- a pipe's position across a graceful restart; the definitions' file and the positions' files are separate ---------- *)
Lemma prog_init_lookup fx g : forall l n k, prog_fold fx g = Some l ->
  lookup n g = Some (Whole k) -> lookup n l = Some k.
Proof.
  induction g as [|[q c] g IH]; intros l n k E L; [discriminate L|]. unfold prog_fold in E. cbn [fold_right fst snd] in E.
  fold (prog_fold fx g) in E. cbn [lookup] in L.
  destruct (prog_fold fx g) as [l0|] eqn:E0; [|discriminate E].
  destruct (Nat.eqb q n) eqn:Q.
  - injection L as ->. injection E as <-. cbn [lookup]. rewrite Q. reflexivity.
  - destruct c as [v|j].
    + injection E as <-. cbn [lookup]. rewrite Q. apply (IH l0 n k eq_refl L).
    + destruct (fx_prog fx); [|discriminate E]. injection E as <-. apply (IH l0 n k eq_refl L).
Qed.

Definition progress_survives_statement (fx : fixes) : Prop :=
  forall m d n k m' d', lookup n (d_prog d) = Some (Whole k) ->
  start fx (graceful fx m d) = Some (m', d') -> lookup n (m_prog m') = Some k.

Lemma graceful_prog fx m d : d_prog (graceful fx m d) = clobber_twin fx (d_prog d).
Proof. unfold graceful. destruct (fx_sync fx); reflexivity. Qed.

Lemma progress_survives fx : fx_reg fx = true -> progress_survives_statement fx.
Proof.
  intros F m d n k m' d' L S. unfold start in S.
  destruct (prog_init fx (graceful fx m d)) as [l|] eqn:P; [|discriminate S].
  destruct (tindex_init (graceful fx m d)); [|discriminate S]. destruct (pipes_init (graceful fx m d)); [|discriminate S].
  injection S as <- _. cbn [m_prog]. unfold prog_init in P. rewrite graceful_prog in P. unfold clobber_twin in P. rewrite F in P.
  apply (prog_init_lookup fx (d_prog d) l n k P L).
Qed.

(* ---------- a chunk the time index learnt about from a write (HullPartial) across a graceful restart ---------- *)
Lemma lookup_remove_key_same {A} p (l : list (nat * A)) : lookup p (remove_key p l) = None.
Proof.
  induction l as [|[q w] l IH]; [reflexivity|]. cbn [remove_key]. destruct (Nat.eqb q p) eqn:E; [exact IH|].
  cbn [lookup]. rewrite E. exact IH.
Qed.

Lemma lookup_app_none {A} p (l1 l2 : list (nat * A)) : lookup p l1 = None -> lookup p (l1 ++ l2) = lookup p l2.
Proof.
  induction l1 as [|[q w] l1 IH]; intros H; [reflexivity|]. cbn [lookup app] in *. destruct (Nat.eqb q p); [discriminate H|exact (IH H)].
Qed.

(* the snapshot a graceful stop writes has no time range for a chunk that is marked: the start collects it from the chunk *)
Definition partial_mark_statement (fx : fixes) : Prop :=
  forall m d p ts cid, lookup p (m_cur m) = Some cid ->
  let m1 := fst (do_step fx (m, d) (SBlindWrite p ts)) in
  lookup cid (saved_hulls fx m1) = None /\ hull_of p m1 = None.

Lemma do_write_cur fx m d p ts cid : lookup p (m_cur m) = Some cid -> lookup p (m_cur (fst (do_write fx m d p ts))) = Some cid.
Proof.
  intros L. unfold do_write. rewrite L. cbn [fst m_cur]. apply lookup_update_same.
Qed.

Lemma partial_mark_saved fx : fx_partial fx = true -> partial_mark_statement fx.
Proof.
  intros F m d p ts cid L m1. unfold m1. cbn [do_step]. rewrite L.
  pose proof (do_write_cur fx m d p ts cid L) as C. destruct (do_write fx m d p ts) as [m2 d2]. cbn [fst] in *.
  unfold saved_hulls, hull_of. cbn [m_hull m_phull m_cur]. rewrite F, app_nil_r, C. split; apply lookup_remove_key_same.
Qed.

Lemma lookup_prune_none j s c : lookup c s = None -> lookup c (prune j s) = None.
Proof.
  unfold prune. induction s as [|[q h] s IH]; intros H; [reflexivity|]. cbn [lookup] in H. cbn [filter].
  destruct (Nat.eqb q c) eqn:E; [discriminate H|].
  destruct (existsb _ j); [cbn [lookup]; rewrite E|]; exact (IH H).
Qed.

Lemma light_fill_unknown j : forall s p cid evs, NoDup (map chunk_id j) -> lookup cid s = None -> In (p, (cid, evs)) j -> evs <> [] ->
  lookup cid (light_fill j s) = light_hull evs.
Proof.
  induction j as [|[q [c0 e]] j IH]; intros s p cid evs ND Hs I NE; [destruct I|].
  cbn [map] in ND. inversion ND as [|? ? Hc ND']. subst. unfold light_fill. cbn [fold_left]. fold (light_fill j).
  destruct I as [E|I].
  - injection E as -> -> ->. rewrite Hs. destruct evs as [|e0 evs]; [congruence|]. cbn [light_hull].
    apply light_fill_keeps. apply lookup_update_same.
  - assert (N : c0 <> cid).
    { intros ->. apply Hc. apply in_map_iff. exists (p, (cid, evs)). split; [reflexivity|exact I]. }
    apply (IH _ p cid evs ND'); [|exact I|exact NE].
    destruct (lookup c0 s); [exact Hs|]. destruct (light_hull e); [|exact Hs]. rewrite lookup_update_other; [exact Hs|congruence].
Qed.

(* a start on a directory whose snapshot says nothing about a chunk: its range is collected from the chunk *)
Lemma start_unknown_chunk_hull fx d m' d' p : chunk_ids_unique d -> start fx d = Some (m', d') ->
  (forall cid evs, lookup p (d_jrnl d) = Some (cid, evs) -> lookup cid (cindex_init d) = None) ->
  keys_nodup d -> events_of p (d_jrnl d') <> [] -> hull_of p m' = light_hull (events_of p (d_jrnl d')).
Proof.
  intros U S Hs ND NE. unfold start in S. destruct (prog_init fx d); [|discriminate S].
  destruct (tindex_init d); [|discriminate S]. destruct (pipes_init d); [|discriminate S].
  injection S as <- <-. rewrite tsave_jrnl in *. cbn [d_jrnl] in *.
  set (j := filter has_data (d_jrnl d)) in *. unfold hull_of. cbn [m_cur m_hull].
  rewrite lookup_map_cur. unfold events_of in *. destruct (lookup p j) as [[c e]|] eqn:L; [|congruence].
  apply (light_fill_unknown j _ p c e).
  - apply NoDup_map_filter. exact U.
  - apply lookup_prune_none. apply (Hs c e). apply lookup_In in L. unfold j in L. apply filter_In in L as [L _].
    clear -L ND. unfold keys_nodup in ND. induction (d_jrnl d) as [|[q v] l IH]; [destruct L|].
    cbn [map fst] in ND. inversion ND as [|? ? Hq ND']. subst. cbn [lookup]. destruct L as [E|L].
    + injection E as -> ->. rewrite Nat.eqb_refl. reflexivity.
    + destruct (Nat.eqb q p) eqn:Q; [|exact (IH ND' L)]. apply Nat.eqb_eq in Q. subst q. exfalso. apply Hq.
      apply in_map_iff. exists (p, (c, e)). split; [reflexivity|exact L].
  - apply lookup_In. exact L.
  - exact NE.
Qed.
