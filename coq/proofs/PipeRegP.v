(* Lemmas about model/PipeReg.v *)
From LR Require Import lib.Base model.PipeReg.
From Coq Require Import Permutation Sorting.Sorted.

(* ---------- sort.Search ---------- *)
Definition mono_on (f : nat -> bool) (n : nat) : Prop :=
  forall i j, i <= j -> j < n -> f i = true -> f j = true.

Lemma div2_bounds i j : i < j -> i <= Nat.div2 (i + j) < j.
Proof.
  intros H. pose proof (Nat.div2_odd (i + j)) as E.
  destruct (Nat.odd (i + j)); cbn [Nat.b2n] in E; lia.
Qed.

Lemma bsearch_spec f n : mono_on f n ->
  forall fuel i j, j <= n -> i <= j -> j - i < fuel ->
  (forall x, x < i -> f x = false) -> (forall x, j <= x -> x < n -> f x = true) ->
  let k := bsearch_go fuel f i j in
  k <= n /\ (forall x, x < k -> f x = false) /\ (k < n -> f k = true).
Proof.
  intros Hm. induction fuel as [|fuel IH]; intros i j Hjn Hij Hf Hlo Hhi; [lia|].
  cbn [bsearch_go]. destruct (Nat.ltb_spec i j) as [Hlt|Hge].
  - pose proof (div2_bounds i j Hlt) as Hb. set (h := Nat.div2 (i + j)) in *.
    destruct (f h) eqn:Efh.
    + apply IH; try lia; try assumption.
      intros x Hx Hxn. apply (Hm h x); try lia. exact Efh.
    + apply IH; try lia; try assumption.
      intros x Hx. destruct (Nat.lt_ge_cases x i) as [Hxi|Hxi]; [apply Hlo; exact Hxi|].
      destruct (f x) eqn:Efx; [|reflexivity].
      assert (f h = true) by (apply (Hm x h); try lia; exact Efx). congruence.
  - assert (i = j) by lia. subst j. cbn. repeat split; try lia; try assumption.
    intros Hin. apply Hhi; lia.
Qed.

Lemma sort_search_spec f n : mono_on f n ->
  let k := sort_search n f in
  k <= n /\ (forall x, x < k -> f x = false) /\ (k < n -> f k = true).
Proof.
  intros Hm. unfold sort_search. apply (bsearch_spec f n Hm); lia.
Qed.

(* ---------- insertion ---------- *)
Definition name_le (a b : pipe) : Prop := bytes_leb (p_name a) (p_name b) = true.
Definition name_lt (a b : pipe) : Prop := bytes_ltb (p_name a) (p_name b) = true.

Lemma spec_insert_split p l k :
  k <= length l ->
  (forall i, i < k -> bytes_leb (p_name p) (p_name (nth i l p)) = false) ->
  (k < length l -> bytes_leb (p_name p) (p_name (nth k l p)) = true) ->
  spec_insert p l = firstn k l ++ p :: skipn k l.
Proof.
  revert k. induction l as [|q l IH]; intros k Hk Hlo Hhi.
  - cbn in Hk. assert (k = 0) by lia. subst. reflexivity.
  - destruct k as [|k].
    + cbn [firstn skipn app spec_insert]. cbn in Hhi. rewrite Hhi by lia. reflexivity.
    + cbn [spec_insert]. pose proof (Hlo 0 ltac:(lia)) as H0. cbn in H0. rewrite H0.
      cbn [firstn skipn app]. f_equal. apply IH.
      * cbn in Hk. lia.
      * intros i Hi. apply (Hlo (S i)). lia.
      * intros Hkl. apply Hhi. cbn. lia.
Qed.

Lemma sorted_nth_le l : StronglySorted name_le l ->
  forall i j d, i <= j -> j < length l -> name_le (nth i l d) (nth j l d).
Proof.
  induction 1 as [|q l Hs IH Hall]; intros i j d Hij Hj; [cbn in Hj; lia|].
  destruct i as [|i]; destruct j as [|j]; cbn [nth]; try lia.
  - unfold name_le. apply bytes_leb_refl.
  - rewrite Forall_forall in Hall. apply Hall. apply nth_In. cbn in Hj. lia.
  - apply IH; cbn in Hj; lia.
Qed.

Lemma insert_sorted_is_spec res p : StronglySorted name_le res -> insert_sorted res p = spec_insert p res.
Proof.
  intros Hs. unfold insert_sorted.
  set (f := fun i => bytes_leb (p_name p) (p_name (nth i res p))).
  assert (Hm : mono_on f (length res)).
  { intros i j Hij Hj Hfi. unfold f in *.
    eapply bytes_leb_trans; [exact Hfi|]. apply (sorted_nth_le res Hs i j p Hij Hj). }
  destruct (sort_search_spec f (length res) Hm) as (Hk & Hlo & Hhi).
  symmetry. apply spec_insert_split; assumption.
Qed.

Lemma spec_insert_perm p l : Permutation (spec_insert p l) (p :: l).
Proof.
  induction l as [|q l IH]; cbn; [reflexivity|].
  destruct (bytes_leb (p_name p) (p_name q)); [reflexivity|].
  rewrite IH. apply perm_swap.
Qed.

Lemma spec_insert_sorted p l : StronglySorted name_le l -> StronglySorted name_le (spec_insert p l).
Proof.
  induction 1 as [|q l Hs IH Hall]; cbn.
  - constructor; constructor.
  - destruct (bytes_leb (p_name p) (p_name q)) eqn:E.
    + constructor; [constructor; assumption|]. constructor; [exact E|].
      rewrite Forall_forall in *. intros x Hx. unfold name_le in *.
      eapply bytes_leb_trans; [exact E|]. apply Hall. exact Hx.
    + constructor; [exact IH|].
      rewrite Forall_forall in *. intros x Hx.
      apply (Permutation_in _ (spec_insert_perm p l)) in Hx. destruct Hx as [<-|Hx].
      * unfold name_le. destruct (bytes_leb_total (p_name q) (p_name p)) as [T|T]; [exact T|congruence].
      * apply Hall. exact Hx.
Qed.

Lemma get_pipes_fold ord acc : StronglySorted name_le acc ->
  fold_left insert_sorted ord acc = fold_left (fun r p => spec_insert p r) ord acc /\
  StronglySorted name_le (fold_left insert_sorted ord acc) /\
  Permutation (fold_left insert_sorted ord acc) (acc ++ ord).
Proof.
  revert acc. induction ord as [|p ord IH]; intros acc Hs; cbn [fold_left].
  - rewrite app_nil_r. repeat split; [exact Hs|reflexivity].
  - rewrite (insert_sorted_is_spec acc p Hs).
    destruct (IH (spec_insert p acc) (spec_insert_sorted p acc Hs)) as (E & S & P).
    repeat split; [exact E|exact S|].
    rewrite P. rewrite spec_insert_perm. cbn. apply Permutation_middle.
Qed.

Lemma get_pipes_sorted_perm ord :
  StronglySorted name_le (get_pipes ord) /\ Permutation (get_pipes ord) ord.
Proof.
  destruct (get_pipes_fold ord [] ltac:(constructor)) as (_ & S & P). split; assumption.
Qed.

(* a name-sorted list with pairwise different names is determined by its set of elements *)
Lemma sorted_perm_unique l1 : forall l2,
  StronglySorted name_le l1 -> StronglySorted name_le l2 -> NoDup (names l1) ->
  Permutation l1 l2 -> l1 = l2.
Proof.
  induction l1 as [|a l1 IH]; intros l2 S1 S2 ND P.
  - apply Permutation_nil in P. subst. reflexivity.
  - destruct l2 as [|b l2]; [apply Permutation_sym, Permutation_nil in P; discriminate|].
    inversion S1 as [|? ? S1' A1]; subst. inversion S2 as [|? ? S2' A2]; subst.
    rewrite Forall_forall in A1, A2.
    assert (Hab : a = b).
    { assert (Ia : In a (b :: l2)) by (apply (Permutation_in _ P); left; reflexivity).
      assert (Ib : In b (a :: l1)) by (apply (Permutation_in _ (Permutation_sym P)); left; reflexivity).
      destruct Ia as [->|Ia]; [reflexivity|]. destruct Ib as [->|Ib]; [reflexivity|].
      pose proof (A1 _ Ib) as L1. pose proof (A2 _ Ia) as L2.
      assert (En : p_name a = p_name b) by (apply bytes_leb_antisym; assumption).
      exfalso. cbn in ND. inversion ND as [|? ? Hnin _]; subst. apply Hnin. rewrite En.
      unfold names. apply in_map. exact Ib. }
    subst b. f_equal. apply IH; try assumption.
    + cbn in ND. inversion ND; assumption.
    + apply (Permutation_cons_inv P).
Qed.

Lemma get_pipes_order_independent ord1 ord2 :
  NoDup (names ord1) -> Permutation ord1 ord2 -> get_pipes ord1 = get_pipes ord2.
Proof.
  intros ND P.
  destruct (get_pipes_sorted_perm ord1) as (S1 & P1). destruct (get_pipes_sorted_perm ord2) as (S2 & P2).
  apply sorted_perm_unique; try assumption.
  - unfold names. apply (Permutation_NoDup (l := map p_name ord1)); [|exact ND].
    apply Permutation_map. symmetry. exact P1.
  - rewrite P1, P2. exact P.
Qed.

(* strictly increasing names *)
Lemma get_pipes_strict ord : NoDup (names ord) -> StronglySorted name_lt (get_pipes ord).
Proof.
  intros ND. destruct (get_pipes_sorted_perm ord) as (S & P).
  assert (ND' : NoDup (names (get_pipes ord))).
  { unfold names. apply (Permutation_NoDup (l := map p_name ord)); [|exact ND]. apply Permutation_map. symmetry. exact P. }
  revert S ND'. generalize (get_pipes ord) as l. induction l as [|a l IH]; intros S ND'; [constructor|].
  inversion S as [|? ? S' A]; subst. cbn in ND'. inversion ND' as [|? ? Hnin ND'']; subst.
  constructor; [apply IH; assumption|].
  rewrite Forall_forall in *. intros x Hx. pose proof (A x Hx) as L. unfold name_le, name_lt, bytes_leb in *.
  apply negb_true_iff in L. destruct (bytes_ltb (p_name a) (p_name x)) eqn:E; [reflexivity|].
  exfalso. apply Hnin. rewrite (bytes_trichotomy _ _ E L). unfold names. apply in_map. exact Hx.
Qed.

(* ---------- paging ---------- *)
Lemma skipn_add {A} (l : list A) off n : skipn n (skipn off l) = skipn (off + n) l.
Proof.
  revert l. induction off as [|off IH]; intros l; [reflexivity|].
  destruct l as [|x l]; [cbn; apply skipn_nil|]. cbn [skipn Nat.add]. apply IH.
Qed.

Lemma firstn_skipn_page {A} (l : list A) (off n : nat) :
  firstn n (skipn off l) ++ skipn (off + n) l = skipn off l.
Proof. rewrite <- skipn_add. apply firstn_skipn. Qed.

(* pages of size L starting at offsets 0, L, 2L, ... *)
Fixpoint pages (stms : list pipe) (L : nat) (off : nat) (n : nat) : list bytes :=
  match n with
  | O => []
  | S n' => match show_pipes stms (Z.of_nat L) (Z.of_nat off) with
            | Some (_, _, ns) => ns ++ pages stms L (off + L) n'
            | None => []
            end
  end.

Lemma wrap_int_small z : (- 2 ^ 63 <= z < 2 ^ 63)%Z -> wrap_int z = z.
Proof. intros H. unfold wrap_int. rewrite Z.mod_small by lia. lia. Qed.

Lemma wrap_int_over z : (2 ^ 63 <= z < 2 ^ 64)%Z -> wrap_int z = (z - 2 ^ 64)%Z.
Proof.
  intros H. unfold wrap_int.
  replace (z + 2 ^ 63)%Z with ((z - 2 ^ 63) + 1 * 2 ^ 64)%Z by lia.
  rewrite Z.mod_add by lia. rewrite Z.mod_small by lia. lia.
Qed.

Lemma firstn_min_len {A} (l : list A) (n m : nat) : length l <= m -> firstn (Nat.min n m) l = firstn n l.
Proof.
  intros H. destruct (Nat.le_ge_cases n m) as [Hn|Hn].
  - rewrite Nat.min_l by exact Hn. reflexivity.
  - rewrite Nat.min_r by exact Hn. rewrite !firstn_all2 by lia. reflexivity.
Qed.

Lemma skipn_min_len {A} (l : list A) (n : nat) : skipn (Nat.min n (length l)) l = skipn n l.
Proof.
  destruct (Nat.le_ge_cases n (length l)) as [Hn|Hn].
  - rewrite Nat.min_l by exact Hn. reflexivity.
  - rewrite Nat.min_r by exact Hn. rewrite !skipn_all2 by lia. reflexivity.
Qed.

(* the page in terms of nat-indexed firstn/skipn, for every limit and offset of the int64 range *)
Lemma show_pipes_page stms lim off : (0 <= off)%Z ->
  exists total shown, show_pipes stms lim off = Some (total, shown, names (firstn (Z.to_nat (Z.min shown (Z.of_nat (length stms)))) (skipn (Z.to_nat off) stms))).
Proof.
  intros Ho. unfold show_pipes. destruct (Z.ltb_spec off 0) as [E|_]; [lia|].
  eexists. eexists. f_equal. f_equal.
  replace (Z.to_nat (Z.min off (Z.of_nat (length stms)))) with (Nat.min (Z.to_nat off) (length stms)) by lia.
  rewrite skipn_min_len. reflexivity.
Qed.

Lemma show_pipes_names stms L off : 0 < L -> (Z.of_nat L + Z.of_nat off < 2 ^ 63)%Z ->
  show_pipes stms (Z.of_nat L) (Z.of_nat off) =
  Some (Z.of_nat (length stms),
        (if Z.ltb (Z.of_nat (length stms)) (Z.of_nat L + Z.of_nat off)
         then (if Z.ltb (Z.of_nat (length stms) - Z.of_nat off) 0 then 0 else Z.of_nat (length stms) - Z.of_nat off)
         else Z.of_nat L)%Z,
        names (firstn L (skipn off stms))).
Proof.
  intros HL Hb. unfold show_pipes.
  destruct (Z.eqb_spec (Z.of_nat L) 0) as [E|_]; [lia|].
  destruct (Z.ltb_spec (Z.of_nat off) 0) as [E|_]; [lia|].
  rewrite wrap_int_small by lia.
  f_equal. f_equal.
  replace (Z.to_nat (Z.min (Z.of_nat off) (Z.of_nat (length stms)))) with (Nat.min off (length stms)) by lia.
  rewrite skipn_min_len.
  destruct (Z.ltb_spec (Z.of_nat (length stms)) (Z.of_nat L + Z.of_nat off)) as [H1|H1].
  - destruct (Z.ltb_spec (Z.of_nat (length stms) - Z.of_nat off) 0) as [H2|H2].
    + rewrite skipn_all2 by lia. cbn. rewrite !firstn_nil. reflexivity.
    + replace (Z.to_nat (Z.min (Z.of_nat (length stms) - Z.of_nat off) (Z.of_nat (length stms)))) with (length stms - off) by lia.
      rewrite <- (skipn_length off stms). rewrite firstn_all.
      rewrite firstn_all2; [reflexivity|]. rewrite skipn_length. lia.
  - replace (Z.to_nat (Z.min (Z.of_nat L) (Z.of_nat (length stms)))) with L by lia. reflexivity.
Qed.

Lemma pages_cover stms L : 0 < L -> forall n off, (Z.of_nat (off + n * L) < 2 ^ 63)%Z -> length stms <= off + n * L ->
  pages stms L off n = names (skipn off stms).
Proof.
  intros HL. induction n as [|n IH]; intros off Hb Hn.
  - cbn in *. rewrite skipn_all2 by lia. reflexivity.
  - cbn [pages]. rewrite (show_pipes_names stms L off HL) by (cbn in Hb; lia).
    rewrite IH by (cbn in Hn, Hb; lia).
    unfold names. rewrite <- map_app. f_equal. apply firstn_skipn_page.
Qed.

(* any limit that is not smaller than the number of pipes, up to the largest int64 (where lim+offs wraps), lists
   the whole rest of the listing from the offset *)
Lemma show_pipes_rest stms lim off : (0 <= off < 2 ^ 63)%Z -> (0 < lim < 2 ^ 63)%Z -> (Z.of_nat (length stms) <= lim)%Z ->
  exists shown, show_pipes stms lim off = Some (Z.of_nat (length stms), shown, names (skipn (Z.to_nat off) stms)).
Proof.
  intros Ho Hl Hlen. unfold show_pipes.
  destruct (Z.eqb_spec lim 0) as [E|_]; [lia|].
  destruct (Z.ltb_spec off 0) as [E|_]; [lia|].
  eexists. f_equal. f_equal.
  replace (Z.to_nat (Z.min off (Z.of_nat (length stms)))) with (Nat.min (Z.to_nat off) (length stms)) by lia.
  rewrite skipn_min_len.
  apply f_equal. apply firstn_all2. rewrite skipn_length.
  destruct (Z.ltb_spec (Z.of_nat (length stms)) (wrap_int (lim + off))) as [H1|H1].
  - destruct (Z.ltb_spec (Z.of_nat (length stms) - off) 0) as [H2|H2]; lia.
  - lia.
Qed.

(* ---------- registry invariants over operation histories ---------- *)
Lemma lookup_none_notin r n : lookup r n = None -> ~ In n (names r).
Proof.
  unfold lookup, names. intros H Hin. apply in_map_iff in Hin as (p & <- & Hp).
  apply (find_none _ _ H) in Hp. rewrite bytes_eqb_refl in Hp. discriminate.
Qed.

Lemma lookup_some r n p : lookup r n = Some p -> In p r /\ p_name p = n.
Proof.
  unfold lookup. intros H. apply find_some in H as (Hin & E). apply bytes_eqb_eq in E. split; assumption.
Qed.

Lemma names_app r1 r2 : names (r1 ++ r2) = names r1 ++ names r2.
Proof. apply map_app. Qed.

Lemma remove_names_subset r n x : In x (names (remove r n)) -> In x (names r) /\ x <> n.
Proof.
  unfold names, remove. intros H. apply in_map_iff in H as (p & <- & Hp). apply filter_In in Hp as (Hp & E).
  split; [apply in_map; exact Hp|]. intros Heq. rewrite Heq, bytes_eqb_refl in E. discriminate.
Qed.

Lemma remove_nodup r n : NoDup (names r) -> NoDup (names (remove r n)).
Proof.
  unfold names, remove. induction r as [|p r IH]; cbn; intros H; [constructor|].
  inversion H as [|? ? Hnin Hnd]; subst.
  destruct (bytes_eqb (p_name p) n); cbn; [apply IH; exact Hnd|].
  constructor; [|apply IH; exact Hnd].
  intros Hin. apply Hnin. apply in_map_iff in Hin as (q & E & Hq). apply filter_In in Hq as (Hq & _).
  rewrite <- E. apply in_map. exact Hq.
Qed.

Lemma create_nodup r p v : NoDup (names r) -> NoDup (names (fst (create r p v))).
Proof.
  intros H. unfold create. destruct (lookup r (p_name p)) eqn:E; [exact H|].
  destruct v; [|exact H]. cbn. rewrite names_app. cbn.
  apply NoDup_app_comm || idtac.
  assert (Hn := lookup_none_notin _ _ E).
  clear E. induction (names r) as [|x l IH]; cbn; [constructor; [intros []|constructor]|].
  inversion H; subst. constructor.
  - rewrite in_app_iff. intros [Hx|[Hx|[]]]; [contradiction|]. apply Hn. left. symmetry. exact Hx.
  - apply IH; [assumption|]. intros Hin. apply Hn. right. exact Hin.
Qed.

Lemma ensure_go_nodup fuel r p v : NoDup (names r) -> NoDup (names (fst (ensure_go fuel r p v))).
Proof.
  revert r. induction fuel as [|f IH]; intros r H; cbn; [exact H|].
  destruct (lookup r (p_name p)); [destruct (_ || _); exact H|].
  apply IH. apply create_nodup. exact H.
Qed.

Lemma load_nodup file : NoDup (names (load file)).
Proof.
  unfold load. assert (G : forall acc, NoDup (names acc) ->
     NoDup (names (fold_left (fun r p => remove r (p_name p) ++ [p]) file acc))).
  { induction file as [|p file IH]; intros acc H; cbn; [exact H|]. apply IH.
    rewrite names_app. cbn. pose proof (remove_nodup acc (p_name p) H) as Hr.
    assert (Hn : ~ In (p_name p) (names (remove acc (p_name p)))).
    { intros Hin. apply remove_names_subset in Hin as (_ & Hne). congruence. }
    revert Hr Hn. generalize (names (remove acc (p_name p))) as l. induction l as [|x l IHl]; cbn; intros Hr Hn.
    - constructor; [intros []|constructor].
    - inversion Hr; subst. constructor.
      + rewrite in_app_iff. intros [Hx|[Hx|[]]]; [contradiction|]. apply Hn. left. symmetry. exact Hx.
      + apply IHl; [assumption|]. intros Hin. apply Hn. right. exact Hin. }
  apply G. constructor.
Qed.

Lemma delete_nodup r n : NoDup (names r) -> NoDup (names (fst (delete r n))).
Proof. intros H. unfold delete. destruct (lookup r n); cbn [fst]; [apply remove_nodup; exact H|exact H]. Qed.

Lemma ensure_c_go_nodup c fuel r p v : NoDup (names r) -> NoDup (names (fst (ensure_c_go c fuel r p v))).
Proof.
  revert r. induction fuel as [|f IH]; intros r H; cbn [ensure_c_go]; [exact H|].
  destruct (lookup r (p_name p)).
  - destruct (_ || _); [|exact H]. destruct c; [|exact H]. apply IH. apply delete_nodup. exact H.
  - apply IH. apply create_nodup. exact H.
Qed.

Lemma ensure_at_start_nodup cfg : forall r, NoDup (names r) -> NoDup (names (fst (ensure_at_start r cfg))).
Proof.
  induction cfg as [|[p v] cfg IH]; intros r H; cbn [ensure_at_start]; [exact H|].
  pose proof (ensure_c_go_nodup true 3 r p v H) as H1. unfold ensure_c.
  destruct (ensure_c_go true 3 r p v) as [r' [q|]]; cbn [fst] in *; [apply IH; exact H1|exact H1].
Qed.

Definition perm_ok (perm : reg -> reg) : Prop := forall r, Permutation (perm r) r.

Lemma step_nodup perm r o : NoDup (names r) -> NoDup (names (fst (step perm r o))).
Proof.
  intros H. destruct o as [p v|p v|n|l o|n| |cfg]; cbn [step].
  - pose proof (create_nodup r p v H) as H0. destruct (create r p v). exact H0.
  - pose proof (ensure_go_nodup 3 r p v H) as H0. unfold ensure. destruct (ensure_go 3 r p v). exact H0.
  - unfold delete. destruct (lookup r n); cbn [fst]; [apply remove_nodup; exact H|exact H].
  - exact H.
  - exact H.
  - apply load_nodup.
  - pose proof (ensure_at_start_nodup cfg _ (load_nodup (save (perm r)))) as H0.
    destruct (ensure_at_start (load (save (perm r))) cfg). exact H0.
Qed.

Lemma run_nodup perm ops : forall r, NoDup (names r) -> NoDup (names (fst (run perm r ops))).
Proof.
  induction ops as [|o ops IH]; intros r H; cbn; [exact H|].
  pose proof (step_nodup perm r o H) as H1. destruct (step perm r o) as [r' x]. cbn in H1.
  specialize (IH r' H1). destruct (run perm r' ops). exact IH.
Qed.

(* load after save keeps the registry as a set when names are unique *)
Lemma load_perm file : NoDup (names file) -> load file = file.
Proof.
  unfold load. assert (G : forall acc, NoDup (names (acc ++ file)) ->
     fold_left (fun r p => remove r (p_name p) ++ [p]) file acc = acc ++ file).
  { induction file as [|p file IH]; intros acc H; cbn; [rewrite app_nil_r; reflexivity|].
    assert (Hr : remove acc (p_name p) = acc).
    { unfold remove. apply forallb_filter_id || idtac.
      assert (Hn : ~ In (p_name p) (names acc)).
      { rewrite names_app in H. cbn in H. apply NoDup_remove_2 in H. intros Hin. apply H. apply in_or_app. left. exact Hin. }
      clear -Hn. induction acc as [|q acc IHa]; cbn; [reflexivity|].
      destruct (bytes_eqb (p_name q) (p_name p)) eqn:E.
      - exfalso. apply Hn. left. apply bytes_eqb_eq. exact E.
      - cbn. f_equal. apply IHa. intros Hin. apply Hn. right. exact Hin. }
    rewrite Hr. rewrite IH; rewrite <- app_assoc; [reflexivity|exact H]. }
  intros H. apply (G [] H).
Qed.

(* ---------- concurrent creates of one name ---------- *)
Definition cnt (v : nat) (l : list nat) : nat := length (filter (Nat.eqb v) l).
Lemma count_pc_cnt v s : count_pc v s = cnt v (c_pc s).
Proof. reflexivity. Qed.

Lemma cnt_set v l a old new : nth_error l a = Some old ->
  cnt v (firstn a l ++ new :: skipn (S a) l) + (if Nat.eqb v old then 1 else 0) =
  cnt v l + (if Nat.eqb v new then 1 else 0).
Proof.
  unfold cnt. revert a.
  induction l as [|x l IH]; intros a H; [destruct a; discriminate|].
  destruct a as [|a]; cbn in H.
  - injection H as ->. cbn [firstn skipn app filter]. destruct (Nat.eqb v old); destruct (Nat.eqb v new); cbn; lia.
  - cbn [firstn skipn app filter]. specialize (IH a H). cbn [skipn] in IH.
    destruct (Nat.eqb v x); cbn [length]; lia.
Qed.

Definition race_inv (s : cstate) : Prop :=
  (c_present s = true -> count_pc 2 s = 1) /\ (c_present s = false -> count_pc 2 s = 0 /\ count_pc 3 s = 0).

Lemma cstep_inv s a : race_inv s -> race_inv (cstep s a).
Proof.
  intros [Ht Hf]. unfold cstep. destruct (nth_error (c_pc s) a) as [[|[|pc]]|] eqn:E; try (split; assumption).
  - destruct (c_present s) eqn:P.
    + pose proof (cnt_set 2 _ a 0 3 E) as C2.
      split; rewrite !count_pc_cnt in *; cbn [c_present c_pc]; intros; [|discriminate].
      cbn [Nat.eqb] in C2. specialize (Ht eq_refl). lia.
    + destruct (Hf eq_refl) as (Z2 & Z3).
      pose proof (cnt_set 2 _ a 0 1 E) as C2. pose proof (cnt_set 3 _ a 0 1 E) as C3.
      split; rewrite !count_pc_cnt in *; cbn [c_present c_pc]; intros; [discriminate|].
      cbn [Nat.eqb] in C2, C3. lia.
  - destruct (c_present s) eqn:P.
    + pose proof (cnt_set 2 _ a 1 3 E) as C2.
      split; rewrite !count_pc_cnt in *; cbn [c_present c_pc]; intros; [|discriminate].
      cbn [Nat.eqb] in C2. specialize (Ht eq_refl). lia.
    + destruct (Hf eq_refl) as (Z2 & Z3).
      pose proof (cnt_set 2 _ a 1 2 E) as C2.
      split; rewrite !count_pc_cnt in *; cbn [c_present c_pc]; intros; [|discriminate].
      cbn [Nat.eqb] in C2. lia.
Qed.

Lemma crun_inv sched : forall s, race_inv s -> race_inv (crun sched s).
Proof.
  unfold crun. induction sched as [|a sched IH]; intros s H; cbn; [exact H|]. apply IH. apply cstep_inv. exact H.
Qed.

Definition all_done (s : cstate) : Prop := forall pc, In pc (c_pc s) -> pc = 2 \/ pc = 3.

Lemma cnt_repeat0 v K : v <> 0 -> cnt v (repeat 0 K) = 0.
Proof.
  intros Hv. unfold cnt. induction K as [|K IH]; cbn; [reflexivity|].
  destruct v; [congruence|]. cbn. exact IH.
Qed.

Lemma cstep_len s a : length (c_pc (cstep s a)) = length (c_pc s).
Proof.
  unfold cstep. destruct (nth_error (c_pc s) a) as [[|[|pc]]|] eqn:E; try reflexivity;
  cbn [c_pc]; rewrite app_length; cbn [length]; rewrite firstn_length, skipn_length;
  (assert (a < length (c_pc s)) by (apply nth_error_Some; congruence)); lia.
Qed.

Lemma crun_len sched : forall s, length (c_pc (crun sched s)) = length (c_pc s).
Proof.
  unfold crun. induction sched as [|a sched IH]; intros s; cbn; [reflexivity|].
  rewrite IH. apply cstep_len.
Qed.

Lemma race_exactly_one K sched :
  0 < K -> let s := crun sched {| c_present := false; c_pc := repeat 0 K |} in
  count_pc 2 s <= 1 /\ (all_done s -> count_pc 2 s = 1).
Proof.
  intros HK s.
  assert (I0 : race_inv {| c_present := false; c_pc := repeat 0 K |}).
  { split; cbn [c_present]; intros; [discriminate|]. rewrite !count_pc_cnt. cbn [c_pc].
    split; apply cnt_repeat0; lia. }
  pose proof (crun_inv sched _ I0) as [Ht Hf]. fold s in Ht, Hf.
  assert (Hlen : length (c_pc s) = K).
  { subst s. rewrite crun_len. cbn [c_pc]. apply repeat_length. }
  destruct (c_present s) eqn:P.
  - rewrite (Ht eq_refl). split; [lia|reflexivity].
  - destruct (Hf eq_refl) as (Z2 & Z3). split; [lia|]. intros Hd. exfalso.
    rewrite !count_pc_cnt in *. unfold all_done in Hd.
    destruct (c_pc s) as [|pc l] eqn:El; [cbn in Hlen; lia|].
    unfold cnt in Z2, Z3.
    destruct (Hd pc ltac:(left; reflexivity)) as [-> | ->]; cbn in Z2, Z3; lia.
Qed.

(* ---------- ensure / recreate ---------- *)
Lemma lookup_app_new r p : lookup r (p_name p) = None -> lookup (r ++ [p]) (p_name p) = Some p.
Proof.
  unfold lookup. induction r as [|q r IH]; cbn; intros H.
  - rewrite bytes_eqb_refl. reflexivity.
  - destruct (bytes_eqb (p_name q) (p_name p)); [discriminate|]. apply IH. exact H.
Qed.

Lemma ensure_same r p v q : lookup r (p_name p) = Some q -> p_from q = p_from p -> p_where q = p_where p ->
  ensure r p v = (r, Some q).
Proof.
  intros H Hf Hw. unfold ensure. cbn [ensure_go]. rewrite H, Hf, Hw, !bytes_eqb_refl. reflexivity.
Qed.

Lemma ensure_diff r p v q : lookup r (p_name p) = Some q -> (p_from q <> p_from p \/ p_where q <> p_where p) ->
  ensure r p v = (r, None).
Proof.
  intros H Hd. unfold ensure. cbn [ensure_go]. rewrite H.
  destruct (bytes_eqb (p_where q) (p_where p)) eqn:E1; destruct (bytes_eqb (p_from q) (p_from p)) eqn:E2; cbn; try reflexivity.
  apply bytes_eqb_eq in E1. apply bytes_eqb_eq in E2. destruct Hd; congruence.
Qed.

Lemma ensure_absent_valid r p : lookup r (p_name p) = None -> ensure r p true = (r ++ [p], Some p).
Proof.
  intros H. unfold ensure. cbn [ensure_go]. rewrite H.
  assert (Hc : create r p true = (r ++ [p], true)) by (unfold create; rewrite H; reflexivity).
  rewrite Hc. cbn [fst]. rewrite (lookup_app_new r p H). rewrite !bytes_eqb_refl. reflexivity.
Qed.

Lemma ensure_absent_invalid r p : lookup r (p_name p) = None -> ensure r p false = (r, None).
Proof.
  intros H. unfold ensure. cbn [ensure_go].
  assert (Hc : create r p false = (r, false)) by (unfold create; rewrite H; reflexivity).
  rewrite H, Hc. cbn [fst]. rewrite H, Hc. cbn [fst]. rewrite H, Hc. reflexivity.
Qed.

Lemma lookup_remove r n : lookup (remove r n) n = None.
Proof.
  unfold lookup, remove. induction r as [|q r IH]; cbn; [reflexivity|].
  destruct (bytes_eqb (p_name q) n) eqn:E; cbn; [exact IH|]. rewrite E. exact IH.
Qed.

Lemma lookup_remove_other r n m : m <> n -> lookup (remove r n) m = lookup r m.
Proof.
  intros Hne. unfold lookup, remove. induction r as [|q r IH]; cbn; [reflexivity|].
  destruct (bytes_eqb (p_name q) n) eqn:E; cbn.
  - apply bytes_eqb_eq in E. destruct (bytes_eqb (p_name q) m) eqn:E2; [apply bytes_eqb_eq in E2; congruence|exact IH].
  - destruct (bytes_eqb (p_name q) m); [reflexivity|exact IH].
Qed.
