(* The documented meaning of WHERE expressions on an abstract tree (Cond | Not | And | Or), the text
   with parentheses only where precedence needs them, and the theorem tying parse, build and meaning. *)
From LR Require Import lib.Base model.LqlAst model.LqlLex model.LqlParse model.LqlPrint model.LqlEval.
From LR Require Import proofs.LqlParseP proofs.LqlEvalP.
From Coq Require Import Strings.String.
Local Open Scope string_scope.
Local Open Scope list_scope.

Inductive bexp := BCond (c : cond) | BNot (b : bexp) | BAnd (a b : bexp) | BOr (a b : bexp).

Fixpoint or_app (e1 e2 : expr) : expr := match e1 with Or1 o => OrS o e2 | OrS o r => OrS o (or_app r e2) end.
Fixpoint and_app (o1 o2 : orc) : orc := match o1 with And1 x => AndS x o2 | AndS x r => AndS x (and_app r o2) end.

(* the tree the grammar yields for b written with parentheses only where precedence needs them
   (NOT binds tighter than AND, AND tighter than OR; NOT NOT is not in the grammar, so it is NOT ( NOT .. )).
   One structural pass computes the three views of b: as an Expression, as an OrCondition, as an XCondition. *)
Fixpoint tr (b : bexp) : expr * orc * xc :=
  match b with
  | BCond c => let x := X false (BC c) in (Or1 (And1 x), And1 x, x)
  | BNot b' => let x := match b' with BCond c => X true (BC c) | _ => X true (BP (fst (fst (tr b')))) end in
               (Or1 (And1 x), And1 x, x)
  | BAnd a c => let o := and_app (snd (fst (tr a))) (snd (fst (tr c))) in (Or1 o, o, X false (BP (Or1 o)))
  | BOr a c => let e := or_app (fst (fst (tr a))) (fst (fst (tr c))) in
               let x := X false (BP e) in (e, And1 x, x)
  end.
Definition to_expr (b : bexp) : expr := fst (fst (tr b)).
Definition to_orc (b : bexp) : orc := snd (fst (tr b)).
Definition to_xc (b : bexp) : xc := snd (tr b).

(* the tokens of the minimal-parentheses text of b *)
Definition show (b : bexp) : list token := tk_expr (to_expr b).

Fixpoint all_bconds (p : cond -> bool) (b : bexp) : bool :=
  match b with
  | BCond c => p c
  | BNot b => all_bconds p b
  | BAnd a b | BOr a b => all_bconds p a && all_bconds p b
  end.

(* a condition as it can be written: a grammar operator, and an operand that is not the word NOT *)
Definition writable_cond (c : cond) : bool := wf_cond c && negb (starts_not (BC c)).

Lemma wf_or_app e1 e2 : wf_expr (or_app e1 e2) = wf_expr e1 && wf_expr e2.
Proof. induction e1 as [o|o r IH]; cbn [or_app wf_expr]; [reflexivity| rewrite IH; apply andb_assoc]. Qed.
Lemma wf_and_app o1 o2 : wf_orc (and_app o1 o2) = wf_orc o1 && wf_orc o2.
Proof. induction o1 as [x|x r IH]; cbn [and_app wf_orc]; [reflexivity| rewrite IH; apply andb_assoc]. Qed.

Lemma wf_tr b : all_bconds writable_cond b = true ->
  wf_expr (to_expr b) = true /\ wf_orc (to_orc b) = true /\ wf_xc (to_xc b) = true.
Proof.
  unfold to_expr, to_orc, to_xc.
  induction b as [c | b IH | a IHa c IHc | a IHa c IHc]; cbn [all_bconds]; intros H.
  - unfold writable_cond in H. apply andb_true_iff in H as [H1 H2].
    cbn [tr fst snd wf_expr wf_orc wf_xc wf_body orb]. rewrite H1, H2. repeat split.
  - cbn [tr fst snd wf_expr wf_orc].
    assert (Hx : wf_xc (match b with BCond c => X true (BC c) | _ => X true (BP (fst (fst (tr b)))) end) = true).
    { destruct b as [c| | |].
      - cbn [all_bconds] in H. unfold writable_cond in H. apply andb_true_iff in H as [H1 _].
        cbn [wf_xc wf_body orb]. rewrite H1. reflexivity.
      - destruct (IH H) as (He & _ & _). cbn [wf_xc wf_body orb]. rewrite He. reflexivity.
      - destruct (IH H) as (He & _ & _). cbn [wf_xc wf_body orb]. rewrite He. reflexivity.
      - destruct (IH H) as (He & _ & _). cbn [wf_xc wf_body orb]. rewrite He. reflexivity. }
    repeat split; exact Hx.
  - apply andb_true_iff in H as [Ha Hc].
    destruct (IHa Ha) as (_ & Hoa & _). destruct (IHc Hc) as (_ & Hoc & _).
    cbn [tr fst snd].
    assert (Ho : wf_orc (and_app (snd (fst (tr a))) (snd (fst (tr c)))) = true) by (rewrite wf_and_app, Hoa, Hoc; reflexivity).
    cbn [wf_expr wf_xc wf_body starts_not orb negb]. rewrite Ho. repeat split.
  - apply andb_true_iff in H as [Ha Hc].
    destruct (IHa Ha) as (Hea & _ & _). destruct (IHc Hc) as (Hec & _ & _).
    cbn [tr fst snd].
    assert (He : wf_expr (or_app (fst (fst (tr a))) (fst (fst (tr c)))) = true) by (rewrite wf_or_app, Hea, Hec; reflexivity).
    cbn [wf_orc wf_xc wf_body starts_not orb negb]. rewrite He. repeat split.
Qed.

Lemma all_conds_or_app p e1 e2 : all_conds_expr p (or_app e1 e2) = all_conds_expr p e1 && all_conds_expr p e2.
Proof. induction e1 as [o|o r IH]; cbn [or_app]; rewrite ?all_conds_OrS; [reflexivity| rewrite IH; apply andb_assoc]. Qed.
Lemma all_conds_and_app p o1 o2 : all_conds_orc p (and_app o1 o2) = all_conds_orc p o1 && all_conds_orc p o2.
Proof. induction o1 as [x|x r IH]; cbn [and_app]; rewrite ?all_conds_AndS; [reflexivity| rewrite IH; apply andb_assoc]. Qed.

Lemma all_conds_tr p b :
  all_conds_expr p (to_expr b) = all_bconds p b /\ all_conds_orc p (to_orc b) = all_bconds p b /\
  all_conds_xc p (to_xc b) = all_bconds p b.
Proof.
  unfold to_expr, to_orc, to_xc.
  induction b as [c | b IH | a IHa c IHc | a IHa c IHc]; cbn [all_bconds].
  - repeat split.
  - cbn [tr fst snd].
    assert (Hx : all_conds_xc p (match b with BCond c => X true (BC c) | _ => X true (BP (fst (fst (tr b)))) end) = all_bconds p b).
    { destruct IH as (He & _ & _). destruct b; [reflexivity| | |]; exact He. }
    repeat split; exact Hx.
  - destruct IHa as (_ & Hoa & _). destruct IHc as (_ & Hoc & _). cbn [tr fst snd].
    assert (Ho : all_conds_orc p (and_app (snd (fst (tr a))) (snd (fst (tr c)))) = all_bconds p a && all_bconds p c)
      by (rewrite all_conds_and_app, Hoa, Hoc; reflexivity).
    repeat split; exact Ho.
  - destruct IHa as (Hea & _ & _). destruct IHc as (Hec & _ & _). cbn [tr fst snd].
    assert (He : all_conds_expr p (or_app (fst (fst (tr a))) (fst (fst (tr c)))) = all_bconds p a && all_bconds p c)
      by (rewrite all_conds_or_app, Hea, Hec; reflexivity).
    repeat split; exact He.
Qed.

Section Meaning.
  Variable pmatch : bytes -> bytes -> option bool.
  Variable to_upper : bytes -> bytes.
  Variable to_lower : bytes -> bytes.
  Variable parse_time : bytes -> option Z.

  Notation ref_cond := (ref_cond pmatch to_upper to_lower parse_time).
  Notation ev_expr := (ev_expr pmatch to_upper to_lower parse_time).
  Notation ev_orc := (ev_orc pmatch to_upper to_lower parse_time).
  Notation ev_xc := (ev_xc pmatch to_upper to_lower parse_time).
  Notation evaluable_cond := (evaluable_cond pmatch to_upper to_lower parse_time).

  (* the documented meaning: NOT, AND, OR as Boolean connectives over the meaning of the conditions *)
  Fixpoint ref (b : bexp) (ev : revent) : bool :=
    match b with
    | BCond c => ref_cond c ev
    | BNot b => negb (ref b ev)
    | BAnd a b => ref a ev && ref b ev
    | BOr a b => ref a ev || ref b ev
    end.

  Lemma ev_or_app e1 e2 ev : ev_expr (or_app e1 e2) ev = ev_expr e1 ev || ev_expr e2 ev.
  Proof. induction e1 as [o|o r IH]; cbn [or_app]; rewrite ?ev_expr_OrS; [reflexivity| rewrite IH; apply orb_assoc]. Qed.
  Lemma ev_and_app o1 o2 ev : ev_orc (and_app o1 o2) ev = ev_orc o1 ev && ev_orc o2 ev.
  Proof. induction o1 as [x|x r IH]; cbn [and_app]; rewrite ?ev_orc_AndS; [reflexivity| rewrite IH; apply andb_assoc]. Qed.

  Lemma ev_to b ev : ev_expr (to_expr b) ev = ref b ev /\ ev_orc (to_orc b) ev = ref b ev /\ ev_xc (to_xc b) ev = ref b ev.
  Proof.
    unfold to_expr, to_orc, to_xc.
    induction b as [c | b IH | a IHa c IHc | a IHa c IHc].
    - repeat split.
    - destruct IH as (He & _ & _). cbn [tr fst snd ref].
      assert (Hx : ev_xc (match b with BCond c => X true (BC c) | _ => X true (BP (fst (fst (tr b)))) end) ev = negb (ref b ev)).
      { destruct b; [reflexivity| | |]; rewrite ev_xc_X; cbn [LqlEval.ev_body]; rewrite <- He; reflexivity. }
      repeat split; exact Hx.
    - destruct IHa as (_ & Hoa & _). destruct IHc as (_ & Hoc & _). cbn [tr fst snd ref].
      assert (Ho : ev_orc (and_app (snd (fst (tr a))) (snd (fst (tr c)))) ev = ref a ev && ref c ev)
        by (rewrite ev_and_app, Hoa, Hoc; reflexivity).
      repeat split; exact Ho.
    - destruct IHa as (Hea & _ & _). destruct IHc as (Hec & _ & _). cbn [tr fst snd ref].
      assert (He : ev_expr (or_app (fst (fst (tr a))) (fst (fst (tr c)))) ev = ref a ev || ref c ev)
        by (rewrite ev_or_app, Hea, Hec; reflexivity).
      repeat split; exact He.
  Qed.

  (* C05 core *)
  Theorem meaning b :
    all_bconds writable_cond b = true -> all_bconds evaluable_cond b = true ->
    exists e f, parse_expr_tokens (show b) = Some e /\
                build_where pmatch to_upper to_lower parse_time (Some e) = Some (Some f) /\
                forall ev, revent_ok ev -> f (impl_event ev) = Ok (ref b ev).
  Proof.
    intros Hw He. exists (to_expr b).
    destruct (wf_tr b Hw) as (Hwe & _ & _).
    destruct (all_conds_tr evaluable_cond b) as (Hall & _ & _). rewrite He in Hall.
    destruct (proj1 (b_expr_ok pmatch to_upper to_lower parse_time) (to_expr b) Hall None) as (f & Hb & Hf).
    exists f. split; [exact (parse_print_expr _ Hwe)|]. split; [exact Hb|].
    intros ev Hev. rewrite (Hf ev Hev). f_equal. apply ev_to.
  Qed.
End Meaning.
