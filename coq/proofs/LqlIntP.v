(* fmt.Sprintf("%d") and strconv.ParseInt(.., 0, 64) as modelled (pr_Z, parse_int) are inverse on int64. *)
From LR Require Import lib.Base model.LqlAst model.LqlLex model.LqlParse model.LqlPrint.
From Coq Require Import ZifyN ZifyNat ZifyBool.
Ltac Zify.zify_post_hook ::= Z.div_mod_to_equations.

Definition digit (n : N) : byte := match Byte.of_N (48 + n mod 10) with Some b => b | None => x30 end.

Lemma digit_bn n : bn (digit n) = (48 + n mod 10)%N.
Proof.
  unfold digit, bn. destruct (Byte.of_N (48 + n mod 10)) as [b|] eqn:E.
  - apply Byte.to_of_N in E. exact E.
  - apply Byte.of_N_None_iff in E. lia.
Qed.

Lemma dec_digits_unfold f n acc :
  dec_digits (S f) n acc = if N.ltb n 10 then digit n :: acc else dec_digits f (n / 10) (digit n :: acc).
Proof. reflexivity. Qed.

Lemma digits_val_digit n acc a : digits_val 10 (digit n :: acc) a = digits_val 10 acc (a * 10 + Z.of_N (n mod 10))%Z.
Proof.
  cbn [digits_val]. rewrite digit_bn.
  replace (Z.of_N (48 + n mod 10) - 48)%Z with (Z.of_N (n mod 10)) by lia.
  replace ((0 <=? Z.of_N (n mod 10))%Z && (Z.of_N (n mod 10) <? 10)%Z) with true; [reflexivity|].
  symmetry. apply andb_true_iff. split; [apply Z.leb_le; lia | apply Z.ltb_lt; lia].
Qed.

Fixpoint shift (f : nat) (a : Z) (n : N) : Z :=
  match f with
  | O => a
  | S f' => if N.ltb n 10 then (a * 10 + Z.of_N n)%Z else (shift f' a (n / 10) * 10 + Z.of_N (n mod 10))%Z
  end.

Lemma dec_val : forall f n acc a, digits_val 10 (dec_digits f n acc) a = digits_val 10 acc (shift f a n).
Proof.
  induction f as [|f IH]; intros n acc a; [reflexivity|].
  rewrite dec_digits_unfold. cbn [shift]. destruct (N.ltb n 10) eqn:E.
  - rewrite digits_val_digit. apply N.ltb_lt in E. replace (n mod 10)%N with n by lia. reflexivity.
  - rewrite IH. rewrite digits_val_digit. reflexivity.
Qed.

Lemma shift_zero : forall f n, (n < 10 ^ N.of_nat f)%N -> shift f 0 n = Z.of_N n.
Proof.
  induction f as [|f IH]; intros n H.
  - cbn in H. cbn. lia.
  - cbn [shift]. destruct (N.ltb n 10) eqn:E; [lia|].
    apply N.ltb_ge in E. rewrite IH; [lia|].
    rewrite Nat2N.inj_succ, N.pow_succ_r' in H. lia.
Qed.

Lemma head_digit : forall f n acc, (0 < n)%N -> (n < 10 ^ N.of_nat f)%N ->
  exists b r, dec_digits f n acc = b :: r /\ (49 <= bn b <= 57)%N.
Proof.
  induction f as [|f IH]; intros n acc H0 H.
  - cbn in H. lia.
  - rewrite dec_digits_unfold. destruct (N.ltb n 10) eqn:E.
    + apply N.ltb_lt in E. eexists _, _. split; [reflexivity|]. rewrite digit_bn. lia.
    + apply N.ltb_ge in E. apply IH; [lia|]. rewrite Nat2N.inj_succ, N.pow_succ_r' in H. lia.
Qed.

Lemma pr_N_parse n : (0 < n)%N -> (n < 2 ^ 64)%N ->
  exists b r, pr_N n = b :: r /\ (49 <= bn b <= 57)%N /\ digits_val 10 (pr_N n) 0 = Some (Z.of_N n).
Proof.
  intros H0 H. assert (Hb : (n < 10 ^ N.of_nat 40)%N).
  { eapply N.lt_le_trans; [exact H|]. vm_compute. discriminate. }
  unfold pr_N. destruct (head_digit 40 n [] H0 Hb) as (b & r & E & Hd).
  exists b, r. split; [exact E|]. split; [exact Hd|].
  rewrite dec_val. cbn [digits_val]. rewrite shift_zero by exact Hb. reflexivity.
Qed.

Lemma is_byte_false k b : bn b <> k -> is_byte k b = false.
Proof. intros H. unfold is_byte. apply N.eqb_neq. exact H. Qed.

Theorem parse_int_pr_Z z : (- 9223372036854775808 <= z <= 9223372036854775807)%Z -> parse_int (pr_Z z) = Some z.
Proof.
  intros Hz. destruct z as [|p|p].
  - reflexivity.
  - cbn [pr_Z]. destruct (pr_N_parse (Npos p)) as (b & r & E & Hd & Hv); [lia|lia|].
    unfold parse_int. rewrite E.
    rewrite (is_byte_false 45 b) by lia. rewrite (is_byte_false 43 b) by lia. rewrite (is_byte_false 48 b) by lia.
    rewrite <- E, Hv. cbn [Z.of_N].
    replace ((Z.pos p <? -9223372036854775808)%Z || (9223372036854775807 <? Z.pos p)%Z) with false; [reflexivity|].
    symmetry. apply orb_false_iff. split; [apply Z.ltb_ge; lia|apply Z.ltb_ge; lia].
  - cbn [pr_Z]. destruct (pr_N_parse (Npos p)) as (b & r & E & Hd & Hv); [lia|lia|].
    unfold parse_int. change (is_byte 45 x2d) with true. cbv iota.
    rewrite E. rewrite (is_byte_false 48 b) by lia.
    rewrite <- E, Hv. cbn [Z.of_N Z.opp].
    replace ((Z.neg p <? -9223372036854775808)%Z || (9223372036854775807 <? Z.neg p)%Z) with false; [reflexivity|].
    symmetry. apply orb_false_iff. split; [apply Z.ltb_ge; lia|apply Z.ltb_ge; lia].
Qed.
