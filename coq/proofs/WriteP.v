(* Lemmas about model/Write.v: Service.Write appends exactly the pending events of its iterator to the
   partition, for every chunk size; histories of requests refine "a partition is the list of its
   acknowledged events"; reading back returns that list. *)
From LR Require Import lib.Base model.XBinary model.LogEvent model.Wire model.Journal model.Write.
From LR Require Import proofs.XBinaryP proofs.LogEventP proofs.WireP proofs.JournalP.
From Coq Require Import ZifyN ZifyNat ZifyBool.
Open Scope Z_scope.

(* the record iwrapper.Get makes of an event *)
Definition iw_rec (e : levent) : bytes := marshal_into (writable_size e) e.

Lemma iw_rec_ok e : le_ok e -> iw_rec e = marshal_le e.
Proof. apply marshal_into_ok. Qed.

Lemma firstn_skipn_nil {A : Type} (k : nat) (l : list A) : skipn k l = [] -> firstn k l = l.
Proof. intros H. rewrite <- (firstn_skipn k l) at 2. rewrite H, app_nil_r. reflexivity. Qed.

(* a model.Iterator that never fails, in the three-place form of the laws *)
Definition nofail {St R : Type} (Rep : St -> list R -> Prop) : St -> list R -> bool -> Prop :=
  fun s l fl => fl = false /\ Rep s l.

(* ---------- the accepted prefix of a batch ---------- *)
Lemma fit_prefix_length mr evs : (length (fit_prefix mr evs) <= length evs)%nat.
Proof. induction evs as [|e tl IH]; cbn [fit_prefix length]; [lia|]. destruct (too_big mr e); cbn [length]; lia. Qed.

Lemma fit_prefix_fits mr evs : Forall (fun e => too_big mr e = false) (fit_prefix mr evs).
Proof.
  induction evs as [|e tl IH]; cbn [fit_prefix]; [constructor|].
  destruct (too_big mr e) eqn:E; constructor; assumption.
Qed.

Lemma fit_prefix_all mr evs : has_big mr evs = false -> fit_prefix mr evs = evs.
Proof.
  unfold has_big. induction evs as [|e tl IH]; cbn [fit_prefix existsb]; [reflexivity|].
  intros H. apply orb_false_iff in H as [H1 H2]. rewrite H1, IH by exact H2. reflexivity.
Qed.

Lemma fit_prefix_incl mr evs e : In e (fit_prefix mr evs) -> In e evs.
Proof.
  induction evs as [|x tl IH]; cbn [fit_prefix]; [intros []|].
  destruct (too_big mr x); [intros []|]. intros [->|H]; [left; reflexivity|right; apply IH; exact H].
Qed.

(* ---------- the iwrapper lifts the laws of the wrapped iterator to records ---------- *)
Section IWrapperLaws.
Variable T : Type.
Variable lit_get : T -> T * outcome (option levent).
Variable lit_next : T -> T.
Variable RepL : T -> list levent -> bool -> Prop.
Hypothesis lawsL : iter_laws lit_get lit_next RepL.
Variable mr : Z.

(* pending records: those of the events before the first oversize one; the record iterator fails at the end when
   there is such an event or when the wrapped iterator fails *)
Definition rep_iw (s : T) (recs : list bytes) (fl : bool) : Prop :=
  exists evs flL, RepL s evs flL /\ recs = map iw_rec (fit_prefix mr evs) /\ fl = (has_big mr evs || flL).

Lemma iw_laws : iter_laws (iw_get T lit_get mr) (iw_next T lit_next) rep_iw.
Proof.
  destruct lawsL as [Leof Lget]. split.
  - intros s fl (evs & flL & HR & E & ->). destruct evs as [|e tl].
    + destruct (Leof s flL HR) as (s' & Hg & HR'). exists s'. unfold iw_get. rewrite Hg. cbn [has_big existsb orb].
      split; [destruct flL; reflexivity|]. exists [], flL. repeat split. exact HR'.
    + cbn [fit_prefix] in E. destruct (too_big mr e) eqn:Eb; [|discriminate].
      destruct (Lget s e tl flL HR) as (s' & Hg & HR' & _). exists s'. unfold iw_get. rewrite Hg, Eb.
      unfold has_big. cbn [existsb]. rewrite Eb. cbn [orb end_res].
      split; [reflexivity|]. exists (e :: tl), flL. cbn [fit_prefix]. rewrite Eb. unfold has_big. cbn [existsb]. rewrite Eb.
      repeat split. exact HR'.
  - intros s r l fl (evs & flL & HR & E & ->). destruct evs as [|e tl]; [discriminate|].
    cbn [fit_prefix] in E. destruct (too_big mr e) eqn:Eb; [discriminate|]. cbn [map] in E. injection E as -> ->.
    destruct (Lget s e tl flL HR) as (s' & Hg & HR' & HRn). exists s'. unfold iw_get, iw_next. rewrite Hg, Eb.
    assert (Hb : has_big mr (e :: tl) = has_big mr tl) by (unfold has_big; cbn [existsb]; rewrite Eb; reflexivity).
    split; [reflexivity|]. split.
    + exists (e :: tl), flL. cbn [fit_prefix]. rewrite Eb. repeat split. exact HR'.
    + exists tl, flL. rewrite Hb. repeat split. exact HRn.
Qed.
End IWrapperLaws.

(* ---------- Service.Write's loop over any record iterator obeying the protocol ---------- *)
Section ServiceLoop.
Variable St : Type.
Variable g : St -> St * outcome (option bytes).
Variable nx : St -> St.
Variable Rep : St -> list bytes -> bool -> Prop.
Hypothesis laws : iter_laws g nx Rep.

(* the loop drains the iterator into the journal: the flattened journal grows by exactly the pending records, in
   order, each once; the write fails exactly when the iterator ends with an error *)
Lemma sw_loop_spec : forall rounds fuel cfg j s we l fl, 0 < max_chunk cfg -> Rep s l fl ->
  (length l < rounds)%nat -> (length l < fuel)%nat ->
  exists j' s' we', sw_loop St g nx rounds fuel cfg j s we = Ok (j', s', we', fl) /\
    flat j' = flat j ++ l /\ Rep s' [] fl.
Proof.
  induction rounds as [|rd IH]; intros fuel cfg j s we l fl Hmax HR Hr Hf; [lia|].
  cbn [sw_loop].
  destruct (journal_write_spec St g nx Rep laws fuel cfg j s l fl Hmax HR Hf)
    as (k & j1 & s1 & pos & e & Hjw & Hfl & HR1 & Hk & Hne & Hnil).
  rewrite Hjw. cbn [obind].
  destruct l as [|r l'].
  - (* nothing pending: the call reports how the iterator ended *)
    rewrite (Hnil eq_refl). cbn [length] in Hk. assert (k = O) by lia. subst k.
    cbn [firstn skipn] in *. rewrite app_nil_r in Hfl.
    destruct fl; cbn [end_err].
    + eexists j1, s1, _. split; [reflexivity|]. rewrite app_nil_r. split; [exact Hfl|exact HR1].
    + destruct (proj1 laws s1 false HR1) as (s2 & Hg & HR2). rewrite Hg. cbn [end_res].
      eexists j1, s2, _. split; [reflexivity|]. rewrite app_nil_r. split; [exact Hfl|exact HR2].
  - destruct (Hne ltac:(discriminate)) as [Hk1 ->].
    destruct (skipn k (r :: l')) as [|r2 l2] eqn:Esk.
    + (* everything written: the between-rounds Get tells how the iterator ends *)
      destruct (proj1 laws s1 fl HR1) as (s2 & Hg & HR2). rewrite Hg.
      assert (Hall : firstn k (r :: l') = r :: l') by (apply firstn_skipn_nil; exact Esk).
      destruct fl; cbn [end_res]; eexists j1, s2, _; (split; [reflexivity|]); (split; [rewrite Hfl, Hall; reflexivity|exact HR2]).
    + (* more pending: the next round continues with the rest *)
      destruct (proj2 laws s1 r2 l2 fl HR1) as (s2 & Hg & HR2 & _). rewrite Hg.
      assert (Hlen : length (skipn k (r :: l')) = (length (r :: l') - k)%nat) by apply skipn_length.
      rewrite Esk in Hlen.
      match goal with |- context [sw_loop _ _ _ rd fuel cfg j1 s2 ?w] =>
        destruct (IH fuel cfg j1 s2 w (r2 :: l2) fl Hmax HR2 ltac:(lia) ltac:(lia)) as (j' & s' & we' & Hrun & Hfl' & HR') end.
      exists j', s', we'. split; [exact Hrun|]. split; [|exact HR'].
      rewrite Hfl', Hfl, <- Esk, <- app_assoc, firstn_skipn. reflexivity.
Qed.

End ServiceLoop.

(* ---------- the two concrete iterators obey the protocol ---------- *)
Lemma ls_laws : iter_laws ls_get ls_next (nofail (fun (l evs : list levent) => l = evs)).
Proof.
  split.
  - intros s fl (-> & ->). exists []. repeat split.
  - intros s r l fl (-> & ->). exists (r :: l). repeat split.
Qed.

Lemma wp_laws fparse : iter_laws (wp_get fparse) wp_next (nofail (wp_rep fparse)).
Proof.
  split.
  - intros s fl (-> & HR). destruct (wp_law_eof fparse s HR) as (s' & Hg & HR'). exists s'. repeat split; assumption.
  - intros s r l fl (-> & HR). destruct (wp_law_get fparse s r l HR) as (s' & Hg & HR' & HRn). exists s'. repeat split; assumption.
Qed.

(* ---------- partitions ---------- *)
Lemma srv_get_set_same s k j : srv_get (srv_set s k j) k = j.
Proof.
  induction s as [|[k' j'] tl IH]; cbn [srv_set srv_get].
  - rewrite bytes_eqb_refl. reflexivity.
  - destruct (bytes_eqb k' k) eqn:E; cbn [srv_get]; rewrite E; [reflexivity|exact IH].
Qed.

Lemma srv_get_set_other s k k2 j : k <> k2 -> srv_get (srv_set s k j) k2 = srv_get s k2.
Proof.
  intros Hne. induction s as [|[k' j'] tl IH]; cbn [srv_set srv_get].
  - destruct (bytes_eqb k k2) eqn:E; [apply bytes_eqb_eq in E; contradiction|reflexivity].
  - destruct (bytes_eqb k' k) eqn:E; cbn [srv_get].
    + apply bytes_eqb_eq in E. subst k'.
      destruct (bytes_eqb k k2) eqn:E2; [apply bytes_eqb_eq in E2; contradiction|reflexivity].
    + destruct (bytes_eqb k' k2); [reflexivity|exact IH].
Qed.

Definition content (srv : server) (key : bytes) : list bytes := flat (srv_get srv key).

Definition total (f : bytes -> outcome bytes) : Prop := forall b, f b = Err \/ exists v, f b = Ok v.

Lemma read_records_ok cfg recs : Forall (fun r => Z.of_nat (length r) <= max_rec cfg) recs -> read_records cfg recs = Ok recs.
Proof.
  induction 1 as [|r tl Hr _ IH]; cbn [read_records]; [reflexivity|].
  destruct (Z.ltb_spec (max_rec cfg) (Z.of_nat (length r))); [lia|]. rewrite IH. reflexivity.
Qed.

Section WithEnv.
Variable fparse : bytes -> outcome bytes.
Variable norm : bytes -> outcome bytes.
Variable as_kv : bytes -> bytes.
Hypothesis fparse_total : total fparse.
Hypothesis norm_total : total norm.

Lemma svc_write_spec (T : Type) g nx (RepL : T -> list levent -> bool -> Prop) (laws : iter_laws g nx RepL) :
  forall fuel cfg srv tags it key evs flL, 0 < max_chunk cfg -> norm tags = Ok key -> RepL it evs flL -> (length evs < fuel)%nat ->
  exists j' we, svc_write norm T g nx fuel cfg srv tags it =
                Ok (srv_set srv key j', {| r_ack := negb (has_big (w_limit cfg) evs || flL); r_we := we |}) /\
    flat j' = content srv key ++ map iw_rec (fit_prefix (w_limit cfg) evs).
Proof.
  clear as_kv. intros fuel cfg srv tags it key evs flL Hmax Hn HR Hf. unfold svc_write. rewrite Hn.
  assert (HRi : rep_iw T RepL (w_limit cfg) it (map iw_rec (fit_prefix (w_limit cfg) evs)) (has_big (w_limit cfg) evs || flL))
    by (exists evs, flL; repeat split; exact HR).
  assert (Hl : (length (map iw_rec (fit_prefix (w_limit cfg) evs)) < fuel)%nat)
    by (rewrite map_length; pose proof (fit_prefix_length (w_limit cfg) evs); lia).
  destruct (sw_loop_spec T _ _ _ (iw_laws T g nx RepL laws (w_limit cfg)) fuel fuel cfg (srv_get srv key) it None _ _ Hmax HRi Hl Hl)
    as (j' & s' & we' & Hrun & Hfl & _).
  rewrite Hrun. cbn [obind]. exists j', we'. split; [reflexivity|exact Hfl].
Qed.

Lemma svc_write_rejected (T : Type) g nx fuel cfg srv tags (it : T) : norm tags = Err ->
  svc_write norm T g nx fuel cfg srv tags it = Ok (srv, {| r_ack := false; r_we := None |}).
Proof. intros H. unfold svc_write. rewrite H. reflexivity. Qed.

(* requests a client can make: Go-representable sizes; the stored events are Go-representable *)
Definition req_ok (r : req) : Prop :=
  match r with
  | RpcW op => len_ok (w_tags op) /\ len_ok (w_flds op) /\ count_ok (w_evs op) /\ Forall ae_ok (w_evs op)
  | DirW _ _ => True
  | RawW _ => False
  end.
Definition req_len (r : req) : nat :=
  match r with
  | RpcW op => length (w_evs op)
  | DirW _ evs => length evs
  | RawW body => length body
  end.

Lemma spec_levent_eq wf e : spec_levent fparse wf e = wp_levent fparse wf e.
Proof. reflexivity. Qed.

(* one request: acknowledged exactly when the specification says so; the partition named by its tags grows by
   exactly the events the specification names (the whole batch, or its prefix before the first oversize event
   when it is rejected for that), every other partition is untouched *)
Lemma do_req_spec fuel cfg srv r : 0 < max_chunk cfg -> req_ok r -> (req_len r < fuel)%nat ->
  exists srv' res, do_req fparse norm fuel cfg srv r = Ok (srv', res) /\ r_ack res = spec_ack fparse norm cfg r /\
    forall key, content srv' key = content srv key ++ map iw_rec (spec_req fparse norm cfg key r).
Proof.
  intros Hmax Hok Hf. destruct r as [op|tags evs|body]; cbn [req_ok req_len] in *; [| |contradiction].
  - (* RPC *)
    destruct Hok as (Ht & Hfl & Hc & Hevs).
    cbn [do_req]. unfold rpc_write, ingest, ingest_v. rewrite wp_init_encode by assumption.
    unfold spec_ack, spec_req. cbn [spec_batch].
    destruct (fparse_total (w_flds op)) as [E|(wf & E)]; rewrite E; cbn [obind].
    + exists srv, {| r_ack := false; r_we := None |}. repeat split. intros key. cbn [map]. rewrite app_nil_r. reflexivity.
    + set (it := {| wp_buf := _ |}).
      assert (HR : nofail (wp_rep fparse) it (map (wp_levent fparse wf) (w_evs op)) false).
      { split; [reflexivity|]. exists (w_evs op). cbn. repeat split; try assumption; try lia. }
      destruct (norm_total (w_tags op)) as [En|(k & En)]; rewrite En.
      * rewrite svc_write_rejected by exact En.
        exists srv, {| r_ack := false; r_we := None |}. repeat split. intros key. cbn [map]. rewrite app_nil_r. reflexivity.
      * destruct (svc_write_spec wpit _ _ _ (wp_laws fparse) fuel cfg srv (w_tags op) it k _ false Hmax En HR ltac:(rewrite map_length; exact Hf))
          as (j' & we & Hrun & Hfl').
        change (wp_get_v fparse false) with (wp_get fparse).
        rewrite Hrun. eexists _, _. split; [reflexivity|]. split; [cbn [r_ack]; rewrite orb_false_r; reflexivity|].
        intros key. unfold content at 1.
        destruct (bytes_eqb k key) eqn:Ek.
        -- apply bytes_eqb_eq in Ek. subst key. rewrite srv_get_set_same. exact Hfl'.
        -- rewrite srv_get_set_other by (intros ->; rewrite bytes_eqb_refl in Ek; discriminate).
           cbn [map]. rewrite app_nil_r. reflexivity.
  - (* direct *)
    cbn [do_req]. unfold direct_write. unfold spec_ack, spec_req. cbn [spec_batch].
    destruct (norm_total tags) as [En|(k & En)]; rewrite En.
    + rewrite svc_write_rejected by exact En.
      exists srv, {| r_ack := false; r_we := None |}. repeat split. intros key. cbn [map]. rewrite app_nil_r. reflexivity.
    + destruct (svc_write_spec (list levent) _ _ _ ls_laws fuel cfg srv tags evs k evs false Hmax En (conj eq_refl eq_refl) Hf) as (j' & we & Hrun & Hfl').
      rewrite Hrun. eexists _, _. split; [reflexivity|]. split; [cbn [r_ack]; rewrite orb_false_r; reflexivity|].
      intros key. unfold content at 1.
      destruct (bytes_eqb k key) eqn:Ek.
      * apply bytes_eqb_eq in Ek. subst key. rewrite srv_get_set_same. exact Hfl'.
      * rewrite srv_get_set_other by (intros ->; rewrite bytes_eqb_refl in Ek; discriminate).
        cbn [map]. rewrite app_nil_r. reflexivity.
Qed.

(* the invariant over a history: flattened journal of every partition = concatenation of the stored batches *)
Lemma run_spec : forall rs fuel cfg srv, 0 < max_chunk cfg -> Forall req_ok rs -> Forall (fun r => (req_len r < fuel)%nat) rs ->
  exists srv' res, run fparse norm fuel cfg srv rs = Ok (srv', res) /\
    map r_ack res = map (spec_ack fparse norm cfg) rs /\
    forall key, content srv' key = content srv key ++ map iw_rec (concat (map (spec_req fparse norm cfg key) rs)).
Proof.
  induction rs as [|r rs IH]; intros fuel cfg srv Hmax Hok Hf.
  - exists srv, []. cbn. repeat split. intros key. rewrite app_nil_r. reflexivity.
  - inversion Hok as [|? ? Hr Hok']; subst. inversion Hf as [|? ? Hfr Hf']; subst.
    destruct (do_req_spec fuel cfg srv r Hmax Hr Hfr) as (srv1 & res1 & Hd & Ha & Hc).
    destruct (IH fuel cfg srv1 Hmax Hok' Hf') as (srv2 & res2 & Hrun & Has & Hcs).
    cbn [run]. rewrite Hd. cbn [obind]. rewrite Hrun. cbn [obind].
    exists srv2, (res1 :: res2). split; [reflexivity|]. split.
    + cbn [map]. rewrite Ha, Has. reflexivity.
    + intros key. rewrite Hcs, Hc. cbn [map concat]. rewrite map_app, app_assoc. reflexivity.
Qed.

(* a clean restart changes no partition's content *)
Lemma flat_flush j : flat (flush j) = flat j.
Proof.
  unfold flat, flush. rewrite map_map. cbn [flush_chunk c_recs]. reflexivity.
Qed.

Lemma srv_get_restart srv key : srv_get (restart srv) key = flush (srv_get srv key).
Proof.
  induction srv as [|[k j] tl IH]; cbn [restart map srv_get fst snd]; [reflexivity|].
  destruct (bytes_eqb k key); [reflexivity|exact IH].
Qed.

Lemma content_restart srv key : content (restart srv) key = content srv key.
Proof. unfold content. rewrite srv_get_restart. apply flat_flush. Qed.

(* histories with clean restarts: the same acknowledgements and the same content as the history without them *)
Lemma run_segs_spec : forall segs fuel cfg srv, 0 < max_chunk cfg ->
  Forall (Forall req_ok) segs -> Forall (Forall (fun r => (req_len r < fuel)%nat)) segs ->
  exists srv' res, run_segs fparse norm fuel cfg srv segs = Ok (srv', res) /\
    map r_ack res = map (spec_ack fparse norm cfg) (concat segs) /\
    forall key, content srv' key = content srv key ++ map iw_rec (concat (map (spec_req fparse norm cfg key) (concat segs))).
Proof.
  induction segs as [|sg tl IH]; intros fuel cfg srv Hmax Hok Hf.
  - exists srv, []. cbn. repeat split. intros key. rewrite app_nil_r. reflexivity.
  - inversion Hok as [|? ? Hs Hok']; subst. inversion Hf as [|? ? Hfs Hf']; subst.
    destruct (run_spec sg fuel cfg srv Hmax Hs Hfs) as (srv1 & res1 & Hrun & Ha & Hc).
    destruct (IH fuel cfg (restart srv1) Hmax Hok' Hf') as (srv2 & res2 & Hrun2 & Ha2 & Hc2).
    cbn [run_segs]. rewrite Hrun. cbn [obind]. rewrite Hrun2. cbn [obind].
    exists srv2, (res1 ++ res2). split; [reflexivity|]. split.
    + cbn [concat]. rewrite !map_app, Ha, Ha2. reflexivity.
    + intros key. rewrite Hc2, content_restart, Hc. cbn [concat]. rewrite map_app, concat_app, map_app, app_assoc. reflexivity.
Qed.

(* every event the specification stores passed the size check of the write path *)
Lemma spec_req_fits cfg key r : Forall (fun e => too_big (w_limit cfg) e = false) (spec_req fparse norm cfg key r).
Proof.
  unfold spec_req. destruct (spec_batch fparse norm r) as [[k evs]|]; [|constructor].
  destruct (bytes_eqb k key); [apply fit_prefix_fits|constructor].
Qed.

Lemma spec_content_fits cfg key rs :
  Forall (fun e => too_big (w_limit cfg) e = false) (concat (map (spec_req fparse norm cfg key) rs)).
Proof.
  induction rs as [|r rs IH]; cbn [map concat]; [constructor|].
  apply Forall_app. split; [apply spec_req_fits|exact IH].
Qed.

(* reading a partition whose records are the encodings of events, all within MaxRecordSize *)
Lemma read_back_spec cfg srv key es : content srv key = map iw_rec es -> Forall le_ok es ->
  Forall (fun e => Z.of_nat (length (marshal_le e)) <= max_rec cfg) es ->
  read_back as_kv cfg srv key = Ok (map (to_revent as_kv key) es).
Proof.
  intros Hc Hok Hsz. unfold read_back. unfold content in Hc. rewrite Hc.
  assert (Hrecs : map iw_rec es = map marshal_le es).
  { apply map_ext_in. intros e He. apply iw_rec_ok. rewrite Forall_forall in Hok. apply Hok. exact He. }
  rewrite Hrecs.
  rewrite read_records_ok by (rewrite Forall_map; exact Hsz). cbn [obind].
  rewrite lei_read_ok by exact Hok. cbn [obind]. reflexivity.
Qed.

End WithEnv.

(* a record that passed the write path's check fits the readers' buffer when the write limit is positive and
   not above MaxRecordSize *)
Lemma fits_readable cfg e : 0 < w_limit cfg <= max_rec cfg -> le_ok e -> too_big (w_limit cfg) e = false ->
  Z.of_nat (length (marshal_le e)) <= max_rec cfg.
Proof.
  intros [H1 H2] Hok Hb. rewrite <- (writable_size_ok e Hok). unfold too_big in Hb.
  apply andb_false_iff in Hb as [Hb|Hb]; [apply Z.ltb_ge in Hb; lia|apply Z.ltb_ge in Hb; lia].
Qed.

(* ---------- C01_readback: refinement to "a partition is the list of its stored batches" ---------- *)
Theorem readback fparse norm as_kv : total fparse -> total norm ->
  forall cfg rs fuel key, 0 < max_chunk cfg -> 0 < w_limit cfg <= max_rec cfg ->
  Forall req_ok rs -> Forall (fun r => (req_len r < fuel)%nat) rs ->
  Forall le_ok (concat (map (spec_req fparse norm cfg key) rs)) ->
  exists srv res, run fparse norm fuel cfg [] rs = Ok (srv, res) /\
    map r_ack res = map (spec_ack fparse norm cfg) rs /\
    read_back as_kv cfg srv key = Ok (spec_content fparse norm as_kv cfg key rs).
Proof.
  intros Hf Hn cfg rs fuel key Hmax Hlim Hok Hfuel Hle.
  destruct (run_spec fparse norm Hf Hn rs fuel cfg [] Hmax Hok Hfuel) as (srv & res & Hrun & Hack & Hc).
  exists srv, res. split; [exact Hrun|]. split; [exact Hack|].
  unfold spec_content. apply read_back_spec; [|exact Hle|].
  - rewrite Hc. reflexivity.
  - pose proof (spec_content_fits fparse norm cfg key rs) as Hfit.
    rewrite Forall_forall in *. intros e He. apply fits_readable; [exact Hlim|apply Hle; exact He|apply Hfit; exact He].
Qed.

Lemma read_back_restart as_kv cfg srv key : read_back as_kv cfg (restart srv) key = read_back as_kv cfg srv key.
Proof. unfold read_back. rewrite srv_get_restart, flat_flush. reflexivity. Qed.

(* C01_restart: a history with clean stops and starts between its segments (and one before the read) acknowledges
   and reads back exactly what the same history without them does *)
Theorem readback_restart fparse norm as_kv : total fparse -> total norm ->
  forall cfg segs fuel key, 0 < max_chunk cfg -> 0 < w_limit cfg <= max_rec cfg ->
  Forall (Forall req_ok) segs -> Forall (Forall (fun r => (req_len r < fuel)%nat)) segs ->
  Forall le_ok (concat (map (spec_req fparse norm cfg key) (concat segs))) ->
  exists srv res, run_segs fparse norm fuel cfg [] segs = Ok (srv, res) /\
    map r_ack res = map (spec_ack fparse norm cfg) (concat segs) /\
    read_back as_kv cfg (restart srv) key = Ok (spec_content fparse norm as_kv cfg key (concat segs)).
Proof.
  intros Hf Hn cfg segs fuel key Hmax Hlim Hok Hfuel Hle.
  destruct (run_segs_spec fparse norm Hf Hn segs fuel cfg [] Hmax Hok Hfuel) as (srv & res & Hrun & Hack & Hc).
  exists srv, res. split; [exact Hrun|]. split; [exact Hack|].
  unfold spec_content. apply read_back_spec; [|exact Hle|].
  - rewrite content_restart, Hc. reflexivity.
  - pose proof (spec_content_fits fparse norm cfg key (concat segs)) as Hfit.
    rewrite Forall_forall in *. intros e He. apply fits_readable; [exact Hlim|apply Hle; exact He|apply Hfit; exact He].
Qed.

(* the history itself never fails and acknowledges exactly the requests the specification accepts, whatever the
   limits are *)
Theorem run_total fparse norm : total fparse -> total norm ->
  forall cfg rs fuel, 0 < max_chunk cfg -> Forall req_ok rs -> Forall (fun r => (req_len r < fuel)%nat) rs ->
  exists srv res, run fparse norm fuel cfg [] rs = Ok (srv, res) /\ map r_ack res = map (spec_ack fparse norm cfg) rs /\
    forall key, content srv key = map iw_rec (concat (map (spec_req fparse norm cfg key) rs)).
Proof.
  intros Hf Hn cfg rs fuel Hmax Hok Hfuel.
  destruct (run_spec fparse norm Hf Hn rs fuel cfg [] Hmax Hok Hfuel) as (srv & res & Hrun & Hack & Hc).
  exists srv, res. split; [exact Hrun|]. split; [exact Hack|]. intros key. rewrite Hc. reflexivity.
Qed.

(* ---------- raw packets: an acknowledged packet stores as many events as it declares ---------- *)
(* Partial correctness of Service.Write's loop over ANY record iterator (no protocol assumed: the iterator may
   panic, fail, misbehave): if [P s n] ("n records of this write are in the journal") is kept by Get/Next the way
   the loop uses them, then a run that returns without failing ends in a state where Get reported io.EOF *)
Section Counting.
Variable St : Type.
Variable g : St -> St * outcome (option bytes).
Variable nx : St -> St.
Variable P : St -> nat -> Prop.
Variable Fin : St -> nat -> Prop.
Hypothesis Hsome : forall s n s' r, P s n -> g s = (s', Ok (Some r)) -> P s' n /\ P (nx s') (S n).
Hypothesis Hnone : forall s n s', P s n -> g s = (s', Ok None) -> P s' n /\ Fin s' n.
Hypothesis Herr : forall s n s', P s n -> g s = (s', Err) -> P s' n.

Lemma cw_loop_count : forall fuel cfg c s n0 base c' s' n1 e, P s base ->
  cw_loop St g nx fuel cfg c s n0 = Ok (c', s', n1, e) ->
  exists k, n1 = (n0 + k)%nat /\ length (c_recs c') = (length (c_recs c) + k)%nat /\ P s' (base + k).
Proof.
  induction fuel as [|f IH]; intros cfg c s n0 base c' s' n1 e HP H; cbn [cw_loop] in H; [discriminate|].
  destruct (max_chunk cfg <=? c_size c).
  - injection H as <- <- <- <-. exists O. rewrite !Nat.add_0_r. auto.
  - destruct (g s) as [s1 [ [r| ] | | | ] ] eqn:G; try discriminate.
    + destruct (Hsome s base s1 r HP G) as [_ HP1].
      destruct (IH cfg _ _ _ (S base) c' s' n1 e HP1 H) as (k & -> & Hl & HP').
      exists (S k). cbn [c_recs] in Hl. rewrite app_length in Hl. cbn [length] in Hl.
      split; [lia|]. split; [lia|]. replace (base + S k)%nat with (S base + k)%nat by lia. exact HP'.
    + injection H as <- <- <- <-. exists O. rewrite !Nat.add_0_r. split; [reflexivity|]. split; [reflexivity|].
      exact (proj1 (Hnone s base s1 HP G)).
    + injection H as <- <- <- <-. exists O. rewrite !Nat.add_0_r. split; [reflexivity|]. split; [reflexivity|].
      exact (Herr s base s1 HP G).
Qed.

Lemma chunk_write_count fuel cfg c s base c' s' n e : P s base ->
  chunk_write St g nx fuel cfg c s = Ok (c', s', n, e) ->
  length (c_recs c') = (length (c_recs c) + n)%nat /\ P s' (base + n).
Proof.
  intros HP H. unfold chunk_write in H. destruct (max_chunk cfg <=? c_size c).
  - injection H as <- <- <- <-. rewrite !Nat.add_0_r. auto.
  - destruct (cw_loop_count _ _ _ _ _ _ _ _ _ _ HP H) as (k & -> & Hl & HP'). auto.
Qed.

Lemma pick_chunk_ne j ex : pick_chunk j ex <> [].
Proof. destruct (pick_chunk_cases j ex) as [(-> & H & _)| ->]; [exact H|destruct j; discriminate]. Qed.

Lemma jw_loop_count : forall rounds fuel cfg j s ex base j' s' n pos e, P s base ->
  jw_loop St g nx rounds fuel cfg j s ex = Ok (j', s', n, pos, e) ->
  length (flat j') = (length (flat j) + n)%nat /\ P s' (base + n) /\ (e <> WNil -> n = O).
Proof.
  induction rounds as [|rd IH]; intros fuel cfg j s ex base j' s' n pos e HP H; cbn [jw_loop] in H; [discriminate|].
  set (j1 := pick_chunk j ex) in *. set (c := last j1 (new_chunk j)) in *.
  assert (Hne : j1 <> []) by apply pick_chunk_ne.
  assert (Hj1 : length (flat j1) = length (flat j)) by (unfold j1; rewrite flat_pick; reflexivity).
  destruct (chunk_write St g nx fuel cfg c s) as [ [ [ [c1 s1] n1] e1] | | | ] eqn:CW; cbn [obind] in H; try discriminate.
  destruct (chunk_write_count _ _ _ _ _ _ _ _ _ HP CW) as [Hl HP1].
  assert (Hset : forall c2, length (c_recs c2) = (length (c_recs c) + n1)%nat ->
            length (flat (set_last j1 c2)) = (length (flat j) + n1)%nat).
  { intros c2 Hc2. rewrite flat_set_last by exact Hne. rewrite <- Hj1, (flat_last j1 (new_chunk j) Hne). fold c.
    rewrite !app_length. lia. }
  destruct (0 <? n1)%nat eqn:Hpos.
  - injection H as <- <- <- <- <-. split; [apply Hset; exact Hl|]. split; [exact HP1|congruence].
  - apply Nat.ltb_ge in Hpos. assert (n1 = O) by lia. subst n1.
    assert (Hfl : forall c2, length (c_recs c2) = length (c_recs c1) -> length (flat (set_last j1 c2)) = length (flat j)).
    { intros c2 Hc2. rewrite (Hset c2) by lia. lia. }
    rewrite Nat.add_0_r in HP1.
    destruct e1.
    + injection H as <- <- <- <- <-. rewrite !Nat.add_0_r. split; [apply Hfl; reflexivity|]. split; [exact HP1|reflexivity].
    + destruct (c_id c1 =? ex)%N.
      * injection H as <- <- <- <- <-. rewrite !Nat.add_0_r.
        split; [apply Hfl; reflexivity|]. split; [exact HP1|reflexivity].
      * destruct (IH fuel cfg _ s1 (c_id c1) base j' s' n pos e HP1 H) as (A & B & C).
        split; [|split; assumption].
        rewrite A. rewrite (Hfl (flush_chunk c1)) by reflexivity. reflexivity.
    + injection H as <- <- <- <- <-. rewrite !Nat.add_0_r. split; [apply Hfl; reflexivity|]. split; [exact HP1|reflexivity].
Qed.

Lemma sw_loop_count : forall rounds fuel cfg j s we base j' s' we', P s base ->
  sw_loop St g nx rounds fuel cfg j s we = Ok (j', s', we', false) ->
  exists n, length (flat j') = (length (flat j) + n)%nat /\ Fin s' (base + n).
Proof.
  induction rounds as [|rd IH]; intros fuel cfg j s we base j' s' we' HP H; cbn [sw_loop] in H; [discriminate|].
  destruct (journal_write St g nx fuel cfg j s) as [ [ [ [ [j1 s1] n1] pos] e] | | | ] eqn:JW; cbn [obind] in H; try discriminate.
  destruct (jw_loop_count _ _ _ _ _ _ _ _ _ _ _ _ HP JW) as (Hl & HP1 & He).
  destruct e.
  - destruct (g s1) as [s2 [ [r| ] | | | ] ] eqn:G; try discriminate.
    + destruct (Hsome s1 _ s2 r HP1 G) as [HP2 _].
      destruct (IH fuel cfg j1 s2 _ (base + n1)%nat j' s' we' HP2 H) as (n & Hl' & HF).
      exists (n1 + n)%nat. split; [lia|]. rewrite Nat.add_assoc. exact HF.
    + injection H as <- <- <-. exists n1. split; [exact Hl|]. exact (proj2 (Hnone s1 _ s2 HP1 G)).
  - injection H as _ _ _ Hb. rewrite (He ltac:(discriminate)) in Hb. discriminate.
  - injection H as _ _ _ Hb. rewrite (He ltac:(discriminate)) in Hb. discriminate.
Qed.
End Counting.

(* the packet iterator under the iwrapper keeps count: records stored so far = events decoded and released *)
Section Truncated.
Variable fparse : bytes -> outcome bytes.
Variable mr : Z.
Variable R : N.

Definition wp_P (s : wpit) (n : nat) : Prop :=
  wp_recs s = R /\ (N.of_nat n + (if wp_read s then 1 else 0))%N = wp_cur s /\ (wp_cur s <= wp_recs s)%N.
Definition wp_Fin (s : wpit) (n : nat) : Prop := N.of_nat n = R.

Lemma wp_get_some s n s' e : wp_P s n -> wp_get fparse s = (s', Ok (Some e)) -> wp_P s' n /\ wp_P (wp_next s') (S n).
Proof.
  intros (HR & Hc & Hle) H. unfold wp_get, wp_get_v in H. unfold wp_P.
  destruct (wp_read s) eqn:Rd.
  - injection H as <- _. rewrite Rd. cbn [wp_next wp_recs wp_cur wp_read]. repeat split; try assumption; lia.
  - destruct (N.leb_spec (wp_recs s) (wp_cur s)); [discriminate|].
    destruct (unmarshal_api_event (wp_buf s)) as [[ae rest]| | |]; try discriminate.
    injection H as <- _. cbn [wp_next wp_recs wp_cur wp_read]. repeat split; try assumption; lia.
Qed.

Lemma wp_get_none s n s' : wp_P s n -> wp_get fparse s = (s', Ok None) -> wp_P s' n /\ wp_Fin s' n.
Proof.
  intros (HR & Hc & Hle) H. unfold wp_get, wp_get_v in H.
  destruct (wp_read s) eqn:Rd; [discriminate|].
  destruct (N.leb_spec (wp_recs s) (wp_cur s)).
  - injection H as <-. split; [unfold wp_P; rewrite Rd; repeat split; assumption|]. unfold wp_Fin. lia.
  - destruct (unmarshal_api_event (wp_buf s)) as [[ae rest]| | |]; discriminate.
Qed.

Lemma wp_get_err s n s' : wp_P s n -> wp_get fparse s = (s', Err) -> wp_P s' n.
Proof.
  intros HP H. unfold wp_get, wp_get_v in H.
  destruct (wp_read s); [discriminate|]. destruct (wp_recs s <=? wp_cur s)%N; [discriminate|].
  destruct (unmarshal_api_event (wp_buf s)) as [[ae rest]| | |]; try discriminate. injection H as <-. exact HP.
Qed.

Lemma wp_init_start body tags it : wp_init fparse body = Ok (tags, it) -> wp_cur it = 0%N /\ wp_read it = false.
Proof.
  unfold wp_init. destruct (unmarshal_bytes body) as [[t r1]| | |]; cbn [obind]; try discriminate.
  destruct (unmarshal_bytes r1) as [[f r2]| | |]; cbn [obind]; try discriminate.
  destruct (unmarshal_u32 r2) as [[ln r3]| | |]; cbn [obind]; try discriminate.
  destruct (fparse f); cbn [obind]; try discriminate. intros H. injection H as _ <-. split; reflexivity.
Qed.

Lemma iw_wp_count rounds fuel cfg j s we base j' s' we' : wp_P s base ->
  sw_loop wpit (iw_get wpit (wp_get fparse) mr) (iw_next wpit wp_next) rounds fuel cfg j s we = Ok (j', s', we', false) ->
  exists n, length (flat j') = (length (flat j) + n)%nat /\ N.of_nat (base + n) = R.
Proof.
  apply (sw_loop_count wpit _ _ wp_P wp_Fin).
  - intros s0 n s1 r HP H. unfold iw_get in H. destruct (wp_get fparse s0) as [s2 [ [e| ] | | | ] ] eqn:G; try discriminate.
    destruct (too_big mr e); [discriminate|]. injection H as <- _. unfold iw_next. eapply wp_get_some; eassumption.
  - intros s0 n s1 HP H. unfold iw_get in H. destruct (wp_get fparse s0) as [s2 [ [e| ] | | | ] ] eqn:G; try discriminate.
    + destruct (too_big mr e); discriminate.
    + injection H as <-. eapply wp_get_none; eassumption.
  - intros s0 n s1 HP H. unfold iw_get in H. destruct (wp_get fparse s0) as [s2 [ [e| ] | | | ] ] eqn:G; try discriminate.
    + destruct (too_big mr e); [|discriminate]. injection H as <-. exact (proj1 (wp_get_some _ _ _ _ HP G)).
    + injection H as <-. eapply wp_get_err; eassumption.
Qed.
End Truncated.

(* C01_reject_truncated: whatever the request body is, if the ingestor acknowledges it the partition holds as many
   events as the packet declares *)
Theorem truncated_rejected fparse norm cfg fuel body srv res tags it key :
  ingest fparse norm fuel cfg [] body = Ok (srv, res) -> r_ack res = true ->
  wp_init fparse body = Ok (tags, it) -> norm tags = Ok key ->
  N.of_nat (length (content srv key)) = wp_recs it.
Proof.
  intros H Hack Hinit Hn. unfold ingest, ingest_v in H. rewrite Hinit in H. unfold svc_write in H. rewrite Hn in H.
  change (wp_get_v fparse false) with (wp_get fparse) in H.
  destruct (sw_loop _ _ _ fuel fuel cfg (srv_get [] key) it None) as [ [ [ [j' s'] we] failed] | | | ] eqn:SW; cbn [obind] in H; try discriminate.
  injection H as <- <-. cbn [r_ack] in Hack. apply negb_true_iff in Hack. subst failed.
  destruct (wp_init_start fparse body tags it Hinit) as [Hc Hr].
  destruct (iw_wp_count fparse (w_limit cfg) (wp_recs it) fuel fuel cfg (srv_get [] key) it None O j' s' we) as (n & Hl & HR).
  - unfold wp_P. rewrite Hr, Hc. repeat split; lia.
  - exact SW.
  - unfold content. change [(key, j')] with (srv_set [] key j'). rewrite srv_get_set_same. rewrite Hl. cbn [srv_get flat map concat length]. exact HR.
Qed.
