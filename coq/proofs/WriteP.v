(* Lemmas about model/Write.v: Service.Write appends exactly the pending events of its iterator to the
   partition, for every chunk size; histories of requests refine "a partition is the list of its
   acknowledged events"; reading back returns that list. *)
From LR Require Import lib.Base model.XBinary model.LogEvent model.Wire model.Journal model.Write.
From LR Require Import proofs.XBinaryP proofs.LogEventP proofs.WireP proofs.JournalP.
From Coq Require Import ZifyN ZifyNat ZifyBool.
Open Scope Z_scope.

(* the record iwrapper.Get makes of an event *)
Definition iw_rec (e : levent) : bytes := marshal_into (writable_size e) e.

Lemma iw_rec_ok e : le_ok e -> iw_rec e = marshal_le e.
Proof. apply marshal_into_ok. Qed.

Lemma firstn_skipn_nil {A : Type} (k : nat) (l : list A) : skipn k l = [] -> firstn k l = l.
Proof. intros H. rewrite <- (firstn_skipn k l) at 2. rewrite H, app_nil_r. reflexivity. Qed.

Section ServiceWrite.
Variable T : Type.
Variable lit_get : T -> T * outcome levent.
Variable lit_next : T -> T.
Variable RepL : T -> list levent -> Prop.
Hypothesis lawsL : iter_laws lit_get lit_next RepL.

Definition rep_iw (s : T) (recs : list bytes) : Prop := exists evs, RepL s evs /\ recs = map iw_rec evs.

Lemma iw_laws : iter_laws (iw_get T lit_get) (iw_next T lit_next) rep_iw.
Proof.
  destruct lawsL as [Leof Lget]. split.
  - intros s (evs & HR & E). destruct evs; [|discriminate].
    destruct (Leof s HR) as (s' & Hg & HR'). exists s'. unfold iw_get. rewrite Hg. split; [reflexivity|].
    exists []. split; [exact HR'|reflexivity].
  - intros s r l (evs & HR & E). destruct evs as [|e evs]; [discriminate|]. cbn [map] in E. injection E as -> ->.
    destruct (Lget s e evs HR) as (s' & Hg & HR' & HRn). exists s'. unfold iw_get, iw_next. rewrite Hg.
    split; [reflexivity|]. split.
    + exists (e :: evs). split; [exact HR'|reflexivity].
    + exists evs. split; [exact HRn|reflexivity].
Qed.

(* Service.Write's loop drains the iterator into the journal: the flattened journal grows by exactly the
   pending records, in order, each once; the write is not failed *)
Lemma sw_loop_spec : forall rounds fuel cfg j s we evs, 0 < max_chunk cfg -> RepL s evs ->
  (length evs < rounds)%nat -> (length evs < fuel)%nat ->
  exists j' s' we', sw_loop T lit_get lit_next rounds fuel cfg j s we = Ok (j', s', we', false) /\
    flat j' = flat j ++ map iw_rec evs /\ RepL s' [].
Proof.
  induction rounds as [|rd IH]; intros fuel cfg j s we evs Hmax HR Hr Hf; [lia|].
  cbn [sw_loop].
  assert (HRi : rep_iw s (map iw_rec evs)) by (exists evs; split; [exact HR|reflexivity]).
  destruct (journal_write_spec T _ _ rep_iw iw_laws fuel cfg j s (map iw_rec evs) Hmax HRi ltac:(rewrite map_length; exact Hf))
    as (k & j1 & s1 & pos & Hjw & Hfl & (evs1 & HR1 & E1) & Hk & Hk1).
  rewrite Hjw. cbn [obind].
  rewrite skipn_map in E1.
  destruct (skipn k evs) as [|e rest] eqn:Esk.
  - (* everything written *)
    assert (evs1 = []) by (destruct evs1; [reflexivity|discriminate]). subst evs1.
    destruct (proj1 lawsL s1 HR1) as (s2 & Hg & HR2).
    unfold iw_get at 1. rewrite Hg.
    eexists j1, s2, _. split; [reflexivity|]. split; [|exact HR2].
    rewrite Hfl. f_equal. rewrite firstn_map. f_equal. apply firstn_skipn_nil. exact Esk.
  - (* more pending: the next round continues with the rest *)
    destruct evs1 as [|e1 rest1]; [discriminate|]. cbn [map] in E1.
    destruct (proj2 lawsL s1 e1 rest1 HR1) as (s2 & Hg & HR2 & _).
    unfold iw_get at 1. rewrite Hg.
    assert (Hlen : length (skipn k evs) = (length evs - k)%nat) by apply skipn_length.
    assert (Hne : map iw_rec evs <> []) by (destruct evs; [cbn in Esk; rewrite skipn_nil in Esk; discriminate|discriminate]).
    specialize (Hk1 Hne). rewrite Esk in Hlen. cbn [length] in Hlen.
    assert (Hsame : map iw_rec (e1 :: rest1) = map iw_rec (e :: rest)) by (cbn [map]; symmetry; exact E1).
    match goal with |- context [sw_loop _ _ _ rd fuel cfg j1 s2 ?w] =>
      destruct (IH fuel cfg j1 s2 w (e1 :: rest1) Hmax HR2) as (j' & s' & we' & Hrun & Hfl' & HR') end.
    + assert (length (e1 :: rest1) = length (e :: rest)) by (rewrite <- (map_length iw_rec), Hsame, map_length; reflexivity).
      cbn [length] in *. lia.
    + assert (length (e1 :: rest1) = length (e :: rest)) by (rewrite <- (map_length iw_rec), Hsame, map_length; reflexivity).
      cbn [length] in *. lia.
    + exists j', s', we'. split; [exact Hrun|]. split; [|exact HR'].
      rewrite Hfl', Hfl, Hsame, <- Esk, <- app_assoc, firstn_map, <- map_app, firstn_skipn. reflexivity.
Qed.

End ServiceWrite.

(* ---------- the two concrete iterators obey the protocol ---------- *)
Lemma ls_laws : iter_laws ls_get ls_next (fun (l evs : list levent) => l = evs).
Proof.
  split.
  - intros s ->. exists []. split; reflexivity.
  - intros s r l ->. exists (r :: l). repeat split; reflexivity.
Qed.

Lemma wp_laws fparse : iter_laws (wp_get fparse) wp_next (wp_rep fparse).
Proof. split; [apply wp_law_eof|apply wp_law_get]. Qed.

(* ---------- partitions ---------- *)
Lemma srv_get_set_same s k j : srv_get (srv_set s k j) k = j.
Proof.
  induction s as [|[k' j'] tl IH]; cbn [srv_set srv_get].
  - rewrite bytes_eqb_refl. reflexivity.
  - destruct (bytes_eqb k' k) eqn:E; cbn [srv_get]; rewrite E; [reflexivity|exact IH].
Qed.

Lemma srv_get_set_other s k k2 j : k <> k2 -> srv_get (srv_set s k j) k2 = srv_get s k2.
Proof.
  intros Hne. induction s as [|[k' j'] tl IH]; cbn [srv_set srv_get].
  - destruct (bytes_eqb k k2) eqn:E; [apply bytes_eqb_eq in E; contradiction|reflexivity].
  - destruct (bytes_eqb k' k) eqn:E; cbn [srv_get].
    + apply bytes_eqb_eq in E. subst k'.
      destruct (bytes_eqb k k2) eqn:E2; [apply bytes_eqb_eq in E2; contradiction|reflexivity].
    + destruct (bytes_eqb k' k2); [reflexivity|exact IH].
Qed.

Definition content (srv : server) (key : bytes) : list bytes := flat (srv_get srv key).

Definition total (f : bytes -> outcome bytes) : Prop := forall b, f b = Err \/ exists v, f b = Ok v.

Lemma read_records_ok cfg recs : Forall (fun r => Z.of_nat (length r) <= max_rec cfg) recs -> read_records cfg recs = Ok recs.
Proof.
  induction 1 as [|r tl Hr _ IH]; cbn [read_records]; [reflexivity|].
  destruct (Z.ltb_spec (max_rec cfg) (Z.of_nat (length r))); [lia|]. rewrite IH. reflexivity.
Qed.

Section WithEnv.
Variable fparse : bytes -> outcome bytes.
Variable norm : bytes -> outcome bytes.
Variable as_kv : bytes -> bytes.
Hypothesis fparse_total : total fparse.
Hypothesis norm_total : total norm.

Lemma svc_write_ok (T : Type) g nx (RepL : T -> list levent -> Prop) (laws : iter_laws g nx RepL) :
  forall fuel cfg srv tags it key evs, 0 < max_chunk cfg -> norm tags = Ok key -> RepL it evs -> (length evs < fuel)%nat ->
  exists j' we, svc_write norm T g nx fuel cfg srv tags it = Ok (srv_set srv key j', {| r_ack := true; r_we := we |}) /\
    flat j' = content srv key ++ map iw_rec evs.
Proof.
  intros fuel cfg srv tags it key evs Hmax Hn HR Hf. unfold svc_write. rewrite Hn.
  destruct (sw_loop_spec T g nx RepL laws fuel fuel cfg (srv_get srv key) it None evs Hmax HR Hf Hf) as (j' & s' & we' & Hrun & Hfl & _).
  rewrite Hrun. cbn [obind negb]. exists j', we'. split; [reflexivity|exact Hfl].
Qed.

Lemma svc_write_rejected (T : Type) g nx fuel cfg srv tags (it : T) : norm tags = Err ->
  svc_write norm T g nx fuel cfg srv tags it = Ok (srv, {| r_ack := false; r_we := None |}).
Proof. intros H. unfold svc_write. rewrite H. reflexivity. Qed.

(* requests a client can make: Go-representable sizes; the stored events are Go-representable *)
Definition req_ok (r : req) : Prop :=
  match r with
  | RpcW op => len_ok (w_tags op) /\ len_ok (w_flds op) /\ count_ok (w_evs op) /\ Forall ae_ok (w_evs op)
  | DirW _ _ => True
  | RawW _ => False
  end.
Definition req_len (r : req) : nat :=
  match r with
  | RpcW op => length (w_evs op)
  | DirW _ evs => length evs
  | RawW body => length body
  end.

Lemma spec_levent_eq wf e : spec_levent fparse wf e = wp_levent fparse wf e.
Proof. reflexivity. Qed.

(* one request: acknowledged exactly when the specification says so; the partition named by its tags grows by
   exactly its events, every other partition is untouched *)
Lemma do_req_spec fuel cfg srv r : 0 < max_chunk cfg -> req_ok r -> (req_len r < fuel)%nat ->
  exists srv' res, do_req fparse norm fuel cfg srv r = Ok (srv', res) /\ r_ack res = spec_ack fparse norm r /\
    forall key, content srv' key = content srv key ++ map iw_rec (spec_req fparse norm key r).
Proof.
  intros Hmax Hok Hf. destruct r as [op|tags evs|body]; cbn [req_ok req_len] in *; [| |contradiction].
  - (* RPC *)
    destruct Hok as (Ht & Hfl & Hc & Hevs).
    cbn [do_req]. unfold rpc_write, ingest. rewrite wp_init_encode by assumption.
    cbn [spec_ack spec_req].
    destruct (fparse_total (w_flds op)) as [E|(wf & E)]; rewrite E; cbn [obind].
    + exists srv, {| r_ack := false; r_we := None |}. repeat split. intros key. cbn [map]. rewrite app_nil_r. reflexivity.
    + set (it := {| wp_buf := _ |}).
      assert (HR : wp_rep fparse it (map (wp_levent fparse wf) (w_evs op))).
      { exists (w_evs op). cbn. repeat split; try assumption; try lia. }
      destruct (norm_total (w_tags op)) as [En|(k & En)]; rewrite En.
      * rewrite svc_write_rejected by exact En.
        exists srv, {| r_ack := false; r_we := None |}. repeat split. intros key. cbn [map]. rewrite app_nil_r. reflexivity.
      * destruct (svc_write_ok wpit _ _ _ (wp_laws fparse) fuel cfg srv (w_tags op) it k _ Hmax En HR ltac:(rewrite map_length; exact Hf))
          as (j' & we & Hrun & Hfl').
        rewrite Hrun. eexists _, _. split; [reflexivity|]. split; [reflexivity|].
        intros key. unfold content at 1.
        destruct (bytes_eqb k key) eqn:Ek.
        -- apply bytes_eqb_eq in Ek. subst key. rewrite srv_get_set_same. exact Hfl'.
        -- rewrite srv_get_set_other by (intros ->; rewrite bytes_eqb_refl in Ek; discriminate).
           cbn [map]. rewrite app_nil_r. reflexivity.
  - (* direct *)
    cbn [do_req]. unfold direct_write. cbn [spec_ack spec_req].
    destruct (norm_total tags) as [En|(k & En)]; rewrite En.
    + rewrite svc_write_rejected by exact En.
      exists srv, {| r_ack := false; r_we := None |}. repeat split. intros key. cbn [map]. rewrite app_nil_r. reflexivity.
    + destruct (svc_write_ok (list levent) _ _ _ ls_laws fuel cfg srv tags evs k evs Hmax En eq_refl Hf) as (j' & we & Hrun & Hfl').
      rewrite Hrun. eexists _, _. split; [reflexivity|]. split; [reflexivity|].
      intros key. unfold content at 1.
      destruct (bytes_eqb k key) eqn:Ek.
      * apply bytes_eqb_eq in Ek. subst key. rewrite srv_get_set_same. exact Hfl'.
      * rewrite srv_get_set_other by (intros ->; rewrite bytes_eqb_refl in Ek; discriminate).
        cbn [map]. rewrite app_nil_r. reflexivity.
Qed.

(* the invariant over a history: flattened journal of every partition = concatenation of the acknowledged batches *)
Lemma run_spec : forall rs fuel cfg srv, 0 < max_chunk cfg -> Forall req_ok rs -> Forall (fun r => (req_len r < fuel)%nat) rs ->
  exists srv' res, run fparse norm fuel cfg srv rs = Ok (srv', res) /\
    map r_ack res = map (spec_ack fparse norm) rs /\
    forall key, content srv' key = content srv key ++ map iw_rec (concat (map (spec_req fparse norm key) rs)).
Proof.
  induction rs as [|r rs IH]; intros fuel cfg srv Hmax Hok Hf.
  - exists srv, []. cbn. repeat split. intros key. rewrite app_nil_r. reflexivity.
  - inversion Hok as [|? ? Hr Hok']; subst. inversion Hf as [|? ? Hfr Hf']; subst.
    destruct (do_req_spec fuel cfg srv r Hmax Hr Hfr) as (srv1 & res1 & Hd & Ha & Hc).
    destruct (IH fuel cfg srv1 Hmax Hok' Hf') as (srv2 & res2 & Hrun & Has & Hcs).
    cbn [run]. rewrite Hd. cbn [obind]. rewrite Hrun. cbn [obind].
    exists srv2, (res1 :: res2). split; [reflexivity|]. split.
    + cbn [map]. rewrite Ha, Has. reflexivity.
    + intros key. rewrite Hcs, Hc. cbn [map concat]. rewrite map_app, app_assoc. reflexivity.
Qed.

(* reading a partition whose records are the encodings of events, all within MaxRecordSize *)
Lemma read_back_spec cfg srv key es : content srv key = map iw_rec es -> Forall le_ok es ->
  Forall (fun e => Z.of_nat (length (marshal_le e)) <= max_rec cfg) es ->
  read_back as_kv cfg srv key = Ok (map (to_revent as_kv key) es).
Proof.
  intros Hc Hok Hsz. unfold read_back. unfold content in Hc. rewrite Hc.
  assert (Hrecs : map iw_rec es = map marshal_le es).
  { apply map_ext_in. intros e He. apply iw_rec_ok. rewrite Forall_forall in Hok. apply Hok. exact He. }
  rewrite Hrecs.
  rewrite read_records_ok by (rewrite Forall_map; exact Hsz). cbn [obind].
  rewrite lei_read_ok by (try reflexivity; exact Hok). cbn [obind]. reflexivity.
Qed.

End WithEnv.

(* ---------- C01_readback: refinement to "a partition is the list of its acknowledged events" ---------- *)
Theorem readback fparse norm as_kv : total fparse -> total norm ->
  forall cfg rs fuel key, 0 < max_chunk cfg -> Forall req_ok rs -> Forall (fun r => (req_len r < fuel)%nat) rs ->
  Forall le_ok (concat (map (spec_req fparse norm key) rs)) ->
  Forall (fun e => Z.of_nat (length (marshal_le e)) <= max_rec cfg) (concat (map (spec_req fparse norm key) rs)) ->
  exists srv res, run fparse norm fuel cfg [] rs = Ok (srv, res) /\
    map r_ack res = map (spec_ack fparse norm) rs /\
    read_back as_kv cfg srv key = Ok (spec_content fparse norm as_kv key rs).
Proof.
  intros Hf Hn cfg rs fuel key Hmax Hok Hfuel Hle Hsz.
  destruct (run_spec fparse norm Hf Hn rs fuel cfg [] Hmax Hok Hfuel) as (srv & res & Hrun & Hack & Hc).
  exists srv, res. split; [exact Hrun|]. split; [exact Hack|].
  unfold spec_content. apply read_back_spec; [|exact Hle|exact Hsz].
  rewrite Hc. reflexivity.
Qed.

(* the history itself never fails and acknowledges exactly the requests the specification accepts, whatever the
   record sizes are (this is the half of the property that the oversize witness violates on the read side) *)
Theorem run_total fparse norm : total fparse -> total norm ->
  forall cfg rs fuel, 0 < max_chunk cfg -> Forall req_ok rs -> Forall (fun r => (req_len r < fuel)%nat) rs ->
  exists srv res, run fparse norm fuel cfg [] rs = Ok (srv, res) /\ map r_ack res = map (spec_ack fparse norm) rs /\
    forall key, content srv key = map iw_rec (concat (map (spec_req fparse norm key) rs)).
Proof.
  intros Hf Hn cfg rs fuel Hmax Hok Hfuel.
  destruct (run_spec fparse norm Hf Hn rs fuel cfg [] Hmax Hok Hfuel) as (srv & res & Hrun & Hack & Hc).
  exists srv, res. split; [exact Hrun|]. split; [exact Hack|]. intros key. rewrite Hc. reflexivity.
Qed.
