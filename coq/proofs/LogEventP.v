(* Lemmas about model/LogEvent.v: size, Marshal = marshal_le, the codec round trip with the reused
   struct, the LogEventIterator over well-formed records. *)
From LR Require Import lib.Base model.XBinary model.LogEvent proofs.XBinaryP.
From Coq Require Import ZifyN ZifyNat ZifyBool.
Open Scope N_scope.

(* an event the Go types can hold: int64 timestamp, slice lengths below 2^62 *)
Definition le_ok (e : levent) : Prop := in_i64 (le_ts e) /\ len_ok (le_msg e) /\ len_ok (le_flds e).

Lemma len_ok_64 v : len_ok v -> N.of_nat (length v) < two64.
Proof. unfold len_ok, two64. lia. Qed.

Lemma header_cases e :
  (le_flds e = [] /\ le_header e = 32 /\ N.land (le_header e) 1 =? 0 = true) \/
  (le_flds e <> [] /\ le_header e = 33 /\ N.land (le_header e) 1 =? 0 = false).
Proof.
  unfold le_header. destruct (le_flds e); [left|right]; repeat split; try reflexivity. discriminate.
Qed.

Theorem writable_size_ok e : le_ok e -> writable_size e = length (marshal_le e).
Proof.
  intros (_ & Hm & Hf). unfold writable_size, marshal_le.
  cbn [length]. rewrite !app_length, marshal_u64_len.
  rewrite (marshal_bytes_len (le_msg e)) by (apply len_ok_64; exact Hm).
  destruct (header_cases e) as [(E & _ & ->)|(E & _ & ->)].
  - rewrite E. cbn [length]. lia.
  - rewrite (marshal_bytes_len (le_flds e)) by (apply len_ok_64; exact Hf).
    destruct (le_flds e); [congruence|]. lia.
Qed.

Lemma fill_parts_exact : forall parts room, room = length (concat parts) -> fill_parts parts room = concat parts.
Proof.
  induction parts as [|p tl IH]; intros room H; cbn [fill_parts concat] in *.
  - subst. reflexivity.
  - rewrite app_length in H. destruct (Nat.ltb_spec room (length p)); [lia|].
    f_equal. apply IH. lia.
Qed.

Lemma concat_singles l : concat (singles l) = l.
Proof. unfold singles. induction l as [|b l IH]; cbn [map concat app]; [reflexivity|rewrite IH; reflexivity]. Qed.

Lemma marshal_le_parts e : marshal_le e = concat (le_parts e).
Proof.
  unfold marshal_le, le_parts, marshal_bytes.
  destruct (N.land (le_header e) 1 =? 0); rewrite !concat_app, !concat_singles; cbn [concat app]; rewrite ?app_nil_r, <- ?app_assoc; reflexivity.
Qed.

(* a buffer that is too small receives a prefix of the encoding (the parts that fit), the rest stays as it was *)
Lemma fill_parts_prefix : forall parts room, exists k, (k <= room)%nat /\
  fill_parts parts room = firstn k (concat parts) ++ repeat x00 (room - k) /\ (k <= length (concat parts))%nat.
Proof.
  induction parts as [|p tl IH]; intros room; cbn [fill_parts concat].
  - exists O. split; [lia|]. split; [cbn [firstn app]; rewrite Nat.sub_0_r; reflexivity|cbn [length]; lia].
  - destruct (Nat.ltb_spec room (length p)).
    + exists O. split; [lia|]. split; [cbn [firstn app]; rewrite Nat.sub_0_r; reflexivity|lia].
    + destruct (IH (room - length p)%nat) as (k & Hk & E & Hl). exists (length p + k)%nat.
      split; [lia|]. rewrite E. rewrite firstn_app. replace (length p + k - length p)%nat with k by lia.
      rewrite (firstn_all2 (n:=(length p + k)%nat) p) by lia. rewrite <- app_assoc. replace (room - (length p + k))%nat with (room - length p - k)%nat by lia.
      split; [reflexivity|]. rewrite app_length. lia.
Qed.

Theorem marshal_into_short sz e : exists k, (k <= sz)%nat /\ (k <= length (marshal_le e))%nat /\
  marshal_into sz e = firstn k (marshal_le e) ++ repeat x00 (sz - k).
Proof.
  unfold marshal_into. rewrite marshal_le_parts. destruct (fill_parts_prefix (le_parts e) sz) as (k & H1 & H2 & H3).
  exists k. auto.
Qed.

(* what iwrapper.Get hands to the chunk writer is exactly the encoding of the event *)
Theorem marshal_into_ok e : le_ok e -> marshal_into (writable_size e) e = marshal_le e.
Proof.
  intros H. unfold marshal_into. rewrite marshal_le_parts. apply fill_parts_exact.
  rewrite <- marshal_le_parts. apply writable_size_ok. exact H.
Qed.

(* the value Unmarshal leaves in a reused struct [prev]; [clear] = false: the code before the repair *)
Definition after_unmarshal_v (clear : bool) (prev e : levent) : levent :=
  {| le_ts := le_ts e; le_msg := le_msg e;
     le_flds := match le_flds e with [] => if clear then [] else le_flds prev | _ :: _ => le_flds e end |}.

Theorem le_codec_v clear prev e : le_ok e -> unmarshal_le_v clear prev (marshal_le e) = Ok (after_unmarshal_v clear prev e).
Proof.
  intros (Ht & Hm & Hf). unfold unmarshal_le_v, marshal_le, after_unmarshal_v.
  cbn [unmarshal_byte obind]. rewrite to_byte_of_N.
  rewrite u64_roundtrip by apply u64_lt. cbn [obind].
  rewrite bytes_roundtrip by exact Hm. cbn [obind].
  rewrite i64_roundtrip by exact Ht.
  destruct (header_cases e) as [(E & H1 & H2)|(E & H1 & H2)]; rewrite H1.
  - change (N.land (32 mod 256) 1 =? 0) with true. change (N.land 32 1 =? 0) with true. cbv iota.
    rewrite E. reflexivity.
  - change (N.land (33 mod 256) 1 =? 0) with false. change (N.land 33 1 =? 0) with false. cbv iota.
    rewrite <- (app_nil_r (marshal_bytes (le_flds e))). rewrite bytes_roundtrip by exact Hf. cbn [obind].
    destruct (le_flds e); [congruence|reflexivity].
Qed.

(* the code: whatever the reused struct held, Unmarshal gives the event back *)
Theorem le_codec prev e : le_ok e -> unmarshal_le prev (marshal_le e) = Ok e.
Proof.
  intros H. unfold unmarshal_le. rewrite le_codec_v by exact H. f_equal. unfold after_unmarshal_v.
  destruct e as [t m f]. cbn. destruct f; reflexivity.
Qed.

(* before the repair: a struct that still holds fields keeps them when the record has none *)
Corollary le_codec_stale_old prev e : le_ok e -> le_flds e = [] ->
  unmarshal_le_v false prev (marshal_le e) = Ok {| le_ts := le_ts e; le_msg := le_msg e; le_flds := le_flds prev |}.
Proof. intros H He. rewrite le_codec_v by exact H. unfold after_unmarshal_v. rewrite He. reflexivity. Qed.

(* LogEventIterator (Get; Next)* over the records of well-formed events: Next releases the struct, so
   nothing leaks from one event into the next *)
Theorem lei_read_ok : forall es le, Forall le_ok es -> lei_read le (map marshal_le es) = Ok es.
Proof.
  induction es as [|e es IH]; intros le Hes; cbn [map lei_read]; [reflexivity|].
  inversion Hes as [|? ? He Hes']; subst.
  rewrite le_codec by assumption. cbn [obind].
  rewrite IH by assumption. reflexivity.
Qed.
