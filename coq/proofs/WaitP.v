(* Lemmas about model/Wait.v *)
From LR Require Import lib.Base model.Wait.

(* ------------------------------------------------------------------ (A) the reader *)

Lemma mono_le b c tr : b <= c -> mono_from c tr -> mono_from b tr.
Proof. destruct tr as [|[k c'] tl]; cbn; [trivial|]. intros H [H1 H2]. split; [lia|exact H2]. Qed.

Lemma take_mono k b tr c tr' : take k tr = Some (c, tr') -> mono_from b tr -> b <= c /\ mono_from c tr'.
Proof.
  destruct tr as [|[k' c'] tl]; cbn; [discriminate|].
  destruct (okind_eqb k k'); [|discriminate]. intros H [H1 H2]. injection H as <- <-. split; assumption.
Qed.

(* one Get of the reader that keeps the position of its end-of-data decision (reload = false), on a reader that holds no fetched record *)
Lemma get_nc r tr b : r_cached r = false -> mono_from b tr -> r_pos r <= b ->
  match rd_get false r tr with
  | (GRec i, r', tr') => i = r_pos r /\ r_pos r' = r_pos r /\ r_cached r' = true /\ r_open r' = true /\
                         exists b', mono_from b' tr' /\ S (r_pos r) <= b'
  | (GEof, r', tr') => r_pos r' = r_pos r /\ r_cached r' = false /\ exists b', mono_from b' tr' /\ r_pos r <= b'
  | (GBad, _, _) => True
  end.
Proof.
  intros Hc Hm Hp. unfold rd_get. destruct r as [p o ca]. cbn -[Nat.ltb Nat.eqb Nat.min Nat.leb] in *. subst ca.
  destruct o.
  - (* open *)
    destruct (take OG tr) as [[c tr2]|] eqn:E2; [|exact I].
    destruct (take_mono _ _ _ _ _ E2 Hm) as [Hbc Hm2]. cbn -[Nat.ltb Nat.eqb Nat.min Nat.leb].
    destruct (p <? c) eqn:El.
    + apply Nat.ltb_lt in El. cbn -[Nat.ltb Nat.eqb Nat.min Nat.leb]. repeat (split; [reflexivity|]). exists c. split; [exact Hm2|lia].
    + destruct (take OC tr2) as [[c' tr3]|] eqn:E3; [|exact I].
      destruct (take_mono _ _ _ _ _ E3 Hm2) as [Hcc Hm3]. cbn -[Nat.ltb Nat.eqb Nat.min Nat.leb]. repeat (split; [reflexivity|]). exists c'. split; [exact Hm3|lia].
  - (* closed: opened with SetPos *)
    destruct (take OS tr) as [[c0 tr1]|] eqn:E1; [|exact I].
    destruct (take_mono _ _ _ _ _ E1 Hm) as [Hb0 Hm1].
    assert (Hpp : (if p =? 0 then 0 else Nat.min p c0) = p).
    { destruct (p =? 0) eqn:E0; [apply Nat.eqb_eq in E0; lia|apply Nat.min_l; lia]. }
    rewrite Hpp. cbn -[Nat.ltb Nat.eqb Nat.min Nat.leb].
    destruct (take OG tr1) as [[c tr2]|] eqn:E2; [|exact I].
    destruct (take_mono _ _ _ _ _ E2 Hm1) as [Hbc Hm2]. cbn -[Nat.ltb Nat.eqb Nat.min Nat.leb].
    destruct (p <? c) eqn:El.
    + apply Nat.ltb_lt in El. cbn -[Nat.ltb Nat.eqb Nat.min Nat.leb]. repeat (split; [reflexivity|]). exists c. split; [exact Hm2|lia].
    + destruct (take OC tr2) as [[c' tr3]|] eqn:E3; [|exact I].
      destruct (take_mono _ _ _ _ _ E3 Hm2) as [Hcc Hm3]. cbn -[Nat.ltb Nat.eqb Nat.min Nat.leb]. repeat (split; [reflexivity|]). exists c'. split; [exact Hm3|lia].
Qed.

(* Next on a reader that holds the fetched record *)
Lemma next_c r tr b : r_cached r = true -> r_open r = true -> mono_from b tr -> S (r_pos r) <= b ->
  match rd_next false r tr with
  | (true, r', tr') => r_pos r' = S (r_pos r) /\ r_cached r' = false /\ exists b', mono_from b' tr' /\ r_pos r' <= b'
  | (false, _, _) => True
  end.
Proof.
  intros Hc Ho Hm Hp. unfold rd_next, rd_get. destruct r as [p o ca]. cbn -[Nat.ltb Nat.eqb Nat.min Nat.leb] in *. subst o ca.
  destruct (take OG tr) as [[c tr2]|] eqn:E2; [|exact I].
  destruct (take_mono _ _ _ _ _ E2 Hm) as [Hbc Hm2]. cbn -[Nat.ltb Nat.eqb Nat.min Nat.leb].
  destruct (take ON tr2) as [[c3 tr3]|] eqn:E3; [|exact I].
  destruct (take_mono _ _ _ _ _ E3 Hm2) as [Hcc Hm3]. cbn -[Nat.ltb Nat.eqb Nat.min Nat.leb]. repeat (split; [reflexivity|]). exists c3. split; [exact Hm3|lia].
Qed.

(* the reader that keeps the position of its end-of-data decision never steps over a record: what a read-to-end delivers is the run of consecutive indices
   starting at its position, and the position it is left with is the first index it did not deliver *)
Lemma read_loop_fixed fuel : forall r tr b, r_cached r = false -> mono_from b tr -> r_pos r <= b ->
  match read_loop fuel false r tr with
  | (l, r', tr', ok) => l = seq (r_pos r) (length l) /\
                        (ok = true -> r_pos r' = r_pos r + length l /\ r_cached r' = false /\
                                      exists b', mono_from b' tr' /\ r_pos r' <= b')
  end.
Proof.
  induction fuel as [|f IH]; intros r tr b Hc Hm Hp; cbn [read_loop].
  - split; [reflexivity|discriminate].
  - pose proof (get_nc r tr b Hc Hm Hp) as G.
    destruct (rd_get false r tr) as [[g r1] tr1]. destruct g as [i| |].
    + destruct G as (-> & Hp1 & Hc1 & Ho1 & b1 & Hm1 & Hb1).
      assert (Hb1' : S (r_pos r1) <= b1) by lia.
      pose proof (next_c r1 tr1 b1 Hc1 Ho1 Hm1 Hb1') as N.
      destruct (rd_next false r1 tr1) as [[okn r2] tr2]. destruct okn.
      * destruct N as (Hp2 & Hc2 & b2 & Hm2 & Hb2).
        specialize (IH r2 tr2 b2 Hc2 Hm2 Hb2).
        destruct (read_loop f false r2 tr2) as [[[l rf] trf] ok]. destruct IH as [IHl IHo].
        split.
        { cbn [length seq]. f_equal. rewrite IHl at 1. rewrite Hp2, Hp1. reflexivity. }
        { intros Hok. destruct (IHo Hok) as (Hf & Hcf & bf & Hmf & Hbf). split; [|split; [exact Hcf|exists bf; split; assumption]].
          cbn [length]. lia. }
      * split; [reflexivity|discriminate].
    + destruct G as (Hp1 & Hc1 & b1 & Hm1 & Hb1). split; [reflexivity|]. intros _. cbn [length].
      split; [lia|]. split; [exact Hc1|]. exists b1. split; [exact Hm1|lia].
    + split; [reflexivity|discriminate].
Qed.

Lemma last_default {A} (l : list A) d d' : l <> [] -> last l d = last l d'.
Proof.
  induction l as [|a l IH]; [congruence|]. intros _. destruct l as [|b l]; [reflexivity|].
  change (last (b :: l) d = last (b :: l) d'). apply IH. discriminate.
Qed.

(* over several read-to-end rounds *)
Lemma read_rounds_fixed n fuel : forall r tr b, r_cached r = false -> mono_from b tr -> r_pos r <= b ->
  match read_rounds n fuel false r tr with
  | (rounds, _, ok) => concat (map fst rounds) = seq (r_pos r) (length (concat (map fst rounds))) /\
                       (ok = true -> forall p, last (map snd rounds) (r_pos r) = p -> p = r_pos r + length (concat (map fst rounds)))
  end.
Proof.
  induction n as [|m IH]; intros r tr b Hc Hm Hp; cbn [read_rounds].
  - cbn. split; [reflexivity|]. intros _ p <-. lia.
  - pose proof (read_loop_fixed fuel r tr b Hc Hm Hp) as L.
    destruct (read_loop fuel false r tr) as [[[l r1] tr1] ok]. destruct L as [Ll Lo]. destruct ok.
    + destruct (Lo eq_refl) as (Hp1 & Hc1 & b1 & Hm1 & Hb1).
      assert (Hrel : r_cached (rd_release r1) = false) by reflexivity.
      specialize (IH (rd_release r1) tr1 b1 Hrel Hm1 Hb1).
      destruct (read_rounds m fuel false (rd_release r1) tr1) as [[rest trf] okf]. destruct IH as [IHl IHo].
      cbn [map fst snd concat]. split.
      * rewrite app_length. rewrite seq_app. f_equal; [exact Ll|].
        rewrite IHl at 1. cbn [rd_release r_pos]. rewrite Hp1. reflexivity.
      * intros Hok p Hlast. rewrite app_length.
        destruct rest as [|x rest'].
        { cbn in Hlast. cbn. lia. }
        { assert (Hl2 : last (map snd (x :: rest')) (r_pos (rd_release r1)) = p).
          { rewrite <- Hlast. cbn [map]. rewrite (last_default (snd x :: map snd rest') _ (r_pos r)) by discriminate. reflexivity. }
          specialize (IHo Hok p Hl2). cbn [rd_release r_pos] in IHo. lia. }
    + cbn [map fst snd concat]. rewrite app_nil_r. split; [exact Ll|discriminate].
Qed.

(* ------------------------------------------------------------------ (B) the wait protocol *)

Record WInv (s : ps) : Prop := {
  w_sleep : forall cap, wp s = WSleep cap -> reg s = true /\ (cf s <= cap \/ toks s <> []);
  w_reg : reg s = true -> exists cap, wp s = WSleep cap;
  w_cnt : match wp s with WChk _ | WSleep _ | WWoken _ => 1 <= wcnt s | _ => True end
}.

Lemma set_tok_nonempty k v l : l <> [] -> set_tok k v l <> [].
Proof. destruct l; [congruence|]. destruct k; cbn -[Nat.ltb Nat.eqb]; discriminate. Qed.

Lemma WInv_init c : WInv (winit c).
Proof. constructor; cbn -[Nat.ltb Nat.eqb]; [discriminate|discriminate|exact I]. Qed.

Lemma WInv_step s l : WInv s -> WInv (wstep s l).
Proof.
  intros [H1 H2 H3]. destruct s as [c n r t w]. cbn -[Nat.ltb Nat.eqb] in *. destruct l; cbn -[Nat.ltb Nat.eqb].
  - (* LStart *)
    destruct w; try (constructor; cbn -[Nat.ltb Nat.eqb]; assumption);
      (assert (Hr : r = false) by (destruct r; [destruct (H2 eq_refl) as (cap & Hc); discriminate|reflexivity]); subst r;
       constructor; cbn -[Nat.ltb Nat.eqb]; [discriminate|discriminate|exact I]).
  - (* LFlushTo *)
    destruct (c <? c0) eqn:E; [|constructor; cbn -[Nat.ltb Nat.eqb]; assumption].
    constructor; cbn -[Nat.ltb Nat.eqb]; try assumption.
    intros cap Hw. destruct (H1 cap Hw) as [Hr _]. split; [exact Hr|]. right. destruct t; discriminate.
  - (* LTokLoad *)
    destruct (nth_error t k) as [[|]|] eqn:En; try (constructor; cbn -[Nat.ltb Nat.eqb]; assumption).
    destruct (n =? 0) eqn:E0.
    + apply Nat.eqb_eq in E0. subst n. constructor; cbn -[Nat.ltb Nat.eqb]; try assumption.
      intros cap Hw. subst w. lia.
    + constructor; cbn -[Nat.ltb Nat.eqb]; try assumption.
      intros cap Hw. destruct (H1 cap Hw) as [Hr Hor]. split; [exact Hr|].
      right. apply set_tok_nonempty. intros ->. destruct k; discriminate.
  - (* LTokClose *)
    destruct (nth_error t k) as [[|]|] eqn:En; try (constructor; cbn -[Nat.ltb Nat.eqb]; assumption).
    constructor; cbn -[Nat.ltb Nat.eqb].
    + intros cap Hw. destruct w; try discriminate. destruct r; [discriminate|].
      injection Hw as <-. destruct (H1 cap0 eq_refl) as [Hr _]. discriminate.
    + discriminate.
    + destruct w; try exact H3. destruct r; exact H3.
  - (* LWaiter *)
    destruct w; try (constructor; cbn -[Nat.ltb Nat.eqb]; assumption).
    + (* WInc *)
      assert (Hr : r = false) by (destruct r; [destruct (H2 eq_refl) as (cap' & Hc); discriminate|reflexivity]). subst r.
      constructor; cbn -[Nat.ltb Nat.eqb]; [discriminate|discriminate|lia].
    + (* WChk *)
      assert (Hr : r = false) by (destruct r; [destruct (H2 eq_refl) as (cap' & Hc); discriminate|reflexivity]). subst r.
      destruct (cap <? c) eqn:E.
      * constructor; cbn -[Nat.ltb Nat.eqb]; [discriminate|discriminate|exact I].
      * constructor; cbn -[Nat.ltb Nat.eqb].
        { intros cap' Hw. injection Hw as <-. split; [reflexivity|left; lia]. }
        { intros _. eexists. reflexivity. }
        { exact H3. }
    + (* WWoken *)
      assert (Hr : r = false) by (destruct r; [destruct (H2 eq_refl) as (cap' & Hc); discriminate|reflexivity]). subst r.
      constructor; cbn -[Nat.ltb Nat.eqb]; [discriminate|discriminate|exact H3].
  - (* LCancel *)
    destruct w; try (constructor; cbn -[Nat.ltb Nat.eqb]; assumption).
    constructor; cbn -[Nat.ltb Nat.eqb]; [discriminate|discriminate|exact I].
Qed.

Lemma WInv_run s sched : WInv s -> WInv (wrun s sched).
Proof. revert s. induction sched as [|l tl IH]; intros s H; [exact H|]. cbn -[Nat.ltb Nat.eqb]. apply IH. apply WInv_step. exact H. Qed.

(* a sleeping waiter with a flush in progress is woken when that flush's OnNewData completes, and if the flush
   made something readable beyond the waiter's position, its next check returns *)
Lemma finish_tok_wakes s cap : WInv s -> wp s = WSleep cap -> toks s <> [] ->
  wp (finish_tok s) = WWoken cap /\ cf (finish_tok s) = cf s.
Proof.
  intros [H1 H2 H3] Hw Ht. destruct s as [c n r t w]. cbn -[Nat.ltb Nat.eqb] in *. subst w.
  destruct (H1 cap eq_refl) as [-> _]. destruct t as [|t0 t]; [congruence|].
  unfold finish_tok. cbn -[Nat.ltb Nat.eqb]. destruct t0; cbn -[Nat.ltb Nat.eqb].
  - destruct (n =? 0) eqn:E0; [apply Nat.eqb_eq in E0; lia|]. cbn -[Nat.ltb Nat.eqb]. split; reflexivity.
  - split; reflexivity.
Qed.

Lemma wake_returns s cap : WInv s -> wp s = WSleep cap -> cap < cf s ->
  wp (wstep (wstep (finish_tok s) LWaiter) LWaiter) = WRet.
Proof.
  intros HI Hw Hlt.
  assert (Ht : toks s <> []).
  { destruct (w_sleep s HI cap Hw) as [_ [Hle|Hne]]; [lia|exact Hne]. }
  destruct (finish_tok_wakes s cap HI Hw Ht) as [Hf Hc].
  destruct (finish_tok s) as [c n r t w]. cbn -[Nat.ltb Nat.eqb] in *. subst w c. cbn -[Nat.ltb Nat.eqb].
  apply Nat.ltb_lt in Hlt. rewrite Hlt. reflexivity.
Qed.

(* ---- fan-in ---- *)
Lemma mstep_nth ss i l j d : nth j (mstep ss i l) d = if (j =? i) && (j <? length ss) then wstep (nth j ss d) l else nth j ss d.
Proof.
  revert i j. induction ss as [|s tl IH]; intros i j; cbn -[Nat.ltb Nat.eqb].
  - destruct j; cbn -[Nat.ltb Nat.eqb]; rewrite ?andb_false_r; reflexivity.
  - destruct i, j; cbn -[Nat.ltb Nat.eqb]; try reflexivity.
    + rewrite IH. reflexivity.
Qed.

Lemma minv_step ss i l : Forall WInv ss -> Forall WInv (mstep ss i l).
Proof.
  revert i. induction ss as [|s tl IH]; intros i H; cbn -[Nat.ltb Nat.eqb]; [constructor|].
  inversion H; subst. destruct i; constructor; try assumption.
  - apply WInv_step. assumption.
  - apply IH. assumption.
Qed.

Lemma minv_run ss sched : Forall WInv ss -> Forall WInv (mrun ss sched).
Proof.
  revert ss. induction sched as [|[i l] tl IH]; intros ss H; [exact H|]. cbn -[Nat.ltb Nat.eqb]. apply IH. apply minv_step. exact H.
Qed.

(* ------------------------------------------------------------------ (C) the client's stream reader *)
(* from a concrete position not beyond the end: every record from there on, each once, in order *)
Lemma sel_run_at : forall rounds n i, rounds <> [] -> i <= n ->
  sel_run true (SAt i) n rounds = seq i (n + appended rounds - i).
Proof.
  induction rounds as [|[b d] tl IH]; intros n i Hne Hi; [congruence|].
  cbn [sel_run resolve orb]. unfold appended. cbn [fold_right fst snd]. fold (appended tl).
  rewrite seq_length. replace (i + (n + b + d - i)) with (n + b + d) by lia.
  destruct tl as [|r tl'].
  - cbn [sel_run appended fold_right]. rewrite app_nil_r. f_equal. lia.
  - rewrite (IH (n + b + d) (n + b + d)) by (try discriminate; lia).
    replace (n + (b + d + appended (r :: tl')) - i) with ((n + b + d - i) + appended (r :: tl')) by lia.
    rewrite seq_app. f_equal. f_equal; lia.
Qed.

(* a stream started at `tail`: everything appended after the first request was resolved *)
Lemma sel_run_tail n b d tl : sel_run true STail n ((b, d) :: tl) = seq (n + b) (d + appended tl).
Proof.
  cbn [sel_run resolve orb]. rewrite seq_length. replace (n + b + d - (n + b)) with d by lia.
  destruct tl as [|r tl'].
  - cbn [sel_run appended fold_right]. rewrite app_nil_r. f_equal. lia.
  - rewrite (sel_run_at (r :: tl') (n + b + d) (n + b + d)) by (try discriminate; lia).
    rewrite seq_app. f_equal. f_equal; lia.
Qed.

(* ------------------------------------------------------------------ (D) a reader over no partition *)
Lemma empty_wait_loop_exits fuel : 1 <= fuel -> empty_wait_loop true fuel = Some 1.
Proof. destruct fuel; [lia|reflexivity]. Qed.
Lemma empty_wait_loop_spins : forall fuel, empty_wait_loop false fuel = None.
Proof. induction fuel as [|f IH]; [reflexivity|]. cbn [empty_wait_loop]. rewrite IH. reflexivity. Qed.

(* ------------------------------------------------------------------ (E) a waiting reader with a filter *)
Local Notation cnt l := (count_occ Bool.bool_dec l true).

Lemma scan_spec rest : match scan rest with
                       | (true, tl) => cnt rest = S (cnt tl)
                       | (false, tl) => cnt rest = 0 /\ tl = []
                       end.
Proof.
  induction rest as [|b tl IH]; [cbn; auto|]. destruct b; cbn [scan].
  - cbn. destruct (Bool.bool_dec true true); [reflexivity|congruence].
  - destruct (scan tl) as [[|] tl']; cbn; destruct (Bool.bool_dec false true); try discriminate; exact IH.
Qed.

Lemma src_get_spec f : fs_eof f = false ->
  match src_get true f with
  | (true, f') => cnt (fs_rest f) = S (cnt (fs_rest f')) /\ fs_eof f' = false
  | (false, f') => cnt (fs_rest f) = 0 /\ fs_rest f' = []
  end.
Proof.
  intros E. unfold src_get. rewrite E, Bool.andb_false_r. pose proof (scan_spec (fs_rest f)) as H.
  destruct (scan (fs_rest f)) as [[|] tl]; cbn [fs_rest fs_eof]; [auto|]. destruct H as [H _]. auto.
Qed.

Lemma get_all_spec : forall l, Forall (fun f => fs_eof f = false) l ->
  match get_all true l with
  | (true, l') => unread_matching l = S (unread_matching l')
  | (false, l') => unread_matching l = 0 /\ unread_matching l' = 0 /\ fwoken l' = false
  end.
Proof.
  induction l as [|f tl IH]; intros F; [cbn; auto|]. inversion F as [|? ? Ef Ft]; subst.
  cbn [get_all]. pose proof (src_get_spec f Ef) as H. destruct (src_get true f) as [[|] f'].
  - destruct H as [H _]. cbn [unread_matching fold_right]. fold (unread_matching tl). lia.
  - destruct H as [H1 H2]. specialize (IH Ft). destruct (get_all true tl) as [[|] tl'].
    + cbn [unread_matching fold_right]. fold (unread_matching tl) (unread_matching tl'). rewrite H2. cbn. lia.
    + destruct IH as (I1 & I2 & I3). cbn [unread_matching fold_right fwoken existsb]. fold (unread_matching tl) (unread_matching tl') (fwoken tl').
      rewrite H2, I3. cbn. repeat split; lia.
Qed.

Lemma clear_all l : Forall (fun f => fs_eof f = false) (map clear_eof l) /\ unread_matching (map clear_eof l) = unread_matching l.
Proof.
  split; [apply Forall_forall; intros f Hf; apply in_map_iff in Hf; destruct Hf as (g & <- & _); reflexivity|].
  induction l as [|f tl IH]; [reflexivity|]. cbn [map unread_matching fold_right clear_eof fs_rest]. fold (unread_matching (map clear_eof tl)) (unread_matching tl). lia.
Qed.

(* the round of the code's variant *)
Lemma fround_spec l :
  match fround true true l with
  | (true, l') => unread_matching l = S (unread_matching l')
  | (false, l') => unread_matching l = 0 /\ unread_matching l' = 0 /\ fwoken l' = false
  end.
Proof.
  unfold fround. destruct (clear_all l) as (F & U). pose proof (get_all_spec _ F) as H. rewrite U in H. exact H.
Qed.

(* a Release that does not reach the sources: a fixed point of the round on which WaitNewData returns at once *)
Lemma frounds_stuck refreshes l : fround false refreshes l = (false, l) -> forall n, frounds false refreshes n l = (false, l).
Proof. intros H. induction n as [|n IH]; [reflexivity|]. cbn [frounds]. rewrite H. exact IH. Qed.
