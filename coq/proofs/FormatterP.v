(* Lemmas about model/Formatter.v: the format-string parser is total; evaluating a parsed format
   on an event with well-formed fields is total when the JSON escaper is. *)
From LR Require Import lib.Base lib.DecLib model.DecUtf8 model.DecFields model.Json model.Formatter.
From LR Require Import proofs.DecFieldsP proofs.JsonP.
From Coq Require Import ZifyN ZifyNat ZifyBool.

Local Open Scope Z_scope.

Lemma classify_safe raw : safe (classify raw).
Proof.
  unfold classify. set (val := trim_sp raw). set (cv := lower_kw val).
  assert (Tail : safe (if bytes_eqb cv kw_vars then Ok (3%nat, [])
                       else if has_prefix kw_vars_colon cv && (5 <? blen val) then v <- slice_from val 5;; Ok (2%nat, v) else Err)).
  { destruct (bytes_eqb cv kw_vars); [apply safe_ok|].
    destruct (has_prefix kw_vars_colon cv); cbn [andb]; [|apply safe_err].
    destruct (Z.ltb_spec 5 (blen val)); [|apply safe_err].
    rewrite slice_from_ok by lia. apply safe_ok. }
  destruct (bytes_eqb cv kw_msg); [apply safe_ok|].
  destruct (bytes_eqb cv kw_msg_json); [apply safe_ok|].
  destruct (bytes_eqb cv kw_ts); [apply safe_ok|].
  destruct (has_prefix kw_ts_format cv); cbn [andb]; [|exact Tail].
  destruct (Z.ltb_spec 10 (blen val)); [|exact Tail].
  destruct (at_ok val (blen val - 1)) as [b Hb]; [lia|]. rewrite Hb. cbn [bind].
  destruct (byte_eqb b x29); [|exact Tail].
  rewrite slice_ok by lia. apply safe_ok.
Qed.

Lemma fmt_go_safe : forall fuel s i st startIdx fields,
  0 <= startIdx <= i -> i <= blen s -> blen s - i < Z.of_nat fuel -> 0 < Z.of_nat fuel ->
  safe (fmt_go fuel s i st startIdx fields).
Proof.
  induction fuel as [|f IH]; intros s i st startIdx fields Hs Hi Hf Hp; [lia|].
  cbn [fmt_go]. destruct (Z.ltb_spec i (blen s)).
  - destruct (at_ok s i) as [c Hc]; [lia|]. rewrite Hc. cbn [bind].
    destruct st; cbn [negb].
    + destruct (byte_eqb c x7b).
      * destruct (Z.eqb_spec startIdx i); [apply IH; lia|].
        rewrite slice_ok by lia. apply safe_err.
      * destruct (byte_eqb c x7d); [|apply IH; lia].
        destruct (Z.eqb_spec startIdx i); [apply IH; lia|].
        rewrite slice_ok by lia. cbn [bind].
        apply safe_bind; [apply classify_safe|]. intros fld _. apply IH; lia.
    + destruct (byte_eqb c x7b); [|apply IH; lia].
      destruct (0 <? i - startIdx).
      * rewrite slice_ok by lia. cbn [bind]. apply IH; lia.
      * cbn [bind]. apply IH; lia.
  - destruct st; [apply safe_err|].
    destruct (startIdx <? blen s); [|apply safe_ok].
    rewrite slice_from_ok by lia. apply safe_ok.
Qed.

Lemma format_parse_safe s : safe (format_parse s).
Proof. unfold format_parse. pose proof (blen_nonneg s). apply fmt_go_safe; try lia; unfold blen; lia. Qed.

Section Eval.
  Variable quote : bytes -> bytes.
  Variable tsfmt : bytes -> Z -> bytes.
  Variable tagval : bytes -> bytes -> bytes.

  Lemma format_eval_safe : forall flds ts msg fields tl buf,
    wf_fields fields -> safe (escape_json msg) ->
    safe (format_eval quote tsfmt tagval flds ts msg fields tl buf).
  Proof.
    induction flds as [|[typ v] rest IH]; intros ts msg fields tl buf Hw He; cbn [format_eval]; [apply safe_ok|].
    apply safe_bind; [|intros piece _; apply IH; assumption].
    destruct typ as [|[|[|[|n]]]].
    - apply safe_ok.
    - destruct (bytes_eqb v kw_json); [exact He|apply safe_ok].
    - apply safe_bind; [apply value_wf; exact Hw|]. intros x _. apply safe_ok.
    - destruct (blen fields =? 0); [apply safe_ok|].
      apply safe_bind; [apply as_kv_wf; exact Hw|]. intros kv _. apply safe_ok.
    - apply safe_ok.
  Qed.
End Eval.
