(* Lemmas about model/DecXBinary.v: ranges of the decoded lengths, absence of Panic under the
   guard, the exact condition of the unguarded Panic. *)
From LR Require Import lib.Base lib.DecLib model.DecXBinary.
From Coq Require Import ZifyN ZifyNat ZifyBool.

Local Open Scope Z_scope.

Lemma uu_go_spec buf : forall idx shft res,
  match unmarshal_uint_go buf idx shft res with
  | Ok (n, _) => idx < n <= idx + blen buf
  | Err => True
  | _ => False
  end.
Proof.
  induction buf as [|b tl IH]; intros idx shft res; cbn [unmarshal_uint_go]; [exact I|].
  rewrite blen_cons. pose proof (blen_nonneg tl).
  destruct (Byte.to_N b <=? 127)%N; [lia|].
  specialize (IH (idx + 1) (shft + 7)%N (N.lor res (shl64 (Byte.to_N b mod 128) shft))).
  destruct (unmarshal_uint_go tl _ _ _) as [[n v]| | |]; try exact IH. lia.
Qed.

Lemma uu_spec buf :
  match unmarshal_uint buf with
  | Ok (n, _) => 0 < n <= blen buf
  | Err => True
  | _ => False
  end.
Proof. unfold unmarshal_uint. pose proof (uu_go_spec buf 0 0%N 0%N) as H. destruct (unmarshal_uint_go _ _ _ _) as [[n v]| | |]; try exact H; lia. Qed.

Lemma fixed_spec k buf :
  match unmarshal_fixed k buf with
  | Ok (n, _) => n = Z.of_nat k /\ n <= blen buf
  | Err => True
  | _ => False
  end.
Proof. unfold unmarshal_fixed. destruct (Z.ltb_spec (blen buf) (Z.of_nat k)); [exact I|]. lia. Qed.

(* UnmarshalBytes: what can come out.  Panic only without the guard. *)
Lemma ub_spec g buf :
  match unmarshal_bytes_g g buf with
  | Ok (n, r) => 0 < n <= blen buf /\ blen r < n
  | Err => True
  | Panic => g = false
  | OutOfFuel => False
  end.
Proof.
  unfold unmarshal_bytes_g. pose proof (uu_spec buf) as H.
  destruct (unmarshal_uint buf) as [[idx uln]| | |]; try exact H; [|contradiction]. cbn [bind].
  set (ln := to_int64 (Z.of_N uln)). set (hi := to_int64 (ln + idx)).
  destruct g; cbn [andb].
  - destruct (Z.ltb_spec ln 0); cbn [orb]; [exact I|].
    destruct (Z.ltb_spec hi idx); [exact I|].
    destruct (Z.ltb_spec (blen buf) hi); [exact I|].
    destruct (slice_cases buf idx hi) as [[r [E [L R]]]|E]; rewrite E; cbn [bind].
    + lia.
    + apply slice_panic_iff in E. lia.
  - destruct (Z.ltb_spec (blen buf) hi); [exact I|].
    destruct (slice_cases buf idx hi) as [[r [E [L R]]]|E]; rewrite E; cbn [bind]; [lia|reflexivity].
Qed.

Lemma ub_guarded_safe buf : safe (unmarshal_bytes_g true buf).
Proof.
  pose proof (ub_spec true buf) as H. split; intros E; rewrite E in H; [discriminate|contradiction].
Qed.

Lemma ub_no_fuel g buf : unmarshal_bytes_g g buf <> OutOfFuel.
Proof. pose proof (ub_spec g buf) as H. intros E. rewrite E in H. exact H. Qed.

(* the guard takes nothing away: wherever the dependency's function answers (a value or an error), the guarded
   one gives the same answer; the only inputs on which they differ are the ones on which the dependency panics *)
Lemma ub_guard_conservative buf :
  unmarshal_bytes buf <> Panic -> unmarshal_bytes_g true buf = unmarshal_bytes buf.
Proof.
  unfold unmarshal_bytes, unmarshal_bytes_g. pose proof (uu_spec buf) as S.
  destruct (unmarshal_uint buf) as [[idx uln]| | |]; try reflexivity. cbn [bind andb].
  set (ln := to_int64 (Z.of_N uln)). set (hi := to_int64 (ln + idx)).
  pose proof (to_int64_range (Z.of_N uln)) as Rl. fold ln in Rl.
  pose proof (to_int64_range (ln + idx)) as Rh. fold hi in Rh.
  destruct (Z.ltb_spec ln 0) as [Ln|Ln]; cbn [orb].
  - (* ln < 0: hi < idx in every case *)
    assert (Hh : hi < idx).
    { destruct (Z_lt_le_dec (ln + idx) two63) as [Sm|Bg].
      - unfold hi. rewrite to_int64_small by (unfold two63 in *; lia). lia.
      - unfold two63 in *. lia. }
    destruct (Z.ltb_spec (blen buf) hi); [reflexivity|].
    intros NP. exfalso. apply NP.
    assert (E : slice buf idx hi = Panic) by (apply slice_panic_iff; lia). rewrite E. reflexivity.
  - destruct (Z.ltb_spec hi idx) as [Hh|Hh]; [|reflexivity].
    destruct (Z.ltb_spec (blen buf) hi); [reflexivity|].
    intros NP. exfalso. apply NP.
    assert (E : slice buf idx hi = Panic) by (apply slice_panic_iff; lia). rewrite E. reflexivity.
Qed.

(* the unguarded decoder does not panic when length + header stays below 2^63 *)
Lemma ub_small_nopanic buf :
  (forall idx uln, unmarshal_uint buf = Ok (idx, uln) -> Z.of_N uln + idx < two63) ->
  unmarshal_bytes buf <> Panic.
Proof.
  intros H. unfold unmarshal_bytes, unmarshal_bytes_g. pose proof (uu_spec buf) as S.
  destruct (unmarshal_uint buf) as [[idx uln]| | |]; try discriminate; [|contradiction]. cbn [bind andb].
  specialize (H idx uln eq_refl).
  assert (L : to_int64 (Z.of_N uln) = Z.of_N uln) by (apply to_int64_small; unfold two63 in *; lia).
  rewrite L.
  assert (L2 : to_int64 (Z.of_N uln + idx) = Z.of_N uln + idx) by (apply to_int64_small; unfold two63 in *; lia).
  rewrite L2.
  destruct (Z.ltb_spec (blen buf) (Z.of_N uln + idx)); [discriminate|].
  rewrite slice_ok by lia. cbn [bind]. discriminate.
Qed.

(* ... and does panic when the decoded length has bit 63 set (any buffer shorter than 2^63 bytes) *)
Lemma ub_huge_panic buf idx uln :
  blen buf < two63 -> unmarshal_uint buf = Ok (idx, uln) -> two63 <= Z.of_N uln < two64 ->
  unmarshal_bytes buf = Panic.
Proof.
  intros B E H. unfold unmarshal_bytes, unmarshal_bytes_g. pose proof (uu_spec buf) as S. rewrite E in *. cbn [bind andb].
  assert (L : to_int64 (Z.of_N uln) = Z.of_N uln - two64).
  { unfold to_int64. rewrite Z.mod_small by (unfold two63, two64 in *; lia).
    destruct (Z.ltb_spec (Z.of_N uln) two63); [lia|reflexivity]. }
  rewrite L.
  assert (L2 : to_int64 (Z.of_N uln - two64 + idx) = Z.of_N uln - two64 + idx).
  { apply to_int64_small. unfold two63, two64 in *. lia. }
  rewrite L2.
  destruct (Z.ltb_spec (blen buf) (Z.of_N uln - two64 + idx)); [unfold two63, two64 in *; lia|].
  destruct (slice_cases buf idx (Z.of_N uln - two64 + idx)) as [[r [E2 [_ R]]]|E2]; rewrite E2; cbn [bind]; [|reflexivity].
  unfold two63, two64 in *. lia.
Qed.

(* the panic witness of the dependency's function: ff x9 01 decodes to the length 2^64-1, -1 as an int; the guarded one rejects it *)
Definition huge_len : bytes := [xff;xff;xff;xff;xff;xff;xff;xff;xff;x01].
Lemma huge_len_panics : unmarshal_bytes huge_len = Panic.
Proof. vm_compute. reflexivity. Qed.
Lemma huge_len_rejected : unmarshal_bytes_g true huge_len = Err.
Proof. vm_compute. reflexivity. Qed.

(* ---- round trip of the varint (so that the decoder model is not vacuous: every length is decodable) ---- *)
Lemma be_val_app acc a b : be_val acc (a ++ b) = be_val (be_val acc a) b.
Proof. revert acc. induction a as [|x a IH]; intros acc; cbn; [reflexivity|apply IH]. Qed.
