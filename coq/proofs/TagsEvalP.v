(* Lemmas about model/TagsEval.v, for the code's variant of the builder (the error of the LIKE probe is
   returned): the compiled closure has the reference meaning of the expression; a malformed source (incl. a
   malformed LIKE pattern) is refused; a nil func is never produced. *)
From LR Require Import lib.Base model.KV model.Tags model.TagsEval.

Section Spec.
  Variable upper lower : bytes -> bytes.
  Variable pmatch : bytes -> bytes -> option bool.

  Notation build_ident := (build_ident upper lower).
  Notation build_cond := (build_cond upper lower pmatch false).
  Notation build_xcond := (build_xcond upper lower pmatch false).
  Notation build_xconds := (build_xconds upper lower pmatch false).
  Notation build_ors := (build_ors upper lower pmatch false).
  Notation ref_ident := (ref_ident upper lower).
  Notation ref_cond := (ref_cond upper lower pmatch).
  Notation ref_xcond := (ref_xcond upper lower pmatch).
  Notation ref_expr := (ref_expr upper lower pmatch).
  Notation ident_wf := (ident_wf upper).
  Notation cond_wf := (cond_wf upper).
  Notation cond_like_ok := (cond_like_ok upper pmatch).
  Notation cond_ok := (cond_ok upper pmatch).

  (* the result of a builder step is as the reference says: a closure computing [ref] when the piece is
     well-formed, an error otherwise; never a nil func *)
  Definition good (r : option (option tefn)) (wf : bool) (ref : kvmap -> bool) : Prop :=
    match r with
    | Some (Some f) => wf = true /\ forall m, f m = Ok (ref m)
    | Some None => False
    | None => wf = false
    end.

  Fixpoint ident_spec (id : ident) :
    match build_ident id with
    | Some tvf => ident_wf id = true /\ forall m, tvf m = ref_ident id m
    | None => ident_wf id = false
    end.
  Proof.
    destruct id as [op params]. destruct params as [|p [|q r]]; cbn [TagsEval.build_ident TagsEval.ident_wf TagsEval.ref_ident].
    - split; reflexivity.
    - pose proof (ident_spec p) as IH. destruct (TagsEval.build_ident upper lower p) as [fint|].
      + destruct IH as (W & E). rewrite W. cbn [andb].
        destruct (bytes_eqb (upper op) FN_UPPER) eqn:E1.
        * split; [reflexivity|]. intros m. rewrite E. reflexivity.
        * cbn [orb]. destruct (bytes_eqb (upper op) FN_LOWER) eqn:E2; [|reflexivity].
          split; [reflexivity|]. intros m. rewrite E. reflexivity.
      + rewrite IH. reflexivity.
    - reflexivity.
  Qed.

  Lemma cond_good c cur : good (build_cond c cur) (cond_ok c) (ref_cond c).
  Proof.
    unfold TagsEval.build_cond, TagsEval.cond_ok, TagsEval.cond_wf, TagsEval.ref_cond, TagsEval.known_op, TagsEval.cond_like_ok.
    pose proof (ident_spec (c_ident c)) as IS.
    destruct (TagsEval.build_ident upper lower (c_ident c)) as [tvf|]; [|rewrite IS; reflexivity].
    destruct IS as (W & E). rewrite W. generalize (upper (c_op c)). intros op.
    (* the case split of the code, operator by operator; once the operator is known everything else computes *)
    repeat match goal with
    | |- context [if bytes_eqb op ?b then _ else _] =>
        let EQ := fresh "EQ" in destruct (bytes_eqb op b) eqn:EQ;
        [apply bytes_eqb_eq in EQ; subst op; cbn [andb orb existsb bytes_eqb byte_eqb Byte.eqb Byte.to_bits
           OP_LT OP_GT OP_LE OP_GE OP_NE OP_EQ OP_LIKE OP_CONTAINS OP_PREFIX OP_SUFFIX Bool.eqb];
         try (split; [reflexivity|intros m; rewrite E; reflexivity])|]
    end.
    - (* LIKE *)
      destruct (pmatch (c_value c) PROBE); [|reflexivity].
      split; [reflexivity|intros m; rewrite E; reflexivity].
    - (* no known operator *)
      cbn [andb orb existsb]. repeat match goal with H : bytes_eqb op _ = false |- _ => rewrite H; clear H end. reflexivity.
  Qed.

  Lemma build_xcond_expr neg ors cur :
    build_xcond (XC neg (BExpr ors)) cur =
    match build_ors ors cur with None => None | Some f => if neg then Some (Some (not_f f)) else Some f end.
  Proof. reflexivity. Qed.
  Lemma build_xcond_cond neg c cur :
    build_xcond (XC neg (BCond c)) cur =
    match build_cond c cur with None => None | Some f => if neg then Some (Some (not_f f)) else Some f end.
  Proof. reflexivity. Qed.

  Definition xgood (xc : xcond) : Prop :=
    forall cur, good (build_xcond xc cur) (xcond_all cond_ok xc) (ref_xcond xc).

  Lemma xconds_good cn : Forall xgood cn -> forall cur,
    good (build_xconds cn cur) (forallb (xcond_all cond_ok) cn) (fun m => forallb (fun x => ref_xcond x m) cn).
  Proof.
    induction 1 as [|x tl Hx Hall IH]; intros cur; [split; reflexivity|].
    specialize (Hx cur).
    destruct tl as [|y tl'].
    - cbn [TagsEval.build_xconds forallb]. unfold good in *. destruct (build_xcond x cur) as [[f|]|]; try assumption.
      + destruct Hx as (W & E). rewrite W. split; [reflexivity|]. intros m. rewrite E, andb_true_r. reflexivity.
      + rewrite Hx. reflexivity.
    - change (build_xconds (x :: y :: tl') cur) with
        (match build_xcond x cur with
         | None => None
         | Some efd0 => match build_xconds (y :: tl') efd0 with None => None | Some efd1 => Some (Some (and_f efd0 efd1)) end
         end).
      unfold good in Hx. destruct (build_xcond x cur) as [[f|]|]; [|contradiction|].
      + destruct Hx as (W & E). specialize (IH (Some f)). unfold good in IH.
        destruct (build_xconds (y :: tl') (Some f)) as [[g|]|]; [|contradiction|].
        * destruct IH as (W2 & E2). unfold good. cbn [forallb] in *. rewrite W, W2. split; [reflexivity|].
          intros m. unfold and_f. cbn [call]. rewrite E. destruct (ref_xcond x m); [rewrite E2; reflexivity|reflexivity].
        * unfold good. cbn [forallb] in *. rewrite IH. apply andb_false_r.
      + unfold good. cbn [forallb]. rewrite Hx. reflexivity.
  Qed.

  Definition ref_ors (l : list (list xcond)) (m : kvmap) : bool :=
    match l with [] => true | _ => existsb (forallb (fun x => ref_xcond x m)) l end.

  Lemma ors_good l : Forall (Forall xgood) l -> forall cur,
    good (build_ors l cur) (forallb (forallb (xcond_all cond_ok)) l) (ref_ors l).
  Proof.
    induction 1 as [|ands rest Ha Hall IH]; intros cur; [split; reflexivity|].
    pose proof (xconds_good ands Ha cur) as G0.
    cbn [TagsEval.build_ors]. unfold good in G0. destruct (build_xconds ands cur) as [[f|]|]; [|contradiction|].
    - destruct G0 as (W & E). destruct rest as [|a2 rest'].
      + unfold good. cbn [forallb]. rewrite W. split; [reflexivity|]. intros m. rewrite E. cbn. rewrite orb_false_r. reflexivity.
      + specialize (IH (Some f)). unfold good in IH.
        destruct (build_ors (a2 :: rest') (Some f)) as [[g|]|]; [|contradiction|].
        * destruct IH as (W2 & E2). unfold good. cbn [forallb] in *. rewrite W, W2. split; [reflexivity|].
          intros m. unfold or_f. cbn [call]. rewrite E. unfold ref_ors in *. cbn [existsb] in *.
          destruct (forallb (fun x => ref_xcond x m) ands); [reflexivity|]. rewrite E2. reflexivity.
        * unfold good. cbn [forallb] in *. rewrite IH. apply andb_false_r.
    - unfold good. cbn [forallb]. rewrite G0. reflexivity.
  Qed.

  (* size of a condition tree, for the induction through the nested lists *)
  Fixpoint xsize (xc : xcond) : nat :=
    match xc with
    | XC _ (BCond _) => 1
    | XC _ (BExpr ors) => S (list_sum (map (fun ands => S (list_sum (map xsize ands))) ors))
    end.

  Lemma in_sum_le {A} (f : A -> nat) l x : In x l -> f x <= list_sum (map f l).
  Proof.
    induction l as [|y l IH]; intros H; [destruct H|].
    change (list_sum (map f (y :: l))) with (f y + list_sum (map f l)).
    destruct H as [->|H]; [lia|specialize (IH H); lia].
  Qed.

  Lemma xgood_all : forall n xc, xsize xc <= n -> xgood xc.
  Proof.
    induction n as [|n IH]; intros xc Hs.
    - destruct xc as [neg [c|ors]]; cbn in Hs; lia.
    - destruct xc as [neg [c|ors]]; intros cur.
      + rewrite build_xcond_cond. cbn [xcond_all TagsEval.ref_xcond] in *.
        pose proof (cond_good c cur) as G. unfold good in *. destruct (build_cond c cur) as [[f|]|]; [|contradiction|exact G].
        destruct G as (W & E). destruct neg; [|split; assumption]. split; [exact W|].
        intros m. unfold not_f. cbn [call]. rewrite E. reflexivity.
      + rewrite build_xcond_expr. cbn [xcond_all] in *.
        assert (F : Forall (Forall xgood) ors).
        { rewrite Forall_forall. intros ands Ia. rewrite Forall_forall. intros x Ix. apply IH.
          cbn [xsize] in Hs.
          pose proof (in_sum_le (fun ands => S (list_sum (map xsize ands))) ors ands Ia) as L1. cbn beta in L1.
          pose proof (in_sum_le xsize ands x Ix) as L2. lia. }
        pose proof (ors_good ors F cur) as G. unfold good in *.
        destruct (build_ors ors cur) as [[f|]|]; [|contradiction|exact G].
        destruct G as (W & E).
        assert (R : forall m, ref_xcond (XC false (BExpr ors)) m = ref_ors ors m) by (intros m; destruct ors; reflexivity).
        destruct neg.
        * split; [exact W|]. intros m. unfold not_f. cbn [call]. rewrite E. cbn [TagsEval.ref_xcond].
          specialize (R m). cbn [TagsEval.ref_xcond] in R. rewrite R. reflexivity.
        * split; [exact W|]. intros m. rewrite E, R. reflexivity.
  Qed.

  (* FROM <expression>: the compiled closure is total and computes the reference meaning; a malformed
     expression (unknown operator or function, wrong arity, a LIKE pattern path.Match rejects) is refused *)
  Theorem source_expr_good e :
    good (build_source upper lower pmatch (SExpr (Some e))) (expr_all cond_ok e) (ref_expr e).
  Proof.
    change (build_source upper lower pmatch (SExpr (Some e))) with (build_ors e None).
    assert (F : Forall (Forall xgood) e).
    { rewrite Forall_forall. intros ands _. rewrite Forall_forall. intros x _. exact (xgood_all (xsize x) x (le_n _)). }
    pose proof (ors_good e F None) as G. unfold good in *.
    destruct (build_ors e None) as [[f|]|]; [|contradiction|exact G].
    destruct G as (W & E). split; [exact W|]. intros m. rewrite E. destruct e; reflexivity.
  Qed.
End Spec.
