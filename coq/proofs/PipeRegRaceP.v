(* Concurrent ensurePipe calls for one new name with one definition (model/PipeReg.v, estep) *)
From LR Require Import lib.Base model.PipeReg.

(* per-call invariant of the code's loop (retry = true) *)
Definition epc_ok (present : bool) (pc : epc) : Prop :=
  match pc with
  | EGet r => r <= 1 /\ (r = 1 -> present = true)
  | ECheck r => r = 0
  | EInsert r => r = 0
  | EOk => present = true
  | EFail => False
  end.
Definition einv (s : estate) : Prop := forall pc, In pc (e_pc s) -> epc_ok (e_present s) pc.

Lemma epc_ok_mono pc : epc_ok false pc -> epc_ok true pc.
Proof. destruct pc as [r|r|r| |]; cbn; intros H; try exact H; [split; [apply H|reflexivity]|reflexivity]. Qed.

Lemma estep_pc_inv present pc : epc_ok present pc ->
  let '(pr, pc') := estep_pc true present pc in epc_ok pr pc' /\ (present = true -> pr = true).
Proof.
  destruct pc as [r|r|r| |]; cbn [epc_ok estep_pc]; intros H.
  - destruct H as [Hr Hp]. destruct (Nat.leb_spec 3 r) as [H3|_]; [lia|].
    destruct present; cbn; [split; [reflexivity|auto]|]. split; [|auto].
    destruct r as [|r]; [reflexivity|]. assert (r = 0) by lia. subst. discriminate (Hp eq_refl).
  - subst r. destruct present; cbn; split; auto.
  - subst r. destruct present; cbn; split; auto.
  - split; auto.
  - destruct H.
Qed.

Lemma in_firstn {A} (l : list A) : forall a y, In y (firstn a l) -> In y l.
Proof. induction l as [|x l IH]; intros [|a] y H; cbn in *; try contradiction. destruct H as [H|H]; [left; exact H|right; exact (IH a y H)]. Qed.
Lemma in_skipn {A} (l : list A) : forall a y, In y (skipn a l) -> In y l.
Proof. induction l as [|x l IH]; intros [|a] y H; cbn in *; try contradiction; try exact H. right. exact (IH a y H). Qed.

Lemma in_replace {A} (l : list A) a x y : In y (firstn a l ++ x :: skipn (S a) l) -> y = x \/ In y l.
Proof.
  rewrite in_app_iff. cbn [In]. intros [H|[H|H]].
  - right. exact (in_firstn l a y H).
  - left. symmetry. exact H.
  - right. exact (in_skipn l (S a) y H).
Qed.

Lemma estep_inv s a : einv s -> einv (estep true s a).
Proof.
  intros H. unfold estep. destruct (nth_error (e_pc s) a) as [pc|] eqn:E; [|exact H].
  pose proof (estep_pc_inv (e_present s) pc (H pc (nth_error_In _ _ E))) as Hs.
  destruct (estep_pc true (e_present s) pc) as [pr pc']. destruct Hs as [Hok Hmono].
  intros y Hy. cbn [e_present e_pc] in *. apply in_replace in Hy as [->|Hy]; [exact Hok|].
  specialize (H y Hy). destruct (e_present s); [rewrite (Hmono eq_refl); exact H|].
  destruct pr; [apply epc_ok_mono; exact H|exact H].
Qed.

Lemma erun_inv sched : forall s, einv s -> einv (erun true sched s).
Proof.
  unfold erun. induction sched as [|a sched IH]; intros s H; cbn; [exact H|]. apply IH. apply estep_inv. exact H.
Qed.

Lemma einit_inv K : einv (einit K).
Proof. intros pc Hin. cbn in Hin. apply repeat_spec in Hin. subst. cbn. split; [lia|intros; discriminate]. Qed.

Lemma estep_len r s a : length (e_pc (estep r s a)) = length (e_pc s).
Proof.
  unfold estep. destruct (nth_error (e_pc s) a) as [pc|] eqn:E; [|reflexivity].
  destruct (estep_pc r (e_present s) pc) as [pr pc']. cbn [e_pc].
  rewrite app_length. cbn [length]. rewrite firstn_length, skipn_length.
  assert (a < length (e_pc s)) by (apply nth_error_Some; congruence). lia.
Qed.

Lemma erun_len r sched : forall s, length (e_pc (erun r sched s)) = length (e_pc s).
Proof.
  unfold erun. induction sched as [|a sched IH]; intros s; cbn; [reflexivity|]. rewrite IH. apply estep_len.
Qed.

Lemma filter_all {A} (f : A -> bool) l : (forall x, In x l -> f x = true) -> filter f l = l.
Proof.
  induction l as [|x l IH]; intros H; cbn; [reflexivity|]. rewrite (H x (or_introl eq_refl)). f_equal.
  apply IH. intros y Hy. apply H. right. exact Hy.
Qed.

(* for every number of callers and every interleaving of their lock-protected steps: no call ever fails, and when all
   have finished every one of the K calls has succeeded (and the pipe exists) *)
Lemma ensure_race_all_succeed K sched :
  let s := erun true sched (einit K) in
  (forall pc, In pc (e_pc s) -> pc <> EFail) /\
  ((forall pc, In pc (e_pc s) -> epc_done pc = true) -> count_ok s = K /\ (0 < K -> e_present s = true)).
Proof.
  intros s. pose proof (erun_inv sched _ (einit_inv K)) as Hinv. fold s in Hinv.
  split.
  - intros pc Hin ->. exact (Hinv EFail Hin).
  - intros Hdone.
    assert (Hall : forall pc, In pc (e_pc s) -> epc_is_ok pc = true).
    { intros pc Hin. specialize (Hdone pc Hin). specialize (Hinv pc Hin).
      destruct pc; cbn in *; try discriminate; [reflexivity|destruct Hinv]. }
    assert (Hlen : length (e_pc s) = K).
    { subst s. rewrite erun_len. cbn. apply repeat_length. }
    split.
    + unfold count_ok. rewrite (filter_all _ _ Hall). exact Hlen.
    + intros HK. unfold einv in Hinv. destruct (e_pc s) as [|pc l]; [cbn in Hlen; lia|].
      specialize (Hall pc (or_introl eq_refl)). specialize (Hinv pc (or_introl eq_refl)).
      destruct pc; cbn in Hall; try discriminate. exact Hinv.
Qed.

(* returning CreatePipe's error at once (retry = false) loses that: two callers, both pass GetPipe and the first check
   before either inserts; the second insert fails although the pipe has exactly the requested definition *)
Lemma ensure_race_no_retry_fails :
  exists sched, In EFail (e_pc (erun false sched (einit 2))).
Proof. exists [0; 1; 0; 1; 0; 1]. vm_compute. right. left. reflexivity. Qed.

(* the fair schedule used by the correspondence check finishes every call, for the sizes the harness uses *)
Lemma efull_sched_finishes : forall K, K <= 12 ->
  forallb epc_done (e_pc (erun true (efull_sched K) (einit K))) = true.
Proof.
  intros K HK. do 13 (destruct K as [|K]; [vm_compute; reflexivity|]). lia.
Qed.
