(* RegexAbsP: an abstract interpretation of the regexp matcher of model/Regex.v over texts whose bytes are known only up
   to a set (a digit position, a letter of a month name, ...): `a_find` says whether a pattern MAY match somewhere in a
   text of the shape; when it says no, rx_find finds nothing in any text of the shape (a_find_sound), so the format
   cannot claim it (none_claims / parse_all_skip).  Then the shapes of the texts a format writes (`shapes`: per token the
   values grouped by length, per position the set of bytes that occur there) with their soundness, and the decision
   "no earlier format of the list claims a text written by format k" (proofs/C20FirstP.v runs it on the regenerated lists).
   (proofs/LqlTimeFmtP.v of C12 has its own copy of the first part, made before this file existed.) *)
From LR Require Import lib.Base model.GoTime model.Regex model.DateFmt model.DateOk.
From LR Require Import proofs.GoTimeP proofs.RegexP proofs.DateFmtP.
From Coq Require Import Strings.String ZArith Lia.
Open Scope bool_scope.

(* ------------------------------------------------------------------ Part R: abstract bytes *)

Inductive abyte := AB (b : byte) | AS (l : bytes).       (* this byte | one of these bytes *)
Definition concr (b : byte) (a : abyte) : Prop := match a with AB b' => b = b' | AS l => In b l end.
Definition concrs : bytes -> list abyte -> Prop := Forall2 concr.

Definition amay (c : cls) (a : abyte) : bool :=
  match a with AB b => cls_has c b | AS l => existsb (cls_has c) l end.

Lemma amay_sound c b a : concr b a -> cls_has c b = true -> amay c a = true.
Proof.
  destruct a as [b'|l]; cbn [concr amay]; [intros -> H; exact H|].
  intros Hin H. apply existsb_exists. exists b. split; assumption.
Qed.

Lemma concrs_length w aw : concrs w aw -> List.length w = List.length aw.
Proof. induction 1; cbn [List.length]; congruence. Qed.

(* ---- may ---- *)
Fixpoint a_take (c : cls) (n : nat) (w : list abyte) : option (list abyte) :=
  match n with
  | O => Some w
  | S n' => match w with
            | a :: w' => if amay c a then a_take c n' w' else None
            | [] => None
            end
  end.

Lemma a_take_sound c n : forall w aw w', concrs w aw -> take_fixed c n w = Some w' ->
  exists aw', a_take c n aw = Some aw' /\ concrs w' aw'.
Proof.
  induction n as [|n IH]; intros w aw w' Hc H; cbn [take_fixed a_take] in *.
  - injection H as <-. eauto.
  - destruct Hc as [|b a w0 aw0 Hb Hc]; [discriminate|].
    destruct (cls_has c b) eqn:E; [|discriminate]. rewrite (amay_sound c b a Hb E). eapply IH; eassumption.
Qed.

Fixpoint a_rep (c : cls) (n : nat) (w : list abyte) (k : list abyte -> bool) : bool :=
  k w || match n, w with
         | S n', a :: w' => amay c a && a_rep c n' w' k
         | _, _ => false
         end.

Lemma a_rep_sound {A} c (k : bytes -> option A) (ak : list abyte -> bool) res :
  (forall w aw, concrs w aw -> k w = Some res -> ak aw = true) ->
  forall n w aw, concrs w aw -> rep_greedy c n w k = Some res -> a_rep c n aw ak = true.
Proof.
  intros Hk. induction n as [|n IH]; intros w aw Hc H.
  - cbn [rep_greedy] in H. destruct aw; cbn [a_rep]; rewrite (Hk _ _ Hc H); reflexivity.
  - destruct Hc as [|b a w0 aw0 Hb Hc].
    + cbn [rep_greedy] in H. cbn [a_rep]. rewrite (Hk [] [] (Forall2_nil _) H). reflexivity.
    + cbn [rep_greedy] in H. cbn [a_rep]. destruct (cls_has c b) eqn:E.
      * destruct (rep_greedy c n w0 k) as [r|] eqn:Er.
        -- injection H as ->. rewrite (amay_sound c b a Hb E), (IH _ _ Hc Er). apply orb_true_r.
        -- rewrite (Hk _ _ (Forall2_cons _ _ Hb Hc) H). reflexivity.
      * rewrite (Hk _ _ (Forall2_cons _ _ Hb Hc) H). reflexivity.
Qed.

Fixpoint a_fixed_seq (s : list (cls * nat)) (w : list abyte) : option (list abyte) :=
  match s with
  | [] => Some w
  | (c, n) :: tl => match a_take c n w with Some w' => a_fixed_seq tl w' | None => None end
  end.

Lemma a_fixed_seq_sound s : forall w aw w', concrs w aw -> m_fixed_seq s w = Some w' ->
  exists aw', a_fixed_seq s aw = Some aw' /\ concrs w' aw'.
Proof.
  induction s as [|[c n] tl IH]; intros w aw w' Hc H; cbn [m_fixed_seq a_fixed_seq] in *.
  - injection H as <-. eauto.
  - destruct (take_fixed c n w) as [w1|] eqn:E; [|discriminate].
    destruct (a_take_sound c n w aw w1 Hc E) as (aw1 & -> & Hc1). eapply IH; eassumption.
Qed.

Definition extra_a (lo : nat) (hi : option nat) (w : list abyte) : nat :=
  match hi with Some h => h - lo | None => S (List.length w) end.

Fixpoint am_atoms (l : rx) (w : list abyte) : bool :=
  match l with
  | [] => true
  | ARep c lo hi :: tl =>
      match a_take c lo w with
      | None => false
      | Some w' => a_rep c (extra_a lo hi w') w' (am_atoms tl)
      end
  | AAlt alts :: tl =>
      existsb (fun s => match a_fixed_seq s w with Some w' => am_atoms tl w' | None => false end) alts
  end.

Lemma m_alts_inv {A} alts w (k : bytes -> option A) res : m_alts alts w k = Some res ->
  exists s w', In s alts /\ m_fixed_seq s w = Some w' /\ k w' = Some res.
Proof.
  induction alts as [|s tl IH]; cbn [m_alts]; [discriminate|].
  destruct (m_fixed_seq s w) as [w'|] eqn:E.
  - destruct (k w') as [r|] eqn:Ek.
    + intros H. injection H as ->. exists s, w'. split; [left; reflexivity|split; assumption].
    + intros H. destruct (IH H) as (s' & w'' & Hin & H1 & H2). exists s', w''. split; [right; exact Hin|split; assumption].
  - intros H. destruct (IH H) as (s' & w'' & Hin & H1 & H2). exists s', w''. split; [right; exact Hin|split; assumption].
Qed.

Lemma am_atoms_sound {A} l : forall w aw (k : bytes -> option A) res, concrs w aw ->
  m_atoms l w k = Some res -> am_atoms l aw = true.
Proof.
  induction l as [|[c lo hi|alts] tl IH]; intros w aw k res Hc H; cbn [m_atoms am_atoms] in *.
  - reflexivity.
  - destruct (take_fixed c lo w) as [w'|] eqn:E; [|discriminate].
    destruct (a_take_sound c lo w aw w' Hc E) as (aw' & -> & Hc').
    assert (En : extra lo hi w' = extra_a lo hi aw').
    { unfold extra, extra_a. destruct hi; [reflexivity|]. rewrite (concrs_length _ _ Hc'). reflexivity. }
    rewrite <- En. eapply (a_rep_sound c (fun w'' => m_atoms tl w'' k) (am_atoms tl) res); [|exact Hc'|exact H].
    intros w1 aw1 Hc1 H1. eapply IH; eassumption.
  - destruct (m_alts_inv _ _ _ _ H) as (s & w' & Hin & Hs & Hk).
    destruct (a_fixed_seq_sound s w aw w' Hc Hs) as (aw' & Ea & Hc').
    apply existsb_exists. exists s. split; [exact Hin|]. rewrite Ea. eapply IH; eassumption.
Qed.

Fixpoint a_find (l : rx) (w : list abyte) : bool :=
  am_atoms l w || match w with [] => false | _ :: w' => a_find l w' end.

Lemma a_find_sound l : forall w aw, concrs w aw -> a_find l aw = false -> rx_find l w = None.
Proof.
  induction w as [|b w IH]; intros aw Hc H.
  - inversion Hc; subst. cbn [a_find] in H. apply orb_false_iff in H as [H _].
    cbn [rx_find]. destruct (m_at l []) as [m|] eqn:E; [|reflexivity].
    unfold m_at in E. rewrite (am_atoms_sound l _ _ _ _ Hc E) in H. discriminate.
  - inversion Hc as [|b0 a w0 aw0 Hb Hc0]; subst. cbn [a_find] in H. apply orb_false_iff in H as [H1 H2].
    cbn [rx_find]. destruct (m_at l (b :: w)) as [m|] eqn:E.
    + unfold m_at in E. rewrite (am_atoms_sound l _ _ _ _ Hc E) in H1. discriminate.
    + apply (IH aw0 Hc0 H2).
Qed.

(* no compiled format of the list matches anywhere in a text of the shape *)
Definition none_claims (fs : list (option cfmt)) (aw : list abyte) : bool :=
  forallb (fun o => match o with Some cf => negb (a_find (cf_rx cf) aw) | None => false end) fs.

Lemma parse_all_skip now text aw : concrs text aw ->
  forall pre i post, none_claims pre aw = true ->
  parse_all_from i now (pre ++ post) text = parse_all_from (i + List.length pre) now post text.
Proof.
  intros Hc. induction pre as [|o pre IH]; intros i post H.
  - cbn [app List.length]. rewrite Nat.add_0_r. reflexivity.
  - cbn [none_claims forallb] in H. apply andb_true_iff in H as [Ho H]. destruct o as [cf|]; [|discriminate].
    apply negb_true_iff in Ho. cbn [app parse_all_from]. unfold parse_one, parse_one_v.
    rewrite (a_find_sound _ _ _ Hc Ho). rewrite (IH (S i) post H). cbn [List.length]. f_equal. lia.
Qed.

(* ------------------------------------------------------------------ the shapes of the texts a token list writes *)

(* the bytes that occur at position i of the words *)
Definition col (ws : list bytes) (i : nat) : bytes :=
  fold_right (fun w acc => match nth_error w i with Some b => add_byte b acc | None => acc end) [] ws.

Lemma col_in ws i w b : In w ws -> nth_error w i = Some b -> In b (col ws i).
Proof.
  induction ws as [|x ws IH]; [intros []|]. intros [->|Hin] Hb; cbn [col fold_right].
  - rewrite Hb. apply add_byte_in.
  - specialize (IH Hin Hb). destruct (nth_error x i); [apply add_byte_keep|]; exact IH.
Qed.

Definition abs_len (ws : list bytes) (n : nat) : list abyte :=
  let ws' := filter (fun w => Nat.eqb (List.length w) n) ws in
  map (fun i => AS (col ws' i)) (seq 0 n).
Definition lens (ws : list bytes) : list nat := nodup Nat.eq_dec (map (@List.length byte) ws).
Definition abs_vals (ws : list bytes) : list (list abyte) := map (abs_len ws) (lens ws).

Lemma concrs_cols ws' : forall (w : bytes) off, (forall i b, nth_error w i = Some b -> In b (col ws' (off + i))) ->
  concrs w (map (fun i => AS (col ws' i)) (seq off (List.length w))).
Proof.
  induction w as [|b w IH]; intros off H; cbn [List.length seq map]; [constructor|].
  constructor.
  - cbn [concr]. specialize (H 0%nat b eq_refl). rewrite Nat.add_0_r in H. exact H.
  - apply IH. intros i x Hx. specialize (H (S i) x Hx). rewrite Nat.add_succ_r in H. exact H.
Qed.

Lemma abs_vals_sound ws w : In w ws -> exists a, In a (abs_vals ws) /\ concrs w a.
Proof.
  intros Hin. exists (abs_len ws (List.length w)). split.
  - unfold abs_vals. apply in_map. unfold lens. apply nodup_In. apply in_map. exact Hin.
  - unfold abs_len. apply concrs_cols. intros i b Hb. cbn [Nat.add]. eapply col_in; [|exact Hb].
    apply filter_In. split; [exact Hin|apply Nat.eqb_refl].
Qed.

Fixpoint shapes_with (tokv : tok -> list (list abyte)) (l : list tok) : list (list abyte) :=
  match l with
  | [] => [[]]
  | t :: tl => flat_map (fun a => map (fun r => a ++ r) (shapes_with tokv tl)) (tokv t)
  end.

Lemma shapes_sound (tokv : tok -> list (list abyte)) l0 c : civil_ok l0 c ->
  (forall t w, In w (tvals t) -> exists a, In a (tokv t) /\ concrs w a) ->
  forall l, exists sh, In sh (shapes_with tokv l) /\ concrs (render_toks l c) sh.
Proof.
  intros Hc Hv. induction l as [|t tl IH].
  - exists []. split; [left; reflexivity|constructor].
  - destruct IH as (r & Hr & Cr). destruct (Hv t _ (render_in_tvals l0 c t Hc)) as (a & Ha & Ca).
    exists (a ++ r). split.
    + cbn [shapes_with]. apply in_flat_map. exists a. split; [exact Ha|]. apply in_map. exact Hr.
    + cbn [render_toks flat_map]. apply Forall2_app; assumption.
Qed.

(* which earlier formats MAY match somewhere in some text of the shapes *)
Definition may_claimers (fs : list (option cfmt)) (k : nat) (shs : list (list abyte)) : list nat :=
  filter (fun j => match nth_error fs j with
                   | Some (Some cf) => existsb (a_find (cf_rx cf)) shs
                   | _ => true
                   end) (seq 0 k).

Lemma may_claimers_sound fs k shs j cf text sh now : (j < k)%nat -> nth_error fs j = Some (Some cf) ->
  ~ In j (may_claimers fs k shs) -> In sh shs -> concrs text sh -> parse_one now cf text = None.
Proof.
  intros Hj Hn Hnot Hsh Hc. unfold parse_one, parse_one_v.
  destruct (a_find (cf_rx cf) sh) eqn:E.
  - exfalso. apply Hnot. unfold may_claimers. apply filter_In. split; [apply in_seq; lia|].
    rewrite Hn. apply existsb_exists. exists sh. split; assumption.
  - rewrite (a_find_sound _ _ _ Hc E). reflexivity.
Qed.
