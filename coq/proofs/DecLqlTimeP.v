(* The relative-time front end never panics: the unit byte is read only from a non-empty text, and
   the number text dt[1:len-1] is sliced only when the text has at least two bytes. *)
From LR Require Import lib.Base lib.DecLib model.DecUtf8 model.DecLqlTime.
From Coq Require Import ZifyN ZifyNat ZifyBool.

Local Open Scope Z_scope.

Lemma lql_rel_time_safe pf dt0 : safe (lql_rel_time pf dt0).
Proof.
  unfold lql_rel_time. set (dt := lower_kw (trim_sp dt0)). pose proof (blen_nonneg dt).
  destruct (Z.eqb_spec (blen dt) 0); [apply safe_err|].
  destruct (at_ok dt 0) as [c0 E0]; [lia|]. rewrite E0. cbn [bind].
  destruct (byte_eqb c0 x2d) eqn:Ec; cbn [negb]; [|apply safe_err].
  destruct (at_ok dt (blen dt - 1)) as [dim Ed]; [lia|]. rewrite Ed. cbn [bind].
  destruct (byte_eqb dim x6d || byte_eqb dim x68 || byte_eqb dim x64) eqn:Em; [|apply safe_err].
  assert (2 <= blen dt).
  { destruct (Z.eq_dec (blen dt) 1) as [L|L]; [|lia]. exfalso.
    rewrite L in Ed. change (1 - 1) with 0 in Ed. rewrite E0 in Ed. injection Ed as <-.
    apply byte_eqb_eq in Ec. subst c0. cbn in Em. discriminate. }
  rewrite slice_ok by lia. cbn [bind]. destruct (pf _); [apply safe_ok|apply safe_err].
Qed.
