(* Lemmas about model/Selector.v, part 2: hypotheses on histories, the refutation witnesses, and the
   invariant of reachable states (proofs/SelectorRunP.v continues with the induction over histories). *)
From LR Require Import lib.Base model.TmTree model.CIndex model.Selector proofs.TmTreeP proofs.CIndexP proofs.SelectorP.
Open Scope Z_scope.

(* ---------- hypotheses on histories ---------- *)
Definition op_data (o : op) : list Z := match o with HBatch segs => flat_map sg_ts segs | _ => [] end.
Definition hist_data (h : list op) : list Z := flat_map op_data h.
Definition sorted_z (l : list Z) : Prop :=
  forall i j, (i <= j)%nat -> (j < length l)%nat -> nth i l 0 <= nth j l 0.
(* timestamps non-decreasing in write order *)
Definition hist_sorted (h : list op) : Prop := sorted_z (hist_data h).
(* positions fit uint32 *)
Definition hist_small (h : list op) : Prop := Z.of_nat (length (hist_data h)) <= max_uint32.

(* the journal's discipline for one Service.Write: its first non-empty journal write continues the last
   chunk or opens a new one (a larger id); every further one opens a new chunk *)
Definition last_id (ids : list Z) : option Z := match ids with [] => None | _ => Some (last ids 0) end.
Fixpoint segs_disc (ids : list Z) (first : bool) (segs : list seg) : Prop :=
  match segs with
  | [] => True
  | sg :: tl =>
      match sg_ts sg with
      | [] => segs_disc ids first tl
      | _ => (first = true /\ last_id ids = Some (sg_cid sg) /\ segs_disc ids false tl)
             \/ ((forall c, In c ids -> c < sg_cid sg) /\ segs_disc (ids ++ [sg_cid sg]) false tl)
      end
  end.
Fixpoint ids_after (ids : list Z) (segs : list seg) : list Z :=
  match segs with
  | [] => ids
  | sg :: tl => match sg_ts sg with
                | [] => ids_after ids tl
                | _ => if existsb (Z.eqb (sg_cid sg)) ids then ids_after ids tl else ids_after (ids ++ [sg_cid sg]) tl
                end
  end.
Fixpoint hist_disc (ids : list Z) (h : list op) : Prop :=
  match h with
  | [] => True
  | HBatch segs :: tl => segs_disc ids true segs /\ hist_disc (ids_after ids segs) tl
  | _ :: tl => hist_disc ids tl
  end.
Definition hist_disciplined (h : list op) : Prop := hist_disc [] h.

(* after the index files were lost, a SyncChunks (by itself or as part of a read) comes before the next write *)
Fixpoint nwad (dropped : bool) (h : list op) : Prop :=
  match h with
  | [] => True
  | HDrop :: tl => nwad true tl
  | HBatch _ :: tl => dropped = false /\ nwad false tl
  | HSync :: tl => nwad false tl
  | HRead _ _ :: tl => nwad false tl
  | HServe :: tl => nwad dropped tl
  | HRestart :: tl => nwad dropped tl
  | HDescribe :: tl => nwad false tl
  end.
Definition no_write_after_drop (h : list op) : Prop := nwad false h.

(* ---------- boolean checkers for concrete witnesses ---------- *)
Definition int64_okb (z : Z) : bool := (min_int64 <=? z) && (z <=? max_int64).
Lemma int64_okb_ok z : int64_okb z = true -> int64_ok z.
Proof. unfold int64_okb, int64_ok. intros H. apply andb_true_iff in H as [H1 H2]. apply Z.leb_le in H1. apply Z.leb_le in H2. lia. Qed.
Definition opt_okb (o : option Z) : bool := match o with Some t => int64_okb t | None => true end.
Definition op_okb (o : op) : bool :=
  match o with
  | HBatch segs => forallb (fun sg => forallb int64_okb (sg_ts sg)) segs
  | HRead o1 o2 => opt_okb o1 && opt_okb o2
  | _ => true
  end.
Lemma forallb_Forall {A} (f : A -> bool) (P : A -> Prop) (l : list A) :
  (forall x, f x = true -> P x) -> forallb f l = true -> Forall P l.
Proof.
  intros H. induction l as [|x l IH]; cbn; intros E; [constructor|].
  apply andb_true_iff in E as [E1 E2]. constructor; [apply H; exact E1|apply IH; exact E2].
Qed.
Lemma op_okb_ok o : op_okb o = true -> op_ok o.
Proof.
  destruct o as [segs| | | |o1 o2| |]; cbn; intros H; try exact I.
  - apply (forallb_Forall _ _ _ (fun sg E => forallb_Forall int64_okb int64_ok (sg_ts sg) int64_okb_ok E) H).
  - apply andb_true_iff in H as [H1 H2]. split; intros t ->; apply int64_okb_ok; assumption.
Qed.
Lemma hist_okb_ok h : forallb op_okb h = true -> Forall op_ok h.
Proof. apply forallb_Forall. exact op_okb_ok. Qed.

Fixpoint sorted_zb (l : list Z) : bool :=
  match l with a :: ((b :: _) as tl) => (a <=? b) && sorted_zb tl | _ => true end.
Lemma sorted_zb_ok l : sorted_zb l = true -> sorted_z l.
Proof.
  induction l as [|a l IH]; intros H; [intros i j _ Hj; cbn in Hj; lia|].
  assert (Hl : sorted_zb l = true).
  { destruct l as [|b l']; [reflexivity|]. cbn [sorted_zb] in H. apply andb_true_iff in H as [_ H]. exact H. }
  specialize (IH Hl).
  assert (Hhd : forall m, (m < length l)%nat -> a <= nth m l 0).
  { destruct l as [|b l']; [cbn; lia|]. cbn [sorted_zb] in H. apply andb_true_iff in H as [H _]. apply Z.leb_le in H.
    intros m Hm. pose proof (IH 0%nat m ltac:(lia) Hm) as H0. change (nth 0 (b :: l') 0) with b in H0. lia. }
  intros i j Hij Hj. cbn [length] in Hj.
  destruct i as [|i'], j as [|j']; cbn [nth]; try lia.
  - apply Hhd. lia.
  - apply IH; lia.
Qed.

Fixpoint segs_discb (ids : list Z) (first : bool) (segs : list seg) : bool :=
  match segs with
  | [] => true
  | sg :: tl =>
      match sg_ts sg with
      | [] => segs_discb ids first tl
      | _ => (first && (match ids with [] => false | _ => last ids 0 =? sg_cid sg end) && segs_discb ids false tl)
             || (forallb (fun c => c <? sg_cid sg) ids && segs_discb (ids ++ [sg_cid sg]) false tl)
      end
  end.
Lemma segs_discb_ok segs : forall ids first, segs_discb ids first segs = true -> segs_disc ids first segs.
Proof.
  induction segs as [|sg tl IH]; intros ids first H; [exact I|]. cbn [segs_discb segs_disc] in *.
  destruct (sg_ts sg); [apply IH; exact H|].
  apply orb_true_iff in H as [H|H].
  - left. apply andb_true_iff in H as [H H3]. apply andb_true_iff in H as [H1 H2].
    split; [destruct first; [reflexivity|discriminate]|]. split; [|apply IH; exact H3].
    unfold last_id. destruct ids; [discriminate|]. apply Z.eqb_eq in H2. rewrite H2. reflexivity.
  - right. apply andb_true_iff in H as [H1 H2]. split; [|apply IH; exact H2].
    intros c Hc. rewrite forallb_forall in H1. specialize (H1 c Hc). apply Z.ltb_lt in H1. exact H1.
Qed.
Fixpoint hist_discb (ids : list Z) (h : list op) : bool :=
  match h with
  | [] => true
  | HBatch segs :: tl => segs_discb ids true segs && hist_discb (ids_after ids segs) tl
  | _ :: tl => hist_discb ids tl
  end.
Lemma hist_discb_ok h : forall ids, hist_discb ids h = true -> hist_disc ids h.
Proof.
  induction h as [|o h IH]; intros ids H; [exact I|]. destruct o; cbn [hist_discb hist_disc] in *; try (apply IH; exact H).
  apply andb_true_iff in H as [H1 H2]. split; [apply segs_discb_ok; exact H1|apply IH; exact H2].
Qed.
Fixpoint nwadb (dropped : bool) (h : list op) : bool :=
  match h with
  | [] => true
  | HDrop :: tl => nwadb true tl
  | HBatch _ :: tl => negb dropped && nwadb false tl
  | HSync :: tl => nwadb false tl
  | HRead _ _ :: tl => nwadb false tl
  | HServe :: tl => nwadb dropped tl
  | HRestart :: tl => nwadb dropped tl
  | HDescribe :: tl => nwadb false tl
  end.
Lemma nwadb_ok h : forall dropped, nwadb dropped h = true -> nwad dropped h.
Proof.
  induction h as [|o h IH]; intros dropped H; [exact I|]. destruct o; cbn [nwadb nwad] in *; try (apply IH; exact H).
  apply andb_true_iff in H as [H1 H2]. split; [destruct dropped; [discriminate|reflexivity]|apply IH; exact H2].
Qed.

Lemma hist_smallb_ok h : (Z.of_nat (length (hist_data h)) <=? max_uint32) = true -> hist_small h.
Proof. unfold hist_small. intros H. apply Z.leb_le in H. exact H. Qed.

(* ---------- the property with the hypotheses under which it is proved (proofs/SelectorRunP.v complete_fixed) ---------- *)
Definition complete_under_hyps (v : variant) : Prop :=
  forall hist o1 o2, Forall op_ok hist -> op_ok (HRead o1 o2) ->
    hist_sorted hist -> hist_disciplined hist -> hist_small hist ->
    complete_at v (run v hist) o1 o2.

(* all hypotheses of complete_under_hyps, decided for a concrete history *)
Definition hyps_okb (h : list op) (o1 o2 : option Z) : bool :=
  forallb op_okb h && op_okb (HRead o1 o2) && sorted_zb (hist_data h) && hist_discb [] h
  && (Z.of_nat (length (hist_data h)) <=? max_uint32).

(* ---------- the refutation witnesses ---------- *)
Lemma not_complete_by_length v st o1 o2 :
  length (fst (range_read v st o1 o2)) <> length (filter (in_range_opt o1 o2) (read_all st)) -> ~ complete_at v st o1 o2.
Proof. intros H E. apply H. unfold complete_at in E. rewrite E. reflexivity. Qed.

Definition lengths_differ (v : variant) (h : list op) (o1 o2 : option Z) : bool :=
  negb (Nat.eqb (length (fst (range_read v (run v h) o1 o2))) (length (filter (in_range_opt o1 o2) (read_all (run v h))))).

(* a history that satisfies every hypothesis and on which the RANGE read has the wrong length refutes the statement *)
Lemma refute_under_hyps v h o1 o2 :
  hyps_okb h o1 o2 = true -> lengths_differ v h o1 o2 = true -> ~ complete_under_hyps v.
Proof.
  unfold hyps_okb. intros Hh Hd H.
  apply andb_true_iff in Hh as [Hh H5]. apply andb_true_iff in Hh as [Hh H4].
  apply andb_true_iff in Hh as [Hh H3]. apply andb_true_iff in Hh as [H1 H2].
  specialize (H h o1 o2 (hist_okb_ok _ H1) (op_okb_ok _ H2) (sorted_zb_ok _ H3) (hist_discb_ok _ _ H4) (hist_smallb_ok _ H5)).
  revert H. apply not_complete_by_length. unfold lengths_differ in Hd. apply negb_true_iff in Hd. apply Nat.eqb_neq in Hd. exact Hd.
Qed.

(* ---- what each of the four repairs bought: without it the statement is false although every hypothesis
        holds (whatever the other flags are) ---- *)

(* (a) an equal-timestamp run across a sparse-index point; monotone data, explicit bounds: before the
       lower-bound repair RANGE ["20":"20"] delivered 1 of 251 events *)
Definition wit_a : list op := [HBatch [mkseg 1 false (repeat 10 249 ++ [20])]; HBatch [mkseg 1 false (repeat 20 250)]].
Lemma refuted_equal_run v : fix_lb v = false -> ~ complete_under_hyps v.
Proof.
  destruct v as [[] fz fo fp]; [discriminate|]. intros _.
  apply (refute_under_hyps _ wit_a (Some 20) (Some 20)); [vm_compute; reflexivity|].
  destruct fz, fo, fp; vm_compute; reflexivity.
Qed.

(* (b) a batch whose first timestamp is 0: iwrapper took 0 for "unset" (hull [5,7]) *)
Definition wit_b : list op := [HBatch [mkseg 1 false [0; 5; 7]]].
Lemma refuted_zero_first v : fix_zero v = false -> ~ complete_under_hyps v.
Proof.
  destruct v as [fl [] fo fp]; [discriminate|]. intros _.
  apply (refute_under_hyps _ wit_b (Some (-10)) (Some 2)); [vm_compute; reflexivity|].
  destruct fl, fo, fp; vm_compute; reflexivity.
Qed.

(* (d) an omitted lower bound was 0, not "unbounded" *)
Definition wit_d : list op := [HBatch [mkseg 1 false [-5; -3; 4]]].
Lemma refuted_open_lower v : fix_open v = false -> ~ complete_under_hyps v.
Proof.
  destruct v as [fl fz [] fp]; [discriminate|]. intros _.
  apply (refute_under_hyps _ wit_d None (Some 10)); [vm_compute; reflexivity|].
  destruct fl, fz, fp; vm_compute; reflexivity.
Qed.

(* (e) a rebuilt index over negative timestamps: every segment max started at 0. The witness does not use
       iwrapper's side of the defect (no timestamp 0, no sign change inside a batch) *)
Definition wit_e : list op :=
  [HBatch [mkseg 1 false (repeat (-1000) 150 ++ repeat (-900) 150)]; HDrop; HSync; HRead (Some (-950)) (Some (-950)); HServe;
   HBatch [mkseg 1 false (repeat (-500) 10)]; HBatch [mkseg 1 false (repeat (-400) 10)]; HBatch [mkseg 1 false (repeat (-300) 10)]].
Lemma refuted_rebuild_negative v : fix_zero v = false -> ~ complete_under_hyps v.
Proof.
  destruct v as [fl [] fo fp]; [discriminate|]. intros _.
  apply (refute_under_hyps _ wit_e (Some (-450)) (Some (-400))); [vm_compute; reflexivity|].
  destruct fl, fo, fp; vm_compute; reflexivity.
Qed.

(* (f) monotone timestamps: index lost, then a write before any sync, read before the rebuilder has run: before the
       repair C02-write-after-index-loss the info created by that write had the hull of the written records only and
       the older records of the chunk were skipped (300 x 100, index lost, 10 x 200: RANGE ["100":"150"] was empty) *)
Definition wit_f : list op := [HBatch [mkseg 1 false (repeat 100 300)]; HDrop; HBatch [mkseg 1 false (repeat 200 10)]].
Lemma refuted_drop_write v : fix_partial v = false -> ~ complete_under_hyps v.
Proof.
  destruct v as [fl fz fo []]; [discriminate|]. intros _.
  apply (refute_under_hyps _ wit_f (Some 100) (Some 150)); [vm_compute; reflexivity|].
  destruct fl, fz, fo; vm_compute; reflexivity.
Qed.
(* (f') the same made permanent by a clean restart inside the window: the rebuild request and the corrupted flag were
       not saved, the next write gives the chunk an index of its own records, nothing rebuilds it any more *)
Definition wit_f2 : list op :=
  [HBatch [mkseg 1 false (repeat 100 300)]; HDrop; HBatch [mkseg 1 false (repeat 200 10)]; HRestart;
   HBatch [mkseg 1 false (repeat 300 10)]; HSync; HRead (Some 0) (Some 1000); HServe].
Lemma refuted_drop_write_restart v : fix_partial v = false -> ~ complete_under_hyps v.
Proof.
  destruct v as [fl fz fo []]; [discriminate|]. intros _.
  apply (refute_under_hyps _ wit_f2 (Some 100) (Some 150)); [vm_compute; reflexivity|].
  destruct fl, fz, fo; vm_compute; reflexivity.
Qed.

(* ---- the hypothesis about the data that remains is needed by the code as it is (all four repairs in) ---- *)

(* (c) timestamps that are not monotone in stored order; every other hypothesis holds *)
Definition wit_c : list op :=
  [HBatch [mkseg 1 false (repeat 100 250)]; HBatch [mkseg 1 false [500]]; HBatch [mkseg 1 false (repeat 200 250)]].
Lemma refuted_nonmonotone :
  exists hist o1 o2, Forall op_ok hist /\ op_ok (HRead o1 o2) /\ hist_disciplined hist /\ hist_small hist /\
    ~ complete_at fixed_variant (run fixed_variant hist) o1 o2.
Proof.
  exists wit_c, (Some 400), (Some 600). split; [apply hist_okb_ok; vm_compute; reflexivity|].
  split; [apply op_okb_ok; vm_compute; reflexivity|].
  split; [apply hist_discb_ok; vm_compute; reflexivity|].
  split; [apply hist_smallb_ok; vm_compute; reflexivity|].
  apply not_complete_by_length. vm_compute. discriminate.
Qed.

(* hence the statement without hypotheses is false of the code as it is *)
Lemma refuted_full :
  ~ (forall hist o1 o2, Forall op_ok hist -> op_ok (HRead o1 o2) -> complete_at fixed_variant (run fixed_variant hist) o1 o2).
Proof. intros H. destruct refuted_nonmonotone as (h & o1 & o2 & H1 & H2 & _ & _ & Hn). exact (Hn (H h o1 o2 H1 H2)). Qed.
