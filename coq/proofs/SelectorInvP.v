(* Lemmas about model/Selector.v, part 2: hypotheses on histories, the refutation witnesses, and the
   invariant of reachable states (proofs/SelectorRunP.v continues with the induction over histories). *)
From LR Require Import lib.Base model.TmTree model.CIndex model.Selector proofs.TmTreeP proofs.CIndexP proofs.SelectorP.
Open Scope Z_scope.

(* ---------- hypotheses on histories ---------- *)
Definition op_data (o : op) : list Z := match o with HBatch segs => flat_map sg_ts segs | _ => [] end.
Definition hist_data (h : list op) : list Z := flat_map op_data h.
Definition sorted_z (l : list Z) : Prop :=
  forall i j, (i <= j)%nat -> (j < length l)%nat -> nth i l 0 <= nth j l 0.
(* timestamps non-decreasing in write order *)
Definition hist_sorted (h : list op) : Prop := sorted_z (hist_data h).
(* positions fit uint32 *)
Definition hist_small (h : list op) : Prop := Z.of_nat (length (hist_data h)) <= max_uint32.

(* the journal's discipline for one Service.Write: its first non-empty journal write continues the last
   chunk or opens a new one (a larger id); every further one opens a new chunk *)
Definition last_id (ids : list Z) : option Z := match ids with [] => None | _ => Some (last ids 0) end.
Fixpoint segs_disc (ids : list Z) (first : bool) (segs : list seg) : Prop :=
  match segs with
  | [] => True
  | sg :: tl =>
      match sg_ts sg with
      | [] => segs_disc ids first tl
      | _ => (first = true /\ last_id ids = Some (sg_cid sg) /\ segs_disc ids false tl)
             \/ ((forall c, In c ids -> c < sg_cid sg) /\ segs_disc (ids ++ [sg_cid sg]) false tl)
      end
  end.
Fixpoint ids_after (ids : list Z) (segs : list seg) : list Z :=
  match segs with
  | [] => ids
  | sg :: tl => match sg_ts sg with
                | [] => ids_after ids tl
                | _ => if existsb (Z.eqb (sg_cid sg)) ids then ids_after ids tl else ids_after (ids ++ [sg_cid sg]) tl
                end
  end.
Fixpoint hist_disc (ids : list Z) (h : list op) : Prop :=
  match h with
  | [] => True
  | HBatch segs :: tl => segs_disc ids true segs /\ hist_disc (ids_after ids segs) tl
  | _ :: tl => hist_disc ids tl
  end.
Definition hist_disciplined (h : list op) : Prop := hist_disc [] h.

(* after the index files were lost, a SyncChunks (by itself or as part of a read) comes before the next write *)
Fixpoint nwad (dropped : bool) (h : list op) : Prop :=
  match h with
  | [] => True
  | HDrop :: tl => nwad true tl
  | HBatch _ :: tl => dropped = false /\ nwad false tl
  | HSync :: tl => nwad false tl
  | HRead _ _ :: tl => nwad false tl
  | HServe :: tl => nwad dropped tl
  end.
Definition no_write_after_drop (h : list op) : Prop := nwad false h.

(* ---------- boolean checkers for concrete witnesses ---------- *)
Definition int64_okb (z : Z) : bool := (min_int64 <=? z) && (z <=? max_int64).
Lemma int64_okb_ok z : int64_okb z = true -> int64_ok z.
Proof. unfold int64_okb, int64_ok. intros H. apply andb_true_iff in H as [H1 H2]. apply Z.leb_le in H1. apply Z.leb_le in H2. lia. Qed.
Definition opt_okb (o : option Z) : bool := match o with Some t => int64_okb t | None => true end.
Definition op_okb (o : op) : bool :=
  match o with
  | HBatch segs => forallb (fun sg => forallb int64_okb (sg_ts sg)) segs
  | HRead o1 o2 => opt_okb o1 && opt_okb o2
  | _ => true
  end.
Lemma forallb_Forall {A} (f : A -> bool) (P : A -> Prop) (l : list A) :
  (forall x, f x = true -> P x) -> forallb f l = true -> Forall P l.
Proof.
  intros H. induction l as [|x l IH]; cbn; intros E; [constructor|].
  apply andb_true_iff in E as [E1 E2]. constructor; [apply H; exact E1|apply IH; exact E2].
Qed.
Lemma op_okb_ok o : op_okb o = true -> op_ok o.
Proof.
  destruct o as [segs| | | |o1 o2]; cbn; intros H; try exact I.
  - apply (forallb_Forall _ _ _ (fun sg E => forallb_Forall int64_okb int64_ok (sg_ts sg) int64_okb_ok E) H).
  - apply andb_true_iff in H as [H1 H2]. split; intros t ->; apply int64_okb_ok; assumption.
Qed.
Lemma hist_okb_ok h : forallb op_okb h = true -> Forall op_ok h.
Proof. apply forallb_Forall. exact op_okb_ok. Qed.

Fixpoint sorted_zb (l : list Z) : bool :=
  match l with a :: ((b :: _) as tl) => (a <=? b) && sorted_zb tl | _ => true end.
Lemma sorted_zb_ok l : sorted_zb l = true -> sorted_z l.
Proof.
  induction l as [|a l IH]; intros H; [intros i j _ Hj; cbn in Hj; lia|].
  assert (Hl : sorted_zb l = true).
  { destruct l as [|b l']; [reflexivity|]. cbn [sorted_zb] in H. apply andb_true_iff in H as [_ H]. exact H. }
  specialize (IH Hl).
  assert (Hhd : forall m, (m < length l)%nat -> a <= nth m l 0).
  { destruct l as [|b l']; [cbn; lia|]. cbn [sorted_zb] in H. apply andb_true_iff in H as [H _]. apply Z.leb_le in H.
    intros m Hm. pose proof (IH 0%nat m ltac:(lia) Hm) as H0. change (nth 0 (b :: l') 0) with b in H0. lia. }
  intros i j Hij Hj. cbn [length] in Hj.
  destruct i as [|i'], j as [|j']; cbn [nth]; try lia.
  - apply Hhd. lia.
  - apply IH; lia.
Qed.

(* ---------- the refutation witnesses ---------- *)
Lemma not_complete_by_length v st o1 o2 :
  length (fst (range_read v st o1 o2)) <> length (filter (in_range_opt o1 o2) (read_all st)) -> ~ complete_at v st o1 o2.
Proof. intros H E. apply H. unfold complete_at in E. rewrite E. reflexivity. Qed.

(* (a) an equal-timestamp run across a sparse-index point; monotone data, explicit bounds *)
Definition wit_a : list op := [HBatch [mkseg 1 false (repeat 10 249 ++ [20])]; HBatch [mkseg 1 false (repeat 20 250)]].
Lemma refuted_equal_run : ~ (forall hist o1 o2, Forall op_ok hist -> op_ok (HRead o1 o2) -> complete_at code_variant (run code_variant hist) o1 o2).
Proof.
  intros H. specialize (H wit_a (Some 20) (Some 20)).
  assert (H1 : Forall op_ok wit_a) by (apply hist_okb_ok; vm_compute; reflexivity).
  assert (H2 : op_ok (HRead (Some 20) (Some 20))) by (apply op_okb_ok; vm_compute; reflexivity).
  revert H. generalize (H1, H2). intros _ H. specialize (H H1 H2). revert H.
  apply not_complete_by_length. vm_compute. discriminate.
Qed.

Definition wit_b : list op := [HBatch [mkseg 1 false [0; 5; 7]]].
Lemma refuted_zero_first :
  exists hist o1 o2, Forall op_ok hist /\ op_ok (HRead o1 o2) /\ ~ complete_at code_variant (run code_variant hist) o1 o2.
Proof.
  exists wit_b, (Some (-10)), (Some 2). split; [apply hist_okb_ok; vm_compute; reflexivity|].
  split; [apply op_okb_ok; vm_compute; reflexivity|]. apply not_complete_by_length. vm_compute. discriminate.
Qed.

Definition wit_d : list op := [HBatch [mkseg 1 false [-5; -3; 4]]].
Lemma refuted_open_lower :
  exists hist o2, Forall op_ok hist /\ op_ok (HRead None o2) /\ ~ complete_at code_variant (run code_variant hist) None o2.
Proof.
  exists wit_d, (Some 10). split; [apply hist_okb_ok; vm_compute; reflexivity|].
  split; [apply op_okb_ok; vm_compute; reflexivity|]. apply not_complete_by_length. vm_compute. discriminate.
Qed.

Definition wit_e : list op :=
  [HBatch [mkseg 1 false (repeat (-1000) 150 ++ repeat (-900) 150)]; HDrop; HSync; HRead (Some (-950)) (Some (-950)); HServe;
   HBatch [mkseg 1 false (repeat (-500) 10)]; HBatch [mkseg 1 false (repeat (-400) 10)]; HBatch [mkseg 1 false (repeat (-300) 10)]].
Lemma refuted_rebuild_negative :
  exists hist o1 o2, Forall op_ok hist /\ op_ok (HRead o1 o2) /\ ~ complete_at code_variant (run code_variant hist) o1 o2.
Proof.
  exists wit_e, (Some (-450)), (Some (-400)). split; [apply hist_okb_ok; vm_compute; reflexivity|].
  split; [apply op_okb_ok; vm_compute; reflexivity|]. apply not_complete_by_length. vm_compute. discriminate.
Qed.

Definition wit_c : list op :=
  [HBatch [mkseg 1 false (repeat 100 250)]; HBatch [mkseg 1 false [500]]; HBatch [mkseg 1 false (repeat 200 250)]].
Lemma refuted_nonmonotone : ~ (forall hist o1 o2, Forall op_ok hist -> op_ok (HRead o1 o2) -> complete_at fixed_variant (run fixed_variant hist) o1 o2).
Proof.
  intros H. specialize (H wit_c (Some 400) (Some 600)).
  assert (H1 : Forall op_ok wit_c) by (apply hist_okb_ok; vm_compute; reflexivity).
  assert (H2 : op_ok (HRead (Some 400) (Some 600))) by (apply op_okb_ok; vm_compute; reflexivity).
  specialize (H H1 H2). revert H. apply not_complete_by_length. vm_compute. discriminate.
Qed.

Definition wit_f : list op := [HBatch [mkseg 1 false (repeat 100 300)]; HDrop; HBatch [mkseg 1 false (repeat 200 10)]].
Lemma refuted_drop_write :
  exists hist o1 o2, Forall op_ok hist /\ op_ok (HRead o1 o2) /\ hist_sorted hist /\
    ~ complete_at fixed_variant (run fixed_variant hist) o1 o2.
Proof.
  exists wit_f, (Some 100), (Some 150). split; [apply hist_okb_ok; vm_compute; reflexivity|].
  split; [apply op_okb_ok; vm_compute; reflexivity|].
  split; [apply sorted_zb_ok; vm_compute; reflexivity|].
  apply not_complete_by_length. vm_compute. discriminate.
Qed.
