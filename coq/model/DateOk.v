(* DateOk: the decidable side-condition `format_ok` that glues the per-token round-trip lemmas of
   C20, the instants a format can express (`civil_ok`) and the instant a text denotes (`denotes`).
   Definitions only (all executable: format_ok is evaluated by vm_compute over the regenerated
   tables); the soundness proof is in proofs/DateFmtP.v. *)
From LR Require Import lib.Base model.GoTime model.Regex model.DateFmt.
From Coq Require Import Strings.String.
Open Scope bool_scope.
Open Scope Z_scope.

(* ------------------------------------------------------------------ a deterministic (no backtracking) matcher *)
(* It takes the longest run at every repetition and never reconsiders.  When it succeeds, the
   backtracking matcher's first success is the same (RegexP.dm_sound).  It also reports the classes
   whose run was stopped by the end of the input: only those can behave differently when more
   text follows. *)

Fixpoint run (c : cls) (n : nat) (w : bytes) : bytes * bool :=
  match n with
  | O => (w, false)
  | S n' => match w with
            | [] => ([], true)
            | b :: w' => if cls_has c b then run c n' w' else (w, false)
            end
  end.

Inductive fres := FMatch (r : bytes) | FMismatch | FShort.
Fixpoint take_fixedS (c : cls) (n : nat) (w : bytes) : fres :=
  match n with
  | O => FMatch w
  | S n' => match w with
            | [] => FShort
            | b :: w' => if cls_has c b then take_fixedS c n' w' else FMismatch
            end
  end.
Fixpoint fixed_seqS (s : list (cls * nat)) (w : bytes) : fres :=
  match s with
  | [] => FMatch w
  | (c, n) :: tl => match take_fixedS c n w with FMatch w' => fixed_seqS tl w' | r => r end
  end.
Fixpoint first_altS (alts : list (list (cls * nat))) (w : bytes) : option bytes :=
  match alts with
  | [] => None
  | s :: tl => match fixed_seqS s w with
               | FMatch r => Some r
               | FMismatch => first_altS tl w
               | FShort => None
               end
  end.

Fixpoint dmatchS (l : rx) (w : bytes) : option (bytes * list cls) :=
  match l with
  | [] => Some (w, [])
  | ARep c lo hi :: tl =>
      match take_fixed c lo w with
      | None => None
      | Some w1 =>
          let '(w2, e) := run c (extra lo hi w1) w1 in
          match dmatchS tl w2 with
          | Some (r, cs) => Some (r, if e then c :: cs else cs)
          | None => None
          end
      end
  | AAlt alts :: tl =>
      match first_altS alts w with
      | Some w1 => dmatchS tl w1
      | None => None
      end
  end.

(* ------------------------------------------------------------------ what a token can write *)

Definition zrange (lo : Z) (n : nat) : list Z := map (fun i => lo + Z.of_nat i) (seq 0 n).

(* the range of cv k c over the instants the format can express: [vlo, vlo + vn) *)
Definition vlo (k : kind) : Z :=
  match k with
  | KYYYY => 1000
  | KMMMM | KMMM | KMM | KM | KDD | K_D | KD | Khh | Kh => 1
  | KZ5 | KZ4 => -1439
  | _ => 0
  end.
Definition vn (k : kind) : nat :=
  match k with
  | KYYYY => 2000 | KYY => 100
  | KMMMM | KMMM | KMM | KM | Khh | Kh => 12
  | KDDDD | KDDD => 7
  | KDD | K_D | KD => 31
  | KHH | KP => 24
  | Kmm | Km | Kss | Ks => 60
  | KSSS => 1000
  | KZ5 | KZ4 => 2879
  | KZ3 => 0
  end%nat.

(* zone abbreviations that denote UTC+0 — the only ones whose instant does not depend on a zone database *)
Definition zones : list bytes := [B "UTC"; B "GMT"; B "WET"].

(* every text the token can write: by definition ... *)
Definition vals_spec (k : kind) : list bytes :=
  match k with
  | KZ3 => zones
  | _ => map (rv k) (zrange (vlo k) (vn k))
  end.

(* ... and the same lists built by enumerating digit strings instead of dividing (DateFmtP.vals_eq
   shows they are equal; format_ok walks them for every token of every format) *)
Definition digs10 : bytes := [x30; x31; x32; x33; x34; x35; x36; x37; x38; x39].
Definition all2 : list bytes := flat_map (fun a => map (fun b => [a; b]) digs10) digs10.
Definition sub {A} (lo n : nat) (l : list A) : list A := firstn n (skipn lo l).
Definition all12 : list bytes := map (fun d => [d]) digs10 ++ skipn 10 all2.
Definition hhmm : list (bytes * bytes) := flat_map (fun h => map (fun m => (h, m)) (firstn 60 all2)) (firstn 24 all2).
Definition zone_vals (mk : byte -> bytes * bytes -> bytes) : list bytes :=
  map (mk x2d) (rev (List.tl hhmm)) ++ map (mk x2b) hhmm.
Definition vals (k : kind) : list bytes :=
  match k with
  | KYYYY => flat_map (fun a => flat_map (fun b => map (fun cd => a :: b :: cd) all2) digs10) [x31; x32]
  | KYY => all2
  | KMM => sub 1 12 all2 | KDD => sub 1 31 all2 | KHH => sub 0 24 all2 | Khh => sub 1 12 all2
  | Kmm | Kss => sub 0 60 all2
  | KM | Kh => sub 1 12 all12 | KD => sub 1 31 all12 | Km | Ks => sub 0 60 all12
  | K_D => sub 1 31 (map (fun d => [x20; d]) digs10 ++ skipn 10 all2)
  | KSSS => flat_map (fun a => map (fun bc => x2e :: a :: bc) all2) digs10
  | KZ5 => zone_vals (fun sg p => sg :: fst p ++ x3a :: snd p)
  | KZ4 => zone_vals (fun sg p => sg :: fst p ++ snd p)
  | _ => vals_spec k
  end.
Definition tvals (t : tok) : list bytes :=
  match t with
  | TK k _ => vals k
  | TL b => [[b]]
  | TSp n => [repeat x20 n]
  end.

Definition add_byte (b : byte) (acc : bytes) : bytes := if existsb (byte_eqb b) acc then acc else b :: acc.
(* the bytes a token's text can start with *)
Definition firsts (t : tok) : bytes :=
  fold_right (fun w acc => match w with b :: _ => add_byte b acc | [] => acc end) [] (tvals t).

(* what may follow a timestamp in a line: blank, tab, and punctuation that no token is made of *)
Definition seps : bytes := [x20; x09; x2c; x3b; x7c; x5d; x29; x5b; x28; x22; x27; x3d; x0a].

(* ------------------------------------------------------------------ format_ok *)

Definition elem_of_kind (k : kind) : lelem :=
  match k with
  | KYYYY => LYear4 | KYY => LYear2
  | KMMMM => LMonLong | KMMM => LMonName | KMM => LMonZero | KM => LMonNum
  | KDDDD => LWdLong | KDDD => LWdName
  | KDD => LDayZero | K_D => LDayUnder | KD => LDay
  | KHH => LHour | Khh => LHour12Zero | Kh => LHour12
  | Kmm => LMinZero | Km => LMin | Kss => LSecZero | Ks => LSec
  | KSSS => LFrac9 | KP => LPM | KZ5 => LTZColon | KZ4 => LTZNum | KZ3 => LTZName
  end.
Definition elem_of_tok (t : tok) : lelem :=
  match t with TK k _ => elem_of_kind k | TL b => LLit b | TSp _ => LSp end.

Definition atoms_of_tok (terms : list term) (t : tok) : option rx :=
  match t with
  | TK _ i => match nth_error terms i with Some tm => parse_rx_inner (t_expr tm) | None => None end
  | TL b => parse_rx_inner [b]
  | TSp n => parse_rx_inner (repeat x20 n)
  end.
Fixpoint atoms_of_toks (terms : list term) (l : list tok) : option rx :=
  match l with
  | [] => Some []
  | t :: tl => match atoms_of_tok terms t, atoms_of_toks terms tl with
               | Some a, Some r => Some (a ++ r)
               | _, _ => None
               end
  end.

Definition cls_eqb (a b : cls) : bool :=
  match a, b with
  | CRanges x, CRanges y => list_eqb (fun p q => N.eqb (fst p) (fst q) && N.eqb (snd p) (snd q)) x y
  | CAny, CAny => true
  | _, _ => false
  end.
Definition atom_eqb (a b : atom) : bool :=
  match a, b with
  | ARep c lo hi, ARep c' lo' hi' => cls_eqb c c' && Nat.eqb lo lo' && option_eqb Nat.eqb hi hi'
  | AAlt x, AAlt y => list_eqb (list_eqb (fun p q => cls_eqb (fst p) (fst q) && Nat.eqb (snd p) (snd q))) x y
  | _, _ => false
  end.

Definition no_byte (p : byte -> bool) (l : bytes) : bool := forallb (fun b => negb (p b)) l.
Definition is_sign (b : byte) : bool := byte_eqb b x2b || byte_eqb b x2d.

(* the regexp fragment of the token takes exactly the token's text, whatever instant, provided the
   next byte is one of nf *)
Definition tok_rx_ok (a : rx) (t : tok) (nf : bytes) : bool :=
  forallb (fun w =>
    match w with
    | [] => false
    | _ :: _ => match dmatchS a w with
                | Some ([], cs) => forallb (fun c => no_byte (cls_has c) nf) cs
                | _ => false
                end
    end) (tvals t).

(* a fraction after the seconds is read by the seconds element unless a fraction element follows *)
Definition sec_ok (tl : list tok) (nf : bytes) : bool :=
  match next_std (map elem_of_tok tl) with
  | Some LFrac9 => true
  | _ => no_byte comma_or_period nf
  end.
(* time.Parse's element takes exactly the token's text provided the next byte is one of nf *)
Definition tok_lay_ok (t : tok) (tl : list tok) (nf : bytes) : bool :=
  match t with
  | TK k _ =>
      match k with
      | KM | KD | Kh | Km | K_D | KSSS => no_byte is_digit nf
      | Ks => no_byte is_digit nf && sec_ok tl nf
      | Kss => sec_ok tl nf
      | KZ3 => no_byte is_upper nf && no_byte is_sign nf
      | _ => true
      end
  | TL b => negb (byte_eqb b x20)
  | TSp n => negb (Nat.eqb n 0) && match tl with TSp _ :: _ => false | _ => true end
  end.
(* no text but a blank-padded day or a run of blanks starts with a blank *)
Definition tok_special (t : tok) : bool := match t with TK K_D _ | TSp _ => true | _ => false end.
Definition tok_nosp_ok (t : tok) : bool :=
  tok_special t || forallb (fun w => match w with b :: _ => negb (byte_eqb b x20) | [] => false end) (tvals t).

Fixpoint toks_ok (terms : list term) (l : list tok) : bool :=
  match l with
  | [] => true
  | t :: tl =>
      match atoms_of_tok terms t with
      | Some a =>
          tok_rx_ok a t (match tl with t' :: _ => firsts t' | [] => seps end) &&
          tok_lay_ok t tl (match tl with t' :: _ => firsts t' | [] => [] end) &&
          tok_nosp_ok t && toks_ok terms tl
      | None => false
      end
  end.

Definition has_kind (p : kind -> bool) (l : list tok) : bool :=
  existsb (fun t => match t with TK k _ => p k | _ => false end) l.
Definition is_year k := match k with KYYYY | KYY => true | _ => false end.
Definition is_month k := match k with KMMMM | KMMM | KMM | KM => true | _ => false end.
Definition is_day k := match k with KDD | K_D | KD => true | _ => false end.
Definition is_h24 k := match k with KHH => true | _ => false end.
Definition is_h12 k := match k with Khh | Kh => true | _ => false end.
Definition is_min k := match k with Kmm | Km => true | _ => false end.
Definition is_sec k := match k with Kss | Ks => true | _ => false end.
Definition is_ms k := match k with KSSS => true | _ => false end.
Definition is_ampm k := match k with KP => true | _ => false end.
Definition is_numzone k := match k with KZ5 | KZ4 => true | _ => false end.
Definition is_abbr k := match k with KZ3 => true | _ => false end.
Definition is_yy k := match k with KYY => true | _ => false end.

(* the flags NewParser derives from the raw format string agree with the tokens; a 12-hour and a
   24-hour token do not both occur; am/pm comes with an hour *)
Definition flags_ok (cf : cfmt) (l : list tok) : bool :=
  Bool.eqb (cf_has_year cf) (has_kind is_year l) &&
  Bool.eqb (cf_no_date cf) (negb (has_kind is_year l || has_kind is_month l || has_kind is_day l)) &&
  negb (has_kind is_h24 l && has_kind is_h12 l) &&
  (negb (has_kind is_ampm l) || has_kind is_h24 l || has_kind is_h12 l).

Definition format_ok (terms : list term) (f : bytes) : bool :=
  match tokens terms f, compile_with terms f with
  | Some l, Some cf =>
      list_eqb lelem_eqb (cf_elems cf) (map elem_of_tok l) &&
      match atoms_of_toks terms l with
      | Some a => list_eqb atom_eqb (cf_rx cf) a
      | None => false
      end &&
      toks_ok terms l && flags_ok cf l
  | _, _ => false
  end.

(* ------------------------------------------------------------------ the instants a format expresses, and the instant a text denotes *)

Definition civil_ok (l : list tok) (c : civil) : Prop :=
  1000 <= c_y c <= 2999 /\ valid_date (c_y c) (c_mo c) (c_d c) /\
  0 <= c_h c < 24 /\ 0 <= c_mi c < 60 /\ 0 <= c_s c < 60 /\ 0 <= c_ms c < 1000 /\
  -1440 < c_off c < 1440 /\ In (c_abbr c) zones /\
  (has_kind is_yy l = true -> 1969 <= c_y c <= 2068) /\
  (* "UTC" wins over a numeric offset in time.Parse: a consistent text writes +0000 with it *)
  (c_abbr c = B "UTC" -> has_kind is_numzone l = true -> has_kind is_abbr l = true -> c_off c = 0).

(* (Unix seconds, nanosecond) of the instant that the text of c in a format with tokens l denotes:
   what the format does not write is zero / January / the 1st / UTC; without any date: today;
   without a year: this year, or last year when the month is later than the current month (adjustYear) *)
Definition denotes (now : now_t) (l : list tok) (c : civil) : Z * Z :=
  let '(ny, nm, nd) := now in
  let mo := if has_kind is_month l then c_mo c else 1 in
  let d := if has_kind is_day l then c_d c else 1 in
  let '(y, mo, d) :=
    if has_kind is_year l then (c_y c, mo, d)
    else if has_kind is_month l || has_kind is_day l then ((if nm <? mo then ny - 1 else ny), mo, d)
    else (ny, nm, nd) in
  let h := if has_kind is_h24 l then c_h c
           else if has_kind is_h12 l then (if has_kind is_ampm l then c_h c else hour12 (c_h c)) else 0 in
  let mi := if has_kind is_min l then c_mi c else 0 in
  let s := if has_kind is_sec l then c_s c else 0 in
  let ms := if has_kind is_ms l then c_ms c else 0 in
  let off := if has_kind is_numzone l then c_off c * 60 else 0 in
  (days_from_civil y mo d * 86400 + h * 3600 + mi * 60 + s - off, ms * 1000000).

(* what may follow the timestamp: nothing, or one of the separators *)
Definition sep_ok (rest : bytes) : Prop := rest = [] \/ exists b r, rest = b :: r /\ In b seps.
