(* Model of the collector's line parser: pkg/scanner/parser/line_parser.go  lineParser.parse.
   Definitions only.

   The parser keeps the format that parsed the last dated line (curFmt) and tries it first, whatever its state; only
   when that fails does the state matter: 'parsing' asks the whole format list (first match) and counts consecutive
   failures; after maxFailCnt = 10 of them it goes 'skipping': the next maxSkipCnt lines are given the last detected date
   without being looked at; then back to 'parsing' with maxSkipCnt doubled (up to 100) until a date is found again.
   A record's date is None for Go's zero time (calcDate: nothing parsed and no date seen yet). *)
From LR Require Import lib.Base model.GoTime model.Regex model.DateFmt.

Inductive lstate := Parsing | Skipping.

Record lp := mkLp {
  lp_cur : option nat;          (* curFmt: index into the format list *)
  lp_last : option (Z * Z);     (* lastDate; None = zero time *)
  lp_state : lstate;
  lp_max_skip : nat;
  lp_cnt : nat                  (* failSkipCnt *)
}.

Definition lp_init : lp := mkLp None None Parsing 10 0.
Definition max_fail : nat := 10.

(* `reset` = the counter is cleared when a format is detected (the code); false = it is not (kept for the refutation) *)
Definition lp_step_v (reset : bool) (now : now_t) (fs : list (option cfmt)) (s : lp) (text : bytes) : lp * option (Z * Z) :=
  let by_cur := match lp_cur s with
                | Some k => match nth_error fs k with
                            | Some (Some cf) => parse_one now cf text
                            | _ => None
                            end
                | None => None
                end in
  match by_cur with
  | Some tm => (s, Some tm)
  | None =>
      match lp_state s with
      | Parsing =>
          match parse_all now fs text with
          | Some (k, tm) => (mkLp (Some k) (Some tm) Parsing 10 (if reset then 0 else lp_cnt s), Some tm)
          | None =>
              let c := S (lp_cnt s) in
              if Nat.leb max_fail c then (mkLp None (lp_last s) Skipping (lp_max_skip s) 0, lp_last s)
              else (mkLp None (lp_last s) Parsing (lp_max_skip s) c, lp_last s)
          end
      | Skipping =>
          let c := S (lp_cnt s) in
          if Nat.leb (lp_max_skip s) c
          then (mkLp (lp_cur s) (lp_last s) Parsing (if Nat.ltb (lp_max_skip s) 100 then 2 * lp_max_skip s else lp_max_skip s) 0, lp_last s)
          else (mkLp (lp_cur s) (lp_last s) Skipping (lp_max_skip s) c, lp_last s)
      end
  end.

Definition code_resets_counter : bool := true.
Definition lp_step := lp_step_v code_resets_counter.

Fixpoint lp_run_v (reset : bool) (now : now_t) (fs : list (option cfmt)) (s : lp) (lines : list bytes) : lp * list (option (Z * Z)) :=
  match lines with
  | [] => (s, [])
  | t :: tl => let '(s1, r) := lp_step_v reset now fs s t in
               let '(s2, rs) := lp_run_v reset now fs s1 tl in (s2, r :: rs)
  end.
Definition lp_run := lp_run_v code_resets_counter.
