(* Model of the identity part of /repo/pkg/tindex/inmem.go: getOrCreateJournal (raw-text fast path, parse,
   lookup by canonical line, create) and Visit (filter by the compiled source condition).  Reader counts,
   exclusive locks and persistence belong to C14/C07 and are not modelled here; a call is one atomic step
   (the whole body runs under ims.lock).  Definitions only. *)
From LR Require Export lib.Base model.KV model.Tags model.TagsEval.

Record desc := { d_tags : kvmap; d_src : nat }.
(* ims.tmap: canonical line -> descriptor (in creation order); newSrc() is modelled by a counter *)
Record tstate := { t_map : list (bytes * desc); t_next : nat }.
Definition t_empty : tstate := {| t_map := []; t_next := 0 |}.

Inductive goc_result := GSrc (src : nat) (tags : kvmap) | GErr | GNotFound.

Section WithOracles.
  Variable quote : bytes -> bytes.
  Variable unquote : bytes -> option bytes.

  Definition get_or_create (st : tstate) (text : bytes) (create : bool) : tstate * goc_result :=
    match tbl_find (t_map st) text with
    | Some d => (st, GSrc (d_src d) (d_tags d))                    (* td, ok := ims.tmap[tag.Line(tags)] *)
    | None =>
        match to_map unquote text with
        | Ok m =>
            if is_nil m then (st, GErr)
            else let ln := line quote m in
                 match tbl_find (t_map st) ln with
                 | Some d => (st, GSrc (d_src d) (d_tags d))
                 | None =>
                     if create then
                       let d := {| d_tags := m; d_src := t_next st |} in
                       ({| t_map := t_map st ++ [(ln, d)]; t_next := S (t_next st) |}, GSrc (t_next st) m)
                     else (st, GNotFound)
                 end
        | _ => (st, GErr)
        end
    end.

  (* the create path persists the index (saveStateUnsafe) before it answers; when that fails the new entry is
     taken out of tmap and smap again and the call fails.  [savefails] = the persistence would fail now.  The
     save is attempted only when a new entry was made, i.e. when the table grew. *)
  Definition goc_fault (st : tstate) (text : bytes) (savefails : bool) : tstate * goc_result :=
    let '(st', r) := get_or_create st text true in
    if savefails && negb (Nat.eqb (length (t_map st')) (length (t_map st))) then (st, GErr) else (st', r).

  (* a history of calls, each with its fault flag *)
  Fixpoint run_f (st : tstate) (ops : list (bytes * bool)) : tstate * list goc_result :=
    match ops with
    | [] => (st, [])
    | (t, f) :: tl => let '(st1, r) := goc_fault st t f in
                      let '(st2, rs) := run_f st1 tl in (st2, r :: rs)
    end.

  (* a history of GetOrCreateJournal calls *)
  Fixpoint run (st : tstate) (texts : list bytes) : tstate * list goc_result :=
    match texts with
    | [] => (st, [])
    | t :: tl => let '(st1, r) := get_or_create st t true in
                 let '(st2, rs) := run st1 tl in (st2, r :: rs)
    end.
End WithOracles.

(* Visit: the descriptors for which the compiled condition is true (the Go map is iterated in arbitrary
   order: the result is compared as a set); a panicking closure panics the visit *)
Fixpoint visit (tef : option tefn) (l : list (bytes * desc)) : outcome (list desc) :=
  match l with
  | [] => Ok []
  | (_, d) :: tl =>
      match call tef (d_tags d) with
      | Ok b => match visit tef tl with
                | Ok r => Ok (if b then d :: r else r)
                | o => o
                end
      | Err => Err | Panic => Panic | OutOfFuel => OutOfFuel
      end
  end.

(* two racing first writes: each is one atomic step; a schedule is the order in which the two steps run *)
Definition race2 (quote : bytes -> bytes) (unquote : bytes -> option bytes) (st : tstate) (t1 t2 : bytes) (first1 : bool)
  : tstate * goc_result * goc_result :=
  if first1 then
    let '(s1, r1) := get_or_create quote unquote st t1 true in
    let '(s2, r2) := get_or_create quote unquote s1 t2 true in (s2, r1, r2)
  else
    let '(s1, r2) := get_or_create quote unquote st t2 true in
    let '(s2, r1) := get_or_create quote unquote s1 t1 true in (s2, r1, r2).

(* ---- look-up without creation (GetJournal), Delete, and histories over the three operations ---- *)
Definition find_src (st : tstate) (src : nat) : option desc :=
  match find (fun e : bytes * desc => Nat.eqb (d_src (snd e)) src) (t_map st) with Some e => Some (snd e) | None => None end.
(* delete(ims.tmap, key) *)
Definition t_delete_key (st : tstate) (key : bytes) : tstate :=
  {| t_map := filter (fun e : bytes * desc => negb (bytes_eqb (fst e) key)) (t_map st); t_next := t_next st |}.

Inductive hop :=
| HCall (text : bytes) (savefails : bool)    (* GetOrCreateJournal(text) *)
| HGet (text : bytes)                        (* GetJournal(text): no creation *)
| HDel (src : nat).                          (* Delete(src) of an exclusively locked partition *)

Section Ops.
  Variable quote : bytes -> bytes.
  Variable unquote : bytes -> option bytes.

  (* Delete: td := smap[src]; delete(tmap, td.tags.Line()); delete(smap, src).  The answer GSrc src [] stands for nil *)
  Definition t_delete (st : tstate) (src : nat) : tstate * goc_result :=
    match find_src st src with
    | Some d => (t_delete_key st (line quote (d_tags d)), GSrc src [])
    | None => (st, GNotFound)
    end.

  Definition step_op (st : tstate) (op : hop) : tstate * goc_result :=
    match op with
    | HCall t f => goc_fault quote unquote st t f
    | HGet t => get_or_create quote unquote st t false
    | HDel s => t_delete st s
    end.

  Fixpoint run_ops (st : tstate) (ops : list hop) : tstate * list goc_result :=
    match ops with
    | [] => (st, [])
    | op :: tl => let '(st1, r) := step_op st op in
                  let '(st2, rs) := run_ops st1 tl in (st2, r :: rs)
    end.
End Ops.
