(* Model of the pipe registry: pkg/pipe/service.go (CreatePipe, ensurePipe, GetPipe, DeletePipe,
   GetPipes, savePipes/loadPipes through Init/Shutdown) and pkg/backend/admin.go (cmdShowPipes,
   cmdDescribePipe).  Definitions only.

   The Go map ppipes is an association list whose ORDER is the map-iteration order: every function
   that ranges over the map takes the order it meets as an explicit argument (an "order oracle"),
   and the theorems quantify over every permutation. *)
From LR Require Import lib.Base.

Record pipe := { p_name : bytes; p_from : bytes; p_where : bytes }.
Definition reg := list pipe.

Definition pipe_eqb (a b : pipe) : bool :=
  bytes_eqb (p_name a) (p_name b) && bytes_eqb (p_from a) (p_from b) && bytes_eqb (p_where a) (p_where b).

Definition lookup (r : reg) (n : bytes) : option pipe := find (fun p => bytes_eqb (p_name p) n) r.
Definition remove (r : reg) (n : bytes) : reg := filter (fun p => negb (bytes_eqb (p_name p) n)) r.
Definition names (r : reg) : list bytes := map p_name r.

(* CreatePipe.  [valid] = newPPipe succeeds (both conditions compile).  Sequentially the two
   look-ups of the double-checked insert see the same map. *)
Definition create (r : reg) (p : pipe) (valid : bool) : reg * bool :=
  match lookup r (p_name p) with
  | Some _ => (r, false)
  | None => if valid then (r ++ [p], true) else (r, false)
  end.

(* ensurePipe(p, changeOk=false): up to 3 rounds of GetPipe / CreatePipe *)
Fixpoint ensure_go (fuel : nat) (r : reg) (p : pipe) (valid : bool) : reg * option pipe :=
  match fuel with
  | O => (r, None)
  | S f =>
      match lookup r (p_name p) with
      | Some p1 =>
          if negb (bytes_eqb (p_where p1) (p_where p)) || negb (bytes_eqb (p_from p1) (p_from p))
          then (r, None) else (r, Some p1)
      | None => ensure_go f (fst (create r p valid)) p valid
      end
  end.
Definition ensure (r : reg) (p : pipe) (valid : bool) : reg * option pipe := ensure_go 3 r p valid.

(* DeletePipe *)
Definition delete (r : reg) (n : bytes) : reg * bool :=
  match lookup r n with
  | Some _ => (remove r n, true)
  | None => (r, false)
  end.

(* ensurePipe(p, changeOk): the same three rounds; with changeOk (only ensurePipesAtStart passes true) a pipe that
   exists with other conditions is deleted and the round is repeated *)
Fixpoint ensure_c_go (change_ok : bool) (fuel : nat) (r : reg) (p : pipe) (valid : bool) : reg * option pipe :=
  match fuel with
  | O => (r, None)
  | S f =>
      match lookup r (p_name p) with
      | Some p1 =>
          if negb (bytes_eqb (p_where p1) (p_where p)) || negb (bytes_eqb (p_from p1) (p_from p))
          then (if change_ok then ensure_c_go change_ok f (fst (delete r (p_name p))) p valid else (r, None))
          else (r, Some p1)
      | None => ensure_c_go change_ok f (fst (create r p valid)) p valid
      end
  end.
Definition ensure_c (change_ok : bool) (r : reg) (p : pipe) (valid : bool) : reg * option pipe :=
  ensure_c_go change_ok 3 r p valid.

(* ensurePipesAtStart: the pipes of the configuration, in order, each with changeOk = true; the first failure ends
   the start (Init returns the error, Shutdown saves what the registry holds by then) *)
Fixpoint ensure_at_start (r : reg) (cfg : list (pipe * bool)) : reg * bool :=
  match cfg with
  | [] => (r, true)
  | (p, v) :: tl =>
      match ensure_c true r p v with
      | (r', Some _) => ensure_at_start r' tl
      | (r', None) => (r', false)
      end
  end.

(* GetPipes: res is filled by insertion at sort.Search(cnt, res[idx].Name >= pn), cnt = number placed so far.
   [ord] is the order in which `range s.ppipes` meets the entries. *)
Definition insert_sorted (res : list pipe) (p : pipe) : list pipe :=
  let idx := sort_search (length res) (fun i => bytes_leb (p_name p) (p_name (nth i res p))) in
  firstn idx res ++ p :: skipn idx res.
Definition get_pipes (ord : list pipe) : list pipe := fold_left insert_sorted ord [].

(* cmdShowPipes: (total, shown count of the header, names listed); None = error (negative offset) *)
Definition max_int32 : Z := 2147483647.
(* Go's int is 64 bits wide here: lim+offs wraps; lim and offs themselves are int64 values of the parser *)
Definition wrap_int (z : Z) : Z := ((z + 2 ^ 63) mod 2 ^ 64 - 2 ^ 63)%Z.
Definition show_pipes (stms : list pipe) (limit offset : Z) : option (Z * Z * list bytes) :=
  let lim0 := if Z.eqb limit 0 then max_int32 else limit in
  if Z.ltb offset 0 then None else
  let len := Z.of_nat (length stms) in
  let lim := (if Z.ltb len (wrap_int (lim0 + offset)) then (if Z.ltb (len - offset) 0 then 0 else len - offset) else lim0)%Z in
  (* the loop `for i := offs; i < len(stms) && lim > 0`: at most len names whatever lim and offs are *)
  Some (len, lim, names (firstn (Z.to_nat (Z.min lim len)) (skipn (Z.to_nat (Z.min offset len)) stms))).

(* cmdDescribePipe: stored From, Where and the destination partition's tag line *)
Definition dest_prefix : bytes := (* "logrange.pipe=" *)
  [x6c;x6f;x67;x72;x61;x6e;x67;x65;x2e;x70;x69;x70;x65;x3d].
Definition describe (r : reg) (n : bytes) : option (bytes * bytes * bytes) :=
  match lookup r n with
  | Some p => Some (p_from p, p_where p, dest_prefix ++ n)
  | None => None
  end.

(* Shutdown saves the definitions in map order [ord]; Init loads them in file order.
   encoding/json of []Pipe is an oracle (decode (encode l) = l): the file is the list itself. *)
Definition save (ord : list pipe) : list pipe := ord.
Definition load (file : list pipe) : reg := fold_left (fun r p => remove r (p_name p) ++ [p]) file [].

(* ---------------- operation histories ---------------- *)
Inductive op :=
| OCreate (p : pipe) (valid : bool)
| OEnsure (p : pipe) (valid : bool)
| ODelete (n : bytes)
| OList (limit offset : Z)
| ODescribe (n : bytes)
| ORestart
| ORestartCfg (cfg : list (pipe * bool)).   (* restart with PipesConfig.EnsureAtStart = cfg *)

Inductive obs :=
| RBool (b : bool)                       (* create / delete succeeded *)
| REnsure (r : option pipe)
| RList (r : option (Z * Z * list bytes))
| RDescribe (r : option (bytes * bytes * bytes))
| RUnit.

(* [perm r k] : an order oracle; the k-th listing meets the map in order [perm r k] *)
Definition step (perm : reg -> reg) (r : reg) (o : op) : reg * obs :=
  match o with
  | OCreate p v => let '(r', b) := create r p v in (r', RBool b)
  | OEnsure p v => let '(r', x) := ensure r p v in (r', REnsure x)
  | ODelete n => let '(r', b) := delete r n in (r', RBool b)
  | OList l o => (r, RList (show_pipes (get_pipes (perm r)) l o))
  | ODescribe n => (r, RDescribe (describe r n))
  | ORestart => (load (save (perm r)), RUnit)
  | ORestartCfg cfg => let '(r', ok) := ensure_at_start (load (save (perm r))) cfg in (r', RBool ok)
  end.

Fixpoint run (perm : reg -> reg) (r : reg) (ops : list op) : reg * list obs :=
  match ops with
  | [] => (r, [])
  | o :: tl => let '(r', x) := step perm r o in let '(r'', xs) := run perm r' tl in (r'', x :: xs)
  end.

(* ---------------- the abstract specification: a finite map name -> definition, listing = sorted keys -------- *)
(* spec state: key-sorted duplicate-free association list *)
Fixpoint spec_insert (p : pipe) (l : list pipe) : list pipe :=
  match l with
  | [] => [p]
  | q :: tl => if bytes_leb (p_name p) (p_name q) then p :: l else q :: spec_insert p tl
  end.
Definition spec_sorted (r : reg) : list pipe := fold_right spec_insert [] r.

(* ---------------- concurrent creates of ONE name: CreatePipe is  check ; newPPipe ; check+insert ------------- *)
(* per actor: 0 = before first check, 1 = passed first check, 2 = done ok, 3 = done failed *)
Record cstate := { c_present : bool; c_pc : list nat }.
Definition cstep (s : cstate) (a : nat) : cstate :=
  match nth_error (c_pc s) a with
  | Some 0 => {| c_present := c_present s;
                 c_pc := firstn a (c_pc s) ++ (if c_present s then 3 else 1) :: skipn (S a) (c_pc s) |}
  | Some 1 => {| c_present := true;
                 c_pc := firstn a (c_pc s) ++ (if c_present s then 3 else 2) :: skipn (S a) (c_pc s) |}
  | _ => s
  end.
Definition crun (sched : list nat) (s : cstate) : cstate := fold_left cstep sched s.
Definition count_pc (v : nat) (s : cstate) : nat := length (filter (Nat.eqb v) (c_pc s)).

(* ---------------- K concurrent ensurePipe(p, changeOk = false) calls, one new name, ONE definition ----------------
   Every call runs the loop of ensurePipe: GetPipe (under the lock); CreatePipe = check under the lock, compile outside,
   check + insert under the lock; an error of CreatePipe is logged and the loop goes on ([retry] = true, the code) or is
   returned at once ([retry] = false, for the refutation only).  Rounds are counted up to 3. *)
Inductive epc := EGet (round : nat) | ECheck (round : nat) | EInsert (round : nat) | EOk | EFail.
Record estate := { e_present : bool; e_pc : list epc }.
Definition estep_pc (retry : bool) (present : bool) (pc : epc) : bool * epc :=
  match pc with
  | EGet r => if Nat.leb 3 r then (present, EFail) else if present then (present, EOk) else (present, ECheck r)
  | ECheck r => if present then (present, if retry then EGet (S r) else EFail) else (present, EInsert r)
  | EInsert r => if present then (present, if retry then EGet (S r) else EFail) else (true, EGet (S r))
  | EOk => (present, EOk)
  | EFail => (present, EFail)
  end.
Definition estep (retry : bool) (s : estate) (a : nat) : estate :=
  match nth_error (e_pc s) a with
  | Some pc => let '(pr, pc') := estep_pc retry (e_present s) pc in
               {| e_present := pr; e_pc := firstn a (e_pc s) ++ pc' :: skipn (S a) (e_pc s) |}
  | None => s
  end.
Definition erun (retry : bool) (sched : list nat) (s : estate) : estate := fold_left (estep retry) sched s.
Definition einit (K : nat) : estate := {| e_present := false; e_pc := repeat (EGet 0) K |}.
Definition epc_is_ok (pc : epc) : bool := match pc with EOk => true | _ => false end.
Definition epc_is_fail (pc : epc) : bool := match pc with EFail => true | _ => false end.
Definition epc_done (pc : epc) : bool := epc_is_ok pc || epc_is_fail pc.
Definition count_ok (s : estate) : nat := length (filter epc_is_ok (e_pc s)).
(* a complete fair schedule: 12 rounds of everybody (a call needs at most 7 own steps) *)
Definition efull_sched (K : nat) : list nat := concat (repeat (seq 0 K) 12).
