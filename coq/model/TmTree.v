(* Model of pkg/tmindex/ckindex.go — the per-chunk sparse time index.

   Part 1 (this section): one block seen as a list of records, with the exact binary searches of
   the Go (findIntervalIdx / findIntervalInsertIdx are Go's sort.Search loop), the level-0
   addInterval (append, or collapse of the out-of-order tail into one covering interval), grEq, less
   and traversal.  A level-0 tree IS such a list (at most 41 records); the same functions on an
   unbounded list are the "flat index" the multi-level tree of part 2 refines.

   Definitions only; lemmas are in proofs/TmTreeP.v. *)
From LR Require Import lib.Base.
Open Scope Z_scope.

(* record{ts int64; idx uint32} *)
Record rec := mkrec { r_ts : Z; r_idx : Z }.
Definition rec0 : rec := mkrec 0 0.
Definition rec_eqb (a b : rec) : bool := (r_ts a =? r_ts b) && (r_idx a =? r_idx b).

Definition max_recs_per_block : nat := 41.      (* maxRecsPerBlock *)

(* answers of grEq / less *)
Inductive answer := ARec (r : rec) | AAll (* errAllMatches *) | AErr (* any other error *).
Definition answer_eqb (a b : answer) : bool :=
  match a, b with
  | ARec x, ARec y => rec_eqb x y
  | AAll, AAll => true
  | AErr, AErr => true
  | _, _ => false
  end.

Section Block.
  Variable rs : list rec.

  Definition recs : nat := length rs.
  Definition rd (i : nat) : rec := nth i rs rec0.                  (* readRecord *)
  (* intervals(): recs <= 1 -> 0, else recs-1 *)
  Definition intervals : Z := if Nat.leb recs 1 then 0 else Z.of_nat recs - 1.

  (* the loop `i,j := 0,recs; for i<j { h := (i+j)>>1; if r[h].ts <= ts {i=h+1} else {j=h} }` *)
  Definition search_le (ts : Z) : nat := sort_search recs (fun h => ts <? r_ts (rd h)).

  (* findIntervalIdx: recs==0 -> 0, else i-1  (in [-1 .. intervals]) *)
  Definition find_interval_idx (ts : Z) : Z :=
    match rs with [] => 0 | _ => Z.of_nat (search_le ts) - 1 end.
  (* findIntervalInsertIdx on a level-0 block: the same value *)
  Definition find_insert_idx0 (ts : Z) : Z := find_interval_idx ts.

  Definition first_rec : rec := match rs with [] => rec0 | r :: _ => r end.   (* readFirstRecordInTheTree, level 0 *)
  Definition last_rec : rec := last rs rec0.                                   (* readLastRecordInTheTree, level 0 *)

  (* grEqInt on a level-0 block *)
  Definition flat_gr_eq (ts : Z) : answer :=
    let k := find_interval_idx ts in
    if k <? 0 then AAll
    else if k =? intervals then ARec last_rec
    else ARec (rd (Z.to_nat k)).

  (* lessInt on a level-0 block *)
  Definition flat_less (ts : Z) : answer :=
    let k := find_interval_idx ts in
    if k <? 0 then ARec first_rec
    else if k =? intervals then AAll
    else ARec (rd (Z.to_nat k + 1)).

  (* traversal of a level-0 block: the intervals (r_i, r_i+1) *)
  Fixpoint pairs_of (l : list rec) : list (rec * rec) :=
    match l with
    | a :: ((b :: _) as tl) => (a, b) :: pairs_of tl
    | _ => []
    end.
  Definition flat_traversal : list (rec * rec) := pairs_of rs.
End Block.

Definition rec_reduce (a b : rec) : rec := mkrec (Z.min (r_ts a) (r_ts b)) (Z.min (r_idx a) (r_idx b)).

(* block.addInterval on a level-0 block, without the 41-record limit (the limit is the tree's):
   append p1 (p0 only into an empty block) when p0.ts is not before the last record; otherwise
   the intervals after the insertion point are replaced by ONE interval that ends at
   (max(p1.ts, old last ts), p1.idx) *)
Definition flat_add (rs : list rec) (p0 p1 : rec) : list rec :=
  let ins := find_insert_idx0 rs (r_ts p0) in
  let ints := intervals rs in
  if ins =? ints then
    match rs with
    | [] => [p0; p1]
    | _ => rs ++ [p1]
    end
  else
    let p1' := if 0 <? ints then mkrec (Z.max (r_ts p1) (r_ts (last_rec rs))) (r_idx p1) else p1 in
    if ins <? 0 then
      let p0' := if 0 <? ints then rec_reduce p0 (first_rec rs) else p0 in
      [p0'; p1']
    else
      firstn (Z.to_nat ins + 1) rs ++ [p1'].

(* the records of an index as cindex.readData reports them (p0 of every interval, then the last p1) *)
Definition read_data_of (tr : list (rec * rec)) : list rec :=
  map fst tr ++ match tr with [] => [rec0] | _ => [snd (last tr (rec0, rec0))] end.
