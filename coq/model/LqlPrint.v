(* The LQL printers: the makeString methods of /repo/pkg/lql/parser.go:268-706, byte for byte
   (`pr_*`), and the token sequences the lexer turns that text into (`tk_*`, the "printer's image" the
   round-trip theorems are stated on; the correspondence check C12K compares `tk_*` with the real
   lexer run on the real printer's text, and `pr_*` with the real text). Definitions only. *)
From LR Require Import lib.Base model.LqlAst model.LqlLex.
From Coq Require Import Strings.String.
Local Open Scope string_scope.
Local Open Scope list_scope.

(* fmt.Sprintf("%d", z) *)
Fixpoint dec_digits (fuel : nat) (n : N) (acc : bytes) : bytes :=
  match fuel with
  | O => acc
  | S f =>
      let d := match Byte.of_N (48 + n mod 10) with Some b => b | None => x30 end in
      if N.ltb n 10 then d :: acc else dec_digits f (n / 10) (d :: acc)
  end.
Definition pr_N (n : N) : bytes := dec_digits 40 n [].
Definition pr_Z (z : Z) : bytes :=
  match z with
  | Z0 => B "0"
  | Zpos p => pr_N (Npos p)
  | Zneg p => x2d :: pr_N (Npos p)
  end.

(* int64(uint64) conversion of a Size *)
Definition as_int64 (n : N) : Z :=
  let m := (Z.of_N n mod 18446744073709551616)%Z in
  if (m <? 9223372036854775808)%Z then m else (m - 18446744073709551616)%Z.

Section Printer.
  Variable quote : bytes -> bytes.           (* strconv.Quote *)
  Variable tags_line : tagset -> bytes.      (* tag.Set.Line().String() *)
  Variable fmt_time : Z -> bytes.            (* time.Unix(0, ns).String() *)

  Definition sp : byte := x20.

  (* ---- text ---- *)
  Fixpoint pr_ident (i : ident) : bytes :=
    match i with
    | Ident op INil => op
    | Ident op (ICons p r) => op ++ B "(" ++ pr_ident p ++ pr_ptail r ++ B ")"
    end
  with pr_ptail (l : idlist) : bytes :=
    match l with
    | INil => []
    | ICons p r => B "," ++ pr_ident p ++ pr_ptail r
    end.

  Definition pr_cond (c : cond) : bytes :=
    sp :: pr_ident (c_ident c) ++ sp :: c_op c ++ sp :: quote (c_val c).

  Fixpoint pr_expr (e : expr) : bytes :=
    match e with
    | Or1 o => pr_orc o
    | OrS o r => pr_orc o ++ B " OR " ++ pr_expr r
    end
  with pr_orc (o : orc) : bytes :=
    match o with
    | And1 x => pr_xc x
    | AndS x r => pr_xc x ++ B " AND " ++ pr_orc r
    end
  with pr_xc (x : xc) : bytes :=
    match x with
    | X n b => (if n then B " NOT" else []) ++ pr_body b
    end
  with pr_body (b : body) : bytes :=
    match b with
    | BC c => pr_cond c
    | BP e => B " (" ++ pr_expr e ++ B " )"
    end.

  Definition pr_tags (t : tagset) : bytes := B "{" ++ tags_line t ++ B "}".

  Definition pr_source (s : source) : bytes :=
    match s with
    | SrcTags t => sp :: pr_tags t
    | SrcExpr e => pr_expr e
    end.
  (* a nil Source / Expression prints the empty string *)
  Definition pr_osource (s : option source) : bytes := match s with Some s => pr_source s | None => [] end.
  Definition pr_oexpr (e : option expr) : bytes := match e with Some e => pr_expr e | None => [] end.

  (* DateTime.String() *)
  Definition pr_time (t : Z) : bytes := quote (fmt_time t).
  Definition pr_otime (t : option Z) : bytes := match t with Some t => pr_time t | None => [] end.

  (* Range.makeString. A Range with both points absent comes from the text `RANGE [` only (the matched bracket
     makes the struct): the code prints the bracket back. Variant [old = true] is the printer before the repair,
     which wrote a blank and the (empty) first point for it. *)
  Definition pr_range_v (old : bool) (r : range) : bytes :=
    match r_t2 r with
    | None => match r_t1 r with
              | None => if old then [sp] else B " ["
              | Some t1 => sp :: pr_time t1
              end
    | Some t2 => B " [" ++ pr_otime (r_t1 r) ++ B ":" ++ pr_time t2 ++ B "]"
    end.

  (* addInt64IfNotEmpty / addIntIfNotEmpty *)
  Definition pr_kw_int (kw : string) (v : option Z) : bytes :=
    match v with Some z => sp :: B kw ++ sp :: pr_Z z | None => [] end.
  (* addStringIfNotEmpty: nil and the empty string print nothing *)
  Definition pr_kw_str (kw : string) (v : option bytes) : bytes :=
    match v with
    | Some ((_ :: _) as s) => sp :: B kw ++ sp :: quote s
    | _ => []
    end.

  Definition pr_select_v (old_range : bool) (s : select) : bytes :=
    B "SELECT" ++ pr_kw_str "" (s_format s) ++
    match s_source s with Some src => B " FROM" ++ pr_source src | None => [] end ++
    match s_range s with Some r => B " RANGE" ++ pr_range_v old_range r | None => [] end ++
    match s_where s with Some e => B " WHERE" ++ pr_expr e | None => [] end ++
    match s_pos s with Some p => B " POSITION" ++ sp :: quote p | None => [] end ++
    pr_kw_int "OFFSET" (s_offset s) ++ pr_kw_int "LIMIT" (s_limit s).

  Definition pr_describe (d : describe) : bytes :=
    B "DESCRIBE" ++ match d with
                    | DPartition t => B " PARTITION " ++ pr_tags t
                    | DPipe n => B " PIPE " ++ n
                    end.

  (* addSizeIfNotEmpty: strconv.FormatUint(uint64(size), 10) *)
  Definition pr_kw_size (kw : string) (v : option N) : bytes :=
    match v with Some n => sp :: B kw ++ sp :: pr_N n | None => [] end.

  (* Truncate.makeString. Variant [old = true] is the printer before the repair: BEFORE quoted twice
     (DateTime.String() already quotes, addStringIfNotEmpty quoted again), MAXDBSIZE not printed, sizes
     through int64(). The code's printer ([code_truncate_old_printer] below) writes every clause once. *)
  Definition pr_truncate_v (old : bool) (t : truncate) : bytes :=
    B "TRUNCATE" ++ (if tr_dryrun t then B " DRYRUN" else []) ++ pr_osource (tr_source t) ++
    if old then
      pr_kw_int "MINSIZE" (option_map as_int64 (tr_min t)) ++
      pr_kw_int "MAXSIZE" (option_map as_int64 (tr_max t)) ++
      match tr_before t with Some b => pr_kw_str "BEFORE" (Some (pr_time b)) | None => [] end
    else
      pr_kw_size "MINSIZE" (tr_min t) ++
      pr_kw_size "MAXSIZE" (tr_max t) ++
      match tr_before t with Some b => B " BEFORE " ++ pr_time b | None => [] end ++
      pr_kw_size "MAXDBSIZE" (tr_maxdb t).

  Definition pr_show (s : show) : bytes :=
    B "SHOW" ++
    match sh_parts s with
    | Some p => B " PARTITIONS" ++ pr_osource (pt_source p) ++ pr_kw_int "OFFSET" (pt_offset p) ++ pr_kw_int "LIMIT" (pt_limit p)
    | None => []
    end ++
    match sh_pipes s with
    | Some p => B " PIPES" ++ pr_kw_int "OFFSET" (pp_offset p) ++ pr_kw_int "LIMIT" (pp_limit p)
    | None => []
    end.

  Definition pr_pipe (p : pipe) : bytes :=
    B " PIPE " ++ pi_name p ++
    match pi_from p with Some s => B " FROM" ++ pr_source s | None => [] end ++
    match pi_where p with Some e => B " WHERE" ++ pr_expr e | None => [] end.

  Definition pr_lql_v (old_truncate old_range : bool) (l : lql) : bytes :=
    match l with
    | LNone => []
    | LSelect s => pr_select_v old_range s
    | LDescribe d => pr_describe d
    | LTruncate t => pr_truncate_v old_truncate t
    | LShow s => pr_show s
    | LCreate p => B "CREATE" ++ match p with Some p => pr_pipe p | None => [] end
    | LDelete n => B " DELETE" ++ match n with Some n => B " PIPE " ++ n | None => [] end
    end.
End Printer.

(* the variant of the code: the repaired TRUNCATE printer *)
Definition code_truncate_old_printer : bool := false.
Definition pr_truncate (quote : bytes -> bytes) (tags_line : tagset -> bytes) (fmt_time : Z -> bytes) : truncate -> bytes :=
  pr_truncate_v quote tags_line fmt_time code_truncate_old_printer.
(* ... and the Range printer that writes `RANGE [` back *)
Definition code_range_old_printer : bool := false.
Definition pr_range (quote : bytes -> bytes) (fmt_time : Z -> bytes) : range -> bytes :=
  pr_range_v quote fmt_time code_range_old_printer.
Definition pr_select (quote : bytes -> bytes) (tags_line : tagset -> bytes) (fmt_time : Z -> bytes) : select -> bytes :=
  pr_select_v quote tags_line fmt_time code_range_old_printer.
Definition pr_lql (quote : bytes -> bytes) (tags_line : tagset -> bytes) (fmt_time : Z -> bytes) : lql -> bytes :=
  pr_lql_v quote tags_line fmt_time code_truncate_old_printer code_range_old_printer.

(* ---- the token image of the expression printers ---- *)
Definition is_keyword_text (s : bytes) : bool := existsb (fun kw => fold_eq s kw) keywords.
Definition kw_or (other : tokty) (s : bytes) : tokty := if is_keyword_text s then TKeyword else other.
Definition operand_tok (op : bytes) : token := Tok (kw_or TIdent op) op.
Definition op_tok (op : bytes) : token := Tok (kw_or TOperator op) op.
Definition kw_tok (s : string) : token := Tok TKeyword (B s).
Definition sym_tok (s : string) : token := Tok TOperator (B s).

Fixpoint tk_ident (i : ident) : list token :=
  match i with
  | Ident op INil => [operand_tok op]
  | Ident op (ICons p r) => operand_tok op :: sym_tok "(" :: tk_ident p ++ tk_ptail r ++ [sym_tok ")"]
  end
with tk_ptail (l : idlist) : list token :=
  match l with
  | INil => []
  | ICons p r => sym_tok "," :: tk_ident p ++ tk_ptail r
  end.

Definition tk_cond (c : cond) : list token :=
  tk_ident (c_ident c) ++ [op_tok (c_op c); Tok TString (c_val c)].

Fixpoint tk_expr (e : expr) : list token :=
  match e with
  | Or1 o => tk_orc o
  | OrS o r => tk_orc o ++ kw_tok "OR" :: tk_expr r
  end
with tk_orc (o : orc) : list token :=
  match o with
  | And1 x => tk_xc x
  | AndS x r => tk_xc x ++ kw_tok "AND" :: tk_orc r
  end
with tk_xc (x : xc) : list token :=
  match x with
  | X n b => (if n then [kw_tok "NOT"] else []) ++ tk_body b
  end
with tk_body (b : body) : list token :=
  match b with
  | BC c => tk_cond c
  | BP e => sym_tok "(" :: tk_expr e ++ [sym_tok ")"]
  end.

(* a source: one Tags token holding the printed tag line, or the tokens of the expression *)
Definition tk_source (tags_line : tagset -> bytes) (s : source) : list token :=
  match s with
  | SrcTags t => [Tok TTags (pr_tags tags_line t)]
  | SrcExpr e => tk_expr e
  end.

(* cmdCreatePipe (backend/admin.go): the pipe keeps the printed From and Where: as text, and as tokens *)
Definition pipe_conds_text (quote : bytes -> bytes) (tags_line : tagset -> bytes) (p : pipe) : bytes * bytes :=
  (pr_osource quote tags_line (pi_from p), pr_oexpr quote (pi_where p)).
Definition pipe_conds_tokens (tags_line : tagset -> bytes) (p : pipe) : list token * list token :=
  (match pi_from p with Some s => tk_source tags_line s | None => [] end,
   match pi_where p with Some e => tk_expr e | None => [] end).

(* ---- the token image of the statement printers ----
   String tokens carry the unquoted value, Number tokens the decimal text, Tags tokens the braces and the
   tag line; `[`, `]`, `:` are tokens of the Keyword class. A clause the printer skips has no tokens. *)
Section StmtTokens.
  Variable tags_line : tagset -> bytes.
  Variable fmt_time : Z -> bytes.

  Definition str_tok (s : bytes) : token := Tok TString s.
  Definition num_tok (z : Z) : token := Tok TNumber (pr_Z z).
  Definition tk_clause {A : Type} (kw : string) (f : A -> list token) (v : option A) : list token :=
    match v with Some a => kw_tok kw :: f a | None => [] end.

  Definition tk_range (r : range) : list token :=
    match r_t2 r with
    | None => match r_t1 r with Some t1 => [str_tok (fmt_time t1)] | None => [kw_tok "["] end
    | Some t2 => kw_tok "[" :: match r_t1 r with Some t1 => [str_tok (fmt_time t1)] | None => [] end ++
                 [kw_tok ":"; str_tok (fmt_time t2); kw_tok "]"]
    end.

  Definition tk_select (s : select) : list token :=
    kw_tok "SELECT" ::
    match s_format s with Some ((_ :: _) as f) => [str_tok f] | _ => [] end ++
    tk_clause "FROM" (tk_source tags_line) (s_source s) ++
    tk_clause "RANGE" tk_range (s_range s) ++
    tk_clause "WHERE" tk_expr (s_where s) ++
    tk_clause "POSITION" (fun p => [str_tok p]) (s_pos s) ++
    tk_clause "OFFSET" (fun z => [num_tok z]) (s_offset s) ++
    tk_clause "LIMIT" (fun z => [num_tok z]) (s_limit s).

  Definition tk_pipe (p : pipe) : list token :=
    kw_tok "PIPE" :: Tok TIdent (pi_name p) ::
    tk_clause "FROM" (tk_source tags_line) (pi_from p) ++ tk_clause "WHERE" tk_expr (pi_where p).

  Definition tk_describe (d : describe) : list token :=
    kw_tok "DESCRIBE" ::
    match d with
    | DPartition t => [kw_tok "PARTITION"; Tok TTags (pr_tags tags_line t)]
    | DPipe n => [kw_tok "PIPE"; Tok TIdent n]
    end.

  Definition tk_osource (s : option source) : list token := match s with Some s => tk_source tags_line s | None => [] end.

  Definition tk_show (s : show) : list token :=
    kw_tok "SHOW" ::
    match sh_parts s with
    | Some p => kw_tok "PARTITIONS" :: tk_osource (pt_source p) ++
                tk_clause "OFFSET" (fun z => [num_tok z]) (pt_offset p) ++ tk_clause "LIMIT" (fun z => [num_tok z]) (pt_limit p)
    | None => []
    end ++
    match sh_pipes s with
    | Some p => kw_tok "PIPES" :: tk_clause "OFFSET" (fun z => [num_tok z]) (pp_offset p) ++ tk_clause "LIMIT" (fun z => [num_tok z]) (pp_limit p)
    | None => []
    end.

  (* sizes are printed in decimal; BEFORE holds the time text (quoted once, so the String token is the text itself) *)
  Definition size_tok (n : N) : token := Tok TNumber (pr_N n).
  Definition tk_truncate (t : truncate) : list token :=
    kw_tok "TRUNCATE" :: (if tr_dryrun t then [kw_tok "DRYRUN"] else []) ++ tk_osource (tr_source t) ++
    tk_clause "MINSIZE" (fun n => [size_tok n]) (tr_min t) ++
    tk_clause "MAXSIZE" (fun n => [size_tok n]) (tr_max t) ++
    tk_clause "BEFORE" (fun b => [str_tok (fmt_time b)]) (tr_before t) ++
    tk_clause "MAXDBSIZE" (fun n => [size_tok n]) (tr_maxdb t).

  Definition tk_lql (l : lql) : list token :=
    match l with
    | LNone => []
    | LSelect s => tk_select s
    | LDescribe d => tk_describe d
    | LTruncate t => tk_truncate t
    | LShow s => tk_show s
    | LCreate p => kw_tok "CREATE" :: match p with Some p => tk_pipe p | None => [] end
    | LDelete n => kw_tok "DELETE" :: match n with Some n => [kw_tok "PIPE"; Tok TIdent n] | None => [] end
    end.
End StmtTokens.
