(* Model of the RPC wire bodies of api/rpc: encoder.go (writeLogEvent / unmarshalLogEvent, the event
   list of a query result) and ingestor.go (writePacket.WriteTo = the client encoder; wpIterator
   init/Get/Next = the server-side decoder that is handed to partition.Service.Write).
   Definitions only.

   field.NewFieldsFromKVString (kv text -> binary fields; C08's subject) is a parameter [fparse]:
   Ok binary fields | Err.  field.Parse is fparse with errors mapped to the empty field list. *)
From LR Require Import lib.Base model.XBinary model.LogEvent.
Open Scope N_scope.

(* api.LogEvent *)
Record api_event := { ae_ts : Z; ae_msg : bytes; ae_tags : bytes; ae_flds : bytes }.

Definition api_event_eqb (a b : api_event) : bool :=
  Z.eqb (ae_ts a) (ae_ts b) && bytes_eqb (ae_msg a) (ae_msg b) && bytes_eqb (ae_tags a) (ae_tags b) &&
  bytes_eqb (ae_flds a) (ae_flds b).

(* writeLogEvent: uint64(ts), Message, Tags, Fields *)
Definition write_api_event (e : api_event) : bytes :=
  marshal_u64 (u64_of_int64 (ae_ts e)) ++ marshal_bytes (ae_msg e) ++ marshal_bytes (ae_tags e) ++ marshal_bytes (ae_flds e).

(* unmarshalLogEvent *)
Definition unmarshal_api_event (buf : bytes) : outcome (api_event * bytes) :=
  obind (unmarshal_u64 buf) (fun '(ts, r1) =>
  obind (unmarshal_bytes r1) (fun '(msg, r2) =>
  obind (unmarshal_bytes r2) (fun '(tags, r3) =>
  obind (unmarshal_bytes r3) (fun '(flds, r4) =>
    Ok ({| ae_ts := int64_of_u64 ts; ae_msg := msg; ae_tags := tags; ae_flds := flds |}, r4))))).

(* writePacket.WriteTo: tags, fields, uint32(len(events)), events *)
Definition encode_wp (tags flds : bytes) (evs : list api_event) : bytes :=
  marshal_bytes tags ++ marshal_bytes flds ++ marshal_u32 (N.of_nat (length evs) mod 4294967296) ++
  concat (map write_api_event evs).

(* the event list of a query result: writeQueryResult / queryResultBuilder (count, events); the
   NextQueryRequest that follows is left in the rest *)
Definition encode_events (evs : list api_event) : bytes :=
  marshal_u32 (N.of_nat (length evs) mod 4294967296) ++ concat (map write_api_event evs).
(* for i := 0; i < int(ln); i++ { unmarshalLogEvent(buf[nn:]) ... }: the counter is the decoded uint32; every
   event consumes at least one byte, so the length of the buffer bounds the iterations (fuel) *)
Fixpoint decode_k (fuel : nat) (k : N) (buf : bytes) : outcome (list api_event * bytes) :=
  if N.eqb k 0 then Ok ([], buf) else
  match fuel with
  | O => OutOfFuel
  | S f => obind (unmarshal_api_event buf) (fun '(e, r) =>
           obind (decode_k f (k - 1) r) (fun '(l, r') => Ok (e :: l, r')))
  end.
(* unmarshalQueryResult, events part *)
Definition decode_events (buf : bytes) : outcome (list api_event * bytes) :=
  obind (unmarshal_u32 buf) (fun '(ln, r) => decode_k (S (length r)) ln r).

Section WithFieldParser.
Variable fparse : bytes -> outcome bytes.       (* field.NewFieldsFromKVString *)

Definition field_parse (kvs : bytes) : bytes := (* field.Parse: errors give the empty list *)
  match fparse kvs with Ok f => f | _ => [] end.

(* wpIterator.  wp_buf = buf[pos:] *)
Record wpit := { wp_buf : bytes; wp_recs : N; wp_cur : N; wp_read : bool; wp_wflds : bytes; wp_lge : levent }.

(* init: tags, fields text, record count; then the fields text is parsed; result: tags and the iterator *)
Definition wp_init (buf : bytes) : outcome (bytes * wpit) :=
  obind (unmarshal_bytes buf) (fun '(tags, r1) =>
  obind (unmarshal_bytes r1) (fun '(flds, r2) =>
  obind (unmarshal_u32 r2) (fun '(ln, r3) =>
  obind (fparse flds) (fun wf =>
    Ok (tags, {| wp_buf := r3; wp_recs := ln; wp_cur := 0; wp_read := false; wp_wflds := wf; wp_lge := le_zero |}))))).

(* Get: cached event while `read`; io.EOF (= Ok None) when cur >= recs; otherwise decode one event,
   Fields = write-level fields ++ the event's own parsed fields.  When the next event does not decode (the
   packet declares more events than it carries) the decode error is returned and nothing moves, so every
   further Get reports it again ([eof_on_error] = false, the code).  [eof_on_error] = true is the code before
   the repair: the counter moved on and the error was turned into io.EOF. *)
Definition wp_get_v (eof_on_error : bool) (s : wpit) : wpit * outcome (option levent) :=
  if wp_read s then (s, Ok (Some (wp_lge s)))
  else if wp_recs s <=? wp_cur s then (s, Ok None)
  else
    let s1 := {| wp_buf := wp_buf s; wp_recs := wp_recs s; wp_cur := wp_cur s + 1; wp_read := false;
                 wp_wflds := wp_wflds s; wp_lge := wp_lge s |} in
    match unmarshal_api_event (wp_buf s) with
    | Ok (ae, rest) =>
        let lge := {| le_ts := ae_ts ae; le_msg := ae_msg ae; le_flds := wp_wflds s ++ field_parse (ae_flds ae) |} in
        ({| wp_buf := rest; wp_recs := wp_recs s; wp_cur := wp_cur s + 1; wp_read := true;
            wp_wflds := wp_wflds s; wp_lge := lge |}, Ok (Some lge))
    | Err => if eof_on_error then (s1, Ok None) else (s, Err)
    | Panic => (s, Panic)
    | OutOfFuel => (s, OutOfFuel)
    end.
Definition wp_get : wpit -> wpit * outcome (option levent) := wp_get_v false.

(* Next: read = false *)
Definition wp_next (s : wpit) : wpit :=
  {| wp_buf := wp_buf s; wp_recs := wp_recs s; wp_cur := wp_cur s; wp_read := false;
     wp_wflds := wp_wflds s; wp_lge := wp_lge s |}.

(* draining the iterator the way a consumer does (Get; Next; Get; ...): the events it serves *)
Fixpoint wp_drain (fuel : nat) (s : wpit) : outcome (list levent) :=
  match fuel with
  | O => OutOfFuel
  | S f =>
      match wp_get s with
      | (s', Ok (Some e)) => obind (wp_drain f (wp_next s')) (fun l => Ok (e :: l))
      | (_, Ok None) => Ok []
      | (_, Err) => Err
      | (_, Panic) => Panic
      | (_, OutOfFuel) => OutOfFuel
      end
  end.

End WithFieldParser.
