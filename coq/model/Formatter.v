(* Model of pkg/model/leformatter.go: NewFormatParser (the format-string parser) and
   FormatParser.FormatStr (evaluation of a parsed format on a log event), after the Go with
   checked slices.  `for i, rune := range fstr` is modelled byte by byte: the loop only compares the
   rune with '{' and '}', and an ASCII byte is always a rune of its own in Go's decoding (also in
   invalid UTF-8), so the byte loop takes the same branches at the same indices.
   time.Format and the tag look-up are parameters.  Definitions only. *)
From LR Require Import lib.Base lib.DecLib model.DecUtf8 model.DecFields model.Json.

Local Open Scope Z_scope.

(* frmtFldTs = 0, frmtFldMsg = 1, frmtFldVar = 2, frmtFldVars = 3, frmtFldConst = 4 *)
Definition ffield := (nat * bytes)%type.

Definition kw_msg : bytes := [x6d;x73;x67].
Definition kw_msg_json : bytes := [x6d;x73;x67;x2e;x6a;x73;x6f;x6e;x28;x29].
Definition kw_json : bytes := [x6a;x73;x6f;x6e;x28;x29].
Definition kw_ts : bytes := [x74;x73].
Definition kw_ts_format : bytes := [x74;x73;x2e;x66;x6f;x72;x6d;x61;x74;x28].
Definition kw_vars : bytes := [x76;x61;x72;x73].
Definition kw_vars_colon : bytes := [x76;x61;x72;x73;x3a].
Definition rfc3339 : bytes := [x32;x30;x30;x36;x2d;x30;x31;x2d;x30;x32;x54;x31;x35;x3a;x30;x34;x3a;x30;x35;x5a;x30;x37;x3a;x30;x30].

(* the classification of the text between '{' and '}' *)
Definition classify (raw : bytes) : outcome ffield :=
  let val := trim_sp raw in
  let cv := lower_kw val in
  if bytes_eqb cv kw_msg then Ok (1%nat, [])
  else if bytes_eqb cv kw_msg_json then Ok (1%nat, kw_json)
  else if bytes_eqb cv kw_ts then Ok (0%nat, rfc3339)
  else if has_prefix kw_ts_format cv && (10 <? blen val) then
    last <- at_ val (blen val - 1) ;;
    if byte_eqb last x29 then v <- slice val 10 (blen val - 1) ;; Ok (0%nat, v)
    else (* falls through the else-if chain *)
      if bytes_eqb cv kw_vars then Ok (3%nat, [])
      else if has_prefix kw_vars_colon cv && (5 <? blen val) then v <- slice_from val 5 ;; Ok (2%nat, v)
      else Err
  else if bytes_eqb cv kw_vars then Ok (3%nat, [])
  else if has_prefix kw_vars_colon cv && (5 <? blen val) then v <- slice_from val 5 ;; Ok (2%nat, v)
  else Err.

Fixpoint fmt_go (fuel : nat) (s : bytes) (i : Z) (state1 : bool) (startIdx : Z) (fields : list ffield)
  : outcome (list ffield) :=
  match fuel with
  | O => OutOfFuel
  | S f =>
      if i <? blen s then
        c <- at_ s i ;;
        if negb state1 then
          if byte_eqb c x7b then
            fields' <- (if 0 <? i - startIdx then p <- slice s startIdx i ;; Ok (fields ++ [(4%nat, p)]) else Ok fields) ;;
            fmt_go f s (i + 1) true (i + 1) fields'
          else fmt_go f s (i + 1) false startIdx fields
        else
          if byte_eqb c x7b then
            if startIdx =? i then fmt_go f s (i + 1) false startIdx fields
            else (_ <- slice s 0 (i + 1) ;; Err)             (* the error text takes fstr[:i+1] *)
          else if byte_eqb c x7d then
            if startIdx =? i then fmt_go f s (i + 1) false startIdx fields
            else
              raw <- slice s startIdx i ;;
              fld <- classify raw ;;
              fmt_go f s (i + 1) false (i + 1) (fields ++ [fld])
          else fmt_go f s (i + 1) true startIdx fields
      else
        if state1 then Err else
        if startIdx <? blen s then p <- slice_from s startIdx ;; Ok (fields ++ [(4%nat, p)]) else Ok fields
  end.

Definition format_parse (s : bytes) : outcome (list ffield) := fmt_go (S (length s)) s 0 false 0 [].

Section Eval.
  Variable quote : bytes -> bytes.
  Variable tsfmt : bytes -> Z -> bytes.              (* time.Unix(0, ts).Format(layout) *)
  Variable tagval : bytes -> bytes -> bytes.         (* tag value of the tag line, "" if none *)

  (* FormatStr(le, tl) for a non-nil le *)
  Fixpoint format_eval (flds : list ffield) (ts : Z) (msg fields tl : bytes) (buf : bytes) : outcome bytes :=
    match flds with
    | [] => Ok buf
    | (typ, v) :: rest =>
        piece <-
          match typ with
          | 0%nat => Ok (if 0 <? blen v then tsfmt v ts else [])
          | 1%nat => if bytes_eqb v kw_json then escape_json msg else Ok msg
          | 2%nat => x <- value fields v ;; Ok (if blen x =? 0 then tagval tl v else x)
          | 3%nat => if blen fields =? 0 then Ok tl else kv <- as_kv quote fields ;; Ok (tl ++ [x2c] ++ kv)
          | _ => Ok v
          end ;;
        format_eval rest ts msg fields tl (buf ++ piece)
    end.
End Eval.
