(* Model of pkg/tmindex/ckindex.go, part 2: the multi-level block tree.

   A level-0 block is a record list of at most 41 records (part 1, model/TmTree.v). A block of level
   L > 0 has one record per child (the child's first timestamp and its block number) plus a closing
   record, the last record of its last child; these copies are refreshed by setLastInterval whenever the
   last child changes and are therefore derived here from the children. All children of a block have
   the same level, so a tree of level n is `treeN n` (n-fold nested lists of record lists), and every
   function is a structural recursion on the level. Block allocation, the free list and the bstorage
   layer are not modelled.

   t_add = block.addInterval (append / collapse / new child when the last one is full / errFullBlock),
   top_add = ckindex.addInterval (new root on errFullBlock, prune), t_gr_eq, t_less, t_traversal.
   Definitions only; lemmas are in proofs/TmTreeMLP.v. *)
From LR Require Import lib.Base model.TmTree.
Open Scope Z_scope.

Fixpoint treeN (n : nat) : Type := match n with O => list rec | S m => list (treeN m) end.
Definition tnil (n : nat) : treeN n := match n with O => [] | S _ => [] end.

Fixpoint t_first (n : nat) : treeN n -> rec :=               (* readFirstRecordInTheTree *)
  match n with
  | O => fun rs => first_rec rs
  | S m => fun kids => match kids with [] => rec0 | k :: _ => t_first m k end
  end.
Fixpoint t_last (n : nat) : treeN n -> rec :=                (* readLastRecordInTheTree *)
  match n with
  | O => fun rs => last_rec rs
  | S m => fun kids => match kids with [] => rec0 | _ => t_last m (last kids (tnil m)) end
  end.

(* the records of an upper block, as far as the searches read them (timestamps) *)
Definition node_recs (m : nat) (kids : list (treeN m)) : list rec :=
  match kids with
  | [] => []
  | _ => map (fun k => mkrec (r_ts (t_first m k)) 0) kids ++ [t_last m (last kids (tnil m))]
  end.

(* findIntervalInsertIdx on an upper block *)
Definition find_insert_idx_up (m : nat) (kids : list (treeN m)) (ts : Z) : Z :=
  let rs := node_recs m kids in
  match rs with
  | [] => 0
  | _ => let i := Z.of_nat (search_le rs ts) in
         let n := Z.of_nat (length rs) in
         if i =? n then n - 2 else Z.max 0 (i - 1)
  end.

(* a fresh chain of blocks down to level 0 holding one interval *)
Fixpoint new_chain (n : nat) (p0 p1 : rec) : treeN n :=
  match n with O => [p0; p1] | S m => [new_chain m p0 p1] end.

Inductive add_res (n : nat) := AddOk (t : treeN n) | AddFull (lr : rec).
Arguments AddOk {n}. Arguments AddFull {n}.

(* block.addInterval *)
Fixpoint t_add (n : nat) : treeN n -> rec -> rec -> add_res n :=
  match n with
  | O => fun rs p0 p1 =>
      if (find_insert_idx0 rs (r_ts p0) =? intervals rs) && Nat.eqb (length rs) max_recs_per_block
      then AddFull (last_rec rs)
      else AddOk (flat_add rs p0 p1 : treeN O)
  | S m => fun kids p0 p1 =>
      match kids with
      | [] => AddOk ([new_chain m p0 p1] : treeN (S m))     (* an empty upper block: a chain of new blocks below it *)
      | _ =>
          let ins := find_insert_idx_up m kids (r_ts p0) in
          let kids' := firstn (Z.to_nat ins + 1) kids in     (* removeLastInterval for the children after it *)
          let lb := last kids' (tnil m) in
          match t_add m lb p0 p1 with
          | AddOk lb' => AddOk (removelast kids' ++ [lb'] : treeN (S m))
          | AddFull lr =>
              if Nat.eqb (length kids') (max_recs_per_block - 1) then AddFull lr
              else AddOk (kids' ++ [new_chain m lr p1] : treeN (S m))
          end
      end
  end.

(* a tree of any level *)
Definition tree := { n : nat & treeN n }.
Definition mk_tree (n : nat) (t : treeN n) : tree := existT _ n t.

Fixpoint prune (n : nat) : treeN n -> tree :=
  match n with
  | O => fun rs => mk_tree O rs
  | S m => fun kids => match kids with [k] => prune m k | _ => mk_tree (S m) kids end
  end.

(* ckindex.addInterval on an existing root *)
Definition top_add (t : tree) (p0 p1 : rec) : tree :=
  let '(existT _ n tn) := t in
  match t_add n tn p0 p1 with
  | AddOk t' => prune n t'
  | AddFull lr =>
      match t_add (S n) ([tn] : treeN (S n)) lr p1 with
      | AddOk t' => prune (S n) t'
      | AddFull _ => t                                   (* cannot happen: the new root has one child *)
      end
  end.
(* the first interval of a tree (idx < 0: a fresh level-0 block) *)
Definition top_new (p0 p1 : rec) : tree := mk_tree O [p0; p1].

Fixpoint t_gr_eq (n : nat) : treeN n -> Z -> answer :=
  match n with
  | O => fun rs ts => flat_gr_eq rs ts
  | S m => fun kids ts =>
      let rs := node_recs m kids in
      let k := find_interval_idx rs ts in
      if k <? 0 then AAll
      else if k =? intervals rs then ARec (t_last (S m) kids)
      else t_gr_eq m (nth (Z.to_nat k) kids (tnil m)) ts
  end.

Fixpoint t_less (n : nat) : treeN n -> Z -> answer :=
  match n with
  | O => fun rs ts => flat_less rs ts
  | S m => fun kids ts =>
      let rs := node_recs m kids in
      let k := find_interval_idx rs ts in
      if k <? 0 then ARec (t_first (S m) kids)
      else if k =? intervals rs then AAll
      else t_less m (nth (Z.to_nat k) kids (tnil m)) ts
  end.

Fixpoint t_traversal (n : nat) : treeN n -> list (rec * rec) :=
  match n with
  | O => fun rs => flat_traversal rs
  | S m => fun kids => flat_map (t_traversal m) kids
  end.

(* all records of the leaves *)
Fixpoint t_recs (n : nat) : treeN n -> list rec :=
  match n with
  | O => fun rs => rs
  | S m => fun kids => flat_map (t_recs m) kids
  end.

Definition tree_gr_eq (t : tree) (ts : Z) : answer := let '(existT _ n tn) := t in t_gr_eq n tn ts.
Definition tree_less (t : tree) (ts : Z) : answer := let '(existT _ n tn) := t in t_less n tn ts.
Definition tree_traversal (t : tree) : list (rec * rec) := let '(existT _ n tn) := t in t_traversal n tn.
Definition tree_level (t : tree) : nat := projT1 t.

(* a whole history of addInterval calls on one tree *)
Definition tree_of (adds : list (rec * rec)) : option tree :=
  match adds with
  | [] => None
  | (p0, p1) :: tl => Some (fold_left (fun t a => top_add t (fst a) (snd a)) tl (top_new p0 p1))
  end.
