(* Model of github.com/logrange/range/pkg/utils/encoding/xbinary (the dependency's byte-level
   codec), exact at byte level: MarshalUint/UnmarshalUint (LEB128-like, 64-bit shift truncation),
   MarshalBytes/UnmarshalBytes (length prefix, `int(uln)` conversion and the unchecked slice
   expression), big-endian fixed-width integers, WritableUintSize.  Definitions only.

   Decoders return the decoded value and the REST of the buffer (Go returns the number of
   bytes consumed n and the callers continue with buf[n:]; the two are the same information). *)
From LR Require Import lib.Base.
Open Scope N_scope.

Definition obind {A B : Type} (o : outcome A) (f : A -> outcome B) : outcome B :=
  match o with
  | Ok a => f a
  | Err => Err
  | Panic => Panic
  | OutOfFuel => OutOfFuel
  end.

(* byte(n) for n < 256; Go's byte(v) conversion of a wider unsigned value truncates *)
Definition b_of (n : N) : byte := match Byte.of_N n with Some b => b | None => x00 end.
Definition byte_of_N (n : N) : byte := b_of (n mod 256).

Definition two64 : N := 18446744073709551616.
Definition two63 : N := 9223372036854775808.

(* MarshalUint(v uint, buf): for { if v > 127 { buf[idx] = 128 | byte(v&127) } else { buf[idx] = byte(v); return }; v >>= 7 }
   ten bytes are enough for a 64-bit value (the ObjectsWriter's buffer is [10]byte) *)
Fixpoint marshal_uint_f (fuel : nat) (v : N) : bytes :=
  match fuel with
  | O => []
  | S f =>
      if 127 <? v then byte_of_N (N.lor 128 (N.land v 127)) :: marshal_uint_f f (N.shiftr v 7)
      else [byte_of_N v]
  end.
Definition marshal_uint (v : N) : bytes := marshal_uint_f 10 v.

(* UnmarshalUint: res |= uint(b&127) << shft (64-bit: bits shifted beyond bit 63 are lost, shft >= 64 gives 0);
   stops at the first byte <= 127; runs off the buffer => error *)
Fixpoint unmarshal_uint_l (buf : bytes) (shft res : N) : outcome (N * bytes) :=
  match buf with
  | [] => Err
  | b :: tl =>
      let v := Byte.to_N b in
      let res' := N.lor res ((N.shiftl (N.land v 127) shft) mod two64) in
      if v <=? 127 then Ok (res', tl) else unmarshal_uint_l tl (shft + 7) res'
  end.
Definition unmarshal_uint (buf : bytes) : outcome (N * bytes) := unmarshal_uint_l buf 0 0.

(* WritableUintSize: the hand-written width table (bit7 ... bit63) *)
Definition writable_uint_size (v : N) : nat :=
  if 34359738368 <=? v then                        (* bit35 *)
    if 562949953421312 <=? v then                  (* bit49 *)
      if two63 <=? v then 10%nat
      else if 72057594037927936 <=? v then 9%nat   (* bit56 *)
      else 8%nat
    else if 4398046511104 <=? v then 7%nat         (* bit42 *)
    else 6%nat
  else if 2097152 <=? v then                       (* bit21 *)
    if 268435456 <=? v then 5%nat else 4%nat       (* bit28 *)
  else if 16384 <=? v then 3%nat                   (* bit14 *)
  else if 128 <=? v then 2%nat                     (* bit7 *)
  else 1%nat.

(* int64(uint64) and the wrap-around of int arithmetic *)
Definition int64_of_u64 (n : N) : Z :=
  let z := Z.of_N (n mod two64) in
  if (z <? 9223372036854775808)%Z then z else (z - 18446744073709551616)%Z.
Definition u64_of_int64 (z : Z) : N := Z.to_N (z mod 18446744073709551616).
Definition wrap64 (z : Z) : Z := int64_of_u64 (u64_of_int64 z).

(* MarshalBytes / WriteBytes: varint length, then the bytes *)
Definition marshal_bytes (v : bytes) : bytes := marshal_uint (N.of_nat (length v)) ++ v.

(* the dependency's xbinary.UnmarshalBytes(buf): idx, uln := UnmarshalUint(buf); ln := int(uln);
   if len(buf) < ln+idx { error }; res := buf[idx : idx+ln]
   — the slice expression panics when idx+ln < idx (negative ln, or int overflow of ln+idx) *)
Definition unmarshal_bytes_dep (buf : bytes) : outcome (bytes * bytes) :=
  obind (unmarshal_uint buf) (fun '(uln, rest) =>
    let idx := Z.of_nat (length buf - length rest) in
    let ln := int64_of_u64 uln in
    let hi := wrap64 (ln + idx) in
    if (Z.of_nat (length buf) <? hi)%Z then Err
    else if (hi <? idx)%Z then Panic
    else Ok (firstn (Z.to_nat ln) rest, skipn (Z.to_nat ln) rest)).

(* utils.UnmarshalBytes / UnmarshalString of /repo (pkg/utils/unmarshal.go), through which the /repo decoders
   read every length-prefixed field: checkBytesLen reads the varint the same way and returns an error when
   ln < 0 || ln+idx < idx, then the dependency's function is called on the same buffer *)
Definition unmarshal_bytes (buf : bytes) : outcome (bytes * bytes) :=
  obind (unmarshal_uint buf) (fun '(uln, rest) =>
    let idx := Z.of_nat (length buf - length rest) in
    let ln := int64_of_u64 uln in
    if ((ln <? 0) || (wrap64 (ln + idx) <? idx))%Z then Err else unmarshal_bytes_dep buf).

Definition writable_bytes_size (v : bytes) : nat := (writable_uint_size (N.of_nat (length v)) + length v)%nat.

(* big-endian fixed width: binary.BigEndian.PutUintNN / UintNN with the length checks of xbinary *)
Fixpoint be_enc (k : nat) (n : N) : bytes :=
  match k with
  | O => []
  | S k' => be_enc k' (n / 256) ++ [byte_of_N n]
  end.
Fixpoint be_dec (buf : bytes) (acc : N) : N :=
  match buf with
  | [] => acc
  | b :: tl => be_dec tl (acc * 256 + Byte.to_N b)
  end.
Definition marshal_fixed (k : nat) (n : N) : bytes := be_enc k n.
Definition unmarshal_fixed (k : nat) (buf : bytes) : outcome (N * bytes) :=
  if (length buf <? k)%nat then Err else Ok (be_dec (firstn k buf) 0, skipn k buf).
Definition marshal_u64 (n : N) : bytes := marshal_fixed 8 n.
Definition unmarshal_u64 (buf : bytes) : outcome (N * bytes) := unmarshal_fixed 8 buf.
Definition marshal_u32 (n : N) : bytes := marshal_fixed 4 n.
Definition unmarshal_u32 (buf : bytes) : outcome (N * bytes) := unmarshal_fixed 4 buf.

(* UnmarshalByte *)
Definition unmarshal_byte (buf : bytes) : outcome (N * bytes) :=
  match buf with
  | [] => Err
  | b :: tl => Ok (Byte.to_N b, tl)
  end.
