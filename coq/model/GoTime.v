(* GoTime: the part of Go's package time that the date parser of logrange uses, as executable
   definitions: civil date <-> day number (time.Date / Time.Date), the layout scanner
   (nextStdChunk) and time.Parse for the layout elements that occur in the date tables.
   Definitions only; lemmas are in proofs/GoTimeP.v.  Compared with the real Go functions by the
   correspondence check of C20 on every run. *)
From LR Require Import lib.Base.
From Coq Require Import Strings.String.
Open Scope bool_scope.
Open Scope Z_scope.

(* a Go string literal as bytes *)
Definition B (s : string) : bytes := list_byte_of_string s.

(* ------------------------------------------------------------------ civil dates *)

Definition is_leap (y : Z) : bool := (y mod 4 =? 0) && (negb (y mod 100 =? 0) || (y mod 400 =? 0)).
Definition days_in_month (y m : Z) : Z :=
  if m =? 2 then (if is_leap y then 29 else 28)
  else if (m =? 4) || (m =? 6) || (m =? 9) || (m =? 11) then 30 else 31.

(* days before March 1 of the March-based year ys, counted from March 1 of year 0 *)
Definition days_before_year (ys : Z) : Z := 365 * ys + ys / 4 - ys / 100 + ys / 400.
(* day of the March-based year on which month index mp (0 = March .. 11 = February) starts *)
Definition days_before_month (mp : Z) : Z := (153 * mp + 2) / 5.

(* days since 1970-01-01 of the proleptic Gregorian date y-m-d; linear in d, so an out-of-range
   day rolls over exactly as time.Date normalises it *)
Definition days_from_civil (y m d : Z) : Z :=
  let ys := if m <=? 2 then y - 1 else y in
  let mp := if m <=? 2 then m + 9 else m - 3 in
  days_before_year ys + days_before_month mp + (d - 1) - 719468.

Definition civil_from_days (z : Z) : Z * Z * Z :=
  let z := z + 719468 in
  let n400 := z / 146097 in
  let r := z - n400 * 146097 in
  let n100 := Z.min (r / 36524) 3 in
  let r1 := r - n100 * 36524 in
  let n4 := r1 / 1461 in
  let r2 := r1 - n4 * 1461 in
  let n1 := Z.min (r2 / 365) 3 in
  let doy := r2 - n1 * 365 in
  let ys := 400 * n400 + 100 * n100 + 4 * n4 + n1 in
  let mp := (5 * doy + 2) / 153 in
  let d := doy - days_before_month mp + 1 in
  let m := if mp <? 10 then mp + 3 else mp - 9 in
  (if m <=? 2 then ys + 1 else ys, m, d).

Definition valid_date (y m d : Z) : Prop := 1 <= m <= 12 /\ 1 <= d <= days_in_month y m.

(* 0 = Sunday; 1970-01-01 was a Thursday *)
Definition weekday_of_days (z : Z) : Z := (z + 4) mod 7.

(* ------------------------------------------------------------------ bytes and digits *)

Definition bN (b : byte) : N := Byte.to_N b.
Definition is_digit (b : byte) : bool := ((48 <=? bN b) && (bN b <=? 57))%N.
Definition is_upper (b : byte) : bool := ((65 <=? bN b) && (bN b <=? 90))%N.
Definition is_lower (b : byte) : bool := ((97 <=? bN b) && (bN b <=? 122))%N.
Definition dval (b : byte) : Z := Z.of_N (bN b) - 48.
Definition digit_byte (n : Z) : byte :=
  match n with
  | 0 => x30 | 1 => x31 | 2 => x32 | 3 => x33 | 4 => x34
  | 5 => x35 | 6 => x36 | 7 => x37 | 8 => x38 | 9 => x39
  | _ => x30
  end.
Definition to_lower_b (b : byte) : byte :=
  if is_upper b then match Byte.of_N (bN b + 32) with Some c => c | None => b end else b.
Definition to_lower (s : bytes) : bytes := map to_lower_b s.

(* p is a prefix of l: the rest *)
Fixpoint starts (p l : bytes) : option bytes :=
  match p with
  | [] => Some l
  | a :: p' => match l with
               | b :: l' => if byte_eqb a b then starts p' l' else None
               | [] => None
               end
  end.
(* the same, ASCII letters compared case-insensitively (time.match) *)
Fixpoint starts_ci (p l : bytes) : option bytes :=
  match p with
  | [] => Some l
  | a :: p' => match l with
               | b :: l' => if byte_eqb (to_lower_b a) (to_lower_b b) then starts_ci p' l' else None
               | [] => None
               end
  end.

(* ------------------------------------------------------------------ layouts (nextStdChunk) *)

Inductive lelem :=
| LLit (b : byte)            (* one literal byte other than a blank *)
| LSp                        (* a run of blanks in the layout *)
| LYear4 | LYear2
| LMonName | LMonLong | LMonNum | LMonZero
| LWdName | LWdLong
| LDay | LDayUnder | LDayZero
| LHour | LHour12 | LHour12Zero
| LMin | LMinZero | LSec | LSecZero
| LPM | Lpm
| LTZNum                     (* -0700 *)
| LTZColon                   (* -07:00 *)
| LTZName                    (* MST *)
| LFrac9                     (* .999… or ,999… *)
| LOther.                    (* a layout element outside the modelled subset *)

Definition lelem_eqb (a b : lelem) : bool :=
  match a, b with
  | LLit x, LLit y => byte_eqb x y
  | LSp, LSp | LYear4, LYear4 | LYear2, LYear2 | LMonName, LMonName | LMonLong, LMonLong
  | LMonNum, LMonNum | LMonZero, LMonZero | LWdName, LWdName | LWdLong, LWdLong | LDay, LDay
  | LDayUnder, LDayUnder | LDayZero, LDayZero | LHour, LHour | LHour12, LHour12
  | LHour12Zero, LHour12Zero | LMin, LMin | LMinZero, LMinZero | LSec, LSec | LSecZero, LSecZero
  | LPM, LPM | Lpm, Lpm | LTZNum, LTZNum | LTZColon, LTZColon | LTZName, LTZName | LFrac9, LFrac9
  | LOther, LOther => true
  | _, _ => false
  end.

Definition starts_lower (l : bytes) : bool := match l with b :: _ => is_lower b | [] => false end.
Definition head_digit (l : bytes) : bool := match l with b :: _ => is_digit b | [] => false end.

Fixpoint drop_same (c : byte) (l : bytes) : bytes :=
  match l with b :: l' => if byte_eqb b c then drop_same c l' else l | [] => [] end.

Definition first_some {A} (l : list (option A)) : option A :=
  fold_right (fun o acc => match o with Some x => Some x | None => acc end) None l.
Definition on_prefix (p : string) (e : lelem) (l : bytes) : option (lelem * bytes) :=
  match starts (B p) l with Some r => Some (e, r) | None => None end.

(* the standard chunk that starts exactly at the head of l, if any — the body of the switch of nextStdChunk *)
Definition std_at (l : bytes) : option (lelem * bytes) :=
  match l with
  | x4a :: _ => (* J *)
      match starts (B "Jan") l with
      | Some r => match starts (B "January") l with
                  | Some r7 => Some (LMonLong, r7)
                  | None => if starts_lower r then None else Some (LMonName, r)
                  end
      | None => None
      end
  | x4d :: _ => (* M *)
      match (match starts (B "Mon") l with
             | Some r => match starts (B "Monday") l with
                         | Some r6 => Some (LWdLong, r6)
                         | None => if starts_lower r then None else Some (LWdName, r)
                         end
             | None => None
             end) with
      | Some x => Some x
      | None => on_prefix "MST" LTZName l
      end
  | x30 :: x31 :: r => Some (LMonZero, r)
  | x30 :: x32 :: r => Some (LDayZero, r)
  | x30 :: x33 :: r => Some (LHour12Zero, r)
  | x30 :: x34 :: r => Some (LMinZero, r)
  | x30 :: x35 :: r => Some (LSecZero, r)
  | x30 :: x36 :: r => Some (LYear2, r)
  | x30 :: x30 :: x32 :: r => Some (LOther, r)          (* 002 *)
  | x31 :: x35 :: r => Some (LHour, r)
  | x31 :: r => Some (LMonNum, r)
  | x32 :: r => match starts (B "2006") l with Some r4 => Some (LYear4, r4) | None => Some (LDay, r) end
  | x5f :: x32 :: r => (* _2 ; _2006 is a literal _ followed by the year *)
      match starts (B "2006") (x32 :: r) with Some _ => None | None => Some (LDayUnder, r) end
  | x5f :: x5f :: x32 :: r => Some (LOther, r)          (* __2 *)
  | x33 :: r => Some (LHour12, r)
  | x34 :: r => Some (LMin, r)
  | x35 :: r => Some (LSec, r)
  | x50 :: x4d :: r => Some (LPM, r)
  | x70 :: x6d :: r => Some (Lpm, r)
  | x2d :: _ => first_some [on_prefix "-070000" LOther l; on_prefix "-07:00:00" LOther l; on_prefix "-0700" LTZNum l;
                            on_prefix "-07:00" LTZColon l; on_prefix "-07" LOther l]
  | x5a :: _ => first_some [on_prefix "Z070000" LOther l; on_prefix "Z07:00:00" LOther l; on_prefix "Z0700" LOther l;
                            on_prefix "Z07:00" LOther l; on_prefix "Z07" LOther l]
  | c :: d :: r =>
      if (byte_eqb c x2e || byte_eqb c x2c) && (byte_eqb d x30 || byte_eqb d x39) then
        let r' := drop_same d r in
        if head_digit r' then None else Some (if byte_eqb d x39 then LFrac9 else LOther, r')
      else None
  | _ => None
  end.

(* the whole layout as a list of elements; a byte at which no standard chunk starts is literal *)
Fixpoint parse_layout_fuel (fuel : nat) (l : bytes) : list lelem :=
  match fuel with
  | O => []
  | S f =>
      match l with
      | [] => []
      | b :: tl => match std_at l with
                   | Some (e, r) => e :: parse_layout_fuel f r
                   | None => LLit b :: parse_layout_fuel f tl
                   end
      end
  end.
(* a run of literal blanks is one element: time.skip treats it as "any number of blanks" *)
Fixpoint norm_sp (l : list lelem) : list lelem :=
  match l with
  | [] => []
  | LLit x20 :: tl => match norm_sp tl with LSp :: tl' => LSp :: tl' | tl' => LSp :: tl' end
  | e :: tl => e :: norm_sp tl
  end.
Definition parse_layout (l : bytes) : list lelem := norm_sp (parse_layout_fuel (List.length l) l).

(* ------------------------------------------------------------------ time.Parse *)

Record pst := mkPst {
  p_year : Z; p_month : Z; p_day : Z;           (* month, day: -1 = not seen *)
  p_hour : Z; p_min : Z; p_sec : Z; p_nsec : Z;
  p_pm : bool; p_am : bool;
  p_utc : bool;                                 (* z = UTC *)
  p_off : option Z;                             (* numeric zone offset, seconds east *)
  p_zname : bytes }.
Definition pst0 : pst := mkPst 0 (-1) (-1) 0 0 0 0 false false false None [].

Definition set_year v s := mkPst v (p_month s) (p_day s) (p_hour s) (p_min s) (p_sec s) (p_nsec s) (p_pm s) (p_am s) (p_utc s) (p_off s) (p_zname s).
Definition set_month v s := mkPst (p_year s) v (p_day s) (p_hour s) (p_min s) (p_sec s) (p_nsec s) (p_pm s) (p_am s) (p_utc s) (p_off s) (p_zname s).
Definition set_day v s := mkPst (p_year s) (p_month s) v (p_hour s) (p_min s) (p_sec s) (p_nsec s) (p_pm s) (p_am s) (p_utc s) (p_off s) (p_zname s).
Definition set_hour v s := mkPst (p_year s) (p_month s) (p_day s) v (p_min s) (p_sec s) (p_nsec s) (p_pm s) (p_am s) (p_utc s) (p_off s) (p_zname s).
Definition set_min v s := mkPst (p_year s) (p_month s) (p_day s) (p_hour s) v (p_sec s) (p_nsec s) (p_pm s) (p_am s) (p_utc s) (p_off s) (p_zname s).
Definition set_sec v s := mkPst (p_year s) (p_month s) (p_day s) (p_hour s) (p_min s) v (p_nsec s) (p_pm s) (p_am s) (p_utc s) (p_off s) (p_zname s).
Definition set_nsec v s := mkPst (p_year s) (p_month s) (p_day s) (p_hour s) (p_min s) (p_sec s) v (p_pm s) (p_am s) (p_utc s) (p_off s) (p_zname s).
Definition set_pm s := mkPst (p_year s) (p_month s) (p_day s) (p_hour s) (p_min s) (p_sec s) (p_nsec s) true (p_am s) (p_utc s) (p_off s) (p_zname s).
Definition set_am s := mkPst (p_year s) (p_month s) (p_day s) (p_hour s) (p_min s) (p_sec s) (p_nsec s) (p_pm s) true (p_utc s) (p_off s) (p_zname s).
Definition set_utc s := mkPst (p_year s) (p_month s) (p_day s) (p_hour s) (p_min s) (p_sec s) (p_nsec s) (p_pm s) (p_am s) true (p_off s) (p_zname s).
Definition set_off v s := mkPst (p_year s) (p_month s) (p_day s) (p_hour s) (p_min s) (p_sec s) (p_nsec s) (p_pm s) (p_am s) (p_utc s) (Some v) (p_zname s).
Definition set_zname v s := mkPst (p_year s) (p_month s) (p_day s) (p_hour s) (p_min s) (p_sec s) (p_nsec s) (p_pm s) (p_am s) (p_utc s) (p_off s) v.

(* getnum: one or two digits; `fixed` demands two *)
Definition getnum (v : bytes) (fixed : bool) : option (Z * bytes) :=
  match v with
  | a :: tl =>
      if is_digit a then
        match tl with
        | b :: tl' => if is_digit b then Some (dval a * 10 + dval b, tl')
                      else if fixed then None else Some (dval a, tl)
        | [] => if fixed then None else Some (dval a, tl)
        end
      else None
  | [] => None
  end.

Fixpoint digits_val (acc : Z) (l : bytes) : option Z :=
  match l with
  | [] => Some acc
  | b :: tl => if is_digit b then digits_val (acc * 10 + dval b) tl else None
  end.
(* time.atoi on a short field: optional sign, then digits only (possibly none) *)
Definition atoi (l : bytes) : option Z :=
  match l with
  | x2d :: tl => option_map Z.opp (digits_val 0 tl)
  | x2b :: tl => digits_val 0 tl
  | _ => digits_val 0 l
  end.

Fixpoint span_digits (l : bytes) : bytes * bytes :=
  match l with
  | b :: tl => if is_digit b then let '(d, r) := span_digits tl in (b :: d, r) else ([], l)
  | [] => ([], [])
  end.
Fixpoint cut_sp (l : bytes) : bytes := match l with x20 :: tl => cut_sp tl | _ => l end.

Definition month_names : list string :=
  ["January"; "February"; "March"; "April"; "May"; "June"; "July"; "August"; "September"; "October"; "November"; "December"]%string.
Definition day_names : list string := ["Sunday"; "Monday"; "Tuesday"; "Wednesday"; "Thursday"; "Friday"; "Saturday"]%string.
Definition short3 (s : string) : bytes := firstn 3 (B s).

(* time.lookup: index of the first name that is a case-insensitive prefix of the value *)
Fixpoint lookup_from (i : Z) (tab : list bytes) (v : bytes) : option (Z * bytes) :=
  match tab with
  | [] => None
  | n :: tl => match starts_ci n v with Some r => Some (i, r) | None => lookup_from (i + 1) tl v end
  end.
Definition lookup (tab : list bytes) (v : bytes) := lookup_from 0 tab v.

Definition pow10 (n : nat) : Z := Z.pow 10 (Z.of_nat n).
(* parseNanoseconds on the digits that follow the separator: at most nine are significant *)
Definition frac_nanos (ds : bytes) : option Z :=
  let ds9 := firstn 9 ds in
  match digits_val 0 ds9 with
  | Some n => Some (n * pow10 (9 - List.length ds9))
  | None => None
  end.
Definition comma_or_period (b : byte) : bool := byte_eqb b x2e || byte_eqb b x2c.

(* numeric zone: sign, hh, mm (two digits each) -> seconds east *)
Definition tz_offset (sign : byte) (hh mm : bytes) : option Z :=
  match getnum hh true, getnum mm true with
  | Some (h, []), Some (m, []) =>
      if (24 <? h) || (60 <? m) then None
      else if byte_eqb sign x2b then Some ((h * 60 + m) * 60)
      else if byte_eqb sign x2d then Some (- ((h * 60 + m) * 60))
      else None
  | _, _ => None
  end.

(* parseSignedOffset: sign, digits, value <= 23: the List.length consumed, 0 if none *)
Definition signed_offset_len (v : bytes) : nat :=
  match v with
  | s :: tl =>
      if byte_eqb s x2b || byte_eqb s x2d then
        let '(d, _) := span_digits tl in
        match d with
        | [] => O
        | _ => match digits_val 0 d with
               | Some x => if 23 <? x then O else S (List.length d)
               | None => O
               end
        end
      else O
  | [] => O
  end.
Fixpoint count_upper (n : nat) (v : bytes) : nat :=
  match n with
  | O => O
  | S n' => match v with b :: tl => if is_upper b then S (count_upper n' tl) else O | [] => O end
  end.
(* parseTimeZone: List.length of the zone abbreviation at the head of v *)
Definition zone_len (v : bytes) : option nat :=
  if Nat.ltb (List.length v) 3 then None
  else if (match starts (B "ChST") v with Some _ => true | None => false end)
       || (match starts (B "MeST") v with Some _ => true | None => false end) then Some 4%nat
  else match starts (B "GMT") v with
       | Some r => Some (3 + signed_offset_len r)%nat
       | None =>
           match v with
           | s :: _ =>
               if byte_eqb s x2b || byte_eqb s x2d then
                 match signed_offset_len v with O => None | n => Some n end
               else
                 match count_upper 6 v with
                 | 3%nat => Some 3%nat
                 | 4%nat => if byte_eqb (nth 3 v x00) x54 || (match starts (B "WITA") v with Some _ => true | None => false end)
                            then Some 4%nat else None
                 | 5%nat => if byte_eqb (nth 4 v x00) x54 then Some 5%nat else None
                 | _ => None
                 end
           | [] => None
           end
       end.

(* the first standard element of the rest of the layout (what nextStdChunk would return next) *)
Fixpoint next_std (l : list lelem) : option lelem :=
  match l with
  | [] => None
  | LLit _ :: tl | LSp :: tl => next_std tl
  | e :: _ => Some e
  end.

(* one layout element against the head of the value *)
Definition parse_elem (e : lelem) (nxt : list lelem) (v : bytes) (s : pst) : option (bytes * pst) :=
  match e with
  | LLit b => match v with c :: tl => if byte_eqb b c then Some (tl, s) else None | [] => None end
  | LSp => match v with
           | c :: _ => if byte_eqb c x20 then Some (cut_sp v, s) else None
           | [] => Some ([], s)
           end
  | LYear2 =>
      match v with
      | a :: b :: tl => match atoi [a; b] with
                        | Some y => Some (tl, set_year (if 69 <=? y then y + 1900 else y + 2000) s)
                        | None => None
                        end
      | _ => None
      end
  | LYear4 =>
      match v with
      | a :: b :: c :: d :: tl => if is_digit a then match atoi [a; b; c; d] with Some y => Some (tl, set_year y s) | None => None end
                                  else None
      | _ => None
      end
  | LMonName => match lookup (map short3 month_names) v with Some (i, r) => Some (r, set_month (i + 1) s) | None => None end
  | LMonLong => match lookup (map B month_names) v with Some (i, r) => Some (r, set_month (i + 1) s) | None => None end
  | LMonNum | LMonZero =>
      match getnum v (match e with LMonZero => true | _ => false end) with
      | Some (m, r) => if (m <=? 0) || (12 <? m) then None else Some (r, set_month m s)
      | None => None
      end
  | LWdName => match lookup (map short3 day_names) v with Some (_, r) => Some (r, s) | None => None end
  | LWdLong => match lookup (map B day_names) v with Some (_, r) => Some (r, s) | None => None end
  | LDay | LDayUnder | LDayZero =>
      let v' := match e, v with LDayUnder, x20 :: tl => tl | _, _ => v end in
      match getnum v' (match e with LDayZero => true | _ => false end) with
      | Some (d, r) => Some (r, set_day d s)
      | None => None
      end
  | LHour => match getnum v false with
             | Some (h, r) => if 24 <=? h then None else Some (r, set_hour h s)
             | None => None
             end
  | LHour12 | LHour12Zero =>
      match getnum v (match e with LHour12Zero => true | _ => false end) with
      | Some (h, r) => if 12 <? h then None else Some (r, set_hour h s)
      | None => None
      end
  | LMin | LMinZero =>
      match getnum v (match e with LMinZero => true | _ => false end) with
      | Some (m, r) => if 60 <=? m then None else Some (r, set_min m s)
      | None => None
      end
  | LSec | LSecZero =>
      match getnum v (match e with LSecZero => true | _ => false end) with
      | Some (x, r) =>
          if 60 <=? x then None
          else
            let s' := set_sec x s in
            match r with
            | c :: d :: _ =>
                if comma_or_period c && is_digit d then
                  match next_std nxt with
                  | Some LFrac9 => Some (r, s')
                  | _ => (* a fraction in the input but none in the layout: it is read here *)
                      let '(ds, r') := span_digits (tl r) in
                      match frac_nanos ds with Some n => Some (r', set_nsec n s') | None => None end
                  end
                else Some (r, s')
            | _ => Some (r, s')
            end
      | None => None
      end
  | LPM => match v with
           | a :: b :: tl => if byte_eqb a x50 && byte_eqb b x4d then Some (tl, set_pm s)
                             else if byte_eqb a x41 && byte_eqb b x4d then Some (tl, set_am s) else None
           | _ => None
           end
  | Lpm => match v with
           | a :: b :: tl => if byte_eqb a x70 && byte_eqb b x6d then Some (tl, set_pm s)
                             else if byte_eqb a x61 && byte_eqb b x6d then Some (tl, set_am s) else None
           | _ => None
           end
  | LTZNum => match v with
              | sg :: h1 :: h2 :: m1 :: m2 :: tl => match tz_offset sg [h1; h2] [m1; m2] with Some o => Some (tl, set_off o s) | None => None end
              | _ => None
              end
  | LTZColon => match v with
                | sg :: h1 :: h2 :: c :: m1 :: m2 :: tl =>
                    if byte_eqb c x3a then match tz_offset sg [h1; h2] [m1; m2] with Some o => Some (tl, set_off o s) | None => None end
                    else None
                | _ => None
                end
  | LTZName => match starts (B "UTC") v with
               | Some r => Some (r, set_utc s)
               | None => match zone_len v with
                         | Some n => Some (skipn n v, set_zname (firstn n v) s)
                         | None => None
                         end
               end
  | LFrac9 => match v with
              | c :: d :: _ =>
                  if comma_or_period c && is_digit d then
                    let '(ds, r') := span_digits (tl v) in
                    match frac_nanos ds with Some n => Some (r', set_nsec n s) | None => None end
                  else Some (v, s)
              | _ => Some (v, s)
              end
  | LOther => None
  end.

Fixpoint parse_elems (l : list lelem) (v : bytes) (s : pst) : option (bytes * pst) :=
  match l with
  | [] => Some (v, s)
  | e :: tl => match parse_elem e tl v s with
               | Some (v', s') => parse_elems tl v' s'
               | None => None
               end
  end.

(* what time.Parse returns, as local civil fields plus the zone offset (seconds east) *)
Record ptime := mkPtime { t_y : Z; t_mo : Z; t_d : Z; t_h : Z; t_mi : Z; t_s : Z; t_ns : Z; t_off : Z }.

Definition finish (s : pst) : option ptime :=
  let hour := if p_pm s && (p_hour s <? 12) then p_hour s + 12
              else if p_am s && (p_hour s =? 12) then 0 else p_hour s in
  let month := if p_month s <? 0 then 1 else p_month s in
  let day := if p_day s <? 0 then 1 else p_day s in
  if (day <? 1) || (days_in_month (p_year s) month <? day) then None
  else
    let off := if p_utc s then 0
               else match p_off s with
                    | Some o => o
                    | None => match starts (B "GMT") (p_zname s) with   (* local zone is UTC: only UTC is known by name *)
                              | Some (c :: r) => match atoi (c :: r) with Some x => x * 3600 | None => 0 end
                              | _ => 0
                              end
                    end in
    Some (mkPtime (p_year s) month day hour (p_min s) (p_sec s) (p_nsec s) off).

(* time.Parse(layout, value) / time.ParseInLocation(layout, value, UTC) with time.Local = UTC *)
Definition go_parse (l : list lelem) (v : bytes) : option ptime :=
  match parse_elems l v pst0 with
  | Some ([], s) => finish s
  | _ => None
  end.

(* Time.Unix() and Time.Nanosecond() *)
Definition unix_sec (t : ptime) : Z :=
  days_from_civil (t_y t) (t_mo t) (t_d t) * 86400 + t_h t * 3600 + t_mi t * 60 + t_s t - t_off t.
Definition instant (t : ptime) : Z * Z := (unix_sec t, t_ns t).
