(* The callers of cursor.Provider: api/rpc/querier.go (ServerQuerier.query) and pkg/backend/querier.go
   (Querier.Query), as far as the cursor life cycle goes. Both have the same shape:

     check WaitTimeout and Limit (error answer, the provider is not called);
     limit > QueryMaxLimit is clipped;  cache := WaitTimeout > 0 || limit was clipped;
     [ServerQuerier only: limit = 0 and no wait => empty answer, the provider is not called]
     cur, err := CurProvider.GetOrCreate(ctx, state, cache);  err => error answer, nothing to release
     cur.Offset / Get / Next / WaitNewData (touch the request's own cursor only)
     state = CurProvider.Release(ctx, cur)           -- on EVERY path that got a cursor, exactly once
     answer (NextQueryRequest carries state.Id, state.Pos)

   In terms of model/Provider.v a request of actor r is the block of steps
     OLookup r ... ; OCreate r ; OInsert r ; OUse r k ; ORelease r
   (a step that is not enabled for the actor -- the lookup was refused, newCursor failed, the cursor
   is not to be cached, the insert was refused -- does nothing, result RNone, exactly as the Go code
   skips it). While a request waits for new data (WaitNewData) it sits between OInsert and OUse. *)
From LR Require Export lib.Base model.CList model.Provider.

Record qreq := {
  q_wait : Z;            (* WaitTimeout, seconds *)
  q_limit : Z;           (* Limit *)
  q_id : N;              (* ReqId *)
  q_query : N; q_qr : qres;   (* Query: index into the harness's table, and what getSourcesByState yields for it *)
  q_pos : pos;           (* Pos *)
  q_fresh : N            (* what utils.NextSimpleId returns if asked *)
}.

Definition max_wait : Z := 60.        (* backend.QueryMaxWaitTimeout *)
Definition max_limit : Z := 10000.    (* backend.QueryMaxLimit *)

(* what happens before the provider is called *)
Inductive qgate := GReject | GEmpty | GRun (cache : bool).

(* early0: ServerQuerier.query answers "limit 0, no wait" at once; backend.Querier.Query has no such exit *)
Definition gate (early0 : bool) (rq : qreq) : qgate :=
  if Z.ltb (q_wait rq) 0 || Z.ltb max_wait (q_wait rq) then GReject
  else if Z.ltb (q_limit rq) 0 then GReject
  else let lim := Z.min (q_limit rq) max_limit in
       if early0 && Z.eqb lim 0 && Z.leb (q_wait rq) 0 then GEmpty
       else GRun (Z.ltb 0 (q_wait rq) || negb (Z.eqb lim (q_limit rq))).

(* GetOrCreate *)
Definition start_ops (r : nat) (rq : qreq) (cache : bool) : list op :=
  [OLookup r (q_id rq) cache (q_query rq) (q_qr rq) (q_pos rq) (q_fresh rq); OCreate r; OInsert r].
(* k records are read, then Release *)
Definition finish_ops (r : nat) (k : N) : list op := [OUse r k; ORelease r].

(* how the reading loop ends: the limit is reached, the data ends (io.EOF), the wait is over -- or cur.Get fails with
   another error after k records (a chunk read fault, the request's context cancelled between two reads). Both queriers
   leave the loop and call Release all the same (backend.Querier: `state = q.CurProvider.Release(ctx, cur)` before
   `return res, err`; ServerQuerier: Release, then the error answer). `early_return` = a querier that answers the
   read fault at once, before Release (kept for the refutation in props/C15.v). *)
Inductive read_end := REnd | RFault.
Definition finish_ops_v (early_return : bool) (r : nat) (k : N) (e : read_end) : list op :=
  match e with
  | RFault => if early_return then [OUse r k] else finish_ops r k
  | REnd => finish_ops r k
  end.
Definition query_ops_v (early_return early0 : bool) (r : nat) (rq : qreq) (k : N) (e : read_end) : list op :=
  match gate early0 rq with
  | GRun cache => start_ops r rq cache ++ finish_ops_v early_return r k e
  | _ => []
  end.

Definition query_ops (early0 : bool) (r : nat) (rq : qreq) (k : N) : list op :=
  match gate early0 rq with
  | GRun cache => start_ops r rq cache ++ finish_ops r k
  | _ => []
  end.

(* ---- histories in which every GetOrCreate is followed by its Release: per actor the steps come in
   whole blocks lookup, create, insert, use, release (blocks of different actors interleave freely, and
   so do the sweeps, the clock and Shutdown). `ph` = how far each actor is into its block. ---- *)
Fixpoint ph_get (t : list (nat * nat)) (r : nat) : nat :=
  match t with [] => 0 | (r', n) :: t' => if Nat.eqb r' r then n else ph_get t' r end.
Fixpoint ph_del (t : list (nat * nat)) (r : nat) : list (nat * nat) :=
  match t with [] => [] | (r', n) :: t' => if Nat.eqb r' r then ph_del t' r else (r', n) :: ph_del t' r end.
Definition ph_set (t : list (nat * nat)) (r n : nat) : list (nat * nat) :=
  match n with 0 => ph_del t r | _ => (r, n) :: ph_del t r end.

(* the actor of a step and the place of the step in the block *)
Definition op_place (o : op) : option (nat * nat) :=
  match o with
  | OLookup r _ _ _ _ _ _ => Some (r, 0)
  | OCreate r => Some (r, 1)
  | OInsert r => Some (r, 2)
  | OUse r _ => Some (r, 3)
  | ORelease r => Some (r, 4)
  | _ => None
  end.
Definition next_place (n : nat) : nat := match n with 4 => 0 | _ => S n end.

Fixpoint paired_from (t : list (nat * nat)) (ops : list op) : bool :=
  match ops with
  | [] => match t with [] => true | _ => false end
  | o :: l =>
    match op_place o with
    | None => paired_from t l
    | Some (r, n) => Nat.eqb (ph_get t r) n && paired_from (ph_set t r (next_place n)) l
    end
  end.
Definition paired (ops : list op) : bool := paired_from [] ops.

(* ---- what a caller that breaks the discipline can do: Release(cur) called again after the request has
   given the cursor back (the cursor is still known to the caller, not to the provider's books). The
   locked region of Release, for the code as it is, applied to cursor c on behalf of nobody. ---- *)
Definition release_again (s : prov) (c : nat) : outcome prov :=
  let cu := commit (p_cur s c) in
  let s1 := set_cursor s c cu in
  match map_get (p_curs s1) (c_id cu) with
  | None => Ok (close_cur s1 c)
  | Some e =>
    if negb (owned true s1 c e) then Ok (close_cur s1 c)
    else if negb (h_busy (p_vals s1 e)) then Panic          (* "releasing cursor, which is not busy" *)
    else Ok (touch s1 e false (p_now s1 + p_idle s1))       (* marks idle a cursor another request is using *)
  end.

(* ---- the answer of a request, as the correspondence check compares it ---- *)
Inductive qout :=
| QoRejected        (* error answer before the provider was called *)
| QoEmpty           (* empty answer before the provider was called *)
| QoRefused         (* "concurrent request" (at the lookup or at the insert) *)
| QoErr             (* GetOrCreate failed otherwise *)
| QoOk (id : N)     (* answered; NextQueryRequest.ReqId (0: the cursor was not kept) *)
| QoOdd.            (* not a shape the queriers produce *)

Fixpoint steps (v : variant) (s : prov) (ops : list op) : outcome (prov * list res) :=
  match ops with
  | [] => Ok (s, [])
  | o :: l =>
    match step v s o with
    | Ok (s1, r) => match steps v s1 l with Ok (s2, rs) => Ok (s2, r :: rs) | Err => Err | Panic => Panic | OutOfFuel => OutOfFuel end
    | Err => Err | Panic => Panic | OutOfFuel => OutOfFuel
    end
  end.

(* after GetOrCreate: Some = the request is over (error answer), None = it holds a cursor *)
Definition start_out (rs : list res) : option qout :=
  match rs with
  | [l; c; i] =>
    match l, c, i with
    | RRefused, _, _ => Some QoRefused
    | _, RNewErr, _ => Some QoErr
    | _, _, RInsRefused => Some QoRefused
    | RNone, _, _ => Some QoOdd
    | _, _, _ => None
    end
  | _ => Some QoOdd
  end.
Definition finish_out (rs : list res) : qout :=
  match rs with
  | [RDone; RReleased id _] => QoOk id
  | _ => QoOdd
  end.
