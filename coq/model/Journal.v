(* Abstract model of the `range` dependency's storage as the partition code uses it:
   chunkfs.cWriter.write (one chunk), journal.Write (at most one chunk per call, roll-over to a fresh
   chunk), the chunk reader's record-size limit, flush.  Contract read off the dependency's code
   (cwriter.go, journalint.go, fsccntrlr.go, creader.go); validated end to end by the correspondence
   check, not proved.  Definitions only.

   The record iterator handed to Write is a state machine (get, next) over an arbitrary state type:
   the partition code passes its iwrapper around the RPC packet iterator, and the interplay of the
   two Get/Next protocols with the roll-over loop is exactly what C01 is about. *)
From LR Require Import lib.Base model.XBinary.
Open Scope Z_scope.

Record chunk := { c_id : N; c_recs : list bytes; c_size : Z; c_cfrm : nat }.
Definition journal := list chunk.                (* ascending chunk ids; the last one is written to *)
(* MaxChunkSize; MaxRecordSize as the chunk readers see it (the size of their buffer); the limit the write path
   of partition.Service applies (Service.maxRecordSize(): the same effective MaxRecordSize when the journal
   controller's configuration is injected, as server.Start does; 0 = no limit, a Service built without it) *)
Record jcfg := { max_chunk : Z; max_rec : Z; w_limit : Z }.

Definition jpos := (N * N)%type.                 (* journal.Pos: chunk id, record index *)

(* error values that matter to the callers: nil, errors.MaxSizeReached, the error of the record iterator
   (any error of Get other than io.EOF; the chunk writer hands it through) *)
Inductive werr := WNil | WMaxSize | WIter.

Definition chunk_count (c : chunk) : N := N.of_nat (length (c_recs c)).
Definition rec_disk_size (r : bytes) : Z := 4 + Z.of_nat (length r).   (* ChnkDataHeaderSize + payload *)

Section WithIterator.
Variable St : Type.
(* records.Iterator.Get: Ok (Some record) | Ok None = io.EOF (nothing more) | Err = any other error | Panic *)
Variable it_get : St -> St * outcome (option bytes).
Variable it_next : St -> St.

(* cWriter.write, the loop: the size check comes BEFORE each record, so the last record may overshoot;
   io.EOF ends the loop with a nil error, another error of the iterator ends it with that error *)
Fixpoint cw_loop (fuel : nat) (cfg : jcfg) (c : chunk) (s : St) (n : nat) : outcome (chunk * St * nat * werr) :=
  match fuel with
  | O => OutOfFuel
  | S f =>
      if max_chunk cfg <=? c_size c then Ok (c, s, n, WMaxSize)
      else
        match it_get s with
        | (s', Ok (Some rec)) =>
            let c' := {| c_id := c_id c; c_recs := c_recs c ++ [rec]; c_size := c_size c + rec_disk_size rec; c_cfrm := c_cfrm c |} in
            cw_loop f cfg c' (it_next s') (S n)
        | (s', Ok None) => Ok (c, s', n, WNil)
        | (s', Err) => Ok (c, s', n, WIter)
        | (_, Panic) => Panic
        | (_, OutOfFuel) => OutOfFuel
        end
  end.

(* cWriter.write: the entry check returns (0, cnt, MaxSizeReached) without touching the iterator *)
Definition chunk_write (fuel : nat) (cfg : jcfg) (c : chunk) (s : St) : outcome (chunk * St * nat * werr) :=
  if max_chunk cfg <=? c_size c then Ok (c, s, O, WMaxSize) else cw_loop fuel cfg c s O.

Definition flush_chunk (c : chunk) : chunk :=
  {| c_id := c_id c; c_recs := c_recs c; c_size := c_size c; c_cfrm := length (c_recs c) |}.

Definition last_id (j : journal) : N := match rev j with [] => 0%N | c :: _ => c_id c end.
Definition new_chunk (j : journal) : chunk := {| c_id := (last_id j + 1)%N; c_recs := []; c_size := 0; c_cfrm := O |}.

(* GetChunkForWrite(exclude): the last chunk, unless there is none or its id is the excluded one: then a
   fresh chunk is created after it *)
Definition pick_chunk (j : journal) (exclude : N) : journal :=
  match rev j with
  | [] => j ++ [new_chunk j]
  | c :: _ => if N.eqb (c_id c) exclude then j ++ [new_chunk j] else j
  end.

(* replace the last chunk *)
Definition set_last (j : journal) (c : chunk) : journal := removelast j ++ [c].

(* journal.Write: for err == nil { c := GetChunkForWrite(exclude); n, offs, err := c.Write(it);
     if n > 0 { return n, Pos{c.Id, offs}, nil }; if err != MaxSizeReached { break }; c.Sync();
     if c.Id == exclude { break }; exclude = c.Id; err = nil }; return 0, Pos{}, err
   GetChunkForWrite returns the last chunk unless there is none or its id is the excluded one; then a
   fresh chunk with a larger id is created. *)
Fixpoint jw_loop (rounds : nat) (fuel : nat) (cfg : jcfg) (j : journal) (s : St) (exclude : N)
  : outcome (journal * St * nat * jpos * werr) :=
  match rounds with
  | O => OutOfFuel
  | S rd =>
      let j1 := pick_chunk j exclude in
      let c := last j1 (new_chunk j) in
      obind (chunk_write fuel cfg c s) (fun '(c', s', n, e) =>
        let j2 := set_last j1 c' in
        if (0 <? n)%nat then Ok (j2, s', n, (c_id c', chunk_count c'), WNil)
        else match e with
             | WMaxSize =>
                 let j3 := set_last j1 (flush_chunk c') in
                 if N.eqb (c_id c') exclude then Ok (j3, s', O, (0%N, 0%N), WMaxSize)
                 else jw_loop rd fuel cfg j3 s' (c_id c')
             | _ => Ok (j2, s', O, (0%N, 0%N), e)
             end)
  end.
Definition journal_write (fuel : nat) (cfg : jcfg) (j : journal) (s : St) : outcome (journal * St * nat * jpos * werr) :=
  jw_loop 3 fuel cfg j s 0%N.

End WithIterator.

(* what a reader can get: all records of all chunks in order (after the flush) *)
Definition flat (j : journal) : list bytes := concat (map c_recs j).
Definition flush (j : journal) : journal := map flush_chunk j.
(* the confirmed prefix of every chunk: what a reader sees between flushes *)
Definition visible (j : journal) : list bytes := concat (map (fun c => firstn (c_cfrm c) (c_recs c)) j).

(* cReader.readRecord with the chunk iterator's buffer of MaxRecordSize bytes: a longer record fails
   with ErrBufferTooSmall, and the error ends the read *)
Fixpoint read_records (cfg : jcfg) (recs : list bytes) : outcome (list bytes) :=
  match recs with
  | [] => Ok []
  | r :: tl => if max_rec cfg <? Z.of_nat (length r) then Err
               else obind (read_records cfg tl) (fun l => Ok (r :: l))
  end.
