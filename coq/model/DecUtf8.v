(* Environment models (Go standard library, not /repo code): unicode/utf8 DecodeRuneInString and
   AppendRune, strings.Trim(s, " "), and the image of strings.ToLower as far as comparisons with
   ASCII keywords can see it.  Plain total functions; validated against the real functions by the
   correspondence check.  Definitions only. *)
From LR Require Import lib.Base lib.DecLib.

Local Open Scope Z_scope.

Definition rune_error : Z := 65533.   (* U+FFFD *)

Definition in_rng (lo hi : Z) (b : byte) : bool := (lo <=? zb b) && (zb b <=? hi).

(* utf8.DecodeRuneInString: (rune, size) *)
Definition decode_rune (s : bytes) : Z * Z :=
  match s with
  | [] => (rune_error, 0)
  | s0 :: tl =>
      let c0 := zb s0 in
      if c0 <? 128 then (c0, 1)
      else if (c0 <? 194) || (244 <? c0) then (rune_error, 1)
      else
        (* size and the accepted range of the second byte *)
        let '(sz, lo, hi) :=
          if c0 <? 224 then (2, 128, 191)
          else if c0 =? 224 then (3, 160, 191)
          else if c0 =? 237 then (3, 128, 159)
          else if c0 <? 240 then (3, 128, 191)
          else if c0 =? 240 then (4, 144, 191)
          else if c0 =? 244 then (4, 128, 143)
          else (4, 128, 191) in
        if blen s <? sz then (rune_error, 1) else
        match tl with
        | [] => (rune_error, 1)
        | s1 :: tl1 =>
            if negb (in_rng lo hi s1) then (rune_error, 1) else
            if sz <=? 2 then ((c0 mod 32) * 64 + zb s1 mod 64, 2) else
            match tl1 with
            | [] => (rune_error, 1)
            | s2 :: tl2 =>
                if negb (in_rng 128 191 s2) then (rune_error, 1) else
                if sz <=? 3 then ((c0 mod 16) * 4096 + (zb s1 mod 64) * 64 + zb s2 mod 64, 3) else
                match tl2 with
                | [] => (rune_error, 1)
                | s3 :: _ =>
                    if negb (in_rng 128 191 s3) then (rune_error, 1) else
                    ((c0 mod 8) * 262144 + (zb s1 mod 64) * 4096 + (zb s2 mod 64) * 64 + zb s3 mod 64, 4)
                end
            end
        end
  end.

(* utf8.ValidRune *)
Definition valid_rune (r : Z) : bool := ((0 <=? r) && (r <? 55296)) || ((57343 <? r) && (r <=? 1114111)).

(* utf8.AppendRune (invalid runes are written as U+FFFD) *)
Definition encode_rune (r0 : Z) : bytes :=
  let r := if valid_rune r0 then r0 else rune_error in
  if r <? 128 then [b_of_Z r]
  else if r <? 2048 then [b_of_Z (192 + r / 64); b_of_Z (128 + r mod 64)]
  else if r <? 65536 then [b_of_Z (224 + r / 4096); b_of_Z (128 + (r / 64) mod 64); b_of_Z (128 + r mod 64)]
  else [b_of_Z (240 + r / 262144); b_of_Z (128 + (r / 4096) mod 64); b_of_Z (128 + (r / 64) mod 64); b_of_Z (128 + r mod 64)].

(* strings.Trim(s, " ") *)
Fixpoint drop_sp (s : bytes) : bytes :=
  match s with
  | b :: tl => if byte_eqb b x20 then drop_sp tl else s
  | [] => []
  end.
Definition trim_sp (s : bytes) : bytes := rev (drop_sp (rev (drop_sp s))).

(* strings.ToLower as seen by a comparison with an ASCII keyword: ASCII letters are lowered; the
   only two non-ASCII runes whose lower case is ASCII are U+0130 (C4 B0 -> i) and U+212A
   (E2 84 AA -> k); every other byte is kept (any other non-ASCII rune lowers to a non-ASCII rune) *)
Definition lower_b (b : byte) : byte := if in_rng 65 90 b then b_of_Z (zb b + 32) else b.
Fixpoint lower_kw (s : bytes) : bytes :=
  match s with
  | [] => []
  | b :: tl =>
      match tl with
      | b1 :: tl1 =>
          if byte_eqb b xc4 && byte_eqb b1 xb0 then x69 :: lower_kw tl1 else
          match tl1 with
          | b2 :: tl2 =>
              if byte_eqb b xe2 && byte_eqb b1 x84 && byte_eqb b2 xaa then x6b :: lower_kw tl2
              else lower_b b :: lower_kw tl
          | [] => lower_b b :: lower_kw tl
          end
      | [] => [lower_b b]
      end
  end.

Fixpoint has_prefix (p s : bytes) : bool :=
  match p, s with
  | [], _ => true
  | x :: p', y :: s' => byte_eqb x y && has_prefix p' s'
  | _ :: _, [] => false
  end.

(* strings.Split(s, sep) for a one-byte separator *)
Fixpoint split_byte (sep : byte) (s cur : bytes) : list bytes :=
  match s with
  | [] => [rev cur]
  | b :: tl => if byte_eqb b sep then rev cur :: split_byte sep tl [] else split_byte sep tl (b :: cur)
  end.
