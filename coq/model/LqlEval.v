(* Evaluation of LQL expressions: /repo/pkg/lql/whereeval.go (WHERE over log events),
   /repo/pkg/lql/tagseval.go (source conditions over tag sets), /repo/pkg/model/field/field.go
   (Fields.Value) and /repo/pkg/cursor/fiterator.go. Definitions only.

   The Go builders keep the closure under construction in a field (web.wef / teb.tef) that every
   build* method overwrites; the model threads that field explicitly (`wef`). The LIKE cases probe the
   pattern with path.Match(value, "abc"); what happens with the probe's error is the variant flag
   [sh] of the builders:
     sh = false  `_, err = path.Match(..)`: the error is the function's result, a malformed pattern is
                 refused (the code since the fix of whereeval.go buildMsgCond/buildFldCond and
                 tagseval.go buildTagCond);
     sh = true   `_, err := path.Match(..)`: a fresh err, declared in the case block, shadows the result;
                 a malformed pattern returns nil (no error) and leaves the field as it was: nil (a Go
                 nil func: calling it panics) or the closure of the condition built before (the code
                 before the fix; kept so that the theorems can say what the repair bought).
   [code_like_shadow] is the variant of the code; build_where / build_tags (what K runs and the
   theorems are about) are the builders at that variant. *)
From LR Require Import lib.Base model.LqlAst model.LqlLex.
From Coq Require Import Strings.String.
Local Open Scope string_scope.
Local Open Scope list_scope.

(* ---- strings package on byte strings ---- *)
Fixpoint prefixb (p s : bytes) : bool :=
  match p, s with
  | [], _ => true
  | a :: p', b :: s' => byte_eqb a b && prefixb p' s'
  | _ :: _, [] => false
  end.
Definition suffixb (p s : bytes) : bool := prefixb (rev p) (rev s).
Fixpoint containsb (sub s : bytes) : bool :=
  prefixb sub s || match s with [] => false | _ :: s' => containsb sub s' end.

(* ---- log events; fields in their wire form: (len name)(len value)... one length byte each ---- *)
Record event := Event { ev_ts : Z; ev_msg : bytes; ev_fields : bytes }.

(* Fields.Value(name): walk the encoded pairs; `s` is f[idx:], slices out of range panic *)
Fixpoint fields_value_fuel (fuel : nat) (s : bytes) (even : bool) (name : bytes) : outcome bytes :=
  match fuel with O => OutOfFuel | S fu =>
    match s with
    | [] => Ok []
    | lb :: r =>
        let n := N.to_nat (bn lb) in
        if even && Nat.eqb n (List.length name) then
          if Nat.ltb (List.length r) n then Panic
          else if bytes_eqb (firstn n r) name then
            match skipn n r with
            | [] => Panic
            | lv :: r2 =>
                let m := N.to_nat (bn lv) in
                if Nat.ltb (List.length r2) m then Panic else Ok (firstn m r2)
            end
          else fields_value_fuel fu (skipn n r) (negb even) name
        else fields_value_fuel fu (skipn n r) (negb even) name
    end
  end.
Definition fields_value (f name : bytes) : outcome bytes := fields_value_fuel (S (List.length f)) f true name.

(* field.Fields built from a list of pairs (names and values of at most 255 bytes) *)
Definition len_byte (s : bytes) : byte := match Byte.of_N (N.of_nat (List.length s)) with Some b => b | None => x00 end.
Fixpoint enc_fields (kvs : list (bytes * bytes)) : bytes :=
  match kvs with
  | [] => []
  | (k, v) :: r => len_byte k :: k ++ len_byte v :: v ++ enc_fields r
  end.
(* the documented meaning of a field reference: first pair with that name, absent = empty string *)
Fixpoint lookup_first (kvs : list (bytes * bytes)) (name : bytes) : bytes :=
  match kvs with
  | [] => []
  | (k, v) :: r => if bytes_eqb k name then v else lookup_first r name
  end.

(* tag.Set.Tag(name): map lookup, absent = empty string (names are unique in a tag set) *)
Definition tag_value (t : tagset) (name : bytes) : bytes := lookup_first t name.
(* tagMap.subsetOf: every pair of a is in b with the same value *)
Definition tags_subset (a b : tagset) : bool :=
  forallb (fun '(k, v) => existsb (fun '(k2, v2) => bytes_eqb k k2 && bytes_eqb v v2) b) a.

(* whereeval.go buildMsgCond, buildFldCond; tagseval.go buildTagCond: `_, err = path.Match(cn.Value, "abc")`
   (was `_, err :=`, a shadowed err, before the fix) *)
Definition code_like_shadow : bool := false.

Section Eval.
  (* environment (DESIGN.md section 7) *)
  Variable pmatch : bytes -> bytes -> option bool.   (* path.Match(pattern, name); None = ErrBadPattern *)
  Variable to_upper : bytes -> bytes.                (* strings.ToUpper *)
  Variable to_lower : bytes -> bytes.                (* strings.ToLower *)
  Variable parse_time : bytes -> option Z.           (* parseLqlDateTime(..).UnixNano() *)

  (* getFirstParamName *)
  Fixpoint first_param_name (i : ident) : bytes :=
    match i with
    | Ident op INil => op
    | Ident _ (ICons p _) => first_param_name p
    end.

  (* buildMsgLeStrFldF / buildTagIdent share this shape: identity at the innermost operand, UPPER/LOWER
     around it, anything else (other name, not exactly one parameter) is an error *)
  Fixpoint str_fun (i : ident) : option (bytes -> bytes) :=
    match i with
    | Ident _ INil => Some (fun s => s)
    | Ident op (ICons p INil) =>
        match str_fun p with
        | None => None
        | Some inf =>
            let fn := to_upper op in
            if bytes_eqb fn (B "UPPER") then Some (fun s => to_upper (inf s))
            else if bytes_eqb fn (B "LOWER") then Some (fun s => to_lower (inf s))
            else None
        end
    | Ident _ (ICons _ (ICons _ _)) => None
    end.

  (* ---- the closures ---- *)
  Definition wfun := event -> outcome bool.
  Definition wef := option wfun.                    (* None = Go nil func *)
  Definition call (w : wef) (ev : event) : outcome bool := match w with Some f => f ev | None => Panic end.
  Definition f_or (a b : wef) : wef :=
    Some (fun ev => match call a ev with Ok true => Ok true | Ok false => call b ev | o => o end).
  Definition f_and (a b : wef) : wef :=
    Some (fun ev => match call a ev with Ok false => Ok false | Ok true => call b ev | o => o end).
  Definition f_not (a : wef) : wef :=
    Some (fun ev => match call a ev with Ok b => Ok (negb b) | o => o end).

  Definition like (pat s : bytes) : bool := match pmatch pat s with Some b => b | None => false end.

  (* comparison of a string with the condition's value; None = operator not supported.
     `sym` tells whether =,!=,<,... are allowed (fields, tags) or not (msg) *)
  Definition str_test (sym : bool) (opU op val : bytes) : option (bytes -> bool) :=
    if bytes_eqb opU (B "CONTAINS") then Some (fun s => containsb val s)
    else if bytes_eqb opU (B "PREFIX") then Some (fun s => prefixb val s)
    else if bytes_eqb opU (B "SUFFIX") then Some (fun s => suffixb val s)
    else if bytes_eqb opU (B "LIKE") then Some (fun s => like val s)
    else if negb sym then None
    else if bytes_eqb opU (B "=") then Some (fun s => bytes_eqb s val)
    else if bytes_eqb opU (B "!=") then Some (fun s => negb (bytes_eqb s val))
    else if bytes_eqb opU (B ">") then Some (fun s => bytes_ltb val s)
    else if bytes_eqb opU (B "<") then Some (fun s => bytes_ltb s val)
    else if bytes_eqb opU (B ">=") then Some (fun s => bytes_leb val s)
    else if bytes_eqb opU (B "<=") then Some (fun s => bytes_leb s val)
    else None.

  (* the probe of a LIKE pattern: path.Match(value, "abc") *)
  Definition like_bad (val : bytes) : bool := match pmatch val (B "abc") with None => true | Some _ => false end.

  (* buildTsCond *)
  Definition b_ts (w : wef) (c : cond) : option wef :=
    match c_ident c with
    | Ident _ (ICons _ _) => None
    | Ident _ INil =>
        match parse_time (c_val c) with
        | None => None
        | Some tm =>
            let op := c_op c in
            if bytes_eqb op (B "<") then Some (Some (fun ev => Ok (Z.ltb (ev_ts ev) tm)))
            else if bytes_eqb op (B ">") then Some (Some (fun ev => Ok (Z.ltb tm (ev_ts ev))))
            else if bytes_eqb op (B "<=") then Some (Some (fun ev => Ok (Z.leb (ev_ts ev) tm)))
            else if bytes_eqb op (B ">=") then Some (Some (fun ev => Ok (Z.leb tm (ev_ts ev))))
            else None
        end
    end.

  (* buildMsgCond (sym = false, get = message) and buildFldCond (sym = true, get = Fields.Value) *)
  Definition b_str (sh : bool) (w : wef) (c : cond) (sym : bool) (get : event -> outcome bytes) : option wef :=
    let opU := to_upper (c_op c) in
    match str_fun (c_ident c) with
    | None => None
    | Some lsf =>
        match str_test sym opU (c_op c) (c_val c) with
        | None => None
        | Some test =>
            if bytes_eqb opU (B "LIKE") && like_bad (c_val c)
            then (if sh then Some w      (* the shadowed err: no error, closure field untouched *)
                  else None)             (* the probe's error is returned *)
            else Some (Some (fun ev => match get ev with Ok s => Ok (test (lsf s)) | Panic => Panic | Err => Err | OutOfFuel => OutOfFuel end))
        end
    end.

  (* buildCond *)
  Definition b_cond (sh : bool) (w : wef) (c : cond) : option wef :=
    let fld := first_param_name (c_ident c) in
    let op := to_lower fld in
    if bytes_eqb op (B "ts") then b_ts w c
    else if bytes_eqb op (B "msg") then b_str sh w c false (fun ev => Ok (ev_msg ev))
    else if negb (prefixb (B "fields:") op) || Nat.ltb (List.length op) 8 then None
    else b_str sh w c true (fun ev => fields_value (ev_fields ev) (skipn 7 fld)).

  (* buildOrConds / buildXConds / buildXCond; None = error *)
  Fixpoint b_expr (sh : bool) (w : wef) (e : expr) : option wef :=
    match e with
    | Or1 o => b_orc sh w o
    | OrS o rest =>
        match b_orc sh w o with
        | None => None
        | Some w0 => match b_expr sh w0 rest with None => None | Some w1 => Some (f_or w0 w1) end
        end
    end
  with b_orc (sh : bool) (w : wef) (o : orc) : option wef :=
    match o with
    | And1 x => b_xc sh w x
    | AndS x rest =>
        match b_xc sh w x with
        | None => None
        | Some w0 => match b_orc sh w0 rest with None => None | Some w1 => Some (f_and w0 w1) end
        end
    end
  with b_xc (sh : bool) (w : wef) (x : xc) : option wef :=
    match x with
    | X neg b =>
        match b_body sh w b with
        | None => None
        | Some w1 => if neg then Some (f_not w1) else Some w1
        end
    end
  with b_body (sh : bool) (w : wef) (b : body) : option wef :=
    match b with
    | BC c => b_cond sh w c
    | BP e => b_expr sh w e
    end.

  (* BuildWhereExpFuncByExpression: a fresh builder (field nil); nil expression = always true *)
  Definition build_where_v (sh : bool) (e : option expr) : option wef :=
    match e with
    | None => Some (Some (fun _ => Ok true))
    | Some e => b_expr sh None e
    end.
  (* the code *)
  Definition build_where : option expr -> option wef := build_where_v code_like_shadow.

  (* ================= the documented meaning (reference) ================= *)
  (* events as the property sees them: timestamp, message, list of (name, value) pairs *)
  Record revent := REvent { re_ts : Z; re_msg : bytes; re_fields : list (bytes * bytes) }.
  Definition impl_event (ev : revent) : event := Event (re_ts ev) (re_msg ev) (enc_fields (re_fields ev)).

  (* the string a condition looks at: the operand, seen through its UPPER()/LOWER() nest *)
  Fixpoint apply_funs (i : ident) (s : bytes) : bytes :=
    match i with
    | Ident _ INil => s
    | Ident op (ICons p _) =>
        let inner := apply_funs p s in
        if bytes_eqb (to_upper op) (B "UPPER") then to_upper inner else to_lower inner
    end.

  Definition ref_str (sym : bool) (c : cond) (s : bytes) : bool :=
    match str_test sym (to_upper (c_op c)) (c_op c) (c_val c) with
    | Some test => test (apply_funs (c_ident c) s)
    | None => false
    end.

  Definition ref_cond (c : cond) (ev : revent) : bool :=
    let fld := first_param_name (c_ident c) in
    let op := to_lower fld in
    if bytes_eqb op (B "ts") then
      match parse_time (c_val c) with
      | None => false
      | Some tm =>
          let o := c_op c in
          if bytes_eqb o (B "<") then Z.ltb (re_ts ev) tm
          else if bytes_eqb o (B ">") then Z.ltb tm (re_ts ev)
          else if bytes_eqb o (B "<=") then Z.leb (re_ts ev) tm
          else if bytes_eqb o (B ">=") then Z.leb tm (re_ts ev)
          else false
      end
    else if bytes_eqb op (B "msg") then ref_str false c (re_msg ev)
    else ref_str true c (lookup_first (re_fields ev) (skipn 7 fld)).

  (* is the condition one the server can evaluate? (what buildCond accepts) *)
  Definition funs_ok (i : ident) : bool := match str_fun i with Some _ => true | None => false end.
  (* a LIKE pattern must be one path.Match accepts *)
  Definition like_ok (c : cond) : bool :=
    negb (bytes_eqb (to_upper (c_op c)) (B "LIKE") && like_bad (c_val c)).
  (* msg (sym = false) or fields:<name> (sym = true): a valid UPPER/LOWER nest, an operator the operand supports,
     a well-formed LIKE pattern *)
  Definition str_ok (sym : bool) (c : cond) : bool :=
    funs_ok (c_ident c) &&
    match str_test sym (to_upper (c_op c)) (c_op c) (c_val c) with Some _ => true | None => false end &&
    like_ok c.
  Definition evaluable_cond (c : cond) : bool :=
    let fld := first_param_name (c_ident c) in
    let op := to_lower fld in
    if bytes_eqb op (B "ts") then
      match c_ident c with
      | Ident _ INil =>
          match parse_time (c_val c) with
          | Some _ => existsb (bytes_eqb (c_op c)) [B "<"; B ">"; B "<="; B ">="]
          | None => false
          end
      | _ => false
      end
    else if bytes_eqb op (B "msg") then str_ok false c
    else if negb (prefixb (B "fields:") op) || Nat.ltb (List.length op) 8 then false
    else str_ok true c.

  (* ---- the participle tree evaluated directly (OR of ANDs of optionally negated atoms) ---- *)
  Fixpoint ev_expr (e : expr) (ev : revent) : bool :=
    match e with Or1 o => ev_orc o ev | OrS o r => ev_orc o ev || ev_expr r ev end
  with ev_orc (o : orc) (ev : revent) : bool :=
    match o with And1 x => ev_xc x ev | AndS x r => ev_xc x ev && ev_orc r ev end
  with ev_xc (x : xc) (ev : revent) : bool :=
    match x with X n b => if n then negb (ev_body b ev) else ev_body b ev end
  with ev_body (b : body) (ev : revent) : bool :=
    match b with BC c => ref_cond c ev | BP e => ev_expr e ev end.

  Fixpoint all_conds_expr (p : cond -> bool) (e : expr) : bool :=
    match e with Or1 o => all_conds_orc p o | OrS o r => all_conds_orc p o && all_conds_expr p r end
  with all_conds_orc (p : cond -> bool) (o : orc) : bool :=
    match o with And1 x => all_conds_xc p x | AndS x r => all_conds_xc p x && all_conds_orc p r end
  with all_conds_xc (p : cond -> bool) (x : xc) : bool :=
    match x with X _ b => all_conds_body p b end
  with all_conds_body (p : cond -> bool) (b : body) : bool :=
    match b with BC c => p c | BP e => all_conds_expr p e end.

  (* ================= tag expressions (tagseval.go) ================= *)
  Definition tfun := tagset -> outcome bool.
  Definition tef := option tfun.
  Definition tcall (w : tef) (t : tagset) : outcome bool := match w with Some f => f t | None => Panic end.
  Definition t_or (a b : tef) : tef :=
    Some (fun t => match tcall a t with Ok true => Ok true | Ok false => tcall b t | o => o end).
  Definition t_and (a b : tef) : tef :=
    Some (fun t => match tcall a t with Ok false => Ok false | Ok true => tcall b t | o => o end).
  Definition t_not (a : tef) : tef :=
    Some (fun t => match tcall a t with Ok b => Ok (negb b) | o => o end).

  (* buildTagCond: any operand name is a tag name; all ten operators; the same probe for LIKE *)
  Definition bt_cond (sh : bool) (w : tef) (c : cond) : option tef :=
    match str_fun (c_ident c) with
    | None => None
    | Some tvf =>
        let opU := to_upper (c_op c) in
        match str_test true opU (c_op c) (c_val c) with
        | None => None
        | Some test =>
            if bytes_eqb opU (B "LIKE") && like_bad (c_val c) then (if sh then Some w else None)
            else Some (Some (fun t => Ok (test (tvf (tag_value t (first_param_name (c_ident c)))))))
        end
    end.

  Fixpoint bt_expr (sh : bool) (w : tef) (e : expr) : option tef :=
    match e with
    | Or1 o => bt_orc sh w o
    | OrS o rest =>
        match bt_orc sh w o with
        | None => None
        | Some w0 => match bt_expr sh w0 rest with None => None | Some w1 => Some (t_or w0 w1) end
        end
    end
  with bt_orc (sh : bool) (w : tef) (o : orc) : option tef :=
    match o with
    | And1 x => bt_xc sh w x
    | AndS x rest =>
        match bt_xc sh w x with
        | None => None
        | Some w0 => match bt_orc sh w0 rest with None => None | Some w1 => Some (t_and w0 w1) end
        end
    end
  with bt_xc (sh : bool) (w : tef) (x : xc) : option tef :=
    match x with
    | X neg b =>
        match bt_body sh w b with
        | None => None
        | Some w1 => if neg then Some (t_not w1) else Some w1
        end
    end
  with bt_body (sh : bool) (w : tef) (b : body) : option tef :=
    match b with
    | BC c => bt_cond sh w c
    | BP e => bt_expr sh w e
    end.

  (* BuildTagsExpFuncBySource *)
  Definition build_tags_v (sh : bool) (s : option source) : option tef :=
    match s with
    | None => Some (Some (fun _ => Ok true))
    | Some (SrcTags tg) => Some (Some (fun t => Ok (tags_subset tg t)))
    | Some (SrcExpr e) => bt_expr sh None e
    end.
  (* the code *)
  Definition build_tags : option source -> option tef := build_tags_v code_like_shadow.
End Eval.

(* ================= fiterator (cursor/fiterator.go) over a list-backed iterator ================= *)
(* Get: skip forward until the filter and the time range accept the current event; Next: step.
   The state is the list of events not yet passed. *)
Definition in_range (lo hi : Z) (ev : event) : bool := Z.leb lo (ev_ts ev) && Z.leb (ev_ts ev) hi.

Fixpoint fit_get (f : wfun) (lo hi : Z) (l : list event) : outcome (list event) :=
  match l with
  | [] => Ok []                                  (* io.EOF from the wrapped iterator *)
  | ev :: r =>
      match f ev with
      | Ok true => if in_range lo hi ev then Ok l else fit_get f lo hi r
      | Ok false => fit_get f lo hi r
      | Panic => Panic | Err => Err | OutOfFuel => OutOfFuel
      end
  end.

(* a reader: Get, deliver, Next, ... until EOF *)
Fixpoint fit_drain (fuel : nat) (f : wfun) (lo hi : Z) (l : list event) : outcome (list event) :=
  match fuel with O => OutOfFuel | S fu =>
    match fit_get f lo hi l with
    | Ok [] => Ok []
    | Ok (ev :: r) => match fit_drain fu f lo hi r with Ok out => Ok (ev :: out) | o => o end
    | Panic => Panic | Err => Err | OutOfFuel => OutOfFuel
    end
  end.

(* newFIterator with a nil time range -- what cursor.go passes for a SELECT without RANGE:
   fit.tmRange = model.TimeRange{model.MinTimestamp, model.MaxTimestamp} (pkg/model/tmrange.go), MaxTimestamp = math.MaxInt64.
   A query with WHERE and without RANGE is the drain of the filter iterator on this range.
   The variant flag says what model.MinTimestamp is:
     true   math.MinInt64 (the code since the fix): every int64 timestamp is in the default range;
     false  int64(-6795364578871345152) = time.Time{}.UnixNano(), NOT the least int64 (the code before the fix; kept so
            that the theorems can say what the repair bought): events dated before it were dropped. *)
Definition code_min_ts_is_min_int64 : bool := true.
Definition min_int64 : Z := (-9223372036854775808)%Z.
Definition zero_time_unix_nano : Z := (-6795364578871345152)%Z.
Definition min_timestamp (is_min_int64 : bool) : Z := if is_min_int64 then min_int64 else zero_time_unix_nano.
Definition default_max_ts : Z := 9223372036854775807%Z.
Definition fit_query_v (is_min_int64 : bool) (f : wfun) (l : list event) : outcome (list event) :=
  fit_drain (S (List.length l)) f (min_timestamp is_min_int64) default_max_ts l.
(* the code *)
Definition default_min_ts : Z := min_timestamp code_min_ts_is_min_int64.
Definition fit_query : wfun -> list event -> outcome (list event) := fit_query_v code_min_ts_is_min_int64.
