(* DateFmt: pkg/scanner/parser/date/date.go — the substitution of the terms table into a Go layout
   and a regular expression (dateMap, regexpMap), NewParser's flags, Format.Parse (leftmost regexp
   match, then time.Parse, then adjustYear/adjustDate), parser.Parse (first format that parses) —
   and the reading of the user tokens that defines "the text of an instant in a format" (render).
   Definitions only; lemmas are in proofs/DateFmtP.v. *)
From LR Require Import lib.Base model.GoTime model.Regex.
From Coq Require Import Strings.String.
Open Scope bool_scope.
Open Scope Z_scope.

(* ------------------------------------------------------------------ strings.Replace(s, old, new, -1) *)

Fixpoint replace_fuel (fuel : nat) (old new s : bytes) : bytes :=
  match fuel with
  | O => s
  | S f =>
      match s with
      | [] => []
      | b :: tl => match starts old s with
                   | Some r => new ++ replace_fuel f old new r
                   | None => b :: replace_fuel f old new tl
                   end
      end
  end.
(* (an empty `old` is outside the model: no term has an empty name, see terms_wf) *)
Definition replace_all (old new s : bytes) : bytes :=
  match old with [] => s | _ => replace_fuel (S (List.length s)) old new s end.

Definition term := (bytes * bytes * bytes)%type.      (* user token, Go layout, regexp fragment *)
Definition t_name (t : term) : bytes := fst (fst t).
Definition t_layout (t : term) : bytes := snd (fst t).
Definition t_expr (t : term) : bytes := snd t.

Definition date_map (terms : list term) (f : bytes) : bytes :=
  fold_left (fun s t => replace_all (t_name t) (t_layout t) s) terms f.
Definition regexp_map (terms : list term) (f : bytes) : bytes :=
  fold_left (fun s t => replace_all (t_name t) (t_expr t) s) terms f.
(* fmt.Sprintf("(?P<%v>%v)", dateGroup, regexpMap(fmtStr)) *)
Definition format_regexp (terms : list term) (f : bytes) : bytes :=
  date_group_open ++ regexp_map terms f ++ [x29].

Definition contains_any (f : bytes) (set : bytes) : bool := existsb (fun b => existsb (byte_eqb b) set) f.

(* a compiled format (date.Format) *)
Record cfmt := mkCfmt {
  cf_src : bytes;
  cf_elems : list lelem;        (* dLayout, scanned *)
  cf_rx : rx;                   (* dRegexp, parsed *)
  cf_has_loc : bool; cf_has_year : bool; cf_no_date : bool }.

Definition no_other (l : list lelem) : bool := forallb (fun e => negb (lelem_eqb e LOther)) l.

(* NewParser for one format; None: the layout or the regexp leaves the modelled subset *)
Definition compile_with (terms : list term) (f : bytes) : option cfmt :=
  let no_date := negb (contains_any f (B "YMD")) in
  let elems := parse_layout (date_map terms f) in
  match parse_rx (format_regexp terms f) with
  | Some r => if no_other elems
              then Some (mkCfmt f elems r (contains_any f (B "Z")) (negb no_date && contains_any f (B "Y")) no_date)
              else None
  | None => None
  end.

(* today's civil date in time.Local (the harness runs with Local = UTC) *)
Definition now_t := (Z * Z * Z)%type.

(* adjustDate / adjustYear *)
Definition adjust (now : now_t) (cf : cfmt) (t : ptime) : ptime :=
  let '(ny, nm, nd) := now in
  if cf_no_date cf then mkPtime ny nm nd (t_h t) (t_mi t) (t_s t) (t_ns t) (t_off t)
  else if negb (cf_has_year cf) then
    mkPtime (if nm <? t_mo t then ny - 1 else ny) (t_mo t) (t_d t) (t_h t) (t_mi t) (t_s t) (t_ns t) (t_off t)
  else t.

(* strings.ToUpper on ASCII *)
Definition to_upper_b (b : byte) : byte :=
  if is_lower b then match Byte.of_N (bN b - 32) with Some c => c | None => b end else b.
Definition to_upper (s : bytes) : bytes := map to_upper_b s.
Definition has_pm (l : list lelem) : bool := existsb (fun e => lelem_eqb e LPM) l.

(* time.Parse of the matched text; [retry]: when it fails and the layout has PM, once more on the upper-cased text (the regular
   expression of P admits am/pm, time.Parse reads the PM element in upper case only; month and weekday names are read in any
   case). retry = false is Format.Parse before the repair. *)
Definition go_parse_retry (retry : bool) (elems : list lelem) (m : bytes) : option ptime :=
  match go_parse elems m with
  | Some t => Some t
  | None => if retry && has_pm elems then go_parse elems (to_upper m) else None
  end.

(* Format.Parse: (Unix seconds, nanosecond) of the parsed time *)
Definition parse_one_v (retry : bool) (now : now_t) (cf : cfmt) (text : bytes) : option (Z * Z) :=
  match rx_find (cf_rx cf) text with
  | None => None
  | Some m => match go_parse_retry retry (cf_elems cf) m with
              | None => None
              | Some t => Some (instant (adjust now cf t))
              end
  end.
Definition code_ampm_retry : bool := true.
Definition parse_one : now_t -> cfmt -> bytes -> option (Z * Z) := parse_one_v code_ampm_retry.

(* parser.Parse: the first format that parses, with its index *)
Fixpoint parse_all_from (i : nat) (now : now_t) (fs : list (option cfmt)) (text : bytes) : option (nat * (Z * Z)) :=
  match fs with
  | [] => None
  | None :: _ => None                       (* a format outside the model: no prediction *)
  | Some cf :: tl => match parse_one now cf text with
                     | Some r => Some (i, r)
                     | None => parse_all_from (S i) now tl text
                     end
  end.
Definition parse_all (now : now_t) (fs : list (option cfmt)) (text : bytes) := parse_all_from 0 now fs text.

(* the same over a variant of Format.Parse (for the refutation of the variant without the retry) *)
Fixpoint parse_all_from_v (retry : bool) (i : nat) (now : now_t) (fs : list (option cfmt)) (text : bytes) : option (nat * (Z * Z)) :=
  match fs with
  | [] => None
  | None :: _ => None
  | Some cf :: tl => match parse_one_v retry now cf text with
                     | Some r => Some (i, r)
                     | None => parse_all_from_v retry (S i) now tl text
                     end
  end.
Definition parse_all_v (retry : bool) (now : now_t) (fs : list (option cfmt)) (text : bytes) := parse_all_from_v retry 0 now fs text.

(* ------------------------------------------------------------------ user tokens *)

Inductive item := IB (b : byte) | IT (i : nat).

Fixpoint starts_items (p : bytes) (l : list item) : option (list item) :=
  match p with
  | [] => Some l
  | a :: p' => match l with
               | IB b :: l' => if byte_eqb a b then starts_items p' l' else None
               | _ => None
               end
  end.
Fixpoint subst_items (fuel : nat) (i : nat) (name : bytes) (l : list item) : list item :=
  match fuel with
  | O => l
  | S f =>
      match l with
      | [] => []
      | x :: tl => match starts_items name l with
                   | Some r => IT i :: subst_items f i name r
                   | None => x :: subst_items f i name tl
                   end
      end
  end.
Fixpoint tokenize_from (i : nat) (names : list bytes) (l : list item) : list item :=
  match names with
  | [] => l
  | n :: tl => tokenize_from (S i) tl (match n with [] => l | _ => subst_items (S (List.length l)) i n l end)
  end.
Definition tokenize (terms : list term) (f : bytes) : list item := tokenize_from 0 (map t_name terms) (map IB f).

(* the user tokens this development gives a meaning to *)
Inductive kind :=
| KYYYY | KYY | KMMMM | KMMM | KMM | KM | KDDDD | KDDD | KDD | K_D | KD
| KHH | Khh | Kh | Kmm | Km | Kss | Ks | KSSS | KP | KZ5 | KZ4 | KZ3.

Definition kind_names : list (string * kind) :=
  [("YYYY", KYYYY); ("YY", KYY); ("MMMM", KMMMM); ("MMM", KMMM); ("MM", KMM); ("M", KM);
   ("DDDD", KDDDD); ("DDD", KDDD); ("DD", KDD); ("_D", K_D); ("D", KD);
   ("HH", KHH); ("hh", Khh); ("h", Kh); ("mm", Kmm); ("m", Km); ("ss", Kss); ("s", Ks);
   (".SSS", KSSS); ("P", KP); ("ZZZZZ", KZ5); ("ZZZZ", KZ4); ("ZZZ", KZ3)]%string.
Definition kind_of_name (n : bytes) : option kind :=
  match find (fun p => bytes_eqb (B (fst p)) n) kind_names with Some p => Some (snd p) | None => None end.

Inductive tok := TK (k : kind) (i : nat) | TL (b : byte) | TSp (n : nat).   (* TSp n: a run of n >= 1 blanks *)

Fixpoint toks_of_items (terms : list term) (l : list item) : option (list tok) :=
  match l with
  | [] => Some []
  | IB b :: tl =>
      match toks_of_items terms tl with
      | Some r => Some (if byte_eqb b x20 then match r with TSp n :: r' => TSp (S n) :: r' | _ => TSp 1 :: r end else TL b :: r)
      | None => None
      end
  | IT i :: tl =>
      match nth_error terms i with
      | Some t => match kind_of_name (t_name t), toks_of_items terms tl with
                  | Some k, Some r => Some (TK k i :: r)
                  | _, _ => None
                  end
      | None => None
      end
  end.
Definition tokens (terms : list term) (f : bytes) : option (list tok) := toks_of_items terms (tokenize terms f).

(* ------------------------------------------------------------------ render: the text a log producer writes *)

Record civil := mkCivil {
  c_y : Z; c_mo : Z; c_d : Z; c_h : Z; c_mi : Z; c_s : Z; c_ms : Z;
  c_off : Z;            (* zone offset, minutes east of UTC (written by ZZZZ / ZZZZZ) *)
  c_abbr : bytes }.     (* zone abbreviation (written by ZZZ) *)

Definition d2 (n : Z) : bytes := [digit_byte (n / 10); digit_byte (n mod 10)].
Definition d3 (n : Z) : bytes := [digit_byte (n / 100); digit_byte (n / 10 mod 10); digit_byte (n mod 10)].
Definition d4 (n : Z) : bytes := [digit_byte (n / 1000); digit_byte (n / 100 mod 10); digit_byte (n / 10 mod 10); digit_byte (n mod 10)].
Definition d12 (n : Z) : bytes := if n <? 10 then [digit_byte n] else d2 n.
Definition hour12 (h : Z) : Z := let r := h mod 12 in if r =? 0 then 12 else r.
Definition month_name (m : Z) : bytes := B (nth (Z.to_nat (m - 1)) month_names EmptyString).
Definition day_name (w : Z) : bytes := B (nth (Z.to_nat w) day_names EmptyString).
Definition weekday (c : civil) : Z := weekday_of_days (days_from_civil (c_y c) (c_mo c) (c_d c)).

(* the number a token writes, and how it writes it *)
Definition cv (k : kind) (c : civil) : Z :=
  match k with
  | KYYYY => c_y c
  | KYY => c_y c mod 100
  | KMMMM | KMMM | KMM | KM => c_mo c
  | KDDDD | KDDD => weekday c
  | KDD | K_D | KD => c_d c
  | KHH | KP => c_h c
  | Khh | Kh => hour12 (c_h c)
  | Kmm | Km => c_mi c
  | Kss | Ks => c_s c
  | KSSS => c_ms c
  | KZ5 | KZ4 => c_off c
  | KZ3 => 0
  end.
Definition rv (k : kind) (v : Z) : bytes :=
  match k with
  | KYYYY => d4 v
  | KYY | KMM | KDD | KHH | Khh | Kmm | Kss => d2 v
  | KM | KD | Kh | Km | Ks => d12 v
  | KMMMM => month_name v
  | KMMM => firstn 3 (month_name v)
  | KDDDD => day_name v
  | KDDD => firstn 3 (day_name v)
  | K_D => if v <? 10 then [x20; digit_byte v] else d2 v
  | KSSS => x2e :: d3 v
  | KP => if v <? 12 then B "AM" else B "PM"
  | KZ5 => (if v <? 0 then x2d else x2b) :: d2 (Z.abs v / 60) ++ x3a :: d2 (Z.abs v mod 60)
  | KZ4 => (if v <? 0 then x2d else x2b) :: d2 (Z.abs v / 60) ++ d2 (Z.abs v mod 60)
  | KZ3 => []
  end.
Definition render_kind (k : kind) (c : civil) : bytes :=
  match k with KZ3 => c_abbr c | _ => rv k (cv k c) end.

Definition render_tok (t : tok) (c : civil) : bytes :=
  match t with
  | TK k _ => render_kind k c
  | TL b => [b]
  | TSp n => repeat x20 n
  end.
Definition render_toks (l : list tok) (c : civil) : bytes := flat_map (fun t => render_tok t c) l.
Definition render (terms : list term) (f : bytes) (c : civil) : option bytes :=
  match tokens terms f with Some l => Some (render_toks l c) | None => None end.
