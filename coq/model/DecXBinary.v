(* Model of the decoding half of github.com/logrange/range/pkg/utils/encoding/xbinary (the
   dependency), byte-exact, in checked style: UnmarshalByte/Uint16/Uint32/Uint64, UnmarshalUint
   (LEB128-like varint with Go's 64-bit shift: `uint(b&127) << shft` is 0 for shft >= 64 and loses
   the bits above 2^64), UnmarshalBytes / UnmarshalString (`ln := int(uln)`, `len(buf) < ln+idx`,
   `buf[idx : idx+ln]`; Go int is 64 bit, `ln+idx` wraps).  Definitions only.

   [guard] = false is the dependency's function itself (what the /repo decoders called before the repair,
   and what the dependency still is).  [guard] = true is utils.UnmarshalBytes / UnmarshalString of /repo
   (pkg/utils/unmarshal.go), through which every /repo decoder now reads its length-prefixed fields:
   checkBytesLen reads the varint the same way and returns an error when `ln < 0 || ln+idx < idx`, then
   the dependency's function is called on the same buffer - i.e. the dependency's body behind the guard
   it misses. *)
From LR Require Import lib.Base lib.DecLib.

Local Open Scope Z_scope.

(* big-endian value of a byte string *)
Fixpoint be_val (acc : N) (s : bytes) : N :=
  match s with
  | [] => acc
  | b :: tl => be_val (acc * 256 + Byte.to_N b)%N tl
  end.

(* UnmarshalByte / Uint16 / Uint32 / Uint64: `if len(buf) < k { error }`, then binary.BigEndian *)
Definition unmarshal_fixed (k : nat) (buf : bytes) : outcome (Z * N) :=
  if blen buf <? Z.of_nat k then Err else Ok (Z.of_nat k, be_val 0 (firstn k buf)).
Definition unmarshal_byte := unmarshal_fixed 1.
Definition unmarshal_u16 := unmarshal_fixed 2.
Definition unmarshal_u32 := unmarshal_fixed 4.
Definition unmarshal_u64 := unmarshal_fixed 8.

(* UnmarshalUint: the loop `if idx == len(buf) {error}; b := buf[idx]; res |= uint(b&127) << shft;
   if b <= 127 {return idx+1, res}; shft += 7; idx++`.  [buf] is the not yet consumed suffix buf[idx:]. *)
Definition two64N : N := 18446744073709551616%N.
Definition shl64 (v shft : N) : N := if (shft <? 64)%N then ((v * 2 ^ shft) mod two64N)%N else 0%N.

Fixpoint unmarshal_uint_go (buf : bytes) (idx : Z) (shft res : N) : outcome (Z * N) :=
  match buf with
  | [] => Err
  | b :: tl =>
      let v := Byte.to_N b in
      let res' := N.lor res (shl64 (v mod 128)%N shft) in
      if (v <=? 127)%N then Ok (idx + 1, res') else unmarshal_uint_go tl (idx + 1) (shft + 7)%N res'
  end.
Definition unmarshal_uint (buf : bytes) : outcome (Z * N) := unmarshal_uint_go buf 0 0%N 0%N.

(* UnmarshalBytes(buf, _) / UnmarshalString: number of bytes read and the value.
   guard = true: utils.UnmarshalBytes (checkBytesLen, then xbinary.UnmarshalBytes: the second reading of the
   varint gives the same idx, uln); guard = false: xbinary.UnmarshalBytes alone *)
Definition unmarshal_bytes_g (guard : bool) (buf : bytes) : outcome (Z * bytes) :=
  '(idx, uln) <- unmarshal_uint buf ;;
  let ln := to_int64 (Z.of_N uln) in
  let hi := to_int64 (ln + idx) in
  if guard && ((ln <? 0) || (hi <? idx)) then Err else
  if blen buf <? hi then Err else
  res <- slice buf idx hi ;;
  Ok (hi, res).

(* the dependency's xbinary.UnmarshalBytes *)
Definition unmarshal_bytes : bytes -> outcome (Z * bytes) := unmarshal_bytes_g false.

(* ---- the encoders (used by the examples and the harness-independent round-trip sanity checks) ---- *)
Fixpoint marshal_uint_go (fuel : nat) (v : N) : bytes :=
  match fuel with
  | O => []
  | S f => if (127 <? v)%N then b_of_N (128 + v mod 128)%N :: marshal_uint_go f (v / 128)%N else [b_of_N v]
  end.
Definition marshal_uint (v : N) : bytes := marshal_uint_go 10 v.
Definition marshal_bytes (s : bytes) : bytes := marshal_uint (N.of_nat (length s)) ++ s.

Fixpoint be_bytes (k : nat) (v : N) : bytes :=
  match k with
  | O => []
  | S k' => be_bytes k' (v / 256)%N ++ [b_of_N (v mod 256)%N]
  end.
