(* LqlTimeFmt: DateTime.String() of /repo/pkg/lql/parser.go without the quotes -- the text a time point
   (Unix nanoseconds, an int64) is printed as, in the zone the check runs in (time.Local = UTC).

     tm := time.Unix(0, n)
     whole second:  tm.String()   = tm.Format("2006-01-02 15:04:05.999999999 -0700 MST") = date time zone
     otherwise:     tm.Format("2006-01-02 15:04:05.000000000 -0700 MST"): the fraction with all nine digits

   Variant [trim = true] is the printer before the repair: tm.String() for every instant, whose layout element
   .999999999 drops the trailing zeros of the fraction (".5", ".25", ".123").
   The civil date is GoTime.civil_from_days (the model of C20, compared with package time there); the digits are
   DateFmt.d2 / d4.  Definitions only. *)
From LR Require Import lib.Base model.GoTime model.DateFmt.
From Coq Require Import Strings.String.
Open Scope Z_scope.

Definition nanos_per_sec : Z := 1000000000.

(* the nine digits of a nanosecond count *)
Definition d9 (ns : Z) : bytes :=
  d3 (ns / 1000000) ++ d3 (ns / 1000 mod 1000) ++ d3 (ns mod 1000).

(* drop trailing zeros (the text is not all zeros when this is used) *)
Definition trim_zeros (s : bytes) : bytes :=
  rev ((fix go (l : bytes) : bytes :=
          match l with
          | b :: tl => if byte_eqb b x30 then go tl else l
          | [] => []
          end) (rev s)).

(* "2006-01-02 15:04:05" of the whole second s (Unix seconds, UTC) *)
Definition fmt_sec (s : Z) : bytes :=
  let days := s / 86400 in
  let sod := s mod 86400 in
  let '(y, m, d) := civil_from_days days in
  d4 y ++ x2d :: d2 m ++ x2d :: d2 d ++ x20 :: d2 (sod / 3600) ++ x3a :: d2 (sod / 60 mod 60) ++ x3a :: d2 (sod mod 60).

Definition fmt_frac (trim : bool) (ns : Z) : bytes :=
  if ns =? 0 then []
  else x2e :: (if trim then trim_zeros (d9 ns) else d9 ns).

Definition utc_suffix : bytes := [x20; x2b; x30; x30; x30; x30; x20; x55; x54; x43].   (* " +0000 UTC" *)

Definition fmt_time_v (trim : bool) (t : Z) : bytes :=
  fmt_sec (t / nanos_per_sec) ++ fmt_frac trim (t mod nanos_per_sec) ++ utc_suffix.

(* the variant of the code: a non-zero fraction is written with nine digits *)
Definition code_time_trims_fraction : bool := false.
Definition fmt_time : Z -> bytes := fmt_time_v code_time_trims_fraction.
