(* Model of /repo/pkg/cursor/provider.go (GetOrCreate, Release, sweepBySize, sweepByTime, Shutdown)
   and of the parts of cursor.go the provider relies on (newCursor's acquire/release discipline,
   ApplyState, commit, close), written after the Go function by function over the pointer ring of
   model/CList.v. Executable and total; Go panics (the explicit one in Release, nil dereferences)
   are `Panic`, the one loop without a structural bound takes fuel.

   Atomic steps (one `p.lock` region each; trusted granularity, DESIGN Appendix A):
     GetOrCreate = OLookup (locked lookup)  ;  OCreate (unlocked newCursor)  ;  OInsert (locked insert)
     Release     = ORelease (commit, which touches only the cursor, then the locked region)
     each sweep  = one step.
   Requests are actors `r : nat`; the state of an actor says where its request is.
   The clock is explicit (`p_now`, advanced by OTick); utils.NextSimpleId is an input (`fresh`).
   Ghost state: per cursor the number of close() calls and of releases of its partitions, the
   net acquisition count per partition at the ItFactory, the actor table.

   Three repairs of provider.go are visible as the `variant` the step function takes: `code_variant` is
   the code as it is (GetOrCreate refuses to insert under an id that got cached meanwhile, Release
   leaves a cache entry that belongs to another cursor alone, Shutdown evicts the cache, GetOrCreate
   drops a cached idle cursor whose position differs from the requested one instead of re-positioning
   it - the repair of C03's stale read-ahead); `old_variant` is the code before them (kept for the
   refutations in props/C15.v). *)
From LR Require Export lib.Base model.CList.

(* ---- cursor.State.Pos, abstracted: "" | "tail" | a well-formed position | anything else ---- *)
Inductive pos := PHead | PTail | PAt (n : N) | PBad.
Definition pos_eqb (a b : pos) : bool :=
  match a, b with
  | PHead, PHead | PTail, PTail | PBad, PBad => true
  | PAt x, PAt y => N.eqb x y
  | _, _ => false
  end.
(* journal.Pos{CId, Idx} read as the 96-bit number CId * 2^32 + Idx *)
Definition pos_mod : N := 79228162514264337593543950336.      (* 2^96 *)
Definition tail_ipos : N := 79228162514264337593543950335.    (* CId = 2^64-1, Idx = 2^32-1 *)

(* what getSourcesByState yields for the request's query: a parse/GetJournals error (nothing
   acquired), no matching partition, or the partitions (acquired by GetJournals) *)
Inductive qres := QErr | QNoSrc | QParts (parts : list N).

Record cursor := {
  c_id : N;              (* state.Id *)
  c_query : N;           (* state.Query (index into the harness's query table) *)
  c_spos : pos;          (* state.Pos *)
  c_ipos : N;            (* position of the journal iterators *)
  c_parts : list N;      (* partitions acquired for jDescs *)
  c_live : bool;         (* jDescs != nil *)
  c_closes : nat;        (* ghost: number of close() calls *)
  c_rels : nat           (* ghost: number of times the partitions were handed back *)
}.
Definition cursor0 : cursor :=
  {| c_id := 0; c_query := 0; c_spos := PHead; c_ipos := 0; c_parts := []; c_live := false; c_closes := 0; c_rels := 0 |}.

(* curHldr *)
Record hldr := { h_busy : bool; h_cur : option nat; h_exp : Z }.
Definition hldr0 : hldr := {| h_busy := false; h_cur := None; h_exp := 0 |}.

Inductive astate :=
| AIdle
| AMiss (id q : N) (qr : qres) (p : pos) (cache : bool)   (* lookup done, cursor not created yet *)
| ACreated (c : nat)                                       (* newCursor done, not yet in the cache *)
| AHold (c : nat)                                          (* GetOrCreate returned cursor c *)
| AHoldEmpty.                                              (* GetOrCreate returned emptyCur *)

Record rstore := { r_links : lheap; r_busy : ptr; r_free : ptr; r_freesz : Z; r_nelem : nat }.

Record prov := {
  p_rs : rstore;                   (* the CLElements, p.busy, p.free, p.freePoolSz *)
  p_vals : nat -> hldr;            (* e.Val, a curHldr *)
  p_curs : list (N * nat);         (* p.curs *)
  p_max : nat; p_idle : Z; p_busyto : Z;     (* maxCurs, idleTo, busyTo *)
  p_now : Z;                       (* time.Now() *)
  p_cur : nat -> cursor; p_ncur : nat;       (* every cursor ever created, by creation index *)
  p_acq : N -> Z;                  (* ghost: acquisitions minus releases per partition *)
  p_act : list (nat * astate)      (* ghost: the requests in flight *)
}.

Definition set_rs s v := {| p_rs := v; p_vals := p_vals s; p_curs := p_curs s; p_max := p_max s; p_idle := p_idle s;
  p_busyto := p_busyto s; p_now := p_now s; p_cur := p_cur s; p_ncur := p_ncur s; p_acq := p_acq s; p_act := p_act s |}.
Definition set_vals s v := {| p_rs := p_rs s; p_vals := v; p_curs := p_curs s; p_max := p_max s; p_idle := p_idle s;
  p_busyto := p_busyto s; p_now := p_now s; p_cur := p_cur s; p_ncur := p_ncur s; p_acq := p_acq s; p_act := p_act s |}.
Definition set_curs s v := {| p_rs := p_rs s; p_vals := p_vals s; p_curs := v; p_max := p_max s; p_idle := p_idle s;
  p_busyto := p_busyto s; p_now := p_now s; p_cur := p_cur s; p_ncur := p_ncur s; p_acq := p_acq s; p_act := p_act s |}.
Definition set_max s v := {| p_rs := p_rs s; p_vals := p_vals s; p_curs := p_curs s; p_max := v; p_idle := p_idle s;
  p_busyto := p_busyto s; p_now := p_now s; p_cur := p_cur s; p_ncur := p_ncur s; p_acq := p_acq s; p_act := p_act s |}.
Definition set_now s v := {| p_rs := p_rs s; p_vals := p_vals s; p_curs := p_curs s; p_max := p_max s; p_idle := p_idle s;
  p_busyto := p_busyto s; p_now := v; p_cur := p_cur s; p_ncur := p_ncur s; p_acq := p_acq s; p_act := p_act s |}.
Definition set_cur s v n := {| p_rs := p_rs s; p_vals := p_vals s; p_curs := p_curs s; p_max := p_max s; p_idle := p_idle s;
  p_busyto := p_busyto s; p_now := p_now s; p_cur := v; p_ncur := n; p_acq := p_acq s; p_act := p_act s |}.
Definition set_acq s v := {| p_rs := p_rs s; p_vals := p_vals s; p_curs := p_curs s; p_max := p_max s; p_idle := p_idle s;
  p_busyto := p_busyto s; p_now := p_now s; p_cur := p_cur s; p_ncur := p_ncur s; p_acq := v; p_act := p_act s |}.
Definition set_act s v := {| p_rs := p_rs s; p_vals := p_vals s; p_curs := p_curs s; p_max := p_max s; p_idle := p_idle s;
  p_busyto := p_busyto s; p_now := p_now s; p_cur := p_cur s; p_ncur := p_ncur s; p_acq := p_acq s; p_act := v |}.

Definition fupd {A : Type} (f : nat -> A) (k : nat) (v : A) : nat -> A := fun x => if Nat.eqb x k then v else f x.

(* ---- Go map p.curs ---- *)
Fixpoint map_get (m : list (N * nat)) (k : N) : option nat :=
  match m with
  | [] => None
  | (k', v) :: t => if N.eqb k' k then Some v else map_get t k
  end.
Fixpoint map_del (m : list (N * nat)) (k : N) : list (N * nat) :=
  match m with
  | [] => []
  | (k', v) :: t => if N.eqb k' k then map_del t k else (k', v) :: map_del t k
  end.
Definition map_set (m : list (N * nat)) (k : N) (v : nat) : list (N * nat) := (k, v) :: map_del m k.

(* ---- actor table ---- *)
Fixpoint act_get (l : list (nat * astate)) (r : nat) : astate :=
  match l with
  | [] => AIdle
  | (r', a) :: t => if Nat.eqb r' r then a else act_get t r
  end.
Fixpoint act_del (l : list (nat * astate)) (r : nat) : list (nat * astate) :=
  match l with
  | [] => []
  | (r', a) :: t => if Nat.eqb r' r then act_del t r else (r', a) :: act_del t r
  end.
Definition act_set (l : list (nat * astate)) (r : nat) (a : astate) : list (nat * astate) :=
  match a with AIdle => act_del l r | _ => (r, a) :: act_del l r end.
Definition set_actor (s : prov) (r : nat) (a : astate) : prov := set_act s (act_set (p_act s) r a).

(* ---- ItFactory accounting ---- *)
Fixpoint cnt_in (p : N) (parts : list N) : Z :=
  match parts with [] => 0 | x :: t => (if N.eqb x p then 1 else 0) + cnt_in p t end.
Definition acq_add (f : N -> Z) (parts : list N) (d : Z) : N -> Z := fun p => (f p + d * cnt_in p parts)%Z.

(* ---- cursor.go ---- *)
Definition set_cursor (s : prov) (c : nat) (cu : cursor) : prov := set_cur s (fupd (p_cur s) c cu) (p_ncur s).

(* crsr.close(): Close and Release every jDesc, jDescs = nil *)
Definition close_cur (s : prov) (c : nat) : prov :=
  let cu := p_cur s c in
  let s1 := if c_live cu then set_acq s (acq_add (p_acq s) (c_parts cu) (-1)) else s in
  set_cursor s1 c {| c_id := c_id cu; c_query := c_query cu; c_spos := c_spos cu; c_ipos := c_ipos cu; c_parts := c_parts cu;
                     c_live := false; c_closes := S (c_closes cu); c_rels := if c_live cu then S (c_rels cu) else c_rels cu |}.

Definition with_pos (cu : cursor) (sp : pos) (ip : N) : cursor :=
  {| c_id := c_id cu; c_query := c_query cu; c_spos := sp; c_ipos := ip; c_parts := c_parts cu;
     c_live := c_live cu; c_closes := c_closes cu; c_rels := c_rels cu |}.

(* crsr.ApplyState: None = error (the cursor is left as it was) *)
Definition apply_state (cu : cursor) (id q : N) (p : pos) : option cursor :=
  if negb (N.eqb (c_query cu) q) || negb (N.eqb (c_id cu) id) then None
  else if pos_eqb (c_spos cu) p then Some cu
  else match p with
       | PAt n => Some (with_pos cu p (if c_live cu then n else c_ipos cu))   (* SetPos on every jDesc *)
       | _ => None                                                            (* applyStatePos cannot parse it *)
       end.

(* crsr.commit: state.Pos = collectPos() ("" when jDescs is nil) *)
Definition commit (cu : cursor) : cursor := with_pos cu (if c_live cu then PAt (c_ipos cu) else PHead) (c_ipos cu).

(* the iterators' position after applyPos of newCursor *)
Definition pos_init (p : pos) : N := match p with PTail => tail_ipos | PAt n => n | _ => 0%N end.

(* ---- results of the steps (what the caller of the provider sees) ---- *)
Inductive res :=
| RHit (c : nat) | RRefused | RMiss
| RNew (c : nat) | RNewErr | REmpty
| RInserted
| RInsRefused    (* the id got cached while the cursor was being created: the new cursor is closed, the request refused *)
| RReleased (id : N) (p : pos)
| RDone          (* use, sweeps, tick, shutdown *)
| RNone.         (* the op is not enabled for this actor: nothing happens *)

Inductive op :=
| OLookup (r : nat) (id : N) (cache : bool) (q : N) (qr : qres) (p : pos) (fresh : N)
| OCreate (r : nat)
| OInsert (r : nat)
| OUse (r : nat) (k : N)
| ORelease (r : nat)
| OSweepSize
| OSweepTime
| OTick (d : Z)
| OShutdown.

(* ---- which provider.go: the code as it is, or the code before the two C15 repairs ---- *)
Record variant := {
  v_owner : bool;    (* GetOrCreate's insert region refuses if p.curs[id] exists by now; Release treats a cache entry
                        whose holder carries another cursor as "not in the cache" (provider.go, fix C15-sameid-race) *)
  v_evict : bool;    (* Shutdown evicts the whole cache with sweepBySize (fix C15-shutdown-close) *)
  v_droppos : bool   (* GetOrCreate closes and drops a cached idle cursor (of the same query) whose state.Pos differs from the
                        requested Pos and goes on as on a miss, with the same id (fix C03-stale-peek-on-retried-page); before, ApplyState
                        re-positioned the cached cursor *)
}.
Definition code_variant : variant := {| v_owner := true; v_evict := true; v_droppos := true |}.
Definition old_variant : variant := {| v_owner := false; v_evict := false; v_droppos := false |}.

(* ---- the ring statements of provider.go, on the ring store ---- *)
(* p.busy = p.busy.TearOff(e); p.busy = e.Append(p.busy) *)
Definition rs_touch (rs : rstore) (e : nat) : rstore :=
  let '(l1, b1) := cl_tearoff (r_links rs) (r_busy rs) (Some e) in
  let '(l2, b2) := cl_append l1 (Some e) b1 in
  {| r_links := l2; r_busy := b2; r_free := r_free rs; r_freesz := r_freesz rs; r_nelem := r_nelem rs |}.
(* e := p.free; if e != nil { p.free = p.free.TearOff(e); p.freePoolSz-- } else { e = container.NewCLElement() } *)
Definition rs_take (rs : rstore) : nat * rstore :=
  match r_free rs with
  | Some f =>
    let '(l1, f1) := cl_tearoff (r_links rs) (r_free rs) (Some f) in
    (f, {| r_links := l1; r_busy := r_busy rs; r_free := f1; r_freesz := r_freesz rs - 1; r_nelem := r_nelem rs |})
  | None =>
    let a := r_nelem rs in
    (a, {| r_links := cl_new (r_links rs) a; r_busy := r_busy rs; r_free := None; r_freesz := r_freesz rs; r_nelem := S a |})
  end.
(* p.busy = e.Append(p.busy) *)
Definition rs_push_busy (rs : rstore) (e : nat) : rstore :=
  let '(l2, b2) := cl_append (r_links rs) (Some e) (r_busy rs) in
  {| r_links := l2; r_busy := b2; r_free := r_free rs; r_freesz := r_freesz rs; r_nelem := r_nelem rs |}.
(* p.busy = p.busy.TearOff(e) *)
Definition rs_remove (rs : rstore) (e : nat) : rstore :=
  let '(l1, b1) := cl_tearoff (r_links rs) (r_busy rs) (Some e) in
  {| r_links := l1; r_busy := b1; r_free := r_free rs; r_freesz := r_freesz rs; r_nelem := r_nelem rs |}.
(* if p.freePoolSz < 1000 { p.free = e.Append(p.free); p.freePoolSz++ } *)
Definition rs_push_free (rs : rstore) (e : nat) : rstore :=
  if Z.ltb (r_freesz rs) 1000 then
    let '(l2, f2) := cl_append (r_links rs) (Some e) (r_free rs) in
    {| r_links := l2; r_busy := r_busy rs; r_free := f2; r_freesz := r_freesz rs + 1; r_nelem := r_nelem rs |}
  else rs.

Definition set_val (s : prov) (e : nat) (v : hldr) : prov := set_vals s (fupd (p_vals s) e v).

(* ch.busy = ...; ch.expTime = ...; then the element moves to the head of the busy ring *)
Definition touch (s : prov) (e : nat) (busy : bool) (exp : Z) : prov :=
  let ch := p_vals s e in
  let s1 := set_val s e {| h_busy := busy; h_cur := h_cur ch; h_exp := exp |} in
  set_rs s1 (rs_touch (p_rs s1) e).

(* ch.cur = nil *)
Definition clear_cur (s : prov) (e : nat) : prov :=
  let ch := p_vals s e in
  set_val s e {| h_busy := h_busy ch; h_cur := None; h_exp := h_exp ch |}.

(* the cached idle cursor stands at another position than the request names:
   ch.cur.close(); delete(p.curs, state.Id); ch.cur = nil; p.busy = p.busy.TearOff(e); the holder goes to the free pool *)
Definition drop_idle (s : prov) (e c : nat) (id : N) : prov :=
  let s1 := close_cur s c in
  let s2 := set_curs s1 (map_del (p_curs s1) id) in
  let s3 := clear_cur s2 e in
  let s4 := set_rs s3 (rs_remove (p_rs s3) e) in
  set_rs s4 (rs_push_free (p_rs s4) e).

(* GetOrCreate, first locked region plus the id assignment that follows it. With `drop`: a cached idle cursor
   of the requested query whose state.Pos is not the requested one (where ApplyState would re-position it) is dropped
   and the request goes on as a miss under the same id *)
Definition get_lookup (drop : bool) (s : prov) (r : nat) (id : N) (cache : bool) (q : N) (qr : qres) (p : pos) (fresh : N)
  : outcome (prov * res) :=
  match act_get (p_act s) r with
  | AIdle =>
    let miss (id' : N) := Ok (set_actor s r (AMiss id' q qr p cache), RMiss) in
    if N.eqb id 0 then miss fresh else
    match map_get (p_curs s) id with
    | None => miss id
    | Some e =>
      let ch := p_vals s e in
      if h_busy ch then Ok (s, RRefused)
      else match h_cur ch with
           | None => Panic                                   (* ch.cur.state / ch.cur.ApplyState on a nil cursor *)
           | Some c =>
             if drop && N.eqb (c_query (p_cur s c)) q && negb (pos_eqb (c_spos (p_cur s c)) p)
             then Ok (set_actor (drop_idle s e c id) r (AMiss id q qr p cache), RMiss)
             else
             match apply_state (p_cur s c) id q p with
             | None => miss fresh                            (* state.Id = 0: a new cursor is created *)
             | Some cu =>
               let s1 := set_cursor s c cu in
               let s2 := touch s1 e true (p_now s + p_busyto s) in
               Ok (set_actor s2 r (AHold c), RHit c)
             end
           end
    end
  | _ => Ok (s, RNone)
  end.

(* newCursor (unlocked): acquire, build, applyPos; on a failure after the acquisition everything is released *)
Definition get_create (s : prov) (r : nat) : outcome (prov * res) :=
  match act_get (p_act s) r with
  | AMiss id q qr p cache =>
    match qr with
    | QErr => Ok (set_actor s r AIdle, RNewErr)
    | QNoSrc => Ok (set_actor s r AHoldEmpty, REmpty)
    | QParts parts =>
      let s1 := set_acq s (acq_add (p_acq s) parts 1) in
      match p with
      | PBad => Ok (set_actor (set_acq s1 (acq_add (p_acq s1) parts (-1))) r AIdle, RNewErr)
      | _ =>
        let c := p_ncur s1 in
        let cu := {| c_id := id; c_query := q; c_spos := p; c_ipos := pos_init p; c_parts := parts;
                     c_live := true; c_closes := 0; c_rels := 0 |} in
        let s2 := set_cur s1 (fupd (p_cur s1) c cu) (S c) in
        Ok (set_actor s2 r (if cache then ACreated c else AHold c), RNew c)
      end
    end
  | _ => Ok (s, RNone)
  end.

(* GetOrCreate, second locked region. With `own`: if p.curs[cur.Id()] exists by now (another request with
   the id has inserted while this one was in newCursor) the new cursor is closed and the request refused *)
Definition get_insert (own : bool) (s : prov) (r : nat) : outcome (prov * res) :=
  match act_get (p_act s) r with
  | ACreated c =>
    match (if own then map_get (p_curs s) (c_id (p_cur s c)) else None) with
    | Some _ => Ok (set_actor (close_cur s c) r AIdle, RInsRefused)
    | None =>
      let '(e, rs1) := rs_take (p_rs s) in
      let s1 := set_val (set_rs s rs1) e {| h_busy := true; h_cur := Some c; h_exp := p_now s + p_busyto s |} in
      let s2 := set_rs s1 (rs_push_busy (p_rs s1) e) in
      let s3 := set_curs s2 (map_set (p_curs s2) (c_id (p_cur s2 c)) e) in
      Ok (set_actor s3 r (AHold c), RInserted)
    end
  | _ => Ok (s, RNone)
  end.

(* the request reads k records: the iterators advance *)
Definition use (s : prov) (r : nat) (k : N) : outcome (prov * res) :=
  match act_get (p_act s) r with
  | AHold c =>
    let cu := p_cur s c in
    Ok (set_cursor s c (with_pos cu (c_spos cu) (if c_live cu then (c_ipos cu + k) mod pos_mod else c_ipos cu)%N), RDone)
  | AHoldEmpty => Ok (s, RDone)
  | _ => Ok (s, RNone)
  end.

(* Release. With `own`: a cache entry whose holder carries another cursor than the released one (this one
   was never cached, or the sweeper dropped it while it was busy and the id was cached again) counts as
   "not in the cache": the released cursor is closed, the entry is not touched *)
Definition owned (own : bool) (s : prov) (c : nat) (e : nat) : bool :=
  if own then match h_cur (p_vals s e) with Some c' => Nat.eqb c' c | None => false end else true.
Definition release (own : bool) (s : prov) (r : nat) : outcome (prov * res) :=
  match act_get (p_act s) r with
  | AHoldEmpty => Ok (set_actor s r AIdle, RReleased 0 PHead)
  | AHold c =>
    let cu := commit (p_cur s c) in
    let s1 := set_cursor s c cu in
    let closed := Ok (set_actor (close_cur s1 c) r AIdle, RReleased 0 (c_spos cu)) in
    match map_get (p_curs s1) (c_id cu) with
    | None => closed
    | Some e =>
      if negb (owned own s1 c e) then closed
      else if negb (h_busy (p_vals s1 e)) then Panic        (* "releasing cursor, which is not busy" *)
      else Ok (set_actor (touch s1 e false (p_now s1 + p_idle s1)) r AIdle, RReleased (c_id cu) (c_spos cu))
    end
  | _ => Ok (s, RNone)
  end.

(* sweepBySize (provider.go:205-221); every round takes one element out of the ring, so
   fuel = number of allocated elements + 1 is never exhausted *)
Fixpoint sweep_size_loop (fuel : nat) (s : prov) : outcome prov :=
  if Nat.leb (length (p_curs s)) (p_max s) then Ok s else
  match fuel with
  | O => OutOfFuel
  | S f =>
    match r_busy (p_rs s) with
    | None => Panic                                          (* p.busy.Prev() on nil *)
    | Some hd =>
      let e := cl_prev_of (r_links (p_rs s)) hd in
      let ch := p_vals s e in
      match h_cur ch with
      | None => Panic                                        (* ch.cur.close() / ch.cur.Id() on nil *)
      | Some c =>
        let s1 := if h_busy ch then s else close_cur s c in
        let s2 := set_curs s1 (map_del (p_curs s1) (c_id (p_cur s1 c))) in
        let s3 := clear_cur s2 e in
        sweep_size_loop f (set_rs s3 (rs_remove (p_rs s3) e))
      end
    end
  end.
Definition sweep_size (s : prov) : outcome prov := sweep_size_loop (S (r_nelem (p_rs s))) s.

(* sweepByTime (provider.go:223-255) *)
Fixpoint sweep_time_loop (cnt : nat) (e0 : nat) (s : prov) : outcome prov :=
  match cnt with
  | O => Ok s
  | S cnt' =>
    let e := cl_prev_of (r_links (p_rs s)) e0 in             (* e = e.Prev() *)
    let ch := p_vals s e in
    if Z.ltb (h_exp ch) (p_now s) then                       (* ch.expTime.Before(now) *)
      match h_cur ch with
      | None => Panic
      | Some c =>
        let s1 := if h_busy ch then s else close_cur s c in
        let e1 := cl_next_of (r_links (p_rs s1)) e in        (* e1 := e.Next() -- returns prev *)
        let s2 := set_rs s1 (rs_remove (p_rs s1) e) in       (* p.busy = p.busy.TearOff(e) *)
        let s3 := set_curs s2 (map_del (p_curs s2) (c_id (p_cur s2 c))) in
        let s4 := clear_cur s3 e in                          (* ch.cur = nil *)
        let s5 := set_rs s4 (rs_push_free (p_rs s4) e) in
        sweep_time_loop cnt' e1 s5                           (* e = e1 *)
      end
    else if negb (h_busy ch) then Ok s
    else sweep_time_loop cnt' e s
  end.
Definition sweep_time (s : prov) : outcome prov :=
  match r_busy (p_rs s) with
  | None => Ok s
  | Some hd => sweep_time_loop (length (p_curs s)) hd s
  end.

Definition lift (o : outcome prov) : outcome (prov * res) :=
  match o with Ok s => Ok (s, RDone) | Err => Err | Panic => Panic | OutOfFuel => OutOfFuel end.

(* Shutdown: close(clsdCh) stops the sweeper; with `ev` the whole cache is then evicted under p.lock:
   mc := p.maxCurs; p.maxCurs = 0; p.sweepBySize(); p.maxCurs = mc *)
Definition shutdown (ev : bool) (s : prov) : outcome prov :=
  if ev then
    match sweep_size (set_max s 0) with
    | Ok s' => Ok (set_max s' (p_max s))
    | o => o
    end
  else Ok s.

Definition step (v : variant) (s : prov) (o : op) : outcome (prov * res) :=
  match o with
  | OLookup r id cache q qr p fresh => get_lookup (v_droppos v) s r id cache q qr p fresh
  | OCreate r => get_create s r
  | OInsert r => get_insert (v_owner v) s r
  | OUse r k => use s r k
  | ORelease r => release (v_owner v) s r
  | OSweepSize => lift (sweep_size s)
  | OSweepTime => lift (sweep_time s)
  | OTick d => Ok (set_now s (p_now s + d), RDone)
  | OShutdown => lift (shutdown (v_evict v) s)
  end.

Definition init (max : nat) (idle busyto : Z) : prov :=
  {| p_rs := {| r_links := fun a => {| cl_prev := a; cl_next := a |}; r_busy := None; r_free := None; r_freesz := 0%Z; r_nelem := 0 |};
     p_vals := fun _ => hldr0; p_curs := []; p_max := max; p_idle := idle; p_busyto := busyto; p_now := 0%Z;
     p_cur := fun _ => cursor0; p_ncur := 0; p_acq := fun _ => 0%Z; p_act := [] |}.

(* run a history; stops at the first panic (the server process is gone) *)
Fixpoint run (v : variant) (s : prov) (ops : list op) : prov * list res * outcome unit :=
  match ops with
  | [] => (s, [], Ok tt)
  | o :: t =>
    match step v s o with
    | Ok (s', r) => let '(sf, rs, oc) := run v s' t in (sf, r :: rs, oc)
    | Err => (s, [], Err)
    | Panic => (s, [], Panic)
    | OutOfFuel => (s, [], OutOfFuel)
    end
  end.

(* ---- the client discipline (no theorem of props/C15.v assumes it any more: since the repairs the code is proved
   for all histories; it classifies the histories the correspondence check runs, and K compares the
   classification with the harness's own): an id that is already in flight (a request with it has been
   looked up and not yet released) is only requested again while its cursor sits in the cache marked
   busy -- that request is refused and changes nothing. What the discipline excludes is a second request
   with the id while the first is between its failed lookup and its insertion, holds an uncached cursor,
   or holds a cursor the sweeper has orphaned (expired or evicted while busy) -- the histories on which
   `old_variant` fails. `fresh` (utils.NextSimpleId) is a new non-zero id. ---- *)
Definition aid (s : prov) (a : astate) : option N :=
  match a with
  | AMiss id _ _ _ _ => Some id
  | ACreated c | AHold c => Some (c_id (p_cur s c))
  | _ => None
  end.
Definition inflight (s : prov) : list N :=
  flat_map (fun ra => match aid s (snd ra) with Some i => [i] | None => [] end) (p_act s).
Definition mem_N (x : N) (l : list N) : bool := existsb (N.eqb x) l.

Definition guard (s : prov) (o : op) : bool :=
  match o with
  | OLookup r id cache q qr p fresh =>
      match act_get (p_act s) r with
      | AIdle =>
        (N.eqb id 0 || negb (mem_N id (inflight s))
         || match map_get (p_curs s) id with Some e => h_busy (p_vals s e) | None => false end)
        && negb (N.eqb fresh 0) && negb (mem_N fresh (inflight s))
        && match map_get (p_curs s) fresh with None => true | Some _ => false end
      | _ => true
      end
  | OTick d => Z.leb 0 d
  | _ => true
  end.

(* a history all of whose steps respect the discipline *)
Fixpoint disciplined (v : variant) (s : prov) (ops : list op) : bool :=
  match ops with
  | [] => true
  | o :: t => guard s o && match step v s o with Ok (s', _) => disciplined v s' t | _ => true end
  end.

(* the clock does not go backwards (time.Now carries a monotonic reading; expTime.Before(now) compares those) *)
Definition clock_monotone (ops : list op) : bool :=
  forallb (fun o => match o with OTick d => Z.leb 0 d | _ => true end) ops.

(* ---- observations (the projection compared with the implementation) ---- *)
Fixpoint insert_N (x : N) (l : list N) : list N :=
  match l with [] => [x] | y :: t => if N.leb x y then x :: l else y :: insert_N x t end.
Definition sort_N (l : list N) : list N := fold_right insert_N [] l.
Definition cached_ids (s : prov) : list N := sort_N (map fst (p_curs s)).
Definition rel_counts (s : prov) : list nat := map (fun c => c_rels (p_cur s c)) (seq 0 (p_ncur s)).
Definition acq_counts (s : prov) (np : nat) : list Z := map (fun p => p_acq s (N.of_nat p)) (seq 0 np).

Definition reachable (s : prov) (c : nat) : Prop :=
  (exists r, act_get (p_act s) r = ACreated c \/ act_get (p_act s) r = AHold c) \/
  (exists k e, map_get (p_curs s) k = Some e /\ h_cur (p_vals s e) = Some c).
Definition quiescent (s : prov) : Prop := p_act s = [].
