(* Model of /repo/pkg/model/field/field.go: NewFieldsFromKVString (text -> length-prefixed binary list) and
   Fields.AsKVString (binary list -> text).  strconv.Quote/Unquote are oracles.  Definitions only. *)
From LR Require Export lib.Base model.KV model.Tags.

(* byte(len(v)) *)
Definition len_byte (v : bytes) : byte :=
  match Byte.of_N (N.of_nat (length v) mod 256) with Some b => b | None => x00 end.
Definition enc_item (v : bytes) : bytes := len_byte v :: v.
(* the binary form of a list of strings name1, value1, name2, value2, ... *)
Definition enc_fields (items : list bytes) : bytes := concat (map enc_item items).

(* AsKVString: a value is passed through strconv.Quote iff it holds ',' or '=' (names never) *)
Definition fld_needs_quote (v : bytes) : bool := has COMMA v || has EQ v.

Section WithOracles.
  Variable quote : bytes -> bytes.
  Variable unquote : bytes -> option bytes.

  (* the loop of NewFieldsFromKVString over the pieces; [even] = the piece is a name *)
  Fixpoint fld_items (l : list bytes) (even : bool) : outcome bytes :=
    match l with
    | [] => Ok []
    | p :: tl =>
        if Nat.ltb 255 (length p) then Err
        else let v := trim p in
             if is_nil v && even then Err
             else match unq unquote v with
                  | Ok v' => match fld_items tl (negb even) with Ok r => Ok (enc_item v' ++ r) | o => o end
                  | _ => Err
                  end
    end.

  Definition fields_of_kv (s : bytes) : outcome bytes :=
    match remove_curly s with
    | Ok [] => Ok []
    | Ok fine => match split_string fine with
                 | Ok l => if Nat.odd (length l) then Err else fld_items l true
                 | _ => Err
                 end
    | _ => Err
    end.

  Definition fld_val (v : bytes) : bytes := if fld_needs_quote v then quote v else v.

  (* the loop of AsKVString over the binary form; slicing past the end panics.  [first] = idx == 0 *)
  Fixpoint as_kv_go (fuel : nat) (f : bytes) (even first : bool) : outcome bytes :=
    match f with
    | [] => Ok []
    | c :: tl =>
        match fuel with
        | O => OutOfFuel
        | S fuel' =>
            let n := N.to_nat (Byte.to_N c) in
            if Nat.ltb (length tl) n then Panic
            else let item := firstn n tl in
                 match as_kv_go fuel' (skipn n tl) (negb even) false with
                 | Ok r => Ok ((if even then (if first then [] else [COMMA]) ++ item ++ [EQ] else fld_val item) ++ r)
                 | o => o
                 end
        end
    end.
  Definition as_kv (f : bytes) : outcome bytes := as_kv_go (length f) f true true.
End WithOracles.

(* decoding of the binary form into its strings (None: not well-formed) *)
Fixpoint dec_fields_go (fuel : nat) (f : bytes) : option (list bytes) :=
  match f with
  | [] => Some []
  | c :: tl =>
      match fuel with
      | O => None
      | S fuel' =>
          let n := N.to_nat (Byte.to_N c) in
          if Nat.ltb (length tl) n then None
          else match dec_fields_go fuel' (skipn n tl) with Some r => Some (firstn n tl :: r) | None => None end
      end
  end.
Definition dec_fields (f : bytes) : option (list bytes) := dec_fields_go (length f) f.

Fixpoint pairs_up (l : list bytes) : option (list (bytes * bytes)) :=
  match l with
  | [] => Some []
  | [_] => None
  | k :: v :: tl => match pairs_up tl with Some r => Some ((k, v) :: r) | None => None end
  end.

(* ---- the class of field lists on which print-then-parse is the identity ---- *)
Definition le255 (v : bytes) : bool := Nat.leb (length v) 255.
(* names are printed raw and the parser unquotes names too *)
Definition fname_ok (k : bytes) : bool := name_ok k && negb (starts_quoted k) && le255 k.
Section Safe.
  Variable quote : bytes -> bytes.
  Definition fvalue_safe (v : bytes) : bool :=
    le255 v && (if fld_needs_quote v then le255 (quote v) else raw_value_ok v).
  Definition fpair_safe (kv : bytes * bytes) : bool := fname_ok (fst kv) && fvalue_safe (snd kv).
  Definition fld_edges_ok (l : list (bytes * bytes)) : bool :=
    match l with
    | [] => true
    | (k, _) :: _ => negb (first_is LBR k) &&
                     (let v := snd (last l ([], [])) in fld_needs_quote v || negb (last_is RBR v))
    end.
  Definition fpairs_safe (l : list (bytes * bytes)) : bool := forallb fpair_safe l && fld_edges_ok l.
  Definition fields_safe (f : bytes) : bool :=
    match dec_fields f with
    | Some items => match pairs_up items with Some l => fpairs_safe l | None => false end
    | None => false
    end.
End Safe.
