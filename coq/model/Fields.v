(* Model of /repo/pkg/model/field/field.go: NewFieldsFromKVString (text -> length-prefixed binary list) and
   Fields.AsKVString (binary list -> text).  strconv.Quote/Unquote are oracles.  Definitions only. *)
From LR Require Export lib.Base model.KV model.Tags.

(* byte(len(v)) *)
Definition len_byte (v : bytes) : byte :=
  match Byte.of_N (N.of_nat (length v) mod 256) with Some b => b | None => x00 end.
Definition enc_item (v : bytes) : bytes := len_byte v :: v.
(* the binary form of a list of strings name1, value1, name2, value2, ... *)
Definition enc_fields (items : list bytes) : bytes := concat (map enc_item items).

(* AsKVString: which names and values are passed through strconv.Quote.
   kvNeedsQuote(s, name, edge) of the code: an empty name; a string holding ',' '=' or a double quote (the splitter
   treats them specially); a blank at an end (trimmed by the parser); a leading back quote (the parser would unquote
   it); '{' at the beginning of the first name and '}' at the end of the last value of the text ([edge]).
   The earlier AsKVString quoted a value iff it held ',' or '=', and never a name. *)
Definition kv_needs_quote (name edge : bool) (s : bytes) : bool :=
  match s with
  | [] => name
  | _ :: _ => has COMMA s || has EQ s || has QUOTE s || first_is SP s || last_is SP s || first_is BQ s ||
              (edge && (if name then first_is LBR s else last_is RBR s))
  end.
Definition fld_needs_quote_v (fx name edge : bool) (s : bytes) : bool :=
  if fx then kv_needs_quote name edge s else negb name && (has COMMA s || has EQ s).

(* the variants on the tree: AsKVString quotes with kvNeedsQuote; NewFieldsFromKVString applies the 255-byte limit
   to what it stores (after TrimSpaces/Unquote) instead of to the raw piece *)
Definition code_fields_quote : bool := true.
Definition code_fields_limit_stored : bool := true.

Section WithOracles.
  Variable fxq fxl : bool.
  Variable quote : bytes -> bytes.
  Variable unquote : bytes -> option bytes.

  (* the loop of NewFieldsFromKVString over the pieces; [even] = the piece is a name.
     [fxl] = false: `if len(v) > 255` on the raw piece at the top of the loop (the earlier code);
     [fxl] = true: the same test on the string that is stored, just before byte(len(v)) is written *)
  Fixpoint fld_items_v (l : list bytes) (even : bool) : outcome bytes :=
    match l with
    | [] => Ok []
    | p :: tl =>
        if negb fxl && Nat.ltb 255 (length p) then Err
        else let v := trim p in
             if is_nil v && even then Err
             else match unq unquote v with
                  | Ok v' => if fxl && Nat.ltb 255 (length v') then Err
                             else match fld_items_v tl (negb even) with Ok r => Ok (enc_item v' ++ r) | o => o end
                  | _ => Err
                  end
    end.

  Definition fields_of_kv_v (s : bytes) : outcome bytes :=
    match remove_curly s with
    | Ok [] => Ok []
    | Ok fine => match split_string fine with
                 | Ok l => if Nat.odd (length l) then Err else fld_items_v l true
                 | _ => Err
                 end
    | _ => Err
    end.

  Definition fld_item_v (name edge : bool) (s : bytes) : bytes := if fld_needs_quote_v fxq name edge s then quote s else s.

  (* the loop of AsKVString over the binary form; slicing past the end panics.  [first] = idx == 0; a value is the
     last of the text iff idx+n+1 == len(f), i.e. nothing follows it *)
  Fixpoint as_kv_go_v (fuel : nat) (f : bytes) (even first : bool) : outcome bytes :=
    match f with
    | [] => Ok []
    | c :: tl =>
        match fuel with
        | O => OutOfFuel
        | S fuel' =>
            let n := N.to_nat (Byte.to_N c) in
            if Nat.ltb (length tl) n then Panic
            else let item := firstn n tl in
                 let rest := skipn n tl in
                 match as_kv_go_v fuel' rest (negb even) false with
                 | Ok r => Ok ((if even then (if first then [] else [COMMA]) ++ fld_item_v true first item ++ [EQ]
                                else fld_item_v false (is_nil rest) item) ++ r)
                 | o => o
                 end
        end
    end.
  Definition as_kv_v (f : bytes) : outcome bytes := as_kv_go_v (length f) f true true.
End WithOracles.

(* the code *)
Definition fld_items := fld_items_v code_fields_limit_stored.
Definition fields_of_kv := fields_of_kv_v code_fields_limit_stored.
Definition fld_item := fld_item_v code_fields_quote.
Definition as_kv_go := as_kv_go_v code_fields_quote.
Definition as_kv := as_kv_v code_fields_quote.

(* decoding of the binary form into its strings (None: not well-formed) *)
Fixpoint dec_fields_go (fuel : nat) (f : bytes) : option (list bytes) :=
  match f with
  | [] => Some []
  | c :: tl =>
      match fuel with
      | O => None
      | S fuel' =>
          let n := N.to_nat (Byte.to_N c) in
          if Nat.ltb (length tl) n then None
          else match dec_fields_go fuel' (skipn n tl) with Some r => Some (firstn n tl :: r) | None => None end
      end
  end.
Definition dec_fields (f : bytes) : option (list bytes) := dec_fields_go (length f) f.

Fixpoint pairs_up (l : list bytes) : option (list (bytes * bytes)) :=
  match l with
  | [] => Some []
  | [_] => None
  | k :: v :: tl => match pairs_up tl with Some r => Some ((k, v) :: r) | None => None end
  end.

(* ---- the field lists on which print-then-parse is the identity: every well-formed one, i.e. the binary form of
   an even number of strings (each of them at most 255 bytes long, as its length byte says) ---- *)
Definition le255 (v : bytes) : bool := Nat.leb (length v) 255.
Definition fields_wf (f : bytes) : bool :=
  match dec_fields f with
  | Some items => match pairs_up items with Some _ => true | None => false end
  | None => false
  end.

(* ---- the pipe worker (pkg/pipe/worker.go run + siterator.Get) and the {vars} element of the formatter ---- *)
(* field.Parse: an error becomes the empty field list *)
Definition field_parse (unquote : bytes -> option bytes) (s : bytes) : bytes :=
  match fields_of_kv unquote s with Ok f => f | _ => [] end.
(* what the destination partition of a pipe holds for an event with the field list [own], copied from the partition
   with the tag set m: le.Fields.Concat(extFlds) with extFlds = field.Parse(srcTags line) -- the event's own fields
   first (Fields.Value answers with the first field of a name: own fields win), then the provenance fields *)
Definition pipe_fields (quote : bytes -> bytes) (unquote : bytes -> option bytes) (own : bytes) (m : kvmap) : bytes :=
  own ++ field_parse unquote (line quote m).
(* FormatParser.FormatStr for the element {vars}: the tag line as it was handed in and, unless the field list is
   empty, ',' and Fields.AsKVString() *)
Definition vars_text (quote : bytes -> bytes) (tl f : bytes) : outcome bytes :=
  match f with
  | [] => Ok tl
  | _ :: _ => match as_kv quote f with Ok t => Ok (tl ++ COMMA :: t) | o => o end
  end.
