(* The forwarder's supervisor (pkg/forwarder/forwarder.go): descriptors, the worker map, sync = Config.Reload +
   toDescs + mergeDescs + syncWorkers, persistState / loadState.  Worker names and worker configurations are numbers
   (two configurations are equal iff reflect.DeepEqual says so); a descriptor object has an identity (mergeDescs keeps
   the OLD object when the configuration is unchanged, a worker is compared with `d != w.desc`).

   A worker is: the descriptor object it delivers for, worker.state (0 running, 1 stopping, 2 stopped) and whether its
   goroutine still runs.  [marks] = the start failure path of worker.run stores wsStopped (the repaired code); with
   [marks = false] (the code before the repair) run returned the error of getPipe and left the state at running. *)
From LR Require Import lib.Base.

Record sdesc := mkD { sd_id : nat; sd_cfg : nat; sd_pos : nat }.
Record sworker := mkW { sw_desc : nat; sw_state : nat; sw_alive : bool }.

Record sup := mkSup {
  descs : list (nat * sdesc);       (* name -> descriptor the forwarder holds (what persistState writes) *)
  wmap : list (nat * sworker);      (* the worker map *)
  retired : list (nat * sworker);   (* workers that were dropped from / replaced in the map *)
  cfg : list (nat * nat);           (* Config.Workers: name -> configuration, names distinct *)
  stored : list (nat * (nat * nat));(* forwarder.json: name -> (configuration, position) *)
  next_id : nat
}.

Fixpoint lookup {A} (n : nat) (l : list (nat * A)) : option A :=
  match l with
  | [] => None
  | (k, v) :: tl => if Nat.eqb k n then Some v else lookup n tl
  end.

Definition code_marks_failed_start : bool := true.

(* mergeDescs old (toDescs cfg): per configured name the old object when its configuration is equal, else a new object
   at position "" *)
Fixpoint merge_descs (old : list (nat * sdesc)) (c : list (nat * nat)) (next : nat) : list (nat * sdesc) * nat :=
  match c with
  | [] => ([], next)
  | (n, k) :: tl =>
      match lookup n old with
      | Some od =>
          if Nat.eqb (sd_cfg od) k
          then let '(r, nx) := merge_descs old tl next in ((n, od) :: r, nx)
          else let '(r, nx) := merge_descs old tl (S next) in ((n, mkD next k 0) :: r, nx)
      | None => let '(r, nx) := merge_descs old tl (S next) in ((n, mkD next k 0) :: r, nx)
      end
  end.

Definition stop_gracefully (w : sworker) : sworker :=
  if Nat.eqb (sw_state w) 0 then mkW (sw_desc w) 1 (sw_alive w) else w.

(* first loop of syncWorkers: over the merged descriptors.  [nosink]: the names for which sink.NewSink fails in this
   round (runWorker returns the error: "Failed to run worker", `continue`): no worker is started, the name gets no
   entry, a stopped old worker of that name is dropped by the second loop *)
Definition in_names (n : nat) (l : list nat) : bool := existsb (Nat.eqb n) l.
Fixpoint sync_new (nosink : list nat) (ds : list (nat * sdesc)) (old : list (nat * sworker)) : list (nat * sworker) * list (nat * sworker) :=
  match ds with
  | [] => ([], [])
  | (n, d) :: tl =>
      let '(ws, ret) := sync_new nosink tl old in
      match lookup n old with
      | Some w =>
          let w1 := if Nat.eqb (sd_id d) (sw_desc w) then w else stop_gracefully w in
          if Nat.eqb (sw_state w1) 2
          then (if in_names n nosink then (ws, (n, w1) :: ret)
                else ((n, mkW (sd_id d) 0 true) :: ws, (n, w1) :: ret))   (* stopped: a new worker takes its place *)
          else ((n, w1) :: ws, ret)
      | None => if in_names n nosink then (ws, ret) else ((n, mkW (sd_id d) 0 true) :: ws, ret)
      end
  end.

(* second loop: workers whose name is no longer configured *)
Fixpoint sync_deleted (old : list (nat * sworker)) (ds : list (nat * sdesc)) : list (nat * sworker) * list (nat * sworker) :=
  match old with
  | [] => ([], [])
  | (n, w) :: tl =>
      let '(ws, ret) := sync_deleted tl ds in
      match lookup n ds with
      | Some _ => (ws, ret)
      | None => if Nat.eqb (sw_state w) 2 then (ws, (n, w) :: ret) else ((n, stop_gracefully w) :: ws, ret)
      end
  end.

Definition do_sync_f (nosink : list nat) (s : sup) : sup :=
  let '(md, nx) := merge_descs (descs s) (cfg s) (next_id s) in
  let '(w1, r1) := sync_new nosink md (wmap s) in
  let '(w2, r2) := sync_deleted (wmap s) md in
  mkSup md (w1 ++ w2) (r1 ++ r2 ++ retired s) (cfg s) (stored s) nx.
Definition do_sync (s : sup) : sup := do_sync_f [] s.

Fixpoint upd {A} (n : nat) (f : A -> A) (l : list (nat * A)) : list (nat * A) :=
  match l with
  | [] => []
  | (k, v) :: tl => if Nat.eqb k n then (k, f v) :: tl else (k, v) :: upd n f tl
  end.

Inductive sev :=
| SSync (newcfg : option (list (nat * nat))) (nosink : list nat)
    (* one tick of runSyncWorkers: Reload (Some = a new configuration) + sync; sink.NewSink fails for [nosink] *)
| SExit (n : nat)                              (* the stopping worker in the map under n sees the flag at its loop head *)
| SStartFail (n : nat)                         (* getPipe of the running worker under n fails: run returns *)
| SDeliver (n : nat) (k : nat)                 (* the running worker under n commits k more events to ITS descriptor *)
| SPersist
| SRestart (newcfg : list (nat * nat)) (nosink : list nat).   (* the process ends; NewForwarder + init: loadState, sync *)

Definition bump (id k : nat) (ds : list (nat * sdesc)) : list (nat * sdesc) :=
  map (fun '(n, d) => if Nat.eqb (sd_id d) id then (n, mkD (sd_id d) (sd_cfg d) (sd_pos d + k)) else (n, d)) ds.

Fixpoint load_descs (st : list (nat * (nat * nat))) (next : nat) : list (nat * sdesc) * nat :=
  match st with
  | [] => ([], next)
  | (n, (k, p)) :: tl => let '(r, nx) := load_descs tl (S next) in ((n, mkD next k p) :: r, nx)
  end.

Definition sstep (marks : bool) (s : sup) (e : sev) : sup :=
  match e with
  | SSync nc nosink =>
      let s1 := match nc with Some c => mkSup (descs s) (wmap s) (retired s) c (stored s) (next_id s) | None => s end in
      do_sync_f nosink s1
  | SExit n =>
      mkSup (descs s) (upd n (fun w => if Nat.eqb (sw_state w) 1 then mkW (sw_desc w) 2 false else w) (wmap s))
            (retired s) (cfg s) (stored s) (next_id s)
  | SStartFail n =>
      mkSup (descs s) (upd n (fun w => if Nat.eqb (sw_state w) 2 then w else
                                        if marks then mkW (sw_desc w) 2 false else mkW (sw_desc w) (sw_state w) false) (wmap s))
            (retired s) (cfg s) (stored s) (next_id s)
  | SDeliver n k =>
      match lookup n (wmap s) with
      | Some w => if sw_alive w && negb (Nat.eqb (sw_state w) 2)
                  then mkSup (bump (sw_desc w) k (descs s)) (wmap s) (retired s) (cfg s) (stored s) (next_id s) else s
      | None => s
      end
  | SPersist => mkSup (descs s) (wmap s) (retired s) (cfg s) (map (fun '(n, d) => (n, (sd_cfg d, sd_pos d))) (descs s)) (next_id s)
  | SRestart c ns =>
      let '(ld, nx) := load_descs (stored s) (next_id s) in
      do_sync_f ns (mkSup ld [] [] c (stored s) nx)
  end.

Definition srun (marks : bool) (evs : list sev) (s : sup) : sup := fold_left (sstep marks) evs s.
Definition sup0_f (ns : list nat) (c : list (nat * nat)) : sup := do_sync_f ns (mkSup [] [] [] c [] 0).
Definition sup0 (c : list (nat * nat)) : sup := sup0_f [] c.

(* what the harness sees of a state: per name of the worker map (state, the worker's descriptor is the forwarder's,
   position of the worker's descriptor when current), and the positions of the descriptors *)
Definition view_workers (s : sup) : list (nat * (nat * bool)) :=
  map (fun '(n, w) => (n, (sw_state w, match lookup n (descs s) with Some d => Nat.eqb (sd_id d) (sw_desc w) | None => false end))) (wmap s).
Definition view_descs (s : sup) : list (nat * (nat * nat)) := map (fun '(n, d) => (n, (sd_cfg d, sd_pos d))) (descs s).

Definition live (w : sworker) : bool := sw_alive w && negb (Nat.eqb (sw_state w) 2).
