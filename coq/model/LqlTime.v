(* LqlTime: pkg/lql/datetime.go — parseLqlDateTime: trim blanks, lower-case, then relative literal,
   named constant, the format list, integer nanoseconds, in this order.
   Definitions only; lemmas are in proofs/LqlTimeP.v. *)
From LR Require Import lib.Base model.GoTime model.Regex model.DateFmt.
From Coq Require Import Strings.String.
Open Scope bool_scope.
Open Scope Z_scope.

Definition trim_sp (s : bytes) : bytes := rev (cut_sp (rev (cut_sp s))).

Definition wrap64 (z : Z) : Z := (z + 2 ^ 63) mod 2 ^ 64 - 2 ^ 63.
Definition in_int64 (z : Z) : bool := (- 2 ^ 63 <=? z) && (z <? 2 ^ 63).

(* ---- decimal text of an int64 (strconv.FormatInt(v, 10)) and strconv.ParseInt(s, 10, 64) ---- *)
Fixpoint digits_fuel (fuel : nat) (n : Z) (acc : bytes) : bytes :=
  match fuel with
  | O => acc
  | S f => let acc' := digit_byte (n mod 10) :: acc in
           if n <? 10 then acc' else digits_fuel f (n / 10) acc'
  end.
Definition format_nat (n : Z) : bytes := digits_fuel 20 n [].
Definition format_int (v : Z) : bytes := if v <? 0 then x2d :: format_nat (- v) else format_nat v.

Definition parse_int64 (s : bytes) : option Z :=
  let '(neg, ds) := match s with
                    | x2d :: tl => (true, tl)
                    | x2b :: tl => (false, tl)
                    | _ => (false, s)
                    end in
  match ds with
  | [] => None
  | _ => match digits_val 0 ds with
         | Some n => let v := if neg then - n else n in if in_int64 v then Some v else None
         | None => None
         end
  end.

(* ---- relative literals: -<number>(m|h|d) ---- *)

(* the decimal forms of strconv.ParseFloat: [+-] digits [. digits] | [+-] . digits  (no exponent, inf,
   nan, hexadecimal or underscores: those are outside the model); value = mantissa / 10^scale *)
Definition parse_dec (s : bytes) : option (Z * nat) :=
  let '(neg, r) := match s with
                   | x2d :: tl => (true, tl)
                   | x2b :: tl => (false, tl)
                   | _ => (false, s)
                   end in
  let '(ip, r1) := span_digits r in
  let '(fp, r2) := match r1 with
                   | x2e :: tl => span_digits tl
                   | _ => ([], r1)
                   end in
  match r2, ip ++ fp with
  | [], _ :: _ =>
      match digits_val 0 (ip ++ fp) with
      | Some m => Some (if neg then - m else m, List.length fp)
      | None => None
      end
  | _, _ => None
  end.

Definition unit_nanos (b : byte) : option Z :=
  if byte_eqb b x6d then Some 60000000000
  else if byte_eqb b x68 then Some 3600000000000
  else if byte_eqb b x64 then Some 86400000000000
  else None.

(* time.Duration(val * mult) over exact rationals: truncation toward zero *)
Definition rel_duration (m : Z) (scale : nat) (mult : Z) : Z := Z.quot (m * mult) (10 ^ Z.of_nat scale).

Definition parse_relative (dt : bytes) : option Z :=
  match dt with
  | x2d :: tl =>
      match rev tl with
      | u :: mid_rev => match unit_nanos u, parse_dec (rev mid_rev) with
                        | Some mult, Some (m, sc) => Some (rel_duration m sc mult)
                        | _, _ => None
                        end
      | [] => None     (* "-": the dimension would be '-' itself *)
      end
  | _ => None
  end.

Definition const_names : list string := ["minute"; "hour"; "day"; "week"]%string.
Fixpoint index_of (dt : bytes) (l : list string) (i : nat) : option nat :=
  match l with
  | [] => None
  | s :: tl => if bytes_eqb (B s) dt then Some i else index_of dt tl (S i)
  end.

Inductive lres :=
| LAbs (nanos : Z)        (* an absolute instant: DateTime(tm.UnixNano()) *)
| LRel (dur : Z)          (* time.Now().Add(-dur) *)
| LConst (k : nat)        (* minute / hour / day / week, relative to time.Now() *)
| LErr.

(* [lower_abs] = the format list sees the lower-cased literal (the code before the fix of parseLqlDateTime);
   false = it sees the literal as written (trimmed), only the relative form and the constants are case-insensitive *)
Definition lql_parse_v (lower_abs : bool) (now : now_t) (fs : list (option cfmt)) (lit : bytes) : lres :=
  let dts := trim_sp lit in
  let dt := to_lower dts in
  match parse_relative dt with
  | Some d => LRel d
  | None =>
      match index_of dt const_names 0 with
      | Some k => LConst k
      | None =>
          match parse_all now fs (if lower_abs then dt else dts) with
          | Some (_, (s, ns)) => LAbs (wrap64 (s * 1000000000 + ns))
          | None => match parse_int64 dt with
                    | Some v => LAbs v
                    | None => LErr
                    end
          end
      end
  end.

Definition code_lowers_absolute : bool := false.
Definition lql_parse := lql_parse_v code_lowers_absolute.

(* the instant a relative literal denotes at a given `now` (Unix nanoseconds) *)
Definition rel_instant (now_ns : Z) (dur : Z) : Z := now_ns - dur.

(* ---- named constants (parseConstantsDateTime): the instant at a given `now` (Unix nanoseconds, time.Local = UTC) ----
   minute: now minus the seconds of the current minute (the nanoseconds stay: now.Add(-s * time.Second));
   hour / day / week: the start of the current hour / day / week (Sunday 00:00), to the nanosecond. *)
Definition const_instant (k : nat) (now_ns : Z) : Z :=
  let s := now_ns / 1000000000 in
  let ns := now_ns mod 1000000000 in
  match k with
  | 0%nat => now_ns - (s mod 60) * 1000000000
  | 1%nat => now_ns - (s mod 3600) * 1000000000 - ns
  | 2%nat => now_ns - (s mod 86400) * 1000000000 - ns
  | _ => now_ns - (s mod 86400 + 86400 * weekday_of_days (s / 86400)) * 1000000000 - ns
  end.
(* the length of the period the constant names, in nanoseconds *)
Definition const_period (k : nat) : Z :=
  match k with
  | 0%nat => 60000000000 | 1%nat => 3600000000000 | 2%nat => 86400000000000 | _ => 604800000000000
  end.

(* what can be said about the constant when the clock was somewhere in [lo, hi] (`minute` keeps the clock's nanoseconds) *)
Definition const_lo (k : nat) (lo : Z) : Z :=
  match k with
  | 0%nat => (lo / 1000000000 - (lo / 1000000000) mod 60) * 1000000000
  | _ => const_instant k lo
  end.
Definition const_hi (k : nat) (hi : Z) : Z :=
  match k with
  | 0%nat => (hi / 1000000000 - (hi / 1000000000) mod 60) * 1000000000 + 999999999
  | _ => const_instant k hi
  end.
