(* Model of the syslog sink of the forwarder:
     pkg/forwarder/sink/syslog.go  syslogSink.OnEvent  (format and write the events of the batch one by one)
     pkg/syslog/syslog.go          Logger.Write        (connect when there is no connection; write one line;
                                                        on any error close the connection and return the error)
   Definitions only.

   The environment is a script: the connection the logger holds accepts [c_left] more lines and then fails
   (None: it never fails); every connect() consults the next entry of [dials]: Some q = the peer accepts the
   connection, which then accepts q more lines (None: for ever); None = connection refused.  When the script
   of dials is exhausted every further connect is refused.
   What the peer(s) receive is recorded per connection, in the order the connections were made. *)
From LR Require Import lib.Base.

Section Sink.
Variable E : Type.

(* a connection: how many more lines it takes (None = unbounded) *)
Definition quota := option nat.

Record lg := mkLg {
  l_conn : option quota;            (* Logger.conn: nil, or a connection with its remaining quota *)
  l_dials : list (option quota);    (* outcomes of the future connect() calls *)
  l_recv : list (list E)            (* what each connection received so far, newest connection first *)
}.

Definition push (x : E) (r : list (list E)) : list (list E) :=
  match r with
  | [] => [[x]]
  | c :: tl => (c ++ [x]) :: tl
  end.

(* Logger.connect *)
Definition connect (l : lg) : lg * bool :=
  match l_dials l with
  | Some q :: tl => (mkLg (Some q) tl ([] :: l_recv l), true)
  | None :: tl => (mkLg None tl (l_recv l), false)
  | [] => (mkLg None [] (l_recv l), false)
  end.

(* Logger.Write: true = nil error *)
Definition lwrite (l : lg) (x : E) : lg * bool :=
  let '(l1, ok) := match l_conn l with
                   | Some _ => (l, true)
                   | None => connect l
                   end in
  if negb ok then (l1, false) else
  match l_conn l1 with
  | Some (Some O) => (mkLg None (l_dials l1) (l_recv l1), false)            (* the write fails: Close() *)
  | Some (Some (S n)) => (mkLg (Some (Some n)) (l_dials l1) (push x (l_recv l1)), true)
  | Some None => (mkLg (Some None) (l_dials l1) (push x (l_recv l1)), true)
  | None => (l1, false)
  end.

(* syslogSink.OnEvent.  [stop] = the loop returns at the first error (the code); false = it goes on with the rest
   of the batch and returns the last error (a variant kept for the refutation) *)
Fixpoint on_event (stop : bool) (l : lg) (batch : list E) (last_ok : bool) : lg * bool :=
  match batch with
  | [] => (l, last_ok)
  | x :: tl =>
      let '(l1, ok) := lwrite l x in
      if ok then on_event stop l1 tl true
      else if stop then (l1, false) else on_event stop l1 tl false
  end.

Definition code_stops_at_first_error : bool := true.

(* everything the peers received, in the order it was sent *)
Definition received (l : lg) : list E := concat (rev (l_recv l)).

End Sink.
Arguments mkLg {E}.
Arguments l_conn {E}. Arguments l_dials {E}. Arguments l_recv {E}.
Arguments lwrite {E}. Arguments on_event {E}. Arguments received {E}. Arguments connect {E}.
