(* Model of pkg/model/field/field.go: NewFieldsFromKVString / Parse, Check, Fields.Value,
   Fields.AsKVString, Fields.Concat, in checked style (unguarded `f[i]`, `f[a:b]` may Panic).
   strconv.Unquote / strconv.Quote are parameters here (the concrete model of Unquote used by the
   correspondence check and by the refutation witness is model/DecUnquote.v).  Definitions only. *)
From LR Require Import lib.Base lib.DecLib model.DecKV.

Local Open Scope Z_scope.

Section WithQuote.
  (* [fx] = true: the parser of the code, which applies the 255-byte limit to the string it stores (after
     TrimSpaces/Unquote), just before byte(len(v)) is written; [fx] = false: the earlier parser, which applied it to
     the raw piece at the top of the loop (so that a quoted literal could grow past 255 bytes in Unquote) *)
  Variable fx : bool.
  Variable unquote : bytes -> option bytes.
  Variable quote : bytes -> bytes.

  (* the body of `for i, v := range res` in NewFieldsFromKVString; [acc] is the strings.Builder *)
  Fixpoint nf_loop (res : list bytes) (i : nat) (acc : bytes) : outcome bytes :=
    match res with
    | [] => Ok acc
    | v :: tl =>
        if negb fx && (255 <? blen v) then Err else
        v1 <- trim_spaces v ;;
        if (blen v1 =? 0) && Nat.even i then Err else
        v2 <- (if 0 <? blen v1 then
                 c <- at_ v1 0 ;;
                 if byte_eqb c c_dquote || byte_eqb c c_bquote
                 then match unquote v1 with Some u => Ok u | None => Err end
                 else Ok v1
               else Ok v1) ;;
        if fx && (255 <? blen v2) then Err else
        (* sb.WriteByte(byte(len(v))); sb.WriteString(v) *)
        nf_loop tl (S i) (acc ++ b_of_Z (blen v2) :: v2)
    end.

  Definition fields_of_kv (kvs : bytes) : outcome bytes :=
    if blen kvs =? 0 then Ok [] else
    fine <- remove_curly_braces kvs ;;
    if blen fine =? 0 then Ok [] else
    res <- split_string fine c_eq c_comma ;;
    if Nat.odd (length res) then Err else
    nf_loop res 0 [].

  (* field.Parse: errors become the empty field list *)
  Definition fields_parse (kvs : bytes) : outcome bytes :=
    match fields_of_kv kvs with
    | Err => Ok []
    | o => o
    end.

  (* Fields.AsKVString.  kvNeedsQuote(s, name, edge): an empty name; a string holding ',' '=' or a double quote; a
     blank at an end; a leading back quote; with [edge] the opening brace at the beginning of a name / the closing
     brace at the end of a value.  s[0] and s[len(s)-1] are read only when len(s) > 0. *)
  Definition has_sep (v : bytes) : bool := existsb (fun c => byte_eqb c c_comma || byte_eqb c c_eq || byte_eqb c c_dquote) v.
  Definition kv_needs_quote (s : bytes) (name edge : bool) : bool :=
    match s with
    | [] => name
    | c0 :: _ =>
        let cl := last s c0 in
        if has_sep s then true
        else if byte_eqb c0 c_space || byte_eqb cl c_space || byte_eqb c0 c_bquote then true
        else if edge then (name && byte_eqb c0 c_lbrace) || (negb name && byte_eqb cl c_rbrace)
        else false
    end.

  Fixpoint as_kv_go (fuel : nat) (f : bytes) (idx : Z) (even : bool) (sb : bytes) : outcome bytes :=
    match fuel with
    | O => OutOfFuel
    | S fu =>
        if idx <? blen f then
          n <- at_z f idx ;;
          piece <- slice f (idx + 1) (idx + 1 + n) ;;
          let sb' :=
            if even then sb ++ (if 0 <? idx then [c_comma] else []) ++
                         (if kv_needs_quote piece true (idx =? 0) then quote piece else piece) ++ [c_eq]
            else sb ++ (if kv_needs_quote piece false (idx + n + 1 =? blen f) then quote piece else piece) in
          as_kv_go fu f (idx + n + 1) (negb even) sb'
        else Ok sb
    end.
  Definition as_kv (f : bytes) : outcome bytes := as_kv_go (S (length f)) f 0 true [].
End WithQuote.

(* field.Check: walks the length-prefixed entries; error unless the walk ends exactly at len(str) *)
Fixpoint check_go (fuel : nat) (s : bytes) (idx : Z) : outcome Z :=
  match fuel with
  | O => OutOfFuel
  | S f =>
      if idx <? blen s then
        n <- at_z s idx ;;
        check_go f s (idx + n + 1)
      else Ok idx
  end.
Definition check (s : bytes) : outcome unit :=
  idx <- check_go (S (length s)) s 0 ;;
  if idx =? blen s then Ok tt else Err.

(* Fields.Value(name) *)
Fixpoint value_go (fuel : nat) (f name : bytes) (idx : Z) (even : bool) : outcome bytes :=
  match fuel with
  | O => OutOfFuel
  | S fu =>
      if idx <? blen f then
        n <- at_z f idx ;;
        hit <- (if even && (n =? blen name)
                then piece <- slice f (idx + 1) (idx + n + 1) ;; Ok (bytes_eqb piece name)
                else Ok false) ;;
        if hit then
          let idx' := idx + n + 1 in
          n' <- at_z f idx' ;;
          slice f (idx' + 1) (idx' + n' + 1)
        else value_go fu f name (idx + n + 1) (negb even)
      else Ok []
  end.
Definition value (f name : bytes) : outcome bytes := value_go (S (length f)) f name 0 true.

(* Fields.Concat *)
Definition concat (f f1 : bytes) : bytes := f ++ f1.

(* well-formed field list: the concatenation of an even number of length-prefixed entries
   (name, value, name, value ...), every entry at most 255 bytes *)
Fixpoint enc_chunks (l : list bytes) : bytes :=
  match l with
  | [] => []
  | v :: tl => b_of_Z (blen v) :: v ++ enc_chunks tl
  end.
Definition wf_fields (f : bytes) : Prop :=
  exists l, f = enc_chunks l /\ Nat.even (length l) = true /\ Forall (fun v => blen v <= 255) l.

(* executable version: an even number of entries ending exactly at the end *)
Fixpoint wf_go (fuel : nat) (f : bytes) (even : bool) : bool :=
  match fuel with
  | O => false
  | S fu =>
      match f with
      | [] => even
      | b :: tl =>
          let n := Z.to_nat (zb b) in
          if (length tl <? n)%nat then false else wf_go fu (skipn n tl) (negb even)
      end
  end.
Definition wf_fieldsb (f : bytes) : bool := wf_go (S (length f)) f true.
