(* PipeSync — executable model of the pipe synchronisation protocol of /repo/pkg/pipe
   (service.go notificatior/getPipesForSource, ppipe.go onWriteEvent/startWorker/getState/saveState/
   workerDone/delete, worker.go run, siterator.go Get) together with the producer side in
   /repo/pkg/partition/partition.go (Service.Write: journal append, later the WriteEvent send).

   One pipe, one source partition (every source has its own ppDesc and its own worker; what the
   sources share is the FIFO WriteEvent channel -- whose per-source order is what matters -- and
   the destination journal, to which each worker appends). Journal positions (chunk id, index) are
   abstracted to the flat record index: the code compares positions only with Pos.Less, and the
   map (cid, idx) -> flat index is monotone on the positions that occur.

   Definitions only. *)
From LR Require Import lib.Base.

(* a stored event; e_keep = does the pipe's filter F accept it (decided by lql, C05) *)
Record event := { e_ts : Z; e_msg : bytes; e_flds : list (bytes * bytes); e_keep : bool }.
(* an event of the destination partition *)
Record devent := { d_ts : Z; d_msg : bytes; d_flds : list (bytes * bytes) }.

(* siterator.Get: le.Fields.Concat(extFlds): own fields first, then the source partition's tags *)
Definition transform (tags : list (bytes * bytes)) (e : event) : devent :=
  {| d_ts := e_ts e; d_msg := e_msg e; d_flds := e_flds e ++ tags |}.

(* ppDesc *)
Record pdesc := { p_pos : nat; p_lkp : nat; p_chg : bool }.

(* program counter of worker.run; cp = position of the worker's cursor *)
Inductive wphase :=
| WStart                 (* before getState / GetOrCreate *)
| WCopy (cp : nat)       (* inside Journals.Write(dst, siterator): next source record to look at *)
| WSave (cp : nat)       (* Write returned: cur.State + saveState pending *)
| WCheck (cp : nat)      (* si.Get after saveState: more data or EOF? *)
| WWait (cp : nat)       (* cur.WaitNewData(10 s) *)
| WDone                  (* deferred workerDone pending *)
| WRetry (cp : nat).     (* Journals.Write returned an error at source record cp (the records before it are stored, cp
                            is the cursor's current record, no saveState): context2.Sleep(werrs seconds), then `continue` *)

Record st := {
  log : list event;          (* the source journal (everything appended) *)
  cfrm : nat;                (* confirmed count: readers see log[0..cfrm) *)
  infl : list (nat * nat);   (* writers between jrnl.Write and the WriteEvent send: (StartPos, EndPos) *)
  queue : list (nat * nat);  (* WriteEvents of this source in the channel, head first *)
  desc : option pdesc;       (* pp.partitions[src] *)
  wrk : option wphase;       (* the worker goroutine of this source, if one runs *)
  dst : list devent;         (* what the workers of this source appended to {logrange.pipe=name} *)
  alive : bool               (* pipe registered and its context not cancelled *)
}.

Inductive label :=
| LWrite (batch : list event)   (* jrnl.Write of a non-empty batch by some writer *)
| LEnq (i : nat)                (* the i-th writer in flight sends its WriteEvent *)
| LFlush                        (* chunk writer flush: everything appended becomes readable *)
| LDeliver                      (* notificatior: receive one WriteEvent, onWriteEvent *)
| LWork                         (* the worker goroutine executes up to its next lock / journal call *)
| LTimeout                      (* the 10 s timer of WaitNewData fires *)
| LDelete                       (* DeletePipe + ppipe.delete *)
| LRestart                      (* clean stop + start; taken only in quiescent states *)
| LRefuse (save : bool)         (* the destination refuses the record the worker is handing over (Journals.Write returns an
                                   error: e.g. the record with the provenance fields exceeds MaxRecordSize); save = does the
                                   worker save the position it reached before it sleeps (true = the code since the
                                   repair of worker.run, see code_saves_on_refused_write) *)
| LDropEnq (i : nat).           (* the i-th writer in flight finds the WriteEvent channel full and SKIPS its notification
                                   (a non-blocking send). The code's send blocks: the writer stays in flight until its
                                   LEnq is scheduled; this label is the variant the code does not have *)

Definition upd_log (s : st) l := {| log := l; cfrm := cfrm s; infl := infl s; queue := queue s; desc := desc s; wrk := wrk s; dst := dst s; alive := alive s |}.
Definition upd_cfrm (s : st) c := {| log := log s; cfrm := c; infl := infl s; queue := queue s; desc := desc s; wrk := wrk s; dst := dst s; alive := alive s |}.
Definition upd_infl (s : st) x := {| log := log s; cfrm := cfrm s; infl := x; queue := queue s; desc := desc s; wrk := wrk s; dst := dst s; alive := alive s |}.
Definition upd_queue (s : st) x := {| log := log s; cfrm := cfrm s; infl := infl s; queue := x; desc := desc s; wrk := wrk s; dst := dst s; alive := alive s |}.
Definition upd_dw (s : st) d w := {| log := log s; cfrm := cfrm s; infl := infl s; queue := queue s; desc := d; wrk := w; dst := dst s; alive := alive s |}.
Definition upd_wrk (s : st) w := {| log := log s; cfrm := cfrm s; infl := infl s; queue := queue s; desc := desc s; wrk := w; dst := dst s; alive := alive s |}.
Definition upd_dst (s : st) x := {| log := log s; cfrm := cfrm s; infl := infl s; queue := queue s; desc := desc s; wrk := wrk s; dst := x; alive := alive s |}.
Definition upd_alive (s : st) b := {| log := log s; cfrm := cfrm s; infl := infl s; queue := queue s; desc := desc s; wrk := wrk s; dst := dst s; alive := b |}.

(* remove the i-th element *)
Fixpoint remove_nth {A} (i : nat) (l : list A) : list A :=
  match l, i with
  | [], _ => []
  | _ :: tl, O => tl
  | x :: tl, S j => x :: remove_nth j tl
  end.

(* ppipe.startWorker: (svc not closed &&) !wCharged && Pos.Less(LastKnwnPos) *)
Definition start_worker (d : pdesc) : pdesc * option wphase :=
  if negb (p_chg d) && (p_pos d <? p_lkp d)
  then ({| p_pos := p_pos d; p_lkp := p_lkp d; p_chg := true |}, Some WStart)
  else (d, None).

(* ppipe.onWriteEvent, under pp.lock: the first event of a source sets Pos := StartPos; always
   LastKnwnPos := EndPos; then startWorker. A worker that is already running stays. *)
Definition on_write_event (s : st) (a b : nat) : st :=
  let d := match desc s with
           | None => {| p_pos := a; p_lkp := b; p_chg := false |}
           | Some d => {| p_pos := p_pos d; p_lkp := b; p_chg := p_chg d |}
           end in
  let '(d', w) := start_worker d in
  upd_dw s (Some d') (match w with Some ph => Some ph | None => wrk s end).

(* ppipe.workerDone, under pp.lock: wCharged := false, then startWorker -- which starts nothing for a deleted pipe
   (!pp.deleted in its condition; before that repair a deleted pipe with Pos < LastKnwnPos started worker after
   worker, each leaving at once, until shutdown) *)
Definition worker_done (s : st) : st :=
  match desc s with
  | None => upd_wrk s None
  | Some d =>
      let d0 := {| p_pos := p_pos d; p_lkp := p_lkp d; p_chg := false |} in
      if alive s then
        let '(d', w) := start_worker d0 in
        upd_dw s (Some d') w
      else upd_dw s (Some d0) None
  end.

(* af: is the filter applied by the worker's iterator? (false = the code as it stands: fltF is
   compiled by newPPipe and never consulted) *)
Definition passes (af : bool) (e : event) : bool := if af then e_keep e else true.

(* one scheduling quantum of worker.run *)
Definition work_step (af : bool) (tags : list (bytes * bytes)) (s : st) : st :=
  match wrk s with
  | None => s
  | Some WStart =>
      (* getState (NotFound => return); GetOrCreate; `for ctx.Err() == nil`. The cursor is positioned at Pos,
         but the chunk iterator clamps a position beyond the confirmed count down to it (cIterator.SetPos),
         and that clamped position is what saveState stores afterwards *)
      match desc s with
      | None => upd_wrk s (Some WDone)
      | Some d => if alive s then upd_wrk s (Some (WCopy (Nat.min (p_pos d) (cfrm s)))) else upd_wrk s (Some WDone)
      end
  | Some (WCopy cp) =>
      (* the write loop pulls the next record through siterator/cursor; the context is not consulted
         while records keep coming *)
      if cp <? cfrm s then
        match nth_error (log s) cp with
        | Some e =>
            let s' := if passes af e then upd_dst s (dst s ++ [transform tags e]) else s in
            upd_wrk s' (Some (WCopy (S cp)))
        | None => upd_wrk s (Some (WSave cp))
        end
      else upd_wrk s (Some (WSave cp))
  | Some (WSave cp) =>
      (* cur.State; saveState: NotFound => break *)
      match desc s with
      | None => upd_wrk s (Some WDone)
      | Some d => upd_dw s (Some {| p_pos := cp; p_lkp := p_lkp d; p_chg := p_chg d |}) (Some (WCheck cp))
      end
  | Some (WCheck cp) =>
      (* si.Get: data => next loop iteration (ctx checked); EOF => WaitNewData *)
      if alive s then (if cp <? cfrm s then upd_wrk s (Some (WCopy cp)) else upd_wrk s (Some (WWait cp)))
      else upd_wrk s (Some WDone)
  | Some (WWait cp) =>
      if alive s then (if cp <? cfrm s then upd_wrk s (Some (WCopy cp)) else s)
      else upd_wrk s (Some WDone)
  | Some WDone => worker_done s
  | Some (WRetry cp) =>
      (* the sleep is over (or the context was cancelled): `continue`, the loop condition, Journals.Write again *)
      if alive s then upd_wrk s (Some (WCopy cp)) else upd_wrk s (Some WDone)
  end.

(* Journals.Write fails at the record the worker is about to hand over *)
Definition refuse_step (af : bool) (save : bool) (s : st) : st :=
  match wrk s with
  | Some (WCopy cp) =>
      if cp <? cfrm s then
        match nth_error (log s) cp with
        | Some e =>
            if passes af e then
              match desc s with
              | Some d =>
                  upd_dw s (Some (if save then {| p_pos := cp; p_lkp := p_lkp d; p_chg := p_chg d |} else d)) (Some (WRetry cp))
              | None => upd_wrk s (Some (WRetry cp))
              end
            else s   (* siterator skips a record the filter rejects: it is never handed over *)
        | None => s
        end
      else s
  | _ => s
  end.

(* nothing in flight, everything readable, worker absent or asleep at the end *)
Definition quiescent (s : st) : bool :=
  match infl s, queue s with
  | [], [] =>
      (cfrm s =? length (log s)) &&
      match wrk s with
      | None => true
      | Some (WWait cp) => cfrm s <=? cp
      | Some _ => false
      end
  | _, _ => false
  end.

Definition step (af : bool) (tags : list (bytes * bytes)) (s : st) (l : label) : st :=
  match l with
  | LWrite b =>
      match b with
      | [] => s
      | _ :: _ => upd_infl (upd_log s (log s ++ b)) (infl s ++ [(length (log s), length (log s) + length b)])
      end
  | LEnq i =>
      match nth_error (infl s) i with
      | Some we => upd_queue (upd_infl s (remove_nth i (infl s))) (queue s ++ [we])
      | None => s
      end
  | LFlush => upd_cfrm s (length (log s))
  | LDeliver =>
      match queue s with
      | [] => s
      | (a, b) :: q =>
          let s1 := upd_queue s q in
          if alive s then on_write_event s1 a b else s1   (* getPipesForSource: a deleted pipe is not in ppipes *)
      end
  | LWork => work_step af tags s
  | LTimeout =>
      match wrk s with
      | Some (WWait _) => upd_wrk s (Some WDone)
      | _ => s
      end
  | LDelete => upd_alive s false
  | LRestart =>
      if quiescent s && alive s then
        upd_dw s (match desc s with
                  | Some d => Some {| p_pos := p_pos d; p_lkp := p_lkp d; p_chg := false |}
                  | None => None
                  end) None
      else s
  | LRefuse save => refuse_step af save s
  | LDropEnq i => upd_infl s (remove_nth i (infl s))
  end.

Fixpoint run (af : bool) (tags : list (bytes * bytes)) (s : st) (sched : list label) : st :=
  match sched with
  | [] => s
  | l :: tl => run af tags (step af tags s l) tl
  end.

(* the state right after CREATE PIPE: the source may already hold events (pre), c0 of them readable *)
Definition init (pre : list event) (c0 : nat) : st :=
  {| log := pre; cfrm := c0; infl := []; queue := []; desc := None; wrk := None; dst := []; alive := true |}.

(* the same, but WriteEvents of writes that completed before CREATE PIPE are still in the channel (the notificatior
   goroutine lags behind the writers) *)
Definition init_stale (pre : list event) (q : list (nat * nat)) : st :=
  {| log := pre; cfrm := length pre; infl := []; queue := q; desc := None; wrk := None; dst := []; alive := true |}.

(* DELETE PIPE followed by CREATE PIPE under the same name (Service.DeletePipe -> ppipe.delete ->
   persister.onDeleteStream removes the file with the saved positions of that name, Service.CreatePipe -> newPPipe ->
   persister.loadPipeInfo finds nothing): the new pipe has no descriptor and no worker; the source journal, the
   writers in flight and the channel are what they were. The destination partition {logrange.pipe=name} keeps the
   events of the earlier epoch; dst counts what the workers of the NEW pipe append. *)
Definition recreate_v (survives : bool) (s : st) : st :=
  {| log := log s; cfrm := cfrm s; infl := infl s; queue := queue s;
     desc := if survives
             then match desc s with
                  | Some d => Some {| p_pos := p_pos d; p_lkp := p_lkp d; p_chg := false |}
                  | None => None
                  end
             else None;
     wrk := None; dst := []; alive := true |}.

(* The model keeps a pipe's positions in its descriptor only; the file they are saved to (persister.savePipeInfo in
   saveState) is not a component of the state. What the file adds to the protocol is whether the positions of a deleted
   pipe reach a pipe created later under its name: survives = true is the code before the repair of ppipe.saveState,
   when a worker of the deleted pipe that stood between its journal write and saveState wrote the file again after
   onDeleteStream had removed it (newPPipe -> loadPipeInfo then starts from the old Pos / LastKnwnPos, wCharged false);
   survives = false is the code: saveState returns NotFound for a deleted pipe, the removal is final. *)
Definition code_state_survives_delete : bool := false.
Definition recreate (s : st) : st := recreate_v code_state_survives_delete s.

(* The source partition was deleted (TRUNCATE removes a partition whose chunks are all gone when nothing holds it: no
   cursor, no worker) and the pipes cleaner (Service.pipesCleaner -> ppipe.cleanPartitions) dropped its descriptor; a
   partition created later with the same tags is a new journal (new source id), of which the pipe knows nothing. The
   destination keeps what was copied. *)
Definition drop_source (s : st) : st :=
  {| log := []; cfrm := 0; infl := []; queue := []; desc := None; wrk := None; dst := dst s; alive := alive s |}.

(* the same state with d0 in front of the destination *)
Definition add_dst (d0 : list devent) (s : st) : st := upd_dst s (d0 ++ dst s).

(* does the worker save the position it reached when the destination write failed? (worker.run: `continue` without
   saveState = false; since the repair of worker.run it saves the position the cursor reached) *)
Definition code_saves_on_refused_write : bool := true.
Definition code_refuse : label := LRefuse code_saves_on_refused_write.

(* A clean stop + start while the worker sleeps between two attempts (nothing in flight, everything readable): the
   context is cancelled, the worker leaves without saving, the descriptor comes back from the file with wCharged false.
   (Not a label: like every restart outside a quiescent point it can leave an idle descriptor behind LastKnwnPos.) *)
Definition stop_retrying (s : st) : st :=
  match wrk s, infl s, queue s with
  | Some (WRetry _), [], [] =>
      if alive s && (cfrm s =? length (log s)) then
        upd_dw s (match desc s with
                  | Some d => Some {| p_pos := p_pos d; p_lkp := p_lkp d; p_chg := false |}
                  | None => None
                  end) None
      else s
  | _, _, _ => s
  end.

(* A clean restart of a server whose pipe was deleted. The registry a start reads (Service.Init -> persister.loadPipes) is
   what the last Service.savePipes wrote; DeletePipe and Shutdown call it. saved = did that save write the list WITHOUT
   the pipe? It does (true = the code) -- also when the list became EMPTY. saved = false is a savePipes that skips an
   empty list: the file still names the deleted pipe, Init creates it again (its progress file is gone: no descriptor),
   and it copies whatever is written from then on. For a live pipe this restart is LRestart / stop_retrying. *)
Definition restart_after_delete (saved : bool) (s : st) : st :=
  if alive s then s
  else {| log := log s; cfrm := cfrm s; infl := infl s; queue := queue s;
          desc := if saved then desc s else None; wrk := None; dst := dst s; alive := negb saved |}.
Definition code_saves_empty_registry : bool := true.

(* what the property asks the destination to hold for this source *)
Definition expected (tags : list (bytes * bytes)) (base : nat) (l : list event) : list devent :=
  map (transform tags) (filter e_keep (skipn base l)).

(* schedule predicates used as hypotheses *)
Definition enq_in_order (l : label) : Prop := match l with LEnq i => i = 0 | _ => True end.
(* every write that stored something sends its WriteEvent (partition.Service.onWriteEvent blocks on a full channel) *)
Definition notifies (l : label) : Prop := match l with LDropEnq _ => False | _ => True end.
Definition write_all_keep (l : label) : Prop := match l with LWrite b => forallb e_keep b = true | _ => True end.

(* does the code apply the filter? flipped to true when proposed_fixes/C10-pipe-filter-not-applied lands *)
Definition code_applies_filter : bool := true.

(* ---- canonical schedule of a scenario, used by the correspondence check ---- *)
(* drive the worker n quanta *)
Definition works (n : nat) : list label := repeat LWork n.
(* one writer at a time: write, notify, deliver, flush, let the worker drain and go back to sleep *)
Definition sched_write (b : list event) : list label :=
  [LWrite b; LEnq 0; LDeliver; LFlush] ++ works (length b + 6).
(* two concurrent first writers whose notifications arrive in the opposite order; the first writer's data is
   readable before the second writer's notification starts the worker *)
Definition sched_race (b1 b2 : list event) : list label :=
  [LWrite b1; LFlush; LWrite b2; LEnq 1; LDeliver] ++ works 6 ++ [LFlush] ++ works (length b1 + length b2 + 6) ++
  [LEnq 0; LDeliver] ++ works (length b1 + length b2 + 6).
(* the same, but nothing is readable when the worker starts: its cursor is clamped to the confirmed count *)
Definition sched_race_clamp (b1 b2 : list event) : list label :=
  [LWrite b1; LWrite b2; LEnq 1; LDeliver] ++ works 6 ++ [LFlush] ++ works (length b1 + length b2 + 6) ++
  [LEnq 0; LDeliver] ++ works (length b1 + length b2 + 6).
(* a wave whose data becomes readable only after the notification has started (and parked) the worker *)
Definition sched_write_late (b : list event) : list label :=
  [LWrite b; LEnq 0; LDeliver] ++ works 6 ++ [LFlush] ++ works (length b + 6).

(* decidable equality of destination events, for the checker *)
Definition kv_eqb (a b : bytes * bytes) : bool := bytes_eqb (fst a) (fst b) && bytes_eqb (snd a) (snd b).
Definition devent_eqb (a b : devent) : bool :=
  Z.eqb (d_ts a) (d_ts b) && bytes_eqb (d_msg a) (d_msg b) && list_eqb kv_eqb (d_flds a) (d_flds b).

(* ---- many sources under one pipe: every source has its own descriptor, worker and (restriction of the FIFO)
   channel; a product schedule interleaves the steps of all sources ---- *)
Fixpoint pstep (af : bool) (tagss : list (list (bytes * bytes))) (ss : list st) (i : nat) (l : label) : list st :=
  match ss, tagss, i with
  | s :: tl, tg :: ttl, O => step af tg s l :: tl
  | s :: tl, _ :: ttl, S j => s :: pstep af ttl tl j l
  | _, _, _ => ss
  end.
Fixpoint prun (af : bool) (tagss : list (list (bytes * bytes))) (ss : list st) (sched : list (nat * label)) : list st :=
  match sched with
  | [] => ss
  | (i, l) :: tl => prun af tagss (pstep af tagss ss i l) tl
  end.
(* the steps of source i in a product schedule *)
Fixpoint proj (i : nat) (sched : list (nat * label)) : list label :=
  match sched with
  | [] => []
  | (j, l) :: tl => if j =? i then l :: proj i tl else proj i tl
  end.
