(* model.Mixer (pkg/model/mixer.go) and the pairwise reduction of newCursor (pkg/cursor/cursor.go),
   function by function. A tree node carries the Mixer's fields: selection state st (0 unknown, 1 first,
   2 second, 3 both ended), the eof flags (sticky until Release), the buffered heads and the direction.
   A leaf is a LogEventIterator over one source (pkg/model/iterator.go): it attaches its own tag line.
   Definitions only. *)
From LR Require Import lib.Base model.Iter.
Open Scope Z_scope.

(* a delivered event with the tag (index of the source) it is attributed to *)
Definition item := (ev * nat)%type.
Definition it_ts (x : item) : Z := fst (fst x).
Definition it_src (x : item) : nat := snd x.

Inductive mtree :=
| MLeaf (tag : nat) (l : leaf)
| MNode (a b : mtree) (st : nat) (eof1 eof2 : bool) (le1 le2 : option item) (bk : bool).

Definition mk_node (a b : mtree) : mtree := MNode a b 0 false false None None false.

(* GetEarliest, and testFunc: the answer is inverted in backward mode *)
Definition get_earliest (x y : item) : bool := it_ts x <=? it_ts y.
Definition test_func (bk : bool) (x y : option item) : bool :=
  match x, y with
  | Some x, Some y => if bk then negb (get_earliest x y) else get_earliest x y
  | _, _ => true
  end.

(* the state selectState ends in, given the flags and heads after both sources were asked *)
Definition decide (e1 e2 : bool) (le1 le2 : option item) (bk : bool) : nat :=
  if e1 && e2 then 3%nat else if e1 then 2%nat else if e2 || test_func bk le1 le2 then 1%nat else 2%nat.

Fixpoint mx_get (t : mtree) : mtree * option item :=
  match t with
  | MLeaf tag l => let '(l1, r) := l_get l in (MLeaf tag l1, option_map (fun e => (e, tag)) r)
  | MNode a b st e1 e2 le1 le2 bk =>
      match st with
      | O =>
          (* selectState: every source not flagged eof is asked; io.EOF sets the flag *)
          let '(a1, le1', e1') := if e1 then (a, le1, true)
                                  else let '(a1, r) := mx_get a in
                                       match r with Some x => (a1, Some x, false) | None => (a1, None, true) end in
          let '(b1, le2', e2') := if e2 then (b, le2, true)
                                  else let '(b1, r) := mx_get b in
                                       match r with Some x => (b1, Some x, false) | None => (b1, None, true) end in
          let st' := decide e1' e2' le1' le2' bk in
          (MNode a1 b1 st' e1' e2' le1' le2' bk,
           match st' with 1%nat => le1' | 2%nat => le2' | _ => None end)
      | 1%nat => (t, le1)
      | 2%nat => (t, le2)
      | _ => (t, None)
      end
  end.

Fixpoint height (t : mtree) : nat :=
  match t with
  | MLeaf _ _ => O
  | MNode a b _ _ _ _ _ _ => S (Nat.max (height a) (height b))
  end.

(* Next: selectState, advance the selected source (its own Next), forget the selection (the eof flags stay).
   The recursion goes into a child of the tree selectState returned, hence the explicit fuel (= height) *)
Fixpoint mx_next_f (fuel : nat) (t : mtree) : mtree :=
  match t with
  | MLeaf tag l => MLeaf tag (l_next l)
  | MNode _ _ _ _ _ _ _ _ =>
      match fuel with
      | O => t
      | S f =>
          match fst (mx_get t) with
          | MNode a b st e1 e2 le1 le2 bk =>
              match st with
              | 1%nat => MNode (mx_next_f f a) b 0 e1 e2 le1 le2 bk
              | 2%nat => MNode a (mx_next_f f b) 0 e1 e2 le1 le2 bk
              | _ => MNode a b 0 e1 e2 le1 le2 bk
              end
          | t1 => t1
          end
      end
  end.
Definition mx_next (t : mtree) : mtree := mx_next_f (height t) t.

(* Release: both sources released, eof flags cleared, st 3 -> 0. (MakeItSafe copies the selected head: no
   effect on values.) The leaf's Release only gives buffers back. *)
Fixpoint mx_release (t : mtree) : mtree :=
  match t with
  | MLeaf tag l => t
  | MNode a b st e1 e2 le1 le2 bk =>
      MNode (mx_release a) (mx_release b) (if Nat.eqb st 3 then 0%nat else st) false false le1 le2 bk
  end.

(* SetBackward: nothing if the direction is the same; else both sources switched, Release, st = 0 *)
Fixpoint mx_set_backward (bkwd : bool) (t : mtree) : mtree :=
  match t with
  | MLeaf tag l => MLeaf tag (l_set_backward bkwd l)
  | MNode a b st e1 e2 le1 le2 bk =>
      if Bool.eqb bk bkwd then t
      else MNode (mx_release (mx_set_backward bkwd a)) (mx_release (mx_set_backward bkwd b)) 0 false false le1 le2 bkwd
  end.

(* CurrentPos: the position of the selected source; None is records.IteratorPosUnknown *)
Fixpoint mx_current_pos (t : mtree) : option (Z * Z) :=
  match t with
  | MLeaf _ l => Some (l_pos l)
  | MNode a b st _ _ _ _ _ =>
      match st with
      | 1%nat => mx_current_pos a
      | 2%nat => mx_current_pos b
      | _ => None
      end
  end.

(* positions are applied to the journal iterators directly (crsr.applyPos), behind the mixers' back *)
Fixpoint mx_map_leaves (f : nat -> leaf -> leaf) (t : mtree) : mtree :=
  match t with
  | MLeaf tag l => MLeaf tag (f tag l)
  | MNode a b st e1 e2 le1 le2 bk => MNode (mx_map_leaves f a) (mx_map_leaves f b) st e1 e2 le1 le2 bk
  end.
Fixpoint mx_leaves (t : mtree) : list (nat * leaf) :=
  match t with
  | MLeaf tag l => [(tag, l)]
  | MNode a b _ _ _ _ _ _ => mx_leaves a ++ mx_leaves b
  end.

(* ---- newCursor: the slice of iterators is reduced pairwise until one is left; an odd last element is carried over *)
Fixpoint reduce_pass (l : list mtree) : list mtree :=
  match l with
  | a :: b :: rest => mk_node a b :: reduce_pass rest
  | _ => l
  end.
Fixpoint build_tree_f (fuel : nat) (l : list mtree) : option mtree :=
  match l with
  | [] => None
  | [t] => Some t
  | _ => match fuel with O => None | S f => build_tree_f f (reduce_pass l) end
  end.
Definition build_tree (l : list mtree) : option mtree := build_tree_f (length l) l.

(* ---- reference: the stable two-way merge; `first` says whether the head of the first list goes first *)
Fixpoint merge_by (first : item -> item -> bool) (l1 : list item) : list item -> list item :=
  fix inner (l2 : list item) : list item :=
    match l1, l2 with
    | [], _ => l2
    | _, [] => l1
    | x :: t1, y :: t2 => if first x y then x :: merge_by first t1 l2 else y :: inner t2
    end.
Definition first_of (bk : bool) (x y : item) : bool := if bk then negb (get_earliest x y) else get_earliest x y.
