(* Which variant of the modelled code the tree under /repo (and its dependency) carries.  The
   correspondence check and the evaluation models use these flags; the theorems are stated for
   explicit flag values.  When a proposed fix lands, flip its flag here (and replace the matching
   _refuted/_partial theorems of props/C13.v by the _fixed/_guarded ones). *)
From LR Require Import lib.Base.

(* xbinary.UnmarshalBytes rejects a negative / overflowing length (dependency: not on this tree) *)
Definition tree_guard : bool := false.
(* field.NewFieldsFromKVString re-checks the 255-byte limit after unquoting (proposed_fixes/C13-unquote-expansion) *)
Definition tree_fields_fx : bool := false.
(* utils.EscapeJsonStr advances over a valid U+FFFD (proposed_fixes/C13-escapejsonstr-ufffd) *)
Definition tree_escape_fx : bool := false.
