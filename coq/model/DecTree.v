(* Which variant of the modelled code the tree under /repo (and its dependency) carries.  The
   correspondence check and the evaluation models use these flags; the theorems are stated for
   explicit flag values.  When a proposed fix lands, flip its flag here (and replace the matching
   _refuted/_partial theorems of props/C13.v by the full ones; done for all three). *)
From LR Require Import lib.Base.

(* the /repo decoders read their length-prefixed fields through utils.UnmarshalBytes / UnmarshalString, which
   reject a negative / overflowing length before the dependency's xbinary.UnmarshalBytes is called
   (repaired: proposed_fixes/applied/C13-varint-length-overflow; the dependency itself is unchanged and is
   still compared, as it is, by the K kind `bytes`) *)
Definition tree_guard : bool := true.
(* field.NewFieldsFromKVString applies the 255-byte limit to the string it stores, after unquoting
   (repaired: proposed_fixes/applied/C13-unquote-expansion) *)
Definition tree_fields_fx : bool := true.
(* utils.EscapeJsonStr advances over a valid U+FFFD (repaired: proposed_fixes/applied/C13-escapejsonstr-ufffd) *)
Definition tree_escape_fx : bool := true.
