(* Regex: the subset of Go regular expressions (package regexp, leftmost-first semantics) that the
   date tables generate — character classes, `\d`, `.`, literals, counted greedy repetition and a
   non-capturing alternation of fixed-width branches — with a parser from the regexp source text
   and a backtracking matcher in priority order (the order that defines leftmost-first).
   Definitions only; lemmas are in proofs/RegexP.v.  Compared with regexp.FindSubmatch by the
   correspondence check of C20 on every run. *)
From LR Require Import lib.Base model.GoTime.
From Coq Require Import Strings.String.
Open Scope bool_scope.

(* ------------------------------------------------------------------ syntax *)

Inductive cls :=
| CRanges (l : list (N * N))      (* union of inclusive byte ranges *)
| CAny.                           (* `.`: any byte but \n *)

Definition cls_has (c : cls) (b : byte) : bool :=
  match c with
  | CRanges l => existsb (fun r => (fst r <=? bN b)%N && (bN b <=? snd r)%N) l
  | CAny => negb (byte_eqb b x0a)
  end.

Inductive atom :=
| ARep (c : cls) (lo : nat) (hi : option nat)        (* c{lo,hi}, greedy; hi = None: unbounded *)
| AAlt (alts : list (list (cls * nat))).             (* (?:b1|b2|…), every branch a sequence of c{n} *)
Definition rx := list atom.

(* ------------------------------------------------------------------ backtracking matcher *)

Fixpoint take_fixed (c : cls) (n : nat) (w : bytes) : option bytes :=
  match n with
  | O => Some w
  | S n' => match w with
            | b :: w' => if cls_has c b then take_fixed c n' w' else None
            | [] => None
            end
  end.

(* up to n more bytes of class c, longest first *)
Fixpoint rep_greedy {A} (c : cls) (n : nat) (w : bytes) (k : bytes -> option A) : option A :=
  match n, w with
  | S n', b :: w' =>
      if cls_has c b then
        match rep_greedy c n' w' k with
        | Some r => Some r
        | None => k w
        end
      else k w
  | _, _ => k w
  end.

Fixpoint m_fixed_seq (s : list (cls * nat)) (w : bytes) : option bytes :=
  match s with
  | [] => Some w
  | (c, n) :: tl => match take_fixed c n w with Some w' => m_fixed_seq tl w' | None => None end
  end.

Fixpoint m_alts {A} (alts : list (list (cls * nat))) (w : bytes) (k : bytes -> option A) : option A :=
  match alts with
  | [] => None
  | s :: tl =>
      match (match m_fixed_seq s w with Some w' => k w' | None => None end) with
      | Some r => Some r
      | None => m_alts tl w k
      end
  end.

(* how many optional repetitions may follow the mandatory ones *)
Definition extra (lo : nat) (hi : option nat) (w : bytes) : nat :=
  match hi with Some h => h - lo | None => S (List.length w) end.

(* the first way, in priority order, to match l at the head of w such that k accepts the rest *)
Fixpoint m_atoms {A} (l : rx) (w : bytes) (k : bytes -> option A) : option A :=
  match l with
  | [] => k w
  | ARep c lo hi :: tl =>
      match take_fixed c lo w with
      | None => None
      | Some w' => rep_greedy c (extra lo hi w') w' (fun w'' => m_atoms tl w'' k)
      end
  | AAlt alts :: tl => m_alts alts w (fun w' => m_atoms tl w' k)
  end.

(* the match of l that starts at the head of w (regexp's preferred one): the matched prefix *)
Definition m_at (l : rx) (w : bytes) : option bytes :=
  m_atoms l w (fun rest => Some (firstn (List.length w - List.length rest) w)).

(* leftmost match: FindSubmatch(buf)[1] for the pattern (?P<date>l) *)
Fixpoint rx_find (l : rx) (w : bytes) : option bytes :=
  match m_at l w with
  | Some m => Some m
  | None => match w with
            | [] => None
            | _ :: w' => rx_find l w'
            end
  end.

(* ------------------------------------------------------------------ parser of the regexp source *)

Definition meta (b : byte) : bool :=
  existsb (byte_eqb b) [x5c; x2e; x5b; x5d; x28; x29; x7b; x7d; x2a; x2b; x3f; x7c; x5e; x24].
Definition cbyte (b : byte) : cls := CRanges [(bN b, bN b)].
Definition cdigit : cls := CRanges [(48, 57)%N].

(* items of a bracket class up to the closing bracket; no negation, no escapes, no nested brackets *)
Definition class_meta (b : byte) : bool := byte_eqb b x5c || byte_eqb b x5b || byte_eqb b x5d.
Fixpoint p_class (fuel : nat) (s : bytes) (acc : list (N * N)) : option (cls * bytes) :=
  match fuel with
  | O => None
  | S f =>
      match s with
      | x5d :: r => match acc with [] => None | _ => Some (CRanges (rev acc), r) end
      | a :: r =>
          if class_meta a || (127 <? bN a)%N then None
          else if byte_eqb a x5e && (match acc with [] => true | _ => false end) then None
          else match r with
               | x2d :: b :: r' =>
                   if byte_eqb b x5d then (* a trailing '-' is literal *) p_class f r ((bN a, bN a) :: acc)
                   else if class_meta b || (127 <? bN b)%N then None
                   else if (bN b <? bN a)%N then None else p_class f r' ((bN a, bN b) :: acc)
               | _ => p_class f r ((bN a, bN a) :: acc)
               end
      | [] => None
      end
  end.

Definition p_num (s : bytes) : option (nat * bytes) :=
  let '(d, r) := span_digits s in
  match d with
  | [] => None
  | _ => match digits_val 0 d with Some n => if (1000 <? n)%Z then None else Some (Z.to_nat n, r) | None => None end
  end.

(* an optional quantifier: (lo, hi, rest); a lazy or possessive suffix is outside the subset *)
Definition p_quant (s : bytes) : option (nat * option nat * bytes) :=
  let ok (q : nat * option nat * bytes) :=
    match snd q with
    | x3f :: _ | x2b :: _ | x2a :: _ | x7b :: _ => None
    | _ => Some q
    end in
  match s with
  | x3f :: r => ok (0, Some 1, r)%nat
  | x2a :: r => ok (0, None, r)%nat
  | x2b :: r => ok (1, None, r)%nat
  | x7b :: r =>
      match p_num r with
      | Some (n, x7d :: r') => ok (n, Some n, r')
      | Some (n, x2c :: x7d :: r') => ok (n, None, r')
      | Some (n, x2c :: r') => match p_num r' with
                               | Some (m, x7d :: r'') => if Nat.ltb m n then None else ok (n, Some m, r'')
                               | _ => None
                               end
      | _ => None
      end
  | _ => Some (1, Some 1, s)%nat
  end.

(* one single-byte matcher: class, \d, escaped metacharacter, `.`, or a literal *)
Definition p_base (s : bytes) : option (cls * bytes) :=
  match s with
  | x5b :: r => p_class (S (List.length r)) r []
  | x5c :: x64 :: r => Some (cdigit, r)
  | x5c :: b :: r => if meta b then Some (cbyte b, r) else None
  | x2e :: r => Some (CAny, r)
  | b :: r => if meta b then None else if (127 <? bN b)%N then None else Some (cbyte b, r)
  | [] => None
  end.

(* a branch of an alternation: fixed repetitions only, up to `|` or `)` *)
Fixpoint p_branch (fuel : nat) (s : bytes) (acc : list (cls * nat)) : option (list (cls * nat) * bytes) :=
  match fuel with
  | O => None
  | S f =>
      match s with
      | x7c :: _ | x29 :: _ => Some (rev acc, s)
      | _ => match p_base s with
             | Some (c, r) => match p_quant r with
                              | Some (lo, Some hi, r') => if Nat.eqb lo hi then p_branch f r' ((c, lo) :: acc) else None
                              | _ => None
                              end
             | None => None
             end
      end
  end.
Fixpoint p_alts (fuel : nat) (s : bytes) (acc : list (list (cls * nat))) : option (list (list (cls * nat)) * bytes) :=
  match fuel with
  | O => None
  | S f =>
      match p_branch (S (List.length s)) s [] with
      | Some (br, x7c :: r) => p_alts f r (br :: acc)
      | Some (br, x29 :: r) => Some (rev (br :: acc), r)
      | _ => None
      end
  end.

Fixpoint p_seq (fuel : nat) (s : bytes) (acc : list atom) : option rx :=
  match fuel with
  | O => None
  | S f =>
      match s with
      | [] => Some (rev acc)
      | x28 :: x3f :: x3a :: r => (* (?: … ) — no quantifier may follow *)
          match p_alts (S (List.length r)) r [] with
          | Some (alts, r') => match p_quant r' with
                               | Some (1%nat, Some 1%nat, r'') => p_seq f r'' (AAlt alts :: acc)
                               | _ => None
                               end
          | None => None
          end
      | _ => match p_base s with
             | Some (c, r) => match p_quant r with
                              | Some (lo, hi, r') => p_seq f r' (ARep c lo hi :: acc)
                              | None => None
                              end
             | None => None
             end
      end
  end.

(* the source of a pattern without groups *)
Definition parse_rx_inner (s : bytes) : option rx := p_seq (S (List.length s)) s [].

(* the pattern date.NewParser compiles: (?P<date> … ) around the substituted format *)
Definition date_group_open : bytes := B "(?P<date>".
Definition parse_rx (s : bytes) : option rx :=
  match starts date_group_open s with
  | Some r => match rev r with
              | x29 :: ri => parse_rx_inner (rev ri)
              | _ => None
              end
  | None => None
  end.
