(* Model of /repo/pkg/model/tag/tags.go: tag.Parse (= kvstring.ToMap + line), tagMap.line(), SubsetOf,
   Equals.  strconv.Quote is an oracle (function argument).  Definitions only. *)
From LR Require Export lib.Base model.KV.

Definition is_nil {A : Type} (l : list A) : bool := match l with [] => true | _ => false end.

(* line(): a value is passed through strconv.Quote iff it is empty or holds '=' or ',' *)
Definition tag_needs_quote (v : bytes) : bool := is_nil v || has EQ v || has COMMA v.

(* k1=v1,k2=v2,...  (names and already rendered values) *)
Fixpoint join_pairs (l : list (bytes * bytes)) : bytes :=
  match l with
  | [] => []
  | [(k, v)] => k ++ EQ :: v
  | (k, v) :: tl => k ++ EQ :: v ++ COMMA :: join_pairs tl
  end.

(* the key sorting loop of line(): every key met by `range m` is inserted at sort.SearchStrings(srtKeys, k) *)
Definition insert_key (srt : list bytes) (k : bytes) : list bytes :=
  let idx := sort_search (length srt) (fun i => bytes_leb k (nth i srt k)) in
  firstn idx srt ++ k :: skipn idx srt.
Definition sort_keys (ord : list bytes) : list bytes := fold_left insert_key ord [].

Definition get_or_empty (k : bytes) (m : kvmap) : bytes := match map_get k m with Some v => v | None => [] end.

Section WithQuote.
  Variable quote : bytes -> bytes.

  Definition tag_val (v : bytes) : bytes := if tag_needs_quote v then quote v else v.

  (* line() when `range m` enumerates the map in the order [ord] *)
  Definition line_ord (ord : kvmap) : bytes :=
    join_pairs (map (fun k => (k, tag_val (get_or_empty k ord))) (sort_keys (map fst ord))).
  (* the canonical representative is itself one enumeration *)
  Definition line (m : kvmap) : bytes := line_ord m.

  (* what line() amounts to on the canonical (sorted) representative; proved equal in proofs/TagsP.v *)
  Definition print_tags (m : kvmap) : bytes := join_pairs (map (fun kv => (fst kv, tag_val (snd kv))) m).
End WithQuote.

(* kvstring.MapSubset / tag.Set.SubsetOf *)
Definition map_subset (m1 m2 : kvmap) : bool :=
  forallb (fun kv => match map_get (fst kv) m2 with Some v => bytes_eqb v (snd kv) | None => false end) m1.

(* ---- the class of tag sets on which print-then-parse is the identity ---- *)
(* a name that goes through the scanner unchanged: not empty, no blank at an end, scanner-neutral *)
Definition name_ok (k : bytes) : bool := negb (is_nil k) && trimmed k && neutral k.
(* a value that survives being printed raw: no blank at an end, scanner-neutral (quotes balanced),
   and not starting with a quote character (else the parser would unquote it) *)
Definition raw_value_ok (v : bytes) : bool := trimmed v && neutral v && negb (starts_quoted v).
Definition tag_value_safe (v : bytes) : bool := tag_needs_quote v || raw_value_ok v.
(* the braces pass: the line must not start with an opening brace nor end, unquoted, with a closing one *)
Definition tag_edges_ok (m : kvmap) : bool :=
  match m with
  | [] => true
  | (k, _) :: _ => negb (first_is LBR k) &&
                   (let v := snd (last m ([], [])) in tag_needs_quote v || negb (last_is RBR v))
  end.
Definition tag_pair_safe (kv : bytes * bytes) : bool := name_ok (fst kv) && tag_value_safe (snd kv).
Definition tag_safe (m : kvmap) : bool := forallb tag_pair_safe m && tag_edges_ok m.

(* strictly increasing keys: the representation invariant of kvmap *)
Fixpoint keys_sorted (m : kvmap) : bool :=
  match m with
  | [] => true
  | (k, _) :: tl => match tl with
                    | [] => true
                    | (k', _) :: _ => bytes_ltb k k' && keys_sorted tl
                    end
  end.

(* ---- what the development assumes about strconv.Quote / strconv.Unquote, as executable predicates
   (the correspondence check evaluates them on every answer of the real functions it records) ---- *)
(* q = Quote(v), uq = Unquote(q): q is a double-quoted literal over which SplitString passes without
   splitting (every inner quote is escaped), it is between len(v)+2 and 4*len(v)+2 bytes long (a byte is
   copied or escaped as at most \xNN), and Unquote gives v back *)
Definition quote_ok (v q : bytes) (uq : option bytes) : bool :=
  first_is QUOTE q && last_is QUOTE q && Nat.leb (length v + 2) (length q) && Nat.leb (length q) (4 * length v + 2) &&
  neutral q && option_eqb bytes_eqb uq (Some v).
(* three concrete answers of the real functions that the refutation witnesses use:
   Quote("") is two double quotes; Unquote of "x" in double quotes and in back quotes is x *)
Definition DQ_X : bytes := [QUOTE; x78; QUOTE].
Definition BQ_X : bytes := [BQ; x78; BQ].
Definition quote_fact_ok (v q : bytes) : bool := if is_nil v then bytes_eqb q [QUOTE; QUOTE] else true.
Definition unquote_fact_ok (s : bytes) (r : option bytes) : bool :=
  if bytes_eqb s DQ_X || bytes_eqb s BQ_X then option_eqb bytes_eqb r (Some [x78]) else true.

Definition QuoteSpec (quote : bytes -> bytes) (unquote : bytes -> option bytes) : Prop :=
  forall v, quote_ok v (quote v) (unquote (quote v)) = true.
Definition OracleFacts (quote : bytes -> bytes) (unquote : bytes -> option bytes) : Prop :=
  quote [] = [QUOTE; QUOTE] /\ unquote DQ_X = Some [x78] /\ unquote BQ_X = Some [x78].
