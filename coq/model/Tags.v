(* Model of /repo/pkg/model/tag/tags.go: tag.Parse (= kvstring.ToMap + line), tagMap.line(), SubsetOf,
   Equals.  strconv.Quote is an oracle (function argument).  Definitions only. *)
From LR Require Export lib.Base model.KV.

Definition is_nil {A : Type} (l : list A) : bool := match l with [] => true | _ => false end.

(* line(): which values are passed through strconv.Quote.  Every variant quotes a value that is empty or holds
   '=' or ','.  [fx] = true is valueNeedsQuote of the code: also a value with a blank at an end (the parser trims it),
   a value starting with a double or back quote (the parser would unquote it) and, for the last pair of the line only
   ([last]), a value ending in '}' (the braces pass would take it for the closing brace of the line).
   [fx] = false is the earlier line(), which printed all of those raw. *)
Definition LF : byte := x0a.
(* [nl] = true is the code since the line-break repair: also a value holding a line feed (a {tags} literal of an LQL
   statement is one token of one line: the lexer's class does not span lines); [nl] = false printed it raw *)
Definition tag_needs_quote_v (fx nl last : bool) (v : bytes) : bool :=
  is_nil v || has EQ v || has COMMA v ||
  (fx && (first_is SP v || last_is SP v || starts_quoted v || (last && last_is RBR v))) ||
  (nl && has LF v).
(* the variant on the tree *)
Definition code_quote_edges : bool := true.
Definition code_quote_linebreak : bool := true.
Definition tag_needs_quote : bool -> bytes -> bool := tag_needs_quote_v code_quote_edges code_quote_linebreak.

(* k1=v1,k2=v2,...  (names and already rendered values) *)
Fixpoint join_pairs (l : list (bytes * bytes)) : bytes :=
  match l with
  | [] => []
  | [(k, v)] => k ++ EQ :: v
  | (k, v) :: tl => k ++ EQ :: v ++ COMMA :: join_pairs tl
  end.

(* the key sorting loop of line(): every key met by `range m` is inserted at sort.SearchStrings(srtKeys, k) *)
Definition insert_key (srt : list bytes) (k : bytes) : list bytes :=
  let idx := sort_search (length srt) (fun i => bytes_leb k (nth i srt k)) in
  firstn idx srt ++ k :: skipn idx srt.
Definition sort_keys (ord : list bytes) : list bytes := fold_left insert_key ord [].

Definition get_or_empty (k : bytes) (m : kvmap) : bytes := match map_get k m with Some v => v | None => [] end.

Section WithQuote.
  Variable fx nl : bool.
  Variable quote : bytes -> bytes.

  Definition tag_val_v (last : bool) (v : bytes) : bytes := if tag_needs_quote_v fx nl last v then quote v else v.

  (* the printing loop over the sorted keys: the pair with i == len(srtKeys)-1 is the last one *)
  Fixpoint render_v (l : list (bytes * bytes)) : list (bytes * bytes) :=
    match l with
    | [] => []
    | (k, v) :: tl => (k, tag_val_v (is_nil tl) v) :: render_v tl
    end.

  (* line() when `range m` enumerates the map in the order [ord] *)
  Definition line_ord_v (ord : kvmap) : bytes :=
    join_pairs (render_v (map (fun k => (k, get_or_empty k ord)) (sort_keys (map fst ord)))).
  (* the canonical representative is itself one enumeration *)
  Definition line_v (m : kvmap) : bytes := line_ord_v m.

  (* what line() amounts to on the canonical (sorted) representative; proved equal in proofs/TagsP.v *)
  Definition print_tags_v (m : kvmap) : bytes := join_pairs (render_v m).
End WithQuote.

(* the code *)
Definition tag_val := tag_val_v code_quote_edges code_quote_linebreak.
Definition render := render_v code_quote_edges code_quote_linebreak.
Definition line_ord := line_ord_v code_quote_edges code_quote_linebreak.
Definition line := line_v code_quote_edges code_quote_linebreak.
Definition print_tags := print_tags_v code_quote_edges code_quote_linebreak.

(* kvstring.MapSubset / tag.Set.SubsetOf *)
Definition map_subset (m1 m2 : kvmap) : bool :=
  forallb (fun kv => match map_get (fst kv) m2 with Some v => bytes_eqb v (snd kv) | None => false end) m1.

(* ---- the class of tag sets on which print-then-parse is the identity ---- *)
(* a name that goes through the scanner unchanged: not empty, no blank at an end, scanner-neutral *)
Definition name_ok (k : bytes) : bool := negb (is_nil k) && trimmed k && neutral k.
(* a value that survives being printed: it is quoted on the way out, or it goes through the scanner without
   splitting (quotes balanced).  A raw-printed value has no blank at an end and does not start with a quote
   character, by the quoting predicate itself (raw_value_facts in proofs/TagsP.v). *)
Definition tag_value_safe (last : bool) (v : bytes) : bool := tag_needs_quote last v || neutral v.
(* every name scanner-safe, every value safe at its place in the line *)
Fixpoint tag_pairs_safe (m : kvmap) : bool :=
  match m with
  | [] => true
  | (k, v) :: tl => name_ok k && tag_value_safe (is_nil tl) v && tag_pairs_safe tl
  end.
Fixpoint tag_values_safe (m : kvmap) : bool :=
  match m with
  | [] => true
  | (_, v) :: tl => tag_value_safe (is_nil tl) v && tag_values_safe tl
  end.
(* the braces pass: the line must not start with an opening brace (a closing brace at the end is quoted away) *)
Definition tag_edges_ok (m : kvmap) : bool :=
  match m with
  | [] => true
  | (k, _) :: _ => negb (first_is LBR k)
  end.
Definition tag_safe (m : kvmap) : bool := tag_pairs_safe m && tag_edges_ok m.

(* strictly increasing keys: the representation invariant of kvmap *)
Fixpoint keys_sorted (m : kvmap) : bool :=
  match m with
  | [] => true
  | (k, _) :: tl => match tl with
                    | [] => true
                    | (k', _) :: _ => bytes_ltb k k' && keys_sorted tl
                    end
  end.

(* ---- what the development assumes about strconv.Quote / strconv.Unquote, as executable predicates
   (the correspondence check evaluates them on every answer of the real functions it records) ---- *)
(* q = Quote(v), uq = Unquote(q): q is a double-quoted literal over which SplitString passes without
   splitting (every inner quote is escaped), it is between len(v)+2 and 4*len(v)+2 bytes long (a byte is
   copied or escaped as at most \xNN), and Unquote gives v back *)
Definition quote_ok (v q : bytes) (uq : option bytes) : bool :=
  first_is QUOTE q && last_is QUOTE q && Nat.leb (length v + 2) (length q) && Nat.leb (length q) (4 * length v + 2) &&
  neutral q && option_eqb bytes_eqb uq (Some v).
(* three concrete answers of the real functions that the refutation witnesses use:
   Quote("") is two double quotes; Unquote of "x" in double quotes and in back quotes is x *)
Definition DQ_X : bytes := [QUOTE; x78; QUOTE].
Definition BQ_X : bytes := [BQ; x78; BQ].
Definition quote_fact_ok (v q : bytes) : bool := if is_nil v then bytes_eqb q [QUOTE; QUOTE] else true.
Definition unquote_fact_ok (s : bytes) (r : option bytes) : bool :=
  if bytes_eqb s DQ_X || bytes_eqb s BQ_X then option_eqb bytes_eqb r (Some [x78]) else true.

(* strconv.Quote escapes a line feed (and every other control byte): its literal is one line; evaluated by the
   correspondence check on every recorded answer, like quote_ok *)
Definition QuoteNoLF (quote : bytes -> bytes) : Prop := forall v, has LF (quote v) = false.
Definition QuoteSpec (quote : bytes -> bytes) (unquote : bytes -> option bytes) : Prop :=
  forall v, quote_ok v (quote v) (unquote (quote v)) = true.
Definition OracleFacts (quote : bytes -> bytes) (unquote : bytes -> option bytes) : Prop :=
  quote [] = [QUOTE; QUOTE] /\ unquote DQ_X = Some [x78] /\ unquote BQ_X = Some [x78].
