(* Environment model of strconv.Unquote (Go 1.23 strconv/quote.go: unquote + UnquoteChar) for
   inputs that start with a double quote or a back quote - the only inputs /repo hands to it
   (pkg/model/field, pkg/utils/kvstring).  A plain total function; compared with the real
   strconv.Unquote by the correspondence check.  Definitions only. *)
From LR Require Import lib.Base lib.DecLib model.DecUtf8.

Local Open Scope Z_scope.

Definition unhex (b : byte) : option Z :=
  let c := zb b in
  if (48 <=? c) && (c <=? 57) then Some (c - 48)
  else if (97 <=? c) && (c <=? 102) then Some (c - 97 + 10)
  else if (65 <=? c) && (c <=? 70) then Some (c - 65 + 10)
  else None.

(* n hex digits at the head of s: value and rest *)
Fixpoint hex_n (n : nat) (s : bytes) (v : Z) : option (Z * bytes) :=
  match n with
  | O => Some (v, s)
  | S n' => match s with
            | [] => None
            | b :: tl => match unhex b with Some x => hex_n n' tl (v * 16 + x) | None => None end
            end
  end.

Definition oct (b : byte) : option Z := let c := zb b in if (48 <=? c) && (c <=? 55) then Some (c - 48) else None.

(* the loop of the double-quoted case: s is the text after the opening quote *)
Fixpoint uq_dq (fuel : nat) (s acc : bytes) : option bytes :=
  match fuel with
  | O => None
  | S f =>
      match s with
      | [] => None                                              (* no terminating quote *)
      | c :: tl =>
          if byte_eqb c x22 then (match tl with [] => Some acc | _ => None end)   (* len(rem) > 0 -> ErrSyntax *)
          else if byte_eqb c x0a then None
          else if 128 <=? zb c then
            let '(r, size) := decode_rune s in
            uq_dq f (skipn (Z.to_nat size) s) (acc ++ encode_rune r)
          else if negb (byte_eqb c x5c) then uq_dq f tl (acc ++ [c])
          else
            match tl with
            | [] => None
            | e :: rest =>
                let ez := zb e in
                if ez =? 97 then uq_dq f rest (acc ++ [x07])         (* \a *)
                else if ez =? 98 then uq_dq f rest (acc ++ [x08])    (* \b *)
                else if ez =? 102 then uq_dq f rest (acc ++ [x0c])   (* \f *)
                else if ez =? 110 then uq_dq f rest (acc ++ [x0a])   (* \n *)
                else if ez =? 114 then uq_dq f rest (acc ++ [x0d])   (* \r *)
                else if ez =? 116 then uq_dq f rest (acc ++ [x09])   (* \t *)
                else if ez =? 118 then uq_dq f rest (acc ++ [x0b])   (* \v *)
                else if ez =? 120 then                               (* \xHH: one byte *)
                  match hex_n 2 rest 0 with Some (v, r') => uq_dq f r' (acc ++ [b_of_Z v]) | None => None end
                else if (ez =? 117) || (ez =? 85) then               (* \uHHHH \UHHHHHHHH *)
                  match hex_n (if ez =? 117 then 4 else 8) rest 0 with
                  | Some (v, r') => if valid_rune v then uq_dq f r' (acc ++ encode_rune v) else None
                  | None => None
                  end
                else if (48 <=? ez) && (ez <=? 55) then              (* \ooo *)
                  match rest with
                  | d1 :: d2 :: r' =>
                      match oct d1, oct d2 with
                      | Some x1, Some x2 =>
                          let v := ((ez - 48) * 8 + x1) * 8 + x2 in
                          if 255 <? v then None else uq_dq f r' (acc ++ [b_of_Z v])
                      | _, _ => None
                      end
                  | _ => None
                  end
                else if ez =? 92 then uq_dq f rest (acc ++ [x5c])    (* two backslashes *)
                else if ez =? 34 then uq_dq f rest (acc ++ [x22])    (* backslash, double quote *)
                else None                                            (* backslash + single quote, and everything else *)
            end
      end
  end.

(* the back-quoted case: the first back quote after the opening one must be the last byte; CRs dropped *)
Fixpoint uq_bq (s acc : bytes) : option bytes :=
  match s with
  | [] => None
  | c :: tl =>
      if byte_eqb c x60 then (match tl with [] => Some (rev acc) | _ => None end)
      else if byte_eqb c x0d then uq_bq tl acc
      else uq_bq tl (c :: acc)
  end.

Definition go_unquote (s : bytes) : option bytes :=
  match s with
  | q :: tl =>
      if byte_eqb q x22 then uq_dq (S (length tl)) tl []
      else if byte_eqb q x60 then uq_bq tl []
      else None    (* single-quoted and unquoted inputs are never passed by /repo; not modelled *)
  | [] => None
  end.
