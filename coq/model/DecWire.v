(* Model of the request decoders of api/rpc/encoder.go (unmarshalLogEvent, unmarshalQueryRequest),
   api/rpc/ingestor.go (wpIterator.init / Get / Next and the drain loop of its consumer) and
   pkg/model/logevent.go (LogEvent.Unmarshal), in checked style: every `buf[nn:]` is a checked
   slice.  [g] is the guard flag of model/DecXBinary.v (true = the code: the length-prefixed fields are read
   through utils.UnmarshalBytes / UnmarshalString; false = the earlier code, which called the dependency's
   xbinary.UnmarshalBytes / UnmarshalString directly).
   Definitions only. *)
From LR Require Import lib.Base lib.DecLib model.DecXBinary model.DecKV model.DecFields.

Local Open Scope Z_scope.

Definition int64_of_u64 (n : N) : Z := to_int64 (Z.of_N n).
Definition int32_of_u32 (n : N) : Z := let z := Z.of_N n in if z <? 2147483648 then z else z - 4294967296.

(* api.LogEvent *)
Record api_le := { a_ts : Z; a_msg : bytes; a_tags : bytes; a_flds : bytes }.

Section Wire.
  Variable g : bool.
  Variable fx : bool.      (* the flag of model/DecFields.v *)
  Variable unquote : bytes -> option bytes.

  (* unmarshalLogEvent(buf, res, newBuf): bytes read and the event *)
  Definition unmarshal_api_le (buf : bytes) : outcome (Z * api_le) :=
    '(n, v) <- unmarshal_u64 buf ;;
    let nn := n in
    b1 <- slice_from buf nn ;;
    '(n, msg) <- unmarshal_bytes_g g b1 ;;
    let nn := nn + n in
    b2 <- slice_from buf nn ;;
    '(n, tags) <- unmarshal_bytes_g g b2 ;;
    let nn := nn + n in
    b3 <- slice_from buf nn ;;
    '(n, flds) <- unmarshal_bytes_g g b3 ;;
    Ok (nn + n, {| a_ts := int64_of_u64 v; a_msg := msg; a_tags := tags; a_flds := flds |}).

  (* api.QueryRequest *)
  Record qreq := { q_id : N; q_query : bytes; q_pos : bytes; q_wait : Z; q_offset : Z; q_limit : Z }.

  Definition unmarshal_qr (buf : bytes) : outcome (Z * qreq) :=
    '(n, id) <- unmarshal_u64 buf ;;
    let nn := n in
    b1 <- slice_from buf nn ;;
    '(n, qry) <- unmarshal_bytes_g g b1 ;;
    let nn := nn + n in
    b2 <- slice_from buf nn ;;
    '(n, pos) <- unmarshal_bytes_g g b2 ;;
    let nn := nn + n in
    b3 <- slice_from buf nn ;;
    '(n, wt) <- unmarshal_u16 b3 ;;
    let nn := nn + n in
    b4 <- slice_from buf nn ;;
    '(n, off) <- unmarshal_u32 b4 ;;
    let nn := nn + n in
    b5 <- slice_from buf nn ;;
    '(n, lim) <- unmarshal_u32 b5 ;;
    Ok (nn + n, {| q_id := id; q_query := qry; q_pos := pos; q_wait := Z.of_N wt;
                   q_offset := int32_of_u32 off; q_limit := Z.of_N lim |}).

  (* model.LogEvent; le_flds is the binary field list *)
  Record levent := { le_ts : Z; le_msg : bytes; le_flds : bytes }.

  (* LogEvent.Unmarshal(buf, newBuf) on the receiver [prev] (the struct is reused by the iterators:
     since fix 39c6d07 Fields is cleared when header bit 0 is clear; before, it was left as it was) *)
  Definition le_unmarshal (prev : levent) (buf : bytes) : outcome (Z * levent) :=
    '(nn, hdr) <- unmarshal_byte buf ;;
    b1 <- slice_from buf nn ;;
    '(n, ts) <- unmarshal_u64 b1 ;;
    let nn := nn + n in
    b2 <- slice_from buf nn ;;
    '(n, msg) <- unmarshal_bytes_g g b2 ;;
    let nn := nn + n in
    if N.odd hdr then
      b3 <- slice_from buf nn ;;
      '(n, flds) <- unmarshal_bytes_g g b3 ;;
      Ok (nn + n, {| le_ts := int64_of_u64 ts; le_msg := msg; le_flds := flds |})
    else Ok (nn, {| le_ts := int64_of_u64 ts; le_msg := msg; le_flds := [] |}).   (* Fields cleared (fix 39c6d07); was: kept from prev *)

  (* wpIterator *)
  Record wpit := { wp_buf : bytes; wp_tags : bytes; wp_flds : bytes; wp_pos : Z; wp_recs : Z; wp_cur : Z;
                   wp_read : bool; wp_lge : levent }.

  Definition le_zero : levent := {| le_ts := 0; le_msg := []; le_flds := [] |}.

  Definition wp_init (buf : bytes) : outcome wpit :=
    '(idx, tags) <- unmarshal_bytes_g g buf ;;
    b1 <- slice_from buf idx ;;
    '(n, flds) <- unmarshal_bytes_g g b1 ;;
    let idx := idx + n in
    b2 <- slice_from buf idx ;;
    '(n, ln) <- unmarshal_u32 b2 ;;
    bf <- fields_of_kv fx unquote flds ;;
    Ok {| wp_buf := buf; wp_tags := tags; wp_flds := bf; wp_pos := idx + n; wp_recs := Z.of_N ln; wp_cur := 0;
          wp_read := false; wp_lge := le_zero |}.

  Definition wp_next (w : wpit) : wpit :=
    {| wp_buf := wp_buf w; wp_tags := wp_tags w; wp_flds := wp_flds w; wp_pos := wp_pos w; wp_recs := wp_recs w;
       wp_cur := wp_cur w; wp_read := false; wp_lge := wp_lge w |}.

  (* Get: Err = io.EOF *)
  Definition wp_get (w : wpit) : wpit * outcome levent :=
    if wp_read w then (w, Ok (wp_lge w)) else
    if wp_recs w <=? wp_cur w then (w, Err) else
    let w1 := {| wp_buf := wp_buf w; wp_tags := wp_tags w; wp_flds := wp_flds w; wp_pos := wp_pos w; wp_recs := wp_recs w;
                 wp_cur := wp_cur w + 1; wp_read := false; wp_lge := wp_lge w |} in
    match slice_from (wp_buf w) (wp_pos w) with
    | Ok b =>
        match unmarshal_api_le b with
        | Ok (n, le) =>
            match fields_parse fx unquote (a_flds le) with
            | Ok fle =>
                let lge := {| le_ts := a_ts le; le_msg := a_msg le; le_flds := concat (wp_flds w) fle |} in
                ({| wp_buf := wp_buf w; wp_tags := wp_tags w; wp_flds := wp_flds w; wp_pos := wp_pos w + n; wp_recs := wp_recs w;
                    wp_cur := wp_cur w + 1; wp_read := true; wp_lge := lge |}, Ok lge)
            | Err => (w1, Err)   (* not reachable: Parse swallows errors *)
            | Panic => (w1, Panic)
            | OutOfFuel => (w1, OutOfFuel)
            end
        | Err => (w1, Err)
        | Panic => (w1, Panic)
        | OutOfFuel => (w1, OutOfFuel)
        end
    | _ => (w1, Panic)
    end.

  (* the consumer (partition write): Get, on success take the event and Next, until Get fails *)
  Fixpoint wp_drain (fuel : nat) (w : wpit) (acc : list levent) : outcome (list levent) :=
    match fuel with
    | O => OutOfFuel
    | S f =>
        match wp_get w with
        | (w', Ok le) => wp_drain f (wp_next w') (le :: acc)
        | (_, Err) => Ok (rev acc)
        | (_, Panic) => Panic
        | (_, OutOfFuel) => OutOfFuel
        end
    end.

  (* the whole server-side handling of a write packet body: tags and the events handed to the partition *)
  Definition wp_run (buf : bytes) : outcome (bytes * list levent) :=
    w <- wp_init buf ;;
    evs <- wp_drain (S (length buf)) w [] ;;
    Ok (wp_tags w, evs).
End Wire.
