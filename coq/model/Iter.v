(* Iterators under a cursor (C04/C16): the chunk iterator of the `range` dependency with its exact
   position rules (pos in [-1..count], forward/backward Get table of chunkfs/citerator.go), the
   journal iterator of the dependency (records/journal/iterator.go, used when the query has no
   RANGE), the partition iterator of /repo (pkg/partition/jiterator.go + the position functions of
   cselector.go, used when the query has a RANGE; the per-chunk index windows minPos/maxPos are data)
   and an in-memory leaf with chunk-iterator rules (the scripted source of the direct Mixer runs).
   Definitions only. *)
From LR Require Import lib.Base.
Open Scope Z_scope.

(* a stored event: timestamp and the identity of its payload *)
Definition ev := (Z * nat)%type.
Definition ev_ts (e : ev) : Z := fst e.

Definition MaxU32 : Z := 4294967295.
Definition MaxU64 : Z := 18446744073709551615.
Definition u32 (z : Z) : Z := z mod 4294967296.
Definition u64 (z : Z) : Z := z mod 18446744073709551616.

(* ------------------------------------------------------------------ chunk iterator (cIterator) *)
Record cit := mkCit { ci_pos : Z; ci_bk : bool }.

(* SetPos: no-op on the same position, clamps into [-1..cnt] *)
Definition ci_set_pos (cnt p : Z) (c : cit) : cit :=
  if p =? ci_pos c then c
  else let p1 := if p >? cnt then cnt else p in
       let p2 := if p1 <? 0 then -1 else p1 in
       mkCit p2 (ci_bk c).

Definition ci_set_backward (b : bool) (c : cit) : cit := mkCit (ci_pos c) b.

(* ensureFileReader + readRecord: the position is first pulled to the last record (backward, pos >= cnt)
   or to the first record (forward, pos < 0); None is io.EOF, Some i the index of the record returned *)
Definition ci_get (cnt : Z) (c : cit) : cit * option Z :=
  let c1 := if ci_bk c
            then (if ci_pos c >=? cnt then ci_set_pos cnt (cnt - 1) c else c)
            else (if ci_pos c <? 0 then ci_set_pos cnt 0 c else c) in
  if (ci_pos c1 <? 0) || (ci_pos c1 >=? cnt) then (c1, None) else (c1, Some (ci_pos c1)).

(* Next: Get; on success one step in the current direction *)
Definition ci_next (cnt : Z) (c : cit) : cit :=
  let '(c1, r) := ci_get cnt c in
  match r with
  | None => c1
  | Some _ => if ci_bk c1 then ci_set_pos cnt (ci_pos c1 - 1) c1 else mkCit (ci_pos c1 + 1) (ci_bk c1)
  end.

(* ------------------------------------------------------------------ journals *)
(* a chunk: id, confirmed records, and the window of record positions the time index allows for the
   RANGE of the query (chkStatus.minPos/maxPos; only the partition iterator looks at it) *)
Record chunk := mkChunk { c_id : Z; c_recs : list ev; c_min : Z; c_max : Z }.
Definition journal := list chunk.
Definition c_cnt (c : chunk) : Z := Z.of_nat (length (c_recs c)).

Fixpoint find_chunk (j : journal) (cid : Z) : option chunk :=
  match j with
  | [] => None
  | c :: tl => if c_id c =? cid then Some c else find_chunk tl cid
  end.
Definition cnt_of (j : journal) (cid : Z) : Z :=
  match find_chunk j cid with Some c => c_cnt c | None => 0 end.
Definition rec_of (j : journal) (cid i : Z) : option ev :=
  match find_chunk j cid with Some c => nth_error (c_recs c) (Z.to_nat i) | None => None end.

(* first chunk with id >= cid (sort.Search over the id-sorted chunk list) *)
Fixpoint first_ge (j : journal) (cid : Z) : option chunk :=
  match j with
  | [] => None
  | c :: tl => if c_id c >=? cid then Some c else first_ge tl cid
  end.
(* last chunk with id <= cid *)
Fixpoint last_le (j : journal) (cid : Z) : option chunk :=
  match j with
  | [] => None
  | c :: tl => if c_id c <=? cid then (match last_le tl cid with Some d => Some d | None => Some c end) else None
  end.

(* journal iterator state, shared by both journal iterators: pos = (CId, Idx), the open chunk iterator, direction *)
Record jit := mkJit { j_cid : Z; j_idx : Z; j_ci : option cit; j_bk : bool }.
Definition jit_at (cid idx : Z) : jit := mkJit cid idx None false.
Definition j_with_pos (s : jit) (cid idx : Z) : jit := mkJit cid idx (j_ci s) (j_bk s).
Definition j_with_ci (s : jit) (c : option cit) : jit := mkJit (j_cid s) (j_idx s) c (j_bk s).

Definition jit_set_backward (b : bool) (s : jit) : jit :=
  if Bool.eqb (j_bk s) b then s
  else mkJit (j_cid s) (j_idx s) (option_map (ci_set_backward b) (j_ci s)) b.

(* SetPos (same text in both iterators): same pos -> nothing; another chunk -> close; open chunk -> ci.SetPos *)
Definition jit_set_pos (j : journal) (cid idx : Z) (s : jit) : jit :=
  if (cid =? j_cid s) && (idx =? j_idx s) then s
  else let ci1 := if cid =? j_cid s then j_ci s else None in
       let ci2 := option_map (ci_set_pos (cnt_of j (j_cid s)) idx) ci1 in
       mkJit cid idx ci2 (j_bk s).

(* opening the chunk iterator at the end of ensureChkIt: new iterator (pos 0, forward), SetBackward, SetPos(Idx),
   Idx := uint32(ci.Pos()) *)
Definition open_ci (cnt : Z) (s : jit) : jit :=
  let c := ci_set_pos cnt (j_idx s) (ci_set_backward (j_bk s) (mkCit 0 false)) in
  mkJit (j_cid s) (u32 (ci_pos c)) (Some c) (j_bk s).

(* ------------------------------------------------------------------ range JIterator (no RANGE) *)
Fixpoint last_chunk (j : journal) : option chunk :=
  match j with
  | [] => None
  | [c] => Some c
  | _ :: tl => last_chunk tl
  end.
Definition first_chunk (j : journal) : option chunk := hd_error j.

(* getChunkByIdOrGreater: first chunk with id >= cid, the last chunk if there is none, nil for an empty journal *)
Definition chunk_ge (j : journal) (cid : Z) : option chunk :=
  match first_ge j cid with Some c => Some c | None => last_chunk j end.
(* getChunkByIdOrLess: nil for an empty journal or when the first chunk is above cid *)
Definition chunk_le (j : journal) (cid : Z) : option chunk := last_le j cid.

(* ensureChkIt; false = io.EOF *)
Definition rj_ensure (j : journal) (s : jit) : jit * bool :=
  match j_ci s with
  | Some _ => (s, true)
  | None =>
      match (if j_bk s then chunk_le j (j_cid s) else chunk_ge j (j_cid s)) with
      | None => (s, false)
      | Some chk =>
          let lt := c_id chk <? j_cid s in
          let s1 := if lt then j_with_pos s (c_id chk) (u32 (c_cnt chk)) else s in
          if lt && negb (j_bk s) then (s1, false)
          else
            let s2 := if c_id chk >? j_cid s1 then j_with_pos s1 (c_id chk) 0 else s1 in
            (open_ci (c_cnt chk) s2, true)
      end
  end.

Definition rj_advance (j : journal) (s : jit) : jit * bool :=
  let s0 := j_with_ci s None in
  let s1 := if j_bk s then j_with_pos s0 (u64 (j_cid s - 1)) MaxU32 else j_with_pos s0 (u64 (j_cid s + 1)) 0 in
  rj_ensure j s1.

(* the loop `for err == io.EOF { advanceChunk ... }` of Get; the fuel is the number of chunks plus one
   (every round opens another chunk or ends with io.EOF) *)
Fixpoint rj_get_loop (fuel : nat) (j : journal) (s : jit) : jit * option ev :=
  match j_ci s with
  | None => (s, None)
  | Some c =>
      let cnt := cnt_of j (j_cid s) in
      let '(c1, r) := ci_get cnt c in
      let s1 := j_with_ci s (Some c1) in
      match r with
      | Some i => (s1, rec_of j (j_cid s) i)
      | None =>
          match fuel with
          | O => (s1, None)
          | S f => let '(s2, ok) := rj_advance j s1 in if ok then rj_get_loop f j s2 else (s2, None)
          end
      end
  end.

Definition rj_get (j : journal) (s : jit) : jit * option ev :=
  let '(s1, ok) := rj_ensure j s in
  if ok then rj_get_loop (S (length j)) j s1 else (s1, None).

Definition rj_next (j : journal) (s : jit) : jit :=
  let s1 := fst (rj_get j s) in
  match j_ci s1 with
  | None => s1
  | Some c =>
      let c1 := ci_next (cnt_of j (j_cid s1)) c in
      if ci_pos c1 <? 0 then fst (rj_advance j (j_with_ci s1 (Some c1)))
      else mkJit (j_cid s1) (u32 (ci_pos c1)) (Some c1) (j_bk s1)
  end.

(* ------------------------------------------------------------------ partition JIterator (RANGE) *)
(* chkStatus.checkPosOrAdvance / checkPosOrReduce on (minPos, maxPos, count) *)
Definition check_pos_or_advance (c : chunk) (pos : Z) : Z * bool :=
  let p1 := if pos <? c_min c then c_min c else pos in
  if (p1 >=? c_cnt c) || (p1 >? c_max c) then (c_cnt c, false) else (p1, true).
Definition check_pos_or_reduce (c : chunk) (pos : Z) : Z * bool :=
  let p1 := if pos >? c_max c then c_max c else pos in
  let p2 := if p1 >=? c_cnt c then u32 (c_cnt c - 1) else p1 in
  (p2, (p2 >=? c_min c) && (c_cnt c >? 0)).

(* the loop of getPosForward from the chunk found; `lastc` is the chunk visited last *)
Fixpoint pos_fwd_loop (cs : list chunk) (pidx : Z) (lastc : chunk) : option chunk * (Z * Z) :=
  match cs with
  | [] => (None, (c_id lastc, c_cnt lastc))
  | c :: tl => let '(np, ok) := check_pos_or_advance c pidx in
               if ok then (Some c, (c_id c, np)) else pos_fwd_loop tl 0 c
  end.
Fixpoint drop_lt (j : journal) (cid : Z) : journal :=
  match j with
  | [] => []
  | c :: tl => if c_id c <? cid then drop_lt tl cid else j
  end.
Definition get_pos_forward (j : journal) (cid idx : Z) : option chunk * (Z * Z) :=
  match last_chunk j with
  | None => (None, (0, 0))
  | Some lc =>
      match drop_lt j cid with
      | [] => (None, (c_id lc, c_cnt lc))
      | c :: tl => pos_fwd_loop (c :: tl) (if c_id c =? cid then idx else 0) c
      end
  end.

(* getPosBackward walks the chunks downwards: `cs` is the reversed list of the chunks with id <= cid *)
Fixpoint pos_bwd_loop (cs : list chunk) (pidx : Z) (lastc : chunk) : option chunk * (Z * Z) :=
  match cs with
  | [] => (None, (c_id lastc, 0))
  | c :: tl => let '(pp, ok) := check_pos_or_reduce c pidx in
               if ok then (Some c, (c_id c, pp)) else pos_bwd_loop tl MaxU32 c
  end.
Fixpoint take_le (j : journal) (cid : Z) : journal :=
  match j with
  | [] => []
  | c :: tl => if c_id c <=? cid then c :: take_le tl cid else []
  end.
Definition get_pos_backward (j : journal) (cid idx : Z) : option chunk * (Z * Z) :=
  match first_chunk j with
  | None => (None, (0, 0))
  | Some fc =>
      match rev (take_le j cid) with
      | [] => (None, (c_id fc, 0))
      | c :: tl => pos_bwd_loop (c :: tl) (if c_id c =? cid then idx else u32 (c_cnt c - 1)) c
      end
  end.

(* ensureChkIt: the position is overwritten by the selector's answer, except in backward mode when the selector
   found no chunk (before the first record): there the position is kept, so that the backward end is stable
   (the selector's answer, the first record of the first chunk, would be delivered again by the next Get) *)
Definition pj_ensure (j : journal) (s : jit) : jit * bool :=
  match j_ci s with
  | Some _ => (s, true)
  | None =>
      let '(chk, (cid, idx)) := if j_bk s then get_pos_backward j (j_cid s) (j_idx s)
                                else get_pos_forward j (j_cid s) (j_idx s) in
      let s1 := j_with_pos s cid idx in
      match chk with
      | None => (if j_bk s then s else s1, false)
      | Some c => (open_ci (c_cnt c) s1, true)
      end
  end.

Definition pj_advance (j : journal) (s : jit) : jit * bool :=
  let s0 := j_with_ci s None in
  let s1 := if j_bk s then j_with_pos s0 (u64 (j_cid s - 1)) MaxU32 else j_with_pos s0 (u64 (j_cid s + 1)) 0 in
  pj_ensure j s1.

Fixpoint pj_get_loop (fuel : nat) (j : journal) (s : jit) : jit * option ev :=
  match j_ci s with
  | None => (s, None)
  | Some c =>
      let cnt := cnt_of j (j_cid s) in
      let '(c1, r) := ci_get cnt c in
      let s1 := j_with_ci s (Some c1) in
      match r with
      | Some i => (s1, rec_of j (j_cid s) i)
      | None =>
          match fuel with
          | O => (s1, None)
          | S f => let '(s2, ok) := pj_advance j s1 in if ok then pj_get_loop f j s2 else (s2, None)
          end
      end
  end.

Definition pj_get (j : journal) (s : jit) : jit * option ev :=
  let '(s1, ok) := pj_ensure j s in
  if ok then pj_get_loop (S (length j)) j s1 else (s1, None).

Definition win_of (j : journal) (cid : Z) : Z * Z :=
  match find_chunk j cid with Some c => (c_min c, c_max c) | None => (0, MaxU32) end.

Definition pj_next (j : journal) (s : jit) : jit :=
  let s1 := fst (pj_get j s) in
  match j_ci s1 with
  | None => s1
  | Some c =>
      let c1 := ci_next (cnt_of j (j_cid s1)) c in
      let p := ci_pos c1 in
      let '(wmin, wmax) := win_of j (j_cid s1) in
      if (p <? 0) || (u32 p <? wmin) || (u32 p >? wmax) then fst (pj_advance j (j_with_ci s1 (Some c1)))
      else mkJit (j_cid s1) (u32 p) (Some c1) (j_bk s1)
  end.

(* ------------------------------------------------------------------ leaves of the mixer tree *)
(* LMem: scripted in-memory source (one list, chunk-iterator rules, position (mid, pos));
   LR: journal read through the range iterator; LP: journal read through the partition iterator *)
Inductive leaf :=
| LMem (mid : Z) (recs : list ev) (c : cit)
| LR (j : journal) (s : jit)
| LP (j : journal) (s : jit).

Definition l_get (l : leaf) : leaf * option ev :=
  match l with
  | LMem m recs c => let '(c1, r) := ci_get (Z.of_nat (length recs)) c in
                     (LMem m recs c1, match r with Some i => nth_error recs (Z.to_nat i) | None => None end)
  | LR j s => let '(s1, r) := rj_get j s in (LR j s1, r)
  | LP j s => let '(s1, r) := pj_get j s in (LP j s1, r)
  end.
Definition l_next (l : leaf) : leaf :=
  match l with
  | LMem m recs c => LMem m recs (ci_next (Z.of_nat (length recs)) c)
  | LR j s => LR j (rj_next j s)
  | LP j s => LP j (pj_next j s)
  end.
Definition l_set_backward (b : bool) (l : leaf) : leaf :=
  match l with
  | LMem m recs c => LMem m recs (ci_set_backward b c)
  | LR j s => LR j (jit_set_backward b s)
  | LP j s => LP j (jit_set_backward b s)
  end.
(* Pos() of the iterator: (CId, Idx) *)
Definition l_pos (l : leaf) : Z * Z :=
  match l with
  | LMem m recs c => (m, u32 (ci_pos c))
  | LR j s => (j_cid s, j_idx s)
  | LP j s => (j_cid s, j_idx s)
  end.
Definition l_set_pos (cid idx : Z) (l : leaf) : leaf :=
  match l with
  | LMem m recs c => LMem m recs (ci_set_pos (Z.of_nat (length recs)) (if cid >? m then Z.of_nat (length recs) else if cid <? m then 0 else idx) c)
  | LR j s => LR j (jit_set_pos j cid idx s)
  | LP j s => LP j (jit_set_pos j cid idx s)
  end.
