(* Model of TRUNCATE: pkg/partition/partition.go (Service.Truncate, truncate, truncateGlobally,
   deleteJournal), the part of tindex it relies on (visitSkippingIfLocked, LockExclusively: a
   partition can be dropped only when the visitor is its single holder) and the dependency's
   fsChnksController.deleteChunks / JIterator.ensureChkIt.  Definitions only.

   A partition is a list of chunks in the order of journal.Chunks() (ascending chunk id); a chunk
   carries what TRUNCATE looks at: id, Size(), Count(), the hull the time index reports for it
   (SyncChunks: MinTs/MaxTs) and - for the statements about events - the timestamps of its records.
   The source condition is evaluated elsewhere (C06): a partition carries the flag [p_match].

   [incl] is the comparison used by the BEFORE phase: true = the code's `MaxTs <= OldestTs`,
   false = the proposed repair `MaxTs < OldestTs`. *)
From LR Require Import lib.Base.
Open Scope N_scope.

Record chunk := mkChunk { c_id : N; c_size : N; c_recs : N; c_min : Z; c_max : Z; c_ts : list Z }.

(* TruncateParams: DryRun, MinSrcSize, MaxSrcSize, OldestTs, MaxDBSize (TagsExpr is [p_match]) *)
Record tparams := mkTP { tp_dry : bool; tp_min : N; tp_max : N; tp_oldest : Z; tp_maxdb : N }.

(* a partition as the tag index and the journal controller see it: [p_key] stands for Src,
   [p_excl] = tagsDesc.exclusive, [p_readers] = holders other than the truncating visitor *)
Record part := mkPart { p_key : N; p_match : bool; p_excl : bool; p_readers : nat; p_chunks : list chunk }.

(* TruncateInfo *)
Record info := mkInfo { i_lts : Z; i_key : N; i_bsize : N; i_asize : N; i_brecs : N; i_arecs : N;
                        i_chunks : N; i_deleted : bool }.

(* what became of a partition: still there, or dropped (deleteJournal succeeded) - the chunks it
   still had at that moment are kept so that "dropped only when empty" is a statement, not a convention *)
Inductive slot := Kept (p : part) | Dropped (p : part) (left : list chunk).

Definition code_incl : bool := false.   (* partition.go:606  sc[idx].MaxTs < tp.OldestTs  (was <= before the fix 01dd7d2) *)

(* uint64 subtraction *)
Definition two64 : N := 18446744073709551616.
Definition usub (a b : N) : N := (a + two64 - b) mod two64.

Definition total_size (cks : list chunk) : N := fold_right (fun c a => c_size c + a) 0 cks.
Definition total_recs (cks : list chunk) : N := fold_right (fun c a => c_recs c + a) 0 cks.
Definition set_chunks (p : part) (cks : list chunk) : part :=
  mkPart (p_key p) (p_match p) (p_excl p) (p_readers p) cks.

(* ---- Service.truncate ----------------------------------------------------------------- *)

(* `for ; idx < len(cks) && size > Max && size-cks[idx].Size() >= Min; idx++ { size -= ... }`
   on the chunks from idx on; returns (how many steps, size afterwards) *)
Fixpoint size_phase (mx mn : N) (cks : list chunk) (size : N) : nat * N :=
  match cks with
  | [] => (O, size)
  | c :: tl =>
      if (mx <? size) && (mn <=? usub size (c_size c))
      then let '(k, s) := size_phase mx mn tl (usub size (c_size c)) in (S k, s)
      else (O, size)
  end.

Definition ts_old (incl : bool) (maxts oldest : Z) : bool :=
  if incl then (maxts <=? oldest)%Z else (maxts <? oldest)%Z.

(* `for ; idx < len(sc) && sc[idx].MaxTs <= Oldest && size-cks[idx].Size() >= Min; idx++` *)
Fixpoint time_phase (incl : bool) (oldest : Z) (mn : N) (cks : list chunk) (size : N) : nat * N :=
  match cks with
  | [] => (O, size)
  | c :: tl =>
      if ts_old incl (c_max c) oldest && (mn <=? usub size (c_size c))
      then let '(k, s) := time_phase incl oldest mn tl (usub size (c_size c)) in (S k, s)
      else (O, size)
  end.

(* the two loops: (chunks taken by size, chunks taken by time, size left) *)
Definition choose (incl : bool) (tp : tparams) (cks : list chunk) (size : N) : nat * nat * N :=
  let '(a, s1) := if (0 <? tp_max tp) && (tp_min tp <? tp_max tp)
                  then size_phase (tp_max tp) (tp_min tp) cks size else (O, size) in
  let '(b, s2) := if (0 <? tp_oldest tp)%Z && Nat.ltb a (length cks)
                  then time_phase incl (tp_oldest tp) (tp_min tp) (skipn a cks) s1 else (O, s1) in
  (a, b, s2).

(* fsChnksController.deleteChunks: walks the sorted chunks, stops at the first id > lastCid *)
Fixpoint delete_chunks (last : N) (cks : list chunk) : nat * list chunk :=
  match cks with
  | [] => (O, [])
  | c :: tl => if last <? c_id c then (O, cks)
               else let '(n, r) := delete_chunks last tl in (S n, r)
  end.

(* returns (chunks removed, bytes removed, chunks afterwards) *)
Definition truncate (incl : bool) (tp : tparams) (cks : list chunk) : nat * N * list chunk :=
  let size := total_size cks in
  let '(a, b, s2) := choose incl tp cks size in
  let n := (a + b)%nat in
  match n with
  | O => (O, usub size s2, cks)
  | S i =>
      if tp_dry tp then (n, usub size s2, cks)
      else match nth_error cks i with
           | Some c => let '(d, r) := delete_chunks (c_id c) cks in (d, usub size s2, r)
           | None => (O, 0, cks)   (* cks[idx] out of range; unreachable: Lemma choose_le in TruncateP *)
           end
  end.

(* ---- deleteJournal: LockExclusively needs readers == 1 (the caller), then Size() == 0 ------- *)
Definition deletable (p : part) (cks : list chunk) : bool :=
  Nat.eqb (p_readers p) 0 && (total_size cks =? 0).

Definition last_max (cks : list chunk) : Z := match rev cks with c :: _ => c_max c | [] => 0%Z end.

(* ---- the visitor of Service.Truncate for one partition:
        (what became of it, reports emitted at once, entry for sortedInfos) ---- *)
Definition empty_info (p : part) : info := mkInfo 0%Z (p_key p) 0 0 0 0 0 true.

Definition visit_one (incl : bool) (tp : tparams) (p : part) : slot * list info * list info :=
  if negb (p_match p) || p_excl p then (Kept p, [], []) else
  let cks := p_chunks p in
  let size := total_size cks in
  let recs := total_recs cks in
  if size =? 0 then
    if tp_dry tp then (Kept p, [empty_info p], [])
    else if deletable p cks then (Dropped p cks, [empty_info p], [])
    else (Kept p, [], [])
  else
    let '(n, tr, cks') := truncate incl tp cks in
    let arecs := total_recs cks' in
    let deleted := (tr =? size) && (tp_dry tp || deletable p cks') in
    let sl := if deleted && negb (tp_dry tp) then Dropped p cks' else Kept (set_chunks p cks') in
    (sl, [], [mkInfo (last_max cks) (p_key p) size (usub size tr) recs arecs (N.of_nat n) deleted]).

(* ---- a concurrent writer -------------------------------------------------------------------
   deleteJournal takes the partition exclusively (LockExclusively: nobody but the truncating visitor
   holds it) and only THEN looks at Size().  A writer that appends [w] (acquire, write, flush, release)
   at the latest possible moment - when deleteJournal is already asking for the lock - is therefore
   seen by the emptiness test.  [visit_one_w] is the visitor of one partition with such a writer:
   (what became of the partition, whether deleteJournal was reached at all = whether the writer ran). *)
Definition visit_one_w (incl : bool) (tp : tparams) (p : part) (w : list chunk) : slot * bool :=
  if negb (p_match p) || p_excl p then (Kept p, false) else
  let cks := p_chunks p in
  let size := total_size cks in
  if size =? 0 then
    if tp_dry tp then (Kept p, false)
    else if deletable p (cks ++ w) then (Dropped p (cks ++ w), true)
    else (Kept (set_chunks p (cks ++ w)), true)
  else
    let '(n, tr, cks') := truncate incl tp cks in
    if (tr =? size) && negb (tp_dry tp) then
      if deletable p (cks' ++ w) then (Dropped p (cks' ++ w), true)
      else (Kept (set_chunks p (cks' ++ w)), true)
    else (Kept (set_chunks p cks'), false).

(* sortedInfos: insert at sort.Search(len, sortedInfos[idx].LatestTs <= ti.LatestTs); the slice is kept
   descending by LatestTs, on which the binary search is the first index where the test holds *)
Fixpoint insert_info (ti : info) (l : list info) : list info :=
  match l with
  | [] => [ti]
  | x :: tl => if (i_lts x <=? i_lts ti)%Z then ti :: l else x :: insert_info ti tl
  end.

Definition phase1 (incl : bool) (tp : tparams) (st : list part) : list slot * list info * list info :=
  let rs := map (visit_one incl tp) st in
  (map (fun r => fst (fst r)) rs,
   flat_map (fun r => snd (fst r)) rs,
   fold_left (fun acc ti => insert_info ti acc) (flat_map (fun r => snd r) rs) []).

(* ---- truncateGlobally ------------------------------------------------------------------ *)
Definition all_params (dry : bool) : tparams := mkTP dry 0 1 0%Z 0.   (* MinSrcSize 0, MaxSrcSize 1 *)

(* GetJournalTags(src): the partition registered under the key, if it is still there *)
Fixpoint find_slot (k : N) (sl : list slot) : option part :=
  match sl with
  | [] => None
  | Kept p :: tl => if p_key p =? k then Some p else find_slot k tl
  | Dropped _ _ :: tl => find_slot k tl
  end.
Fixpoint set_slot (k : N) (s : slot) (sl : list slot) : list slot :=
  match sl with
  | [] => []
  | Kept p :: tl => if p_key p =? k then s :: tl else Kept p :: set_slot k s tl
  | Dropped p l :: tl => Dropped p l :: set_slot k s tl
  end.

(* the loop `for i := 0; i < len(sortedInfos) && ts > MaxDBSize; i++` *)
Fixpoint glob (incl dry : bool) (maxdb : N) (infos : list info) (ts : N) (sl : list slot) : list info * list slot :=
  match infos with
  | [] => ([], sl)
  | ti :: tl =>
      if maxdb <? ts then
        if 0 <? i_asize ti then
          match find_slot (i_key ti) sl with
          | None => let '(r, sl') := glob incl dry maxdb tl ts sl in (ti :: r, sl')
          | Some p =>
              let cks := p_chunks p in
              let '(_, _, cks') := truncate incl (all_params dry) cks in
              let deleted := dry || deletable p cks' in
              let sl1 := if dry then sl
                         else set_slot (i_key ti) (if deletable p cks' then Dropped p cks' else Kept (set_chunks p cks')) sl in
              if deleted then
                let ti' := mkInfo (i_lts ti) (i_key ti) (i_bsize ti) 0 (i_brecs ti) 0
                                  (i_chunks ti + N.of_nat (length (if dry && Nat.leb (N.to_nat (i_chunks ti)) (length cks) then skipn (N.to_nat (i_chunks ti)) cks else cks))) true in
                let '(r, sl') := glob incl dry maxdb tl (usub ts (i_asize ti)) sl1 in (ti' :: r, sl')
              else
                let '(r, sl') := glob incl dry maxdb tl ts sl1 in (ti :: r, sl')
          end
        else let '(r, sl') := glob incl dry maxdb tl ts sl in (ti :: r, sl')
      else (infos, sl)
  end.

Definition sum_asize (l : list info) : N := fold_right (fun ti a => i_asize ti + a) 0 l.

(* Service.Truncate: (what became of every partition, in the order of [st]; the calls of the
   OnTruncateF callback in order) *)
Definition Truncate (incl : bool) (tp : tparams) (st : list part) : list slot * list info :=
  let '(sl, imm, sorted) := phase1 incl tp st in
  let '(infos, sl') := glob incl (tp_dry tp) (tp_maxdb tp) sorted (sum_asize sorted) sl in
  (sl', imm ++ filter (fun ti => negb (i_asize ti =? i_bsize ti)) infos).

(* ---- the time range of a chunk after a start without the time index's snapshot ---------------
   cindex.lightFill (SyncChunks on a chunk the index knows nothing about: the start after a crash, cindex/cindex.dat
   is written by a clean shutdown only): MinTs := timestamp of the first record, MaxTs := timestamp of the last one;
   if the last is older than the first (fresh data followed by late data) the two are exchanged. [both] = true is the
   code (`c.MinTs = ts2; c.MaxTs = ts1`); false = only the lower end is corrected (MaxTs stays the last record's).
   An empty chunk keeps 0, 0. *)
Definition code_lightfill_swaps_both : bool := true.
Definition light_hull (both : bool) (ts : list Z) : Z * Z :=
  match ts with
  | [] => (0, 0)%Z
  | t1 :: _ =>
      let t2 := last ts t1 in
      if (t2 <? t1)%Z then (t2, if both then t1 else t2) else (t1, t2)
  end.
(* the chunk as TRUNCATE sees it after such a start *)
Definition light_chunk (both : bool) (c : chunk) : chunk :=
  mkChunk (c_id c) (c_size c) (c_recs c) (fst (light_hull both (c_ts c))) (snd (light_hull both (c_ts c))) (c_ts c).
Definition light_part (both : bool) (p : part) : part := set_chunks p (map (light_chunk both) (p_chunks p)).
(* the newest record of the chunk is its first or its last one (what lightFill can see) *)
Definition ends_hold_max (ts : list Z) : Prop :=
  match ts with
  | [] => True
  | t1 :: _ => forall t, In t ts -> (t <= Z.max t1 (last ts t1))%Z
  end.

(* ---- the statement as cmdTruncate runs it ------------------------------------------------------
   Service.Truncate hands the source condition to tindex.Visit, which first compiles it
   (lql.BuildTagsExpFuncBySource). A condition the parser accepts and the builder refuses (malformed LIKE
   pattern, unknown function, wrong arity: [src_ok] = false) makes Visit return the error before any
   partition is looked at; truncateGlobally then runs on the empty list and the error is returned:
   cmdTruncate reports nothing and fails (None). A partition whose journal cannot be opened
   (Journals.GetOrCreate fails in the visitor) is skipped by the visitor like one that does not match:
   it enters the model with p_match = false. *)
Definition TruncateStmt (incl src_ok : bool) (tp : tparams) (st : list part) : option (list slot * list info) :=
  if src_ok then Some (Truncate incl tp st) else None.

(* ---- a forward reader (JIterator.ensureChkIt with getChunkByIdOrGreater): the stream a reader
        standing at journal position (cid, idx) delivers from the chunk list ---- *)
Definition flat (cks : list chunk) : list Z := flat_map c_ts cks.
Fixpoint reader_next (cks : list chunk) (cid : N) (idx : nat) : list Z :=
  match cks with
  | [] => []
  | c :: tl => if c_id c <? cid then reader_next tl cid idx
               else if c_id c =? cid then skipn idx (c_ts c) ++ flat tl
               else flat (c :: tl)
  end.

(* ---- vocabulary of the statements ---- *)
Fixpoint ids_increasing (cks : list chunk) : Prop :=
  match cks with
  | [] => True
  | c :: tl => (match tl with [] => True | d :: _ => c_id c < c_id d end) /\ ids_increasing tl
  end.
Definition wf_chunk (c : chunk) : Prop := c_ts c <> [] -> 0 < c_size c.
Definition hull_ok (c : chunk) : Prop := forall t, In t (c_ts c) -> (t <= c_max c)%Z.
Definition wf_part (p : part) : Prop :=
  ids_increasing (p_chunks p) /\ total_size (p_chunks p) < two64 /\ Forall wf_chunk (p_chunks p).

Definition slot_chunks (s : slot) : list chunk := match s with Kept p => p_chunks p | Dropped _ l => l end.
(* the chunks a partition lost: a prefix of its chunk list *)
Definition removed (p : part) (s : slot) : list chunk :=
  match s with
  | Kept p' => firstn (length (p_chunks p) - length (p_chunks p')) (p_chunks p)
  | Dropped _ _ => p_chunks p
  end.
Definition all_sizes (st : list part) : N := fold_right (fun p a => total_size (p_chunks p) + a) 0 st.
