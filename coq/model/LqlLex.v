(* The LQL lexer: /repo/pkg/lql/lexer.go (regexpLexer.Next) over the regexp of parser.go:29-38.

   Go compiles the regexp with Longest(): at every position the lexer takes the longest match of the
   whole alternation that starts there; among alternatives of equal length the leftmost one in the
   pattern wins (a longer match replaces the current one only if strictly longer). No match at the
   current position is the error `invalid token`. The unnamed group (\s+) is skipped.

   The token classes, in pattern order:
     (\s+)
     Keyword  (?i)SELECT|DESCRIBE|...|NOT|\[|\]|\:      case-insensitive with Unicode simple folding:
                                                       K also matches U+212A, S also matches U+017F
     Ident    [a-zA-Z_][a-z\./\-A-Z0-9_:]*
     String   DQ ([^\\ DQ]|\\.)* DQ  |  SQ [^SQ]* SQ          (DQ/SQ: double/single quote; . does not match newline)
     Operator <>|!=|<=|>=|[-+*/%,.=<>()]
     Number   [-+]?\d*\.?\d+([eE][-+]?\d+|[mMkKgGtTbBpP][ib]{0,2})?
     Tags     \{.+\}                                    (greedy up to the last '}' of the line)
   Definitions only. *)
From LR Require Import lib.Base model.LqlAst.
From Coq Require Import Strings.String.

Definition bn (b : byte) : N := Byte.to_N b.
Definition in_rng (lo hi : N) (b : byte) : bool := N.leb lo (bn b) && N.leb (bn b) hi.
Definition is_byte (n : N) (b : byte) : bool := N.eqb (bn b) n.

Definition is_space (b : byte) : bool := is_byte 9 b || is_byte 10 b || is_byte 12 b || is_byte 13 b || is_byte 32 b.
Definition is_digit (b : byte) : bool := in_rng 48 57 b.
Definition is_upper (b : byte) : bool := in_rng 65 90 b.
Definition is_lower (b : byte) : bool := in_rng 97 122 b.
Definition is_alpha (b : byte) : bool := is_upper b || is_lower b.
Definition ident_start (b : byte) : bool := is_alpha b || is_byte 95 b.
(* [a-z\./\-A-Z0-9_:] *)
Definition ident_part (b : byte) : bool :=
  is_alpha b || is_digit b || is_byte 46 b || is_byte 47 b || is_byte 45 b || is_byte 95 b || is_byte 58 b.

(* ASCII upper-casing of one byte *)
Definition upper_byte (b : byte) : byte :=
  if is_lower b then match Byte.of_N (bn b - 32) with Some c => c | None => b end else b.
Definition lower_byte (b : byte) : byte :=
  if is_upper b then match Byte.of_N (bn b + 32) with Some c => c | None => b end else b.

(* length of the longest prefix whose bytes satisfy p *)
Fixpoint span (p : byte -> bool) (s : bytes) : nat :=
  match s with
  | b :: r => if p b then S (span p r) else 0
  | [] => 0
  end.

(* ---- case-insensitive match of an upper-case ASCII literal against a prefix of s.
   Some n: the first n bytes of s match lit under Unicode simple folding (regexp (?i) and
   strings.EqualFold agree on this for ASCII literals: K ~ k ~ U+212A (e2 84 aa), S ~ s ~ U+017F (c5 bf)). *)
Fixpoint fold_prefix (lit s : bytes) : option nat :=
  match lit with
  | [] => Some 0
  | c :: lit' =>
      match s with
      | [] => None
      | b :: s' =>
          if byte_eqb (upper_byte b) c then option_map S (fold_prefix lit' s')
          else if is_byte 75 c then
            match s with
            | xe2 :: x84 :: xaa :: s3 => option_map (fun n => 3 + n) (fold_prefix lit' s3)
            | _ => None
            end
          else if is_byte 83 c then
            match s with
            | xc5 :: xbf :: s2 => option_map (fun n => 2 + n) (fold_prefix lit' s2)
            | _ => None
            end
          else None
      end
  end.

(* strings.EqualFold(v, lit) for an upper-case ASCII literal *)
Definition fold_eq (v lit : bytes) : bool :=
  match fold_prefix lit v with Some n => Nat.eqb n (List.length v) | None => false end.

Definition keywords : list bytes :=
  map B ["SELECT"; "DESCRIBE"; "TRUNCATE"; "DELETE"; "DRYRUN"; "BEFORE"; "MAXSIZE"; "MINSIZE"; "MAXDBSIZE";
         "FROM"; "RANGE"; "WHERE"; "PARTITIONS"; "PARTITION"; "PIPES"; "SHOW"; "CREATE"; "PIPE"; "POSITION";
         "LIMIT"; "OFFSET"; "AND"; "OR"; "LIKE"; "CONTAINS"; "PREFIX"; "SUFFIX"; "NOT"; "["; "]"; ":"]%string.

(* longest keyword that is a (folded) prefix of s; 0 = none *)
Definition lex_keyword (s : bytes) : nat :=
  fold_left (fun best kw => match fold_prefix kw s with Some n => Nat.max best n | None => best end) keywords 0.

Definition lex_space (s : bytes) : nat := span is_space s.

Definition lex_ident (s : bytes) : nat :=
  match s with
  | b :: r => if ident_start b then S (span ident_part r) else 0
  | [] => 0
  end.

(* after the opening double quote: number of bytes up to and including the closing quote *)
Fixpoint dq_body (s : bytes) : option nat :=
  match s with
  | [] => None
  | b :: r =>
      if is_byte 34 b then Some 1
      else if is_byte 92 b then
        match r with
        | c :: r' => if is_byte 10 c then None else option_map (fun n => 2 + n) (dq_body r')
        | [] => None
        end
      else option_map S (dq_body r)
  end.

Fixpoint sq_body (s : bytes) : option nat :=
  match s with
  | [] => None
  | b :: r => if is_byte 39 b then Some 1 else option_map S (sq_body r)
  end.

Definition lex_string (s : bytes) : nat :=
  match s with
  | b :: r =>
      if is_byte 34 b then match dq_body r with Some n => S n | None => 0 end
      else if is_byte 39 b then match sq_body r with Some n => S n | None => 0 end
      else 0
  | [] => 0
  end.

(* [-+*/%,.=<>()] *)
Definition op_char (b : byte) : bool :=
  is_byte 45 b || is_byte 43 b || is_byte 42 b || is_byte 47 b || is_byte 37 b || is_byte 44 b ||
  is_byte 46 b || is_byte 61 b || is_byte 60 b || is_byte 62 b || is_byte 40 b || is_byte 41 b.

Definition lex_operator (s : bytes) : nat :=
  match s with
  | a :: b :: _ =>
      if (is_byte 60 a && is_byte 62 b) || (is_byte 33 a && is_byte 61 b) ||
         (is_byte 60 a && is_byte 61 b) || (is_byte 62 a && is_byte 61 b) then 2
      else if op_char a then 1 else 0
  | [a] => if op_char a then 1 else 0
  | [] => 0
  end.

Definition is_sign (b : byte) : bool := is_byte 45 b || is_byte 43 b.
(* [mMkKgGtTbBpP] *)
Definition size_letter (b : byte) : bool :=
  let u := upper_byte b in is_byte 77 u || is_byte 75 u || is_byte 71 u || is_byte 84 u || is_byte 66 u || is_byte 80 u.
Definition ib_letter (b : byte) : bool := is_byte 105 b || is_byte 98 b.

Definition lex_number (s : bytes) : nat :=
  let s1 := match s with b :: r => if is_sign b then r else s | [] => s end in
  let sign := List.length s - List.length s1 in
  let d1 := span is_digit s1 in
  let mant :=
    match skipn d1 s1 with
    | dot :: r2 => if is_byte 46 dot then (let d2 := span is_digit r2 in if Nat.eqb d2 0 then d1 else d1 + 1 + d2) else d1
    | [] => d1
    end in
  if Nat.eqb mant 0 then 0 else
  let suf :=
    match skipn mant s1 with
    | e :: r4 =>
        if is_byte 101 e || is_byte 69 e then
          (let r5 := match r4 with b :: r => if is_sign b then r else r4 | [] => r4 end in
           let d := span is_digit r5 in
           if Nat.eqb d 0 then 0 else 1 + (List.length r4 - List.length r5) + d)
        else if size_letter e then 1 + Nat.min 2 (span ib_letter r4)
        else 0
    | [] => 0
    end in
  sign + mant + suf.

(* index (from 0) one past the last '}' among the bytes before the first newline; 0 = none *)
Fixpoint last_brace (s : bytes) (i best : nat) : nat :=
  match s with
  | [] => best
  | b :: r => if is_byte 10 b then best else last_brace r (S i) (if is_byte 125 b then S i else best)
  end.

Definition lex_tags (s : bytes) : nat :=
  match s with
  | b :: r => if is_byte 123 b then (let e := last_brace r 0 0 in if Nat.leb 2 e then S e else 0) else 0
  | [] => 0
  end.

(* one step of regexpLexer.Next: class (None = skipped blank) and length of the token at the head of s *)
Definition pick (cur : option (option tokty) * nat) (ty : option tokty) (n : nat) : option (option tokty) * nat :=
  if Nat.ltb (snd cur) n then (Some ty, n) else cur.

Definition lex_one (s : bytes) : option (option tokty * nat) :=
  let c0 : option (option tokty) * nat := (None, 0) in
  let c1 := pick c0 None (lex_space s) in
  let c2 := pick c1 (Some TKeyword) (lex_keyword s) in
  let c3 := pick c2 (Some TIdent) (lex_ident s) in
  let c4 := pick c3 (Some TString) (lex_string s) in
  let c5 := pick c4 (Some TOperator) (lex_operator s) in
  let c6 := pick c5 (Some TNumber) (lex_number s) in
  let c7 := pick c6 (Some TTags) (lex_tags s) in
  match c7 with
  | (Some ty, n) => Some (ty, n)
  | (None, _) => None
  end.

(* the raw token stream (token values are the matched bytes); None = "invalid token" *)
Fixpoint lex_fuel (fuel : nat) (s : bytes) : option (list token) :=
  match s with
  | [] => Some []
  | _ :: _ =>
      match fuel with
      | O => None
      | S f =>
          match lex_one s with
          | None => None
          | Some (ty, n) =>
              match lex_fuel f (skipn n s) with
              | None => None
              | Some ts => Some (match ty with Some t => Tok t (firstn n s) :: ts | None => ts end)
              end
          end
      end
  end.

Definition lex (s : bytes) : option (list token) := lex_fuel (List.length s) s.

(* participle.Unquote(String): every String token is replaced by its unquoted value; a token that
   does not unquote fails the whole parse. `unq` is participle's unquote (a loop of strconv.UnquoteChar). *)
Fixpoint map_tokens (unq : bytes -> option bytes) (ts : list token) : option (list token) :=
  match ts with
  | [] => Some []
  | t :: r =>
      match map_tokens unq r with
      | None => None
      | Some r' =>
          match t_ty t with
          | TString => match unq (t_val t) with Some v => Some (Tok TString v :: r') | None => None end
          | _ => Some (t :: r')
          end
      end
  end.

Definition tokenize (unq : bytes -> option bytes) (s : bytes) : option (list token) :=
  match lex s with Some ts => map_tokens unq ts | None => None end.
