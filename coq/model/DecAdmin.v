(* Model of the paging arithmetic of SHOW PARTITIONS: pkg/partition/partition.go Service.Partitions (after the
   visit that collected the n matching partitions), reached from backend.Admin.cmdShowPartitions with the OFFSET and
   LIMIT numbers of the statement as the LQL parser read them (any int64; absent: 0 and math.MaxUint32).
   Definitions only.  The result is the number of partitions listed.
   [guard] = a negative offset or limit is refused with an error (the code since its repair); false = the code before:
   `make([]*PartitionInfo, limit)` with a negative limit and `parts[i]` with a negative i panic. *)
From LR Require Import lib.Base.
Open Scope Z_scope.

Definition parts_page (guard : bool) (n : nat) (offset limit : Z) : outcome nat :=
  if guard && ((offset <? 0) || (limit <? 0)) then Err else
  let limit := if 1000 <? limit then 1000 else limit in
  if Z.of_nat n <=? offset then Ok O else
  let sz := Z.of_nat n - offset in
  let limit := if sz <? limit then sz else limit in
  if limit <? 0 then Panic                         (* makeslice: len out of range *)
  else if (0 <? limit) && (offset <? 0) then Panic (* parts[offset] with a negative index *)
  else Ok (Z.to_nat limit).

Definition code_guards_paging : bool := true.
