(* Model of pkg/model/logevent.go (LogEvent: header, WritableSize, Marshal, Unmarshal) and of the
   LogEventIterator of pkg/model/iterator.go (the reused LogEvent struct).  Definitions only. *)
From LR Require Import lib.Base model.XBinary.
Open Scope N_scope.

(* model.LogEvent: Timestamp int64, Msg []byte, Fields (binary: len,bytes,len,bytes...) *)
Record levent := { le_ts : Z; le_msg : bytes; le_flds : bytes }.

Definition levent_eqb (a b : levent) : bool :=
  Z.eqb (le_ts a) (le_ts b) && bytes_eqb (le_msg a) (le_msg b) && bytes_eqb (le_flds a) (le_flds b).

Definition rec_version : N := 32.   (* 0x20 *)

(* header(): recVersion | 1 when len(Fields) > 0 *)
Definition le_header (e : levent) : N :=
  match le_flds e with
  | [] => rec_version
  | _ :: _ => N.lor rec_version 1
  end.

(* WritableSize *)
Definition writable_size (e : levent) : nat :=
  let base := (1 + 8 + writable_bytes_size (le_msg e))%nat in
  match le_flds e with
  | [] => base
  | _ :: _ => (base + writable_bytes_size (le_flds e))%nat
  end.

(* what Marshal produces in a buffer that is large enough *)
Definition marshal_le (e : levent) : bytes :=
  let hdr := le_header e in
  byte_of_N hdr :: marshal_u64 (u64_of_int64 (le_ts e)) ++ marshal_bytes (le_msg e) ++
  (if N.eqb (N.land hdr 1) 0 then [] else marshal_bytes (le_flds e)).

(* Marshal(buf) with len(buf) = sz, as iwrapper.Get calls it (the error is ignored there): the parts are
   written one after the other, each after its own space check; the first part that does not fit stops
   the marshalling (Marshal returns its error).  A length prefix is written byte by byte (MarshalUint
   stores every byte that still fits before it reports the lack of space), so its bytes are parts of
   their own; header, timestamp and the bodies are written whole or not at all.  The buffer's previous
   content is modelled as zeros.  (writable_size_ok: with sz = WritableSize() every part fits.) *)
Fixpoint fill_parts (parts : list bytes) (room : nat) : bytes :=
  match parts with
  | [] => repeat x00 room
  | p :: tl => if (room <? length p)%nat then repeat x00 room else p ++ fill_parts tl (room - length p)
  end.
Definition singles (l : bytes) : list bytes := map (fun b => [b]) l.
Definition le_parts (e : levent) : list bytes :=
  let hdr := le_header e in
  [ [byte_of_N hdr]; marshal_u64 (u64_of_int64 (le_ts e)) ] ++ singles (marshal_uint (N.of_nat (length (le_msg e)))) ++ [ le_msg e ] ++
  (if N.eqb (N.land hdr 1) 0 then [] else singles (marshal_uint (N.of_nat (length (le_flds e)))) ++ [ le_flds e ]).
Definition marshal_into (sz : nat) (e : levent) : bytes := fill_parts (le_parts e) sz.

(* Unmarshal into the struct [prev] that the caller reuses.  Fields is assigned when bit 0 of the header
   is set and reset to "" when it is clear ([clear] = true, the code).  [clear] = false is the code
   before the repair: the previous value of the struct stayed when the record carried no fields. *)
Definition unmarshal_le_v (clear : bool) (prev : levent) (buf : bytes) : outcome levent :=
  obind (unmarshal_byte buf) (fun '(hdr, r1) =>
  obind (unmarshal_u64 r1) (fun '(ts, r2) =>
  obind (unmarshal_bytes r2) (fun '(msg, r3) =>
    if N.eqb (N.land hdr 1) 0
    then Ok {| le_ts := int64_of_u64 ts; le_msg := msg; le_flds := if clear then [] else le_flds prev |}
    else obind (unmarshal_bytes r3) (fun '(flds, _) =>
           Ok {| le_ts := int64_of_u64 ts; le_msg := msg; le_flds := flds |})))).
Definition unmarshal_le : levent -> bytes -> outcome levent := unmarshal_le_v true.

(* LogEvent.Release(): Msg = nil, Fields = "" (what LogEventIterator.Next does to its struct) *)
Definition released (e : levent) : levent := {| le_ts := le_ts e; le_msg := []; le_flds := [] |}.
Definition le_zero : levent := {| le_ts := 0; le_msg := []; le_flds := [] |}.

(* LogEventIterator over a list of records (what the journal iterator delivers), forward, with
   Get; Next; Get; Next ... as the query loops do.  The struct `le` is threaded through. *)
Fixpoint lei_read (le : levent) (recs : list bytes) : outcome (list levent) :=
  match recs with
  | [] => Ok []
  | r :: tl =>
      obind (unmarshal_le le r) (fun e =>
      obind (lei_read (released e) tl) (fun l => Ok (e :: l)))
  end.
