(* Model of bufio.Reader.ReadSlice('\n') over a file that only grows, as pkg/scanner/parser/line_reader.go
   uses it (environment, section 7 of DESIGN.md), and of one call of lineReader.readLine.
   Definitions only.

   [unread] is what the reader has not consumed yet: the bytes buffered in the bufio.Reader followed by
   the rest of the file as it is when the call is made.  B is the buffer size
   (bufio.NewReaderSize raises sizes below 16 to 16). *)
From LR Require Import lib.Base.

Definition nl : byte := x0a.

Inductive rs_status :=
| RsLine      (* err == nil: the slice ends with the delimiter *)
| RsFull      (* bufio.ErrBufferFull: exactly B bytes without a delimiter, more may follow *)
| RsEof.      (* io.EOF: everything that was left (possibly nothing), no delimiter *)

(* the prefix up to and including the first '\n' among the first n bytes of l *)
Fixpoint take_line (n : nat) (l : bytes) : option bytes :=
  match n, l with
  | S n', x :: l' => if byte_eqb x nl then Some [x] else option_map (cons x) (take_line n' l')
  | _, _ => None
  end.

Definition buf_size (maxRecSize : nat) : nat := Nat.max maxRecSize 16.

Definition read_slice (B : nat) (unread : bytes) : bytes * rs_status :=
  match take_line B unread with
  | Some line => (line, RsLine)
  | None => if Nat.leb B (length unread) then (firstn B unread, RsFull) else (unread, RsEof)
  end.

(* one call of lineReader.readLine = one ReadSlice call and what readLine does with its result.
   [buf] is the beginning of a line whose end has not been written yet (the field lineReader.buf).
   Result: the bytes consumed from the reader, and either a returned line or "(nil, io.EOF)" with the
   partial line kept for the next call.

   [loops] selects the reader: false = the code (since the repair of finding c17-withheld-behind-partial-line):
   on io.EOF the reader stores what it has and returns (nil, io.EOF) at once, so the worker's EOF path runs
   (hand over the batch, or sleep 1 s) and calls again; true = the reader the code had before: the partial
   line was a local of readLine, which went round its own loop in 200 ms sleeps (RlSleep) until the line was
   completed or one ReadSlice filled the buffer, and returned (nil, io.EOF) only with nothing buffered. *)
Inductive rl_result :=
| RlLine (line : bytes)       (* return concatBufs(buf, line), nil    (delimiter found or buffer full) *)
| RlEof (buf' : bytes)        (* r.buf = concatBufs(r.buf, line); return nil, io.EOF *)
| RlSleep (buf' : bytes).     (* old reader only: utils.Sleep(ctx, eofSleep); continue (partial line kept) *)

Definition read_line_turn (loops : bool) (B : nat) (buf unread : bytes) : nat * rl_result :=
  match read_slice B unread with
  | (l, RsLine) => (length l, RlLine (buf ++ l))
  | (l, RsFull) => (length l, RlLine (buf ++ l))
  | (l, RsEof) =>
      if loops then
        match buf ++ l with
        | [] => (length l, RlEof [])
        | b' => (length l, RlSleep b')
        end
      else (length l, RlEof (buf ++ l))
  end.

(* the reader of the code: pkg/scanner/parser/line_reader.go readLine returns at EOF *)
Definition code_reader_loops : bool := false.

(* a record: it ends a line, or it is a split piece at least as long as the buffer *)
Definition good_rec (B : nat) (r : bytes) : Prop := (exists pre, r = pre ++ [nl]) \/ (B <= length r /\ r <> []).
