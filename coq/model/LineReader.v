(* Model of bufio.Reader.ReadSlice('\n') over a file that only grows, as pkg/scanner/parser/line_reader.go
   uses it (environment, section 7 of DESIGN.md), and of one turn of lineReader.readLine's loop.
   Definitions only.

   [unread] is what the reader has not consumed yet: the bytes buffered in the bufio.Reader followed by
   the rest of the file as it is when the call is made.  B is the buffer size
   (bufio.NewReaderSize raises sizes below 16 to 16). *)
From LR Require Import lib.Base.

Definition nl : byte := x0a.

Inductive rs_status :=
| RsLine      (* err == nil: the slice ends with the delimiter *)
| RsFull      (* bufio.ErrBufferFull: exactly B bytes without a delimiter, more may follow *)
| RsEof.      (* io.EOF: everything that was left (possibly nothing), no delimiter *)

(* the prefix up to and including the first '\n' among the first n bytes of l *)
Fixpoint take_line (n : nat) (l : bytes) : option bytes :=
  match n, l with
  | S n', x :: l' => if byte_eqb x nl then Some [x] else option_map (cons x) (take_line n' l')
  | _, _ => None
  end.

Definition buf_size (maxRecSize : nat) : nat := Nat.max maxRecSize 16.

Definition read_slice (B : nat) (unread : bytes) : bytes * rs_status :=
  match take_line B unread with
  | Some line => (line, RsLine)
  | None => if Nat.leb B (length unread) then (firstn B unread, RsFull) else (unread, RsEof)
  end.

(* one turn of readLine's loop: [buf] is the partial line accumulated so far (readLine's local).
   Result: the bytes consumed from the reader, and either a returned line, "(nil, io.EOF)", or
   "sleep and go round again" with the new partial line. *)
Inductive rl_result :=
| RlLine (line : bytes)       (* return concatBufs(buf, line), nil    (delimiter found or buffer full) *)
| RlEof                       (* return nil, io.EOF                   (nothing buffered, nothing read) *)
| RlSleep (buf' : bytes).     (* utils.Sleep(ctx, eofSleep); continue (partial line kept) *)

Definition read_line_turn (B : nat) (buf unread : bytes) : nat * rl_result :=
  match read_slice B unread with
  | (l, RsLine) => (length l, RlLine (buf ++ l))
  | (l, RsFull) => (length l, RlLine (buf ++ l))
  | (l, RsEof) =>
      match buf ++ l with
      | [] => (0, RlEof)
      | b' => (length l, RlSleep b')
      end
  end.

(* a record: it ends a line, or it is a split piece at least as long as the buffer *)
Definition good_rec (B : nat) (r : bytes) : Prop := (exists pre, r = pre ++ [nl]) \/ (B <= length r /\ r <> []).
