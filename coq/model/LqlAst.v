(* LQL: tokens and the abstract syntax that participle builds from the grammar structs of
   /repo/pkg/lql/parser.go. Definitions only.

   Slices that the grammar can only fill with one or more elements (Expression.Or,
   OrCondition.And) are non-empty by construction (Or1/OrS, And1/AndS); Identifier.Params may be
   empty. Pointers that stay nil when an optional part is absent are `option`s. *)
From LR Require Import lib.Base.
From Coq Require Import Strings.String.

(* byte string literal: B "SELECT" *)
Definition B (s : string) : bytes := list_byte_of_string s.

(* ---- tokens (lexer.go: named groups of the regexp, in this order) ---- *)
Inductive tokty := TKeyword | TIdent | TString | TOperator | TNumber | TTags.

Definition tokty_eqb (a b : tokty) : bool :=
  match a, b with
  | TKeyword, TKeyword | TIdent, TIdent | TString, TString
  | TOperator, TOperator | TNumber, TNumber | TTags, TTags => true
  | _, _ => false
  end.

Record token := Tok { t_ty : tokty; t_val : bytes }.

Definition token_eqb (a b : token) : bool := tokty_eqb (t_ty a) (t_ty b) && bytes_eqb (t_val a) (t_val b).

(* ---- expressions ---- *)
(* Identifier { Operand string; Params []*Identifier } *)
Inductive ident := Ident (operand : bytes) (params : idlist)
with idlist := INil | ICons (i : ident) (rest : idlist).

Scheme ident_mut := Induction for ident Sort Prop
with idlist_mut := Induction for idlist Sort Prop.
Combined Scheme ident_mutind from ident_mut, idlist_mut.

(* Condition { Ident; Op string; Value string } *)
Record cond := Cond { c_ident : ident; c_op : bytes; c_val : bytes }.

(* Expression { Or []*OrCondition }, OrCondition { And []*XCondition },
   XCondition { Not bool; Cond *Condition; Expr *Expression } (exactly one of Cond/Expr set) *)
Inductive expr := Or1 (o : orc) | OrS (o : orc) (rest : expr)
with orc := And1 (x : xc) | AndS (x : xc) (rest : orc)
with xc := X (neg : bool) (b : body)
with body := BC (c : cond) | BP (e : expr).

Scheme expr_mut := Induction for expr Sort Prop
with orc_mut := Induction for orc Sort Prop
with xc_mut := Induction for xc Sort Prop
with body_mut := Induction for body Sort Prop.
Combined Scheme ast_mutind from expr_mut, orc_mut, xc_mut, body_mut.

(* ---- decidable equality (used by the correspondence checker) ---- *)
Fixpoint ident_eqb (a b : ident) : bool :=
  match a, b with Ident o1 p1, Ident o2 p2 => bytes_eqb o1 o2 && idlist_eqb p1 p2 end
with idlist_eqb (a b : idlist) : bool :=
  match a, b with
  | INil, INil => true
  | ICons i1 r1, ICons i2 r2 => ident_eqb i1 i2 && idlist_eqb r1 r2
  | _, _ => false
  end.

Definition cond_eqb (a b : cond) : bool :=
  ident_eqb (c_ident a) (c_ident b) && bytes_eqb (c_op a) (c_op b) && bytes_eqb (c_val a) (c_val b).

Fixpoint expr_eqb (a b : expr) : bool :=
  match a, b with
  | Or1 o1, Or1 o2 => orc_eqb o1 o2
  | OrS o1 r1, OrS o2 r2 => orc_eqb o1 o2 && expr_eqb r1 r2
  | _, _ => false
  end
with orc_eqb (a b : orc) : bool :=
  match a, b with
  | And1 x1, And1 x2 => xc_eqb x1 x2
  | AndS x1 r1, AndS x2 r2 => xc_eqb x1 x2 && orc_eqb r1 r2
  | _, _ => false
  end
with xc_eqb (a b : xc) : bool :=
  match a, b with X n1 b1, X n2 b2 => Bool.eqb n1 n2 && body_eqb b1 b2 end
with body_eqb (a b : body) : bool :=
  match a, b with
  | BC c1, BC c2 => cond_eqb c1 c2
  | BP e1, BP e2 => expr_eqb e1 e2
  | _, _ => false
  end.

(* ---- statements ---- *)
(* tag.Set in canonical form: the (name, value) pairs in the order Line() prints them *)
Definition tagset := list (bytes * bytes).
Definition tagset_eqb : tagset -> tagset -> bool := list_eqb (pair_eqb bytes_eqb bytes_eqb).

(* Source { Tags *TagsVal | Expr *Expression } *)
Inductive source := SrcTags (t : tagset) | SrcExpr (e : expr).
Definition source_eqb (a b : source) : bool :=
  match a, b with
  | SrcTags t1, SrcTags t2 => tagset_eqb t1 t2
  | SrcExpr e1, SrcExpr e2 => expr_eqb e1 e2
  | _, _ => false
  end.

(* Range { TmPoint1, TmPoint2 *DateTime } (Unix nanoseconds) *)
Record range := Range { r_t1 : option Z; r_t2 : option Z }.

Record select := Select {
  s_format : option bytes; s_source : option source; s_range : option range;
  s_where : option expr; s_pos : option bytes; s_offset : option Z; s_limit : option Z }.

Inductive describe := DPartition (t : tagset) | DPipe (name : bytes).

Record partitions := Partitions { pt_source : option source; pt_offset : option Z; pt_limit : option Z }.
Record pipes := Pipes { pp_void : option source; pp_offset : option Z; pp_limit : option Z }.
(* Show { Partitions *Partitions | Pipes *Pipes }: `SHOW PARTITIONS` and `SHOW PIPES` without anything
   behind the keyword both leave the two members nil *)
Record show := Show { sh_parts : option partitions; sh_pipes : option pipes }.

Record truncate := Truncate {
  tr_dryrun : bool; tr_source : option source; tr_min : option N; tr_max : option N;
  tr_before : option Z; tr_maxdb : option N }.

Record pipe := Pipe { pi_name : bytes; pi_from : option source; pi_where : option expr }.

(* Lql: at most one member is set; LNone is the statement `SELECT`, `SHOW`, ... with nothing the
   parser keeps (every member nil). Create { Pipe *Pipe } and Delete { PipeName *string } are
   structs that exist even when their optional content is absent. *)
Inductive lql :=
| LNone
| LSelect (s : select)
| LDescribe (d : describe)
| LTruncate (t : truncate)
| LShow (s : show)
| LCreate (p : option pipe)
| LDelete (name : option bytes).

Definition oeq {A} (f : A -> A -> bool) := option_eqb f.
Definition range_eqb (a b : range) : bool := oeq Z.eqb (r_t1 a) (r_t1 b) && oeq Z.eqb (r_t2 a) (r_t2 b).
Definition select_eqb (a b : select) : bool :=
  oeq bytes_eqb (s_format a) (s_format b) && oeq source_eqb (s_source a) (s_source b) &&
  oeq range_eqb (s_range a) (s_range b) && oeq expr_eqb (s_where a) (s_where b) &&
  oeq bytes_eqb (s_pos a) (s_pos b) && oeq Z.eqb (s_offset a) (s_offset b) && oeq Z.eqb (s_limit a) (s_limit b).
Definition describe_eqb (a b : describe) : bool :=
  match a, b with
  | DPartition t1, DPartition t2 => tagset_eqb t1 t2
  | DPipe n1, DPipe n2 => bytes_eqb n1 n2
  | _, _ => false
  end.
Definition partitions_eqb (a b : partitions) : bool :=
  oeq source_eqb (pt_source a) (pt_source b) && oeq Z.eqb (pt_offset a) (pt_offset b) && oeq Z.eqb (pt_limit a) (pt_limit b).
Definition pipes_eqb (a b : pipes) : bool :=
  oeq source_eqb (pp_void a) (pp_void b) && oeq Z.eqb (pp_offset a) (pp_offset b) && oeq Z.eqb (pp_limit a) (pp_limit b).
Definition show_eqb (a b : show) : bool :=
  oeq partitions_eqb (sh_parts a) (sh_parts b) && oeq pipes_eqb (sh_pipes a) (sh_pipes b).
Definition truncate_eqb (a b : truncate) : bool :=
  Bool.eqb (tr_dryrun a) (tr_dryrun b) && oeq source_eqb (tr_source a) (tr_source b) &&
  oeq N.eqb (tr_min a) (tr_min b) && oeq N.eqb (tr_max a) (tr_max b) &&
  oeq Z.eqb (tr_before a) (tr_before b) && oeq N.eqb (tr_maxdb a) (tr_maxdb b).
Definition pipe_eqb (a b : pipe) : bool :=
  bytes_eqb (pi_name a) (pi_name b) && oeq source_eqb (pi_from a) (pi_from b) && oeq expr_eqb (pi_where a) (pi_where b).
Definition lql_eqb (a b : lql) : bool :=
  match a, b with
  | LNone, LNone => true
  | LSelect x, LSelect y => select_eqb x y
  | LDescribe x, LDescribe y => describe_eqb x y
  | LTruncate x, LTruncate y => truncate_eqb x y
  | LShow x, LShow y => show_eqb x y
  | LCreate x, LCreate y => oeq pipe_eqb x y
  | LDelete x, LDelete y => oeq bytes_eqb x y
  | _, _ => false
  end.
