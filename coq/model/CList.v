(* Model of /repo/pkg/container/clist.go: the circular doubly linked list `CLElement`, written
   after the Go statement by statement over an explicit pointer heap (addresses are `nat`, the
   nil pointer is `None`). The `Val` field lives in a separate heap (model/Provider.v): no ring
   operation reads or writes it. Definitions only; the refinement to lists is in proofs/CListP.v. *)
From LR Require Export lib.Base.

Record cle := { cl_prev : nat; cl_next : nat }.
Definition lheap := nat -> cle.
Definition ptr := option nat.

Definition hupd (h : lheap) (k : nat) (v : cle) : lheap := fun x => if Nat.eqb x k then v else h x.
(* x.prev = p   /   x.next = n *)
Definition set_prev (h : lheap) (x p : nat) : lheap := hupd h x {| cl_prev := p; cl_next := cl_next (h x) |}.
Definition set_next (h : lheap) (x n : nat) : lheap := hupd h x {| cl_prev := cl_prev (h x); cl_next := n |}.

Definition ptr_eqb (a b : ptr) : bool :=
  match a, b with Some x, Some y => Nat.eqb x y | None, None => true | _, _ => false end.

(* NewCLElement(), allocated at the (fresh) address a: refers to itself *)
Definition cl_new (h : lheap) (a : nat) : lheap := hupd h a {| cl_prev := a; cl_next := a |}.

(* func (cle *CLElement) Append(chain *CLElement) *CLElement *)
Definition cl_append (h : lheap) (cle chain : ptr) : lheap * ptr :=
  match chain with
  | None => (h, cle)
  | Some ch =>
    match cle with
    | None => (h, chain)
    | Some c =>
      let n := cl_next (h c) in          (* n := cle.next *)
      let h1 := set_next h c ch in       (* cle.next = chain *)
      let chp := cl_prev (h1 ch) in      (* chp := chain.prev *)
      let h2 := set_prev h1 n chp in     (* n.prev = chp *)
      let h3 := set_prev h2 ch c in      (* chain.prev = cle *)
      let h4 := set_next h3 chp n in     (* chp.next = n *)
      (h4, Some c)
    end
  end.

(* func (cle *CLElement) Prev() *CLElement { return cle.prev }   (receiver not nil) *)
Definition cl_prev_of (h : lheap) (e : nat) : nat := cl_prev (h e).
(* func (cle *CLElement) Next() *CLElement { return cle.prev }   (sic: the code returns prev) *)
Definition cl_next_of (h : lheap) (e : nat) : nat := cl_prev (h e).

(* func (cle *CLElement) Len() int; None = the walk did not come back within the fuel *)
Fixpoint cl_len_loop (fuel : nat) (h : lheap) (start c cnt : nat) : option nat :=
  if Nat.eqb c start then Some cnt else
  match fuel with
  | O => None
  | S f => cl_len_loop f h start (cl_next (h c)) (S cnt)
  end.
Definition cl_len (fuel : nat) (h : lheap) (cle : ptr) : option nat :=
  match cle with
  | None => Some 0
  | Some c => cl_len_loop fuel h c (cl_next (h c)) 1
  end.

(* func (cle *CLElement) TearOff(e *CLElement) *CLElement *)
Definition cl_tearoff (h : lheap) (cle e : ptr) : lheap * ptr :=
  match e with
  | None => (h, cle)
  | Some x =>
    let sole := match cle with Some c => Nat.eqb x c && Nat.eqb (cl_next (h c)) c | None => false end in
    if sole then (h, None)                                 (* e == cle && cle.next == cle *)
    else
      let res := match cle with
                 | Some c => if Nat.eqb c x then Some (cl_next (h c)) else cle     (* res = cle.next *)
                 | None => None
                 end in
      let h1 := set_next h (cl_prev (h x)) (cl_next (h x)) in     (* e.prev.next = e.next *)
      let h2 := set_prev h1 (cl_next (h1 x)) (cl_prev (h1 x)) in  (* e.next.prev = e.prev *)
      let h3 := set_prev h2 x x in                                (* e.prev = e *)
      let h4 := set_next h3 x x in                                (* e.next = e *)
      (h4, res)
  end.

(* ---- the list a ring pointer stands for (vocabulary of the refinement) ---- *)
(* a -> l(0) -> l(1) ... -> z following next, with matching prev pointers *)
Fixpoint linked (h : lheap) (a : nat) (l : list nat) (z : nat) : Prop :=
  match l with
  | [] => cl_next (h a) = z /\ cl_prev (h z) = a
  | b :: t => cl_next (h a) = b /\ cl_prev (h b) = a /\ linked h b t z
  end.
(* `ring h p l`: p is the head of the ring whose elements, following next from the head, are l *)
Definition ring (h : lheap) (p : ptr) (l : list nat) : Prop :=
  match p, l with
  | None, [] => True
  | Some x, y :: t => x = y /\ NoDup (y :: t) /\ linked h y t y
  | _, _ => False
  end.
Definition self_linked (h : lheap) (e : nat) : Prop := cl_next (h e) = e /\ cl_prev (h e) = e.

(* reading the list back (executable abstraction function) *)
Fixpoint cl_walk (fuel : nat) (h : lheap) (start c : nat) : list nat :=
  match fuel with
  | O => []
  | S f => if Nat.eqb c start then [] else c :: cl_walk f h start (cl_next (h c))
  end.
Definition cl_to_list (fuel : nat) (h : lheap) (p : ptr) : list nat :=
  match p with None => [] | Some x => x :: cl_walk fuel h x (cl_next (h x)) end.
