(* Model of pkg/utils/kvstring/kvstring.go: RemoveCurlyBraces, SplitString, TrimSpaces, written
   after the Go with explicit indices; every `str[i]` / `str[a:b]` is a checked access (Panic when
   out of range) and every loop takes fuel.  Definitions only. *)
From LR Require Import lib.Base lib.DecLib.

Local Open Scope Z_scope.

Definition c_space : byte := x20.
Definition c_lbrace : byte := x7b.
Definition c_rbrace : byte := x7d.
Definition c_dquote : byte := x22.
Definition c_bslash : byte := x5c.
Definition c_bquote : byte := x60.
Definition c_eq : byte := x3d.      (* KeyValueSeparator *)
Definition c_comma : byte := x2c.   (* FieldsSeparator *)

(* RemoveCurlyBraces, first loop: for ; idx < len(str); idx++ { ' ' -> continue; '{' -> cnt++; else break } *)
Fixpoint rcb_lead (fuel : nat) (s : bytes) (idx cnt : Z) : outcome (Z * Z) :=
  match fuel with
  | O => OutOfFuel
  | S f =>
      if idx <? blen s then
        c <- at_ s idx ;;
        if byte_eqb c c_space then rcb_lead f s (idx + 1) cnt
        else if byte_eqb c c_lbrace then rcb_lead f s (idx + 1) (cnt + 1)
        else Ok (idx, cnt)
      else Ok (idx, cnt)
  end.

(* second loop: for ; tidx > idx && cnt >= 0; tidx-- { ' ' -> continue; '}' -> cnt--; else break } *)
Fixpoint rcb_trail (fuel : nat) (s : bytes) (idx tidx cnt : Z) : outcome (Z * Z) :=
  match fuel with
  | O => OutOfFuel
  | S f =>
      if (idx <? tidx) && (0 <=? cnt) then
        c <- at_ s tidx ;;
        if byte_eqb c c_space then rcb_trail f s idx (tidx - 1) cnt
        else if byte_eqb c c_rbrace then rcb_trail f s idx (tidx - 1) (cnt - 1)
        else Ok (tidx, cnt)
      else Ok (tidx, cnt)
  end.

Definition remove_curly_braces (s : bytes) : outcome bytes :=
  '(idx, cnt) <- rcb_lead (S (length s)) s 0 0 ;;
  '(tidx, cnt') <- rcb_trail (S (length s)) s idx (blen s - 1) cnt ;;
  if (tidx =? idx) || negb (cnt' =? 0) then Err else slice s idx (tidx + 1).

(* SplitString(str, kvSep, fldSep, buf): [acc] is the result so far, newest first *)
Fixpoint split_go (fuel : nat) (s : bytes) (kv fld : byte) (inStr : bool) (exp : byte) (st e : Z)
         (acc : list bytes) : outcome (list bytes) :=
  match fuel with
  | O => OutOfFuel
  | S f =>
      if e <? blen s then
        c <- at_ s e ;;
        if byte_eqb c c_dquote then split_go f s kv fld (negb inStr) exp st (e + 1) acc
        else if byte_eqb c c_bslash && inStr then split_go f s kv fld inStr exp st (e + 2) acc
        else if (byte_eqb c kv || byte_eqb c fld) && negb inStr then
          if negb (byte_eqb c exp) then Err else
          piece <- slice s st e ;;
          split_go f s kv fld inStr (if byte_eqb exp kv then fld else kv) (e + 1) (e + 1) (piece :: acc)
        else split_go f s kv fld inStr exp st (e + 1) acc
      else
        if inStr then Err else
        piece <- slice s st e ;;
        Ok (rev (piece :: acc))
  end.

Definition split_string (s : bytes) (kv fld : byte) : outcome (list bytes) :=
  split_go (S (length s)) s kv fld false kv 0 0 [].

(* TrimSpaces *)
Fixpoint trim_i (fuel : nat) (s : bytes) (i : Z) : outcome Z :=
  match fuel with
  | O => OutOfFuel
  | S f =>
      if i <? blen s then
        c <- at_ s i ;;
        if byte_eqb c c_space then trim_i f s (i + 1) else Ok i
      else Ok i
  end.

Fixpoint trim_j (fuel : nat) (s : bytes) (i j : Z) : outcome Z :=
  match fuel with
  | O => OutOfFuel
  | S f =>
      if i <? j then
        c <- at_ s j ;;
        if byte_eqb c c_space then trim_j f s i (j - 1) else Ok j
      else Ok j
  end.

Definition trim_spaces (s : bytes) : outcome bytes :=
  i <- trim_i (S (length s)) s 0 ;;
  j <- trim_j (S (length s)) s i (blen s - 1) ;;
  slice s i (j + 1).
