(* Model of the collector's scanner for one watched path:
     pkg/scanner/worker.go   run / sendOrSleep / waitConfirm / stopOnEOF
     pkg/scanner/parser      pureParser / lineParser NextRecord, SetStreamPos, GetStreamPos (payload = line)
     pkg/scanner/scanner.go  desc, mergeDescs, sync (scanPaths + mergeDescs + syncWorkers), persistState, loadState
     pkg/scanner/model/event.go  Event.Confirm
     client/collector/collector.go  Run (the consumer: Write, then Confirm only after a stored write)
   Definitions only.

   The scanner is a state machine driven by a script of environment events; an event that is not
   enabled in the current phase is a no-op, so every list of events is a schedule.
   Granularity: one ERead is ONE bufio ReadSlice call with everything the worker does with its result
   up to the next ReadSlice / Sleep / channel operation; the 1 s sleep at EOF is a phase of its own (PSleep),
   ended by EWake, so that appends, a stop-at-EOF request or a stop can fall into it; the confirm hand-shake (EConfirm) and the
   worker's desc.setOffset after it (ESetOff) are separate steps, so a persist tick, a stop or a crash
   can fall between them. *)
From LR Require Import lib.Base lib.Seg model.LineReader.

Inductive phase :=
| PRead                  (* in the worker loop: about to call NextRecord / readLine *)
| PSleep                 (* sendOrSleep with an empty batch at EOF: utils.Sleep(ctx, 1s) *)
| PSend (eof : bool)     (* sendOrSleep: the event is offered on the channel *)
| PWait (eof : bool)     (* waitConfirm: blocked on confCh *)
| PConf (eof : bool)     (* hand-shake done, desc.setOffset not yet executed *)
| PDone.                 (* run has returned *)

(* outcome of one api.Client.Write call of the collector *)
Inductive wres :=
| WOk        (* err == nil && wr.Err == nil: the server stored the events *)
| WComm      (* err != nil: communication error *)
| WSrv.      (* err == nil && wr.Err != nil: the server refused or failed the write *)

Inductive ev :=
| EAppend (bs : bytes)           (* the file at the path grows *)
| ERead                          (* one ReadSlice turn of the worker *)
| EWake                          (* the 1 s sleep of sendOrSleep ends; the stop-at-EOF check of worker.run follows *)
| ETake                          (* the consumer receives the offered event *)
| EConfirm                       (* the consumer calls Confirm() on the event it holds *)
| ESetOff                        (* the worker executes desc.setOffset(parser.GetStreamPos()) *)
| EPersist                       (* persistState *)
| EStop                          (* the context is cancelled *)
| EExit                          (* the worker notices the cancelled context and returns *)
| ERestart                       (* the process is gone (crash or exit); a new one runs init: loadState + sync *)
| EReplace (id : nat) (content : bytes)  (* the file at the path is replaced by another file (or rewritten
                                    from scratch) with identity [id] - which may be a NEW identity or, when
                                    the inode is re-used or the file was truncated in place, an old one *)
| ESync                          (* periodic sync: scanPaths + mergeDescs + syncWorkers *)
| EStopOnEof                     (* worker.stopOnEOF(): syncWorkers found that the worker's file is no longer the
                                    file at the path (rotated away) or is gone; the worker is to drain it and return *)
| ECollect (w : wres).           (* collector.Run with the event it holds: one cl.Write call with this outcome and
                                    what Run does next (Confirm, or sleep 5 s and write the same event again) *)

Inductive obs :=
| OHand (recs : list bytes)      (* an event reached the consumer: its records' payloads *)
| OConf (ok : bool)              (* result of Confirm() *)
| OOffset (off : nat)            (* desc offset after setOffset *)
| OPersisted (off lss : nat)     (* Offset and LastSeenSize written to scanner.json *)
| ORestart (off : nat)           (* offset the new worker starts at *)
| OSleep (partial : bool)        (* the worker sleeps: false = in sendOrSleep, nothing to send at EOF (1 s);
                                    true = inside readLine with a partial line (200 ms): only the reader
                                    that loops, the code's reader never does *)
| OExit                          (* the worker returned *)
| OWrite (stored : bool)         (* the collector's Write call for the event it holds returned; stored: by the server *)
| OFresh (off : nat)             (* sync started a worker (new file identity, or the previous worker had returned) at this offset *)
| OOther (code : nat).           (* never produced by the model *)

Record desc := mkDesc { d_id : nat; d_off : nat; d_lss : nat }.

Record st := mkSt {
  file : bytes;          (* content of the file at the watched path *)
  fid : nat;             (* its identity (path hash + inode + device) *)
  wfile : bytes;         (* content of the file the worker has open *)
  wsame : bool;          (* the worker's open file is the file at the path (appends reach it) *)
  rpos : nat;            (* bytes of wfile consumed through the bufio.Reader *)
  buf : bytes;           (* the reader's partial line (lineReader.buf) *)
  ppos : nat;            (* parser.pos *)
  recs : list bytes;     (* records of the batch being collected / offered / awaiting confirmation *)
  woff : nat;            (* Offset of the worker's own descriptor (= the map's descriptor while attached) *)
  ph : phase;
  until_eof : bool;      (* wsRunUntilEof *)
  ue_read : bool;        (* worker.run's local untilEof: wsRunUntilEof as loaded before the last NextRecord call *)
  stopping : bool;       (* ctx.Err() != nil *)
  attached : bool;       (* the worker's descriptor is the one in the scanner's desc map (false after a
                            same-identity replacement: the old worker drains, a new one follows) *)
  dsc : desc;            (* the path's descriptor in the scanner's desc map *)
  persisted : option desc (* scanner.json *)
}.

Definition init (content : bytes) : st :=
  mkSt content 0 content true 0 [] 0 [] 0 PRead false false false true (mkDesc 0 0 (length content)) None.

(* mergeDescs for the path's descriptor: [old] from the state (None: unknown id), the scan found the
   file with identity [id] and size [size].  Returns the descriptor and whether the old one was kept. *)
Definition merge_desc (old : option desc) (id size : nat) : desc * bool :=
  match old with
  | Some od =>
      if Nat.eqb (d_id od) id then
        if Nat.leb (d_lss od) size && Nat.leb (d_off od) size
        then (mkDesc id (d_off od) size, true)
        else (mkDesc id 0 size, false)
      else (mkDesc id 0 size, false)
  | None => (mkDesc id 0 size, false)
  end.

(* what differs between the code and the variants it is compared with *)
Record variant := mkVar {
  v_loops : bool;     (* the reader (LineReader.read_line_turn): true = readLine loops on a partial line *)
  v_stale : bool;     (* worker.run's stop-at-EOF check: false = the code: it uses wsRunUntilEof as loaded BEFORE the
                         read that found the EOF; true = as it was: the state is loaded after sendOrSleep, so a stop
                         request made while the worker slept or waited for a confirmation ends it on an EOF that
                         may be stale *)
  v_conf_srv : bool   (* collector.Run: true = the event is confirmed although the server failed the write
                         (the branch wr.Err != nil without its `continue`); false = the code: written again *)
}.
(* the code *)
Definition code : variant := mkVar code_reader_loops false false.
(* the code as it was before three repairs / with one seeded change (each differs from the code in one respect) *)
Definition looping_reader : variant := mkVar true false false.       (* before e338ed8 *)
Definition stale_eof_check : variant := mkVar false true false.      (* before the repair of worker.run's stop-at-EOF check *)
Definition confirm_on_server_error : variant := mkVar false false true.  (* collector.Run without the `continue` *)

Section Step.
Variable vr : variant.
Variable B : nat.     (* bufio buffer size: buf_size RecordMaxSizeBytes *)
Variable rpe : nat.   (* EventMaxRecords *)

(* what one NextRecord call (ERead) changes; the local untilEof was loaded just before it *)
Definition upd_read (s : st) (rpos' : nat) (buf' : bytes) (ppos' : nat) (recs' : list bytes) (ph' : phase) : st :=
  mkSt (file s) (fid s) (wfile s) (wsame s) rpos' buf' ppos' recs' (woff s) ph' (until_eof s) (until_eof s) (stopping s) (attached s) (dsc s) (persisted s).

Definition set_ph (s : st) (p : phase) : st :=
  mkSt (file s) (fid s) (wfile s) (wsame s) (rpos s) (buf s) (ppos s) (recs s) (woff s) p (until_eof s) (ue_read s) (stopping s) (attached s) (dsc s) (persisted s).

(* `eof && untilEof` after sendOrSleep has returned nil *)
Definition exit_check (s : st) : bool := if v_stale vr then until_eof s else ue_read s.

(* a new worker on the file at the path, from the descriptor's offset *)
Definition fresh_worker (s : st) (d : desc) (pers : option desc) : st :=
  mkSt (file s) (fid s) (file s) true (d_off d) [] (d_off d) [] (d_off d) PRead false false false true d pers.

Definition step (s : st) (e : ev) : st * list obs :=
  match e with
  | EAppend bs =>
      (mkSt (file s ++ bs) (fid s) (if wsame s then wfile s ++ bs else wfile s) (wsame s) (rpos s) (buf s) (ppos s)
            (recs s) (woff s) (ph s) (until_eof s) (ue_read s) (stopping s) (attached s) (dsc s) (persisted s), [])
  | ERead =>
      match ph s with
      | PRead =>
          match read_line_turn (v_loops vr) B (buf s) (skipn (rpos s) (wfile s)) with
          | (n, RlLine line) =>
              (* rec != nil: recs = append(recs, rec); pos += len(line) *)
              let recs' := recs s ++ [line] in
              let p' := if Nat.eqb (length recs') rpe then PSend false else PRead in
              (upd_read s (rpos s + n) [] (ppos s + length line) recs' p', [])
          | (n, RlSleep b') => (upd_read s (rpos s + n) b' (ppos s) (recs s) PRead, [OSleep true])
          | (n, RlEof b') =>
              (* (nil, io.EOF): what was left of the file is now in the reader's partial line; pos unchanged *)
              match recs s with
              | [] => (* sendOrSleep with no records: Sleep(1s) *)
                  (upd_read s (rpos s + n) b' (ppos s) (recs s) PSleep, [OSleep false])
              | _ => (upd_read s (rpos s + n) b' (ppos s) (recs s) (PSend true), [])
              end
          end
      | _ => (s, [])
      end
  | EWake =>
      match ph s with
      | PSleep => if exit_check s then (set_ph s PDone, [OExit]) else (set_ph s PRead, [])
      | _ => (s, [])
      end
  | ETake =>
      match ph s with
      | PSend eof => (set_ph s (PWait eof), [OHand (recs s)])
      | _ => (s, [])
      end
  | EConfirm =>
      match ph s with
      | PWait eof => (set_ph s (PConf eof), [OConf true])
      | _ => (s, [OConf false])
      end
  | ECollect w =>
      match ph s with
      | PWait eof =>
          match w with
          | WOk => (set_ph s (PConf eof), [OWrite true; OConf true])
          | WComm => (s, [OWrite false])
          | WSrv => if v_conf_srv vr then (set_ph s (PConf eof), [OWrite false; OConf true]) else (s, [OWrite false])
          end
      | _ => (s, [])
      end
  | ESetOff =>
      match ph s with
      | PConf eof =>
          let d' := if attached s then mkDesc (d_id (dsc s)) (ppos s) (d_lss (dsc s)) else dsc s in
          let p' := if eof && exit_check s then PDone else PRead in
          (mkSt (file s) (fid s) (wfile s) (wsame s) (rpos s) (buf s) (ppos s) [] (ppos s) p' (until_eof s) (ue_read s) (stopping s) (attached s) d' (persisted s),
           OOffset (ppos s) :: (if eof && exit_check s then [OExit] else []))
      | _ => (s, [])
      end
  | EPersist =>
      (mkSt (file s) (fid s) (wfile s) (wsame s) (rpos s) (buf s) (ppos s) (recs s) (woff s) (ph s) (until_eof s) (ue_read s) (stopping s) (attached s) (dsc s) (Some (dsc s)),
       [OPersisted (d_off (dsc s)) (d_lss (dsc s))])
  | EStop =>
      (mkSt (file s) (fid s) (wfile s) (wsame s) (rpos s) (buf s) (ppos s) (recs s) (woff s) (ph s) (until_eof s) (ue_read s) true (attached s) (dsc s) (persisted s), [])
  | EExit =>
      if stopping s then
        match ph s with
        | PRead | PSleep | PSend _ | PWait _ => (set_ph s PDone, [OExit])
        | _ => (s, [])
        end
      else (s, [])
  | EStopOnEof =>
      (mkSt (file s) (fid s) (wfile s) (wsame s) (rpos s) (buf s) (ppos s) (recs s) (woff s) (ph s) true (ue_read s) (stopping s) (attached s) (dsc s) (persisted s), [])
  | ERestart =>
      let '(d, _) := merge_desc (persisted s) (fid s) (length (file s)) in
      (fresh_worker s d (persisted s), [ORestart (d_off d)])
  | EReplace id content =>
      (mkSt content id (wfile s) false (rpos s) (buf s) (ppos s) (recs s) (woff s) (ph s)
            (until_eof s) (ue_read s) (stopping s) (attached s) (dsc s) (persisted s), [])
  | ESync =>
      let '(d, kept) := merge_desc (Some (dsc s)) (fid s) (length (file s)) in
      let stopped := match ph s with PDone => true | _ => false end in
      if negb (Nat.eqb (d_id (dsc s)) (fid s)) then
        (* new identity: the old worker is told to stop at EOF (EStopOnEof), drains its (renamed or deleted) file
           on its own - as a machine of its own, see C17K.kstep - and is forgotten here; a worker for the new
           file starts at offset 0 at once *)
        (fresh_worker s d (persisted s), [OFresh (d_off d)])
      else if stopped then
        (* same identity and the path's worker has returned: syncWorkers starts a new one on the
           merged descriptor *)
        (fresh_worker s d (persisted s), [OFresh (d_off d)])
      else if kept && attached s then
        (* od.setLastSeenSize(nd.LastSeenSize); same descriptor, same worker *)
        (mkSt (file s) (fid s) (wfile s) (wsame s) (rpos s) (buf s) (ppos s) (recs s) (woff s) (ph s) (until_eof s) (ue_read s) (stopping s) true d (persisted s), [])
      else
        (* same identity but the file shrank below what was seen or read (or the worker already drains
           a replaced descriptor): the map gets the merged descriptor, the worker keeps its own and is
           told to stop at EOF; a later sync starts the successor *)
        (mkSt (file s) (fid s) (wfile s) (wsame s) (rpos s) (buf s) (ppos s) (recs s) (woff s) (ph s) true (ue_read s) (stopping s) false d (persisted s), [])
  end.

(* the worker seen on the file it has open (after the file at the path was replaced: the old file) *)
Definition own_file (s : st) : st :=
  mkSt (wfile s) (fid s) (wfile s) true (rpos s) (buf s) (ppos s) (recs s) (woff s) (ph s) (until_eof s) (ue_read s) (stopping s) (attached s) (dsc s) (persisted s).

Fixpoint run (s : st) (evs : list ev) : st * list obs :=
  match evs with
  | [] => (s, [])
  | e :: tl => let '(s1, o1) := step s e in let '(s2, o2) := run s1 tl in (s2, o1 ++ o2)
  end.

(* The worker released from a sleep (or just started, or just confirmed) performs ReadSlice turns
   until it sleeps again, offers an event or exits: the unit the correspondence check can schedule. *)
Definition sleeps (o : list obs) : bool :=
  existsb (fun x => match x with OSleep _ => true | OExit => true | _ => false end) o.

Fixpoint run_reads (fuel : nat) (s : st) : st * list obs :=
  match fuel with
  | O => (s, [])
  | S f =>
      match ph s with
      | PRead =>
          let '(s1, o1) := step s ERead in
          if sleeps o1 then (s1, o1)
          else let '(s2, o2) := run_reads f s1 in (s2, o1 ++ o2)
      | _ => (s, [])
      end
  end.

End Step.

(* ---- what a trace says, recomputed from the trace alone (the vocabulary of the theorems) ----
   t_hpos: file offset after the last event handed to the consumer (a (re)started worker begins where it says);
   t_conf: file offset after the last event whose Confirm() returned true;
   t_ends: the start offset and the ends of all confirmed events of the current run;
   t_pers: the last Offset written to scanner.json (0: never written);
   t_base, t_acc: where the current run began and the payload bytes handed over since. *)
Record marks := mkT { t_hpos : nat; t_conf : nat; t_ends : list nat; t_pers : nat; t_base : nat; t_acc : bytes }.

Definition t_step (t : marks) (o : obs) : marks :=
  match o with
  | ORestart p => mkT p p [p] (t_pers t) p []
  | OFresh p => mkT p p [p] (t_pers t) p []
  | OHand recs => mkT (t_hpos t + length (concat recs)) (t_conf t) (t_ends t) (t_pers t) (t_base t) (t_acc t ++ concat recs)
  | OConf true => mkT (t_hpos t) (t_hpos t) (t_hpos t :: t_ends t) (t_pers t) (t_base t) (t_acc t)
  | OPersisted off _ => mkT (t_hpos t) (t_conf t) (t_ends t) off (t_base t) (t_acc t)
  | _ => t
  end.
Definition marks_of (tr : list obs) : marks := fold_left t_step tr (mkT 0 0 [0] 0 0 []).
Definition hpos_of tr := t_hpos (marks_of tr).
Definition conf_of tr := t_conf (marks_of tr).
Definition ends_of tr := t_ends (marks_of tr).
Definition pers_of tr := t_pers (marks_of tr).

(* how far the 'server' has stored the file, recomputed from a trace: the event a Write call carries is the one
   handed over last, the bytes [s_a, t_hpos) of the file; s_st = n means every byte of [0, n) has been stored
   by a Write that succeeded (a stored event extends it only if it starts inside what is stored already) *)
Record smarks := mkS { s_m : marks; s_a : nat; s_st : nat }.
Definition s_step (x : smarks) (o : obs) : smarks :=
  let m' := t_step (s_m x) o in
  match o with
  | OHand _ => mkS m' (t_hpos (s_m x)) (s_st x)
  | OWrite true => mkS m' (s_a x) (if Nat.leb (s_a x) (s_st x) then Nat.max (s_st x) (t_hpos (s_m x)) else s_st x)
  | _ => mkS m' (s_a x) (s_st x)
  end.
Definition smarks_of (tr : list obs) : smarks := fold_left s_step tr (mkS (mkT 0 0 [0] 0 0 []) 0 0).
Definition stored_of tr := s_st (smarks_of tr).

Definition no_replace (evs : list ev) : Prop := forall b c, ~ In (EReplace b c) evs.
(* the consumer is collector.Run: an event is confirmed only by its Write loop (ECollect), never on its own *)
Definition collector_only (evs : list ev) : Prop := ~ In EConfirm evs.
(* the worker is neither replaced nor restarted by the scanner *)
Definition same_worker (evs : list ev) : Prop := ~ In ERestart evs /\ ~ In ESync evs.

(* the saved descriptor that loadState + mergeDescs will still honour: one for the identity the path has now *)
Definition eff_pers (s : st) : option desc :=
  match persisted s with
  | Some d => if Nat.eqb (d_id d) (fid s) then Some d else None
  | None => None
  end.

(* A scanner that has just started a worker at offset 0 on the file at the path: the very first start
   (init content), and the state right after a replaced file was noticed. *)
Definition start_state (s : st) : Prop :=
  ph s = PRead /\ rpos s = 0 /\ ppos s = 0 /\ woff s = 0 /\ buf s = [] /\ recs s = [] /\
  wfile s = file s /\ wsame s = true /\ attached s = true /\
  d_id (dsc s) = fid s /\ d_off (dsc s) = 0 /\ d_lss (dsc s) <= length (file s) /\ eff_pers s = None /\
  ue_read s = false.
