(* Model of the forwarder worker and its persisted position:
     pkg/forwarder/worker.go   worker.run (the loop), prepareQuery, stopGracefully
     pkg/forwarder/forwarder.go desc.setPosition/getPosition, persistState, loadState (+ mergeDescs for an
                                unchanged worker configuration: the loaded desc, with its position, is kept)
   Definitions only.

   The worker is a state machine driven by a script of environment events (every choice the
   environment has is an event): the partition grows, the worker arrives at the loop head, the
   query returns (ok with up to k events / empty / transport error / server-side error), the sink
   returns (accept / reject), the worker commits (qr := NextQueryRequest; desc.setPosition), the
   persister goroutine writes forwarder.json, a stop is requested, the process dies and is started
   again (ERestart: everything volatile is lost, the state is loaded from the storage).
   An event that is not enabled in the current phase is a no-op, so EVERY list of events is a
   schedule and the theorems quantify over all of them.

   Environment assumption (the server; C03's business, not C18's): a query at position p answers
   with events p, p+1, ... of the partition in stored order and NextQueryRequest.Pos = p + #events.
   A position is the number of events before it; "" is 0. *)
From LR Require Import lib.Base.

Inductive qres :=
| QOk (k : nat)          (* err = nil, res.Err = nil, up to k events from the requested position *)
| QEmpty                 (* err = nil, res.Err = nil, no events (wait time-out) *)
| QTransportErr          (* err != nil *)
| QServerErr.            (* res.Err != nil *)

Inductive ev {E : Type} :=
| EAppend (es : list E)
| EBegin                 (* loop head: `for ctx.Err() == nil && state != wsStopping`, then rpcc.Query is called *)
| EQueryRet (q : qres)   (* rpcc.Query returns; on success with events sink.OnEvent is called *)
| ESinkRet (ok : bool)   (* sink.OnEvent returns *)
| ECommit                (* qr = &res.NextQueryRequest; desc.setPosition(qr.Pos) *)
| EPersist               (* persistState: forwarder.json := desc.getPosition() *)
| EStop                  (* ctx cancelled / stopGracefully: seen at the next loop head *)
| ERestart.              (* crash or exit of the process, then loadState + prepareQuery *)
Arguments ev : clear implicits.

Inductive phase {E : Type} :=
| AtHead
| InQuery
| InSink (batch : list E) (next : nat)
| Accepted (next : nat)
| Exited.
Arguments phase : clear implicits.

Inductive obs {E : Type} :=
| OReq (pos : nat)                               (* the request the server receives *)
| OSink (start : nat) (batch : list E) (ok : bool) (* the sink was handed [batch] (events start ..) and answered ok *)
| OPos (pos : nat)                               (* desc.getPosition() after the commit *)
| OPersisted (pos : nat)                         (* Position written to forwarder.json *)
| ORestart (pos : nat)                           (* position the new worker starts from *)
| OExit                                          (* worker left the loop (sink closed) *)
| OOther (code : nat).                           (* never produced by the model: the harness records
                                                    an implementation step outside this vocabulary *)
Arguments obs : clear implicits.

Section Fwd.
Variable E : Type.

Record st := mkSt {
  part : list E;        (* the pipe's partition, in stored order *)
  w_q : nat;            (* qr.Pos of the worker's current request *)
  d_pos : nat;          (* desc.position *)
  persisted : nat;      (* Position in forwarder.json (0 when the file does not exist) *)
  ph : phase E;
  stopping : bool
}.

Definition init : st := mkSt [] 0 0 0 AtHead false.

Definition set_ph (s : st) (p : phase E) : st := mkSt (part s) (w_q s) (d_pos s) (persisted s) p (stopping s).

(* the server's answer to a successful query for up to k events at position p *)
Definition answer (pt : list E) (p k : nat) : list E := firstn k (skipn p pt).

Definition step (s : st) (e : ev E) : st * list (obs E) :=
  match e with
  | EAppend es => (mkSt (part s ++ es) (w_q s) (d_pos s) (persisted s) (ph s) (stopping s), [])
  | EBegin =>
      match ph s with
      | AtHead => if stopping s then (set_ph s Exited, [OExit]) else (set_ph s InQuery, [OReq (w_q s)])
      | _ => (s, [])
      end
  | EQueryRet q =>
      match ph s with
      | InQuery =>
          match q with
          | QOk k =>
              match answer (part s) (w_q s) k with
              | [] => (set_ph s AtHead, [])                       (* len(res.Events) == 0: sleep, continue *)
              | b => (set_ph s (InSink b (w_q s + length b)), [])
              end
          | _ => (set_ph s AtHead, [])                            (* sleep, continue: same request *)
          end
      | _ => (s, [])
      end
  | ESinkRet ok =>
      match ph s with
      | InSink b nx =>
          if ok then (set_ph s (Accepted nx), [OSink (w_q s) b true])
          else (set_ph s AtHead, [OSink (w_q s) b false])         (* sleep, continue: same request *)
      | _ => (s, [])
      end
  | ECommit =>
      match ph s with
      | Accepted nx => (mkSt (part s) nx nx (persisted s) AtHead (stopping s), [OPos nx])
      | _ => (s, [])
      end
  | EPersist => (mkSt (part s) (w_q s) (d_pos s) (d_pos s) (ph s) (stopping s), [OPersisted (d_pos s)])
  | EStop => (mkSt (part s) (w_q s) (d_pos s) (persisted s) (ph s) true, [])
  | ERestart => (mkSt (part s) (persisted s) (persisted s) (persisted s) AtHead false, [ORestart (persisted s)])
  end.

Fixpoint run (s : st) (evs : list (ev E)) : st * list (obs E) :=
  match evs with
  | [] => (s, [])
  | e :: tl => let '(s1, o1) := step s e in let '(s2, o2) := run s1 tl in (s2, o1 ++ o2)
  end.

Definition final (evs : list (ev E)) : st := fst (run init evs).
Definition trace (evs : list (ev E)) : list (obs E) := snd (run init evs).

(* ---- what a trace says, recomputed from the trace alone (the vocabulary of the theorems) ---- *)

(* position after the last accepted batch: a restart resumes at the position it reports, every
   accepted batch moves it past that batch *)
Definition cur_step (c : nat) (o : obs E) : nat :=
  match o with
  | ORestart p => p
  | OSink s b true => s + length b
  | _ => c
  end.
Definition cur_of (tr : list (obs E)) : nat := fold_left cur_step tr 0.

(* high-water mark: the largest position ever reached by an accepted batch *)
Definition hw_step (h : nat) (o : obs E) : nat :=
  match o with
  | OSink s b true => Nat.max h (s + length b)
  | _ => h
  end.
Definition hw_of (tr : list (obs E)) : nat := fold_left hw_step tr 0.

(* the last position written to the storage *)
Definition pers_step (p : nat) (o : obs E) : nat :=
  match o with
  | OPersisted q => q
  | _ => p
  end.
Definition pers_of (tr : list (obs E)) : nat := fold_left pers_step tr 0.

(* the batches accepted since the last restart, and the position that run started from *)
Definition acc_step (a : nat * list E) (o : obs E) : nat * list E :=
  match o with
  | ORestart p => (p, [])
  | OSink s b true => (fst a, snd a ++ b)
  | _ => a
  end.
Definition acc_of (tr : list (obs E)) : nat * list E := fold_left acc_step tr (0, []).

Definition is_restart (e : ev E) : bool := match e with ERestart => true | _ => false end.

(* segment of the partition *)
Definition seg (pt : list E) (from len : nat) : list E := firstn len (skipn from pt).

End Fwd.

Arguments mkSt {E}. Arguments part {E}. Arguments w_q {E}. Arguments d_pos {E}. Arguments persisted {E}.
Arguments ph {E}. Arguments stopping {E}. Arguments init {E}. Arguments step {E}. Arguments run {E}.
Arguments final {E}. Arguments trace {E}. Arguments cur_of {E}. Arguments hw_of {E}. Arguments pers_of {E}.
Arguments acc_of {E}. Arguments seg {E}. Arguments answer {E}. Arguments is_restart {E}.
Arguments cur_step {E}. Arguments hw_step {E}. Arguments pers_step {E}. Arguments acc_step {E}. Arguments set_ph {E}.
