(* Model of pkg/utils/json.go EscapeJsonStr, after the Go: index loop with `start`, checked
   accesses, fuel for the loop (its `i` is not advanced on every path).  Definitions only. *)
From LR Require Import lib.Base lib.DecLib model.DecUtf8 model.DecTree.

Local Open Scope Z_scope.

Definition hexdig (n : Z) : byte := nth (Z.to_nat n) [x30;x31;x32;x33;x34;x35;x36;x37;x38;x39;x61;x62;x63;x64;x65;x66] x30.

(* if start < i { e.WriteString(s[start:i]) } *)
Definition flush (s : bytes) (start i : Z) (e : bytes) : outcome bytes :=
  if start <? i then p <- slice s start i ;; Ok (e ++ p) else Ok e.

(* [fx] = true: the code (`if c != utf8.RuneError || size != 1 { i += size; continue }`: the loop also advances
   over a valid encoding of U+FFFD).  [fx] = false: the earlier loop, which advanced only when c != RuneError
   or size == 1. *)
Fixpoint escape_go (fx : bool) (fuel : nat) (s : bytes) (i start : Z) (e : bytes) : outcome bytes :=
  match fuel with
  | O => OutOfFuel
  | S f =>
      if i <? blen s then
        b <- at_ s i ;;
        let c := zb b in
        if c <? 128 then
          if (32 <=? c) && negb (c =? 34) && negb (c =? 92) then escape_go fx f s (i + 1) start e
          else
            e1 <- flush s start i e ;;
            let esc :=
              if (c =? 92) || (c =? 34) then [b]
              else if c =? 10 then [x6e]
              else if c =? 13 then [x72]
              else if c =? 9 then [x74]
              else [x75; x30; x30; hexdig (c / 16); hexdig (c mod 16)] in
            escape_go fx f s (i + 1) (i + 1) (e1 ++ x5c :: esc)
        else
          tl <- slice_from s i ;;
          let '(r, size) := decode_rune tl in
          if negb (r =? rune_error) || (fx && negb (size =? 1)) then escape_go fx f s (i + size) start e
          else if size =? 1 then
            e1 <- flush s start i e ;;
            escape_go fx f s (i + size) (i + size) (e1 ++ [x5c; x75; x66; x66; x66; x64])
          else escape_go fx f s i start e          (* c == RuneError, size != 1: nothing advances *)
      else
        e1 <- (if start <? blen s then p <- slice_from s start ;; Ok (e ++ p) else Ok e) ;;
        Ok (e1 ++ [x22])
  end.

(* the earlier loop with explicit fuel *)
Definition escape_fuel (fuel : nat) (s : bytes) : outcome bytes := escape_go false fuel s 0 0 [x22].
(* one loop iteration per byte is enough whenever the loop advances *)
Definition escape_json_g (fx : bool) (s : bytes) : outcome bytes := escape_go fx (S (length s)) s 0 0 [x22].
Definition escape_json_fixed (s : bytes) : outcome bytes := escape_json_g true s.
(* the variant on the tree *)
Definition escape_json (s : bytes) : outcome bytes := escape_json_g tree_escape_fx s.
