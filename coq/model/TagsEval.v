(* Model of /repo/pkg/lql/tagseval.go: BuildTagsExpFuncBySource compiles a source condition into a
   closure over tag sets.  path.Match, strings.ToUpper/ToLower are oracles.
   The builder state (teb.tef, possibly a nil func) is explicit, and the builders carry a variant flag [sh]
   for the LIKE case of buildTagCond, which probes the pattern with path.Match(value, "abc"):
     sh = false  `_, err = path.Match(..)`: the probe's error is the function's result, a malformed pattern
                 is refused (the code since the fix);
     sh = true   `_, err := path.Match(..)`: a fresh err shadows the result: no error is returned and
                 teb.tef stays as it was, a nil func or the closure of the condition before (the code
                 before the fix; kept so that the theorems can say what the repair bought).
   [code_from_like_shadow] is the variant of the code; build_source (what K runs and the theorems are
   about) is the builder at that variant.
   Definitions only. *)
From LR Require Export lib.Base model.KV model.Tags.

(* lql.Identifier / Condition / XCondition / OrCondition / Expression (the parsed AST) *)
Inductive ident := Ident (operand : bytes) (params : list ident).
Record cond := { c_ident : ident; c_op : bytes; c_value : bytes }.
(* Expression = list of OrCondition; OrCondition = list of XCondition *)
Inductive xcond := XC (neg : bool) (body : xbody)
with xbody := BCond (c : cond) | BExpr (ors : list (list xcond)).
Definition expression := list (list xcond).
(* lql.Source: {tags} or an expression; None models the nil *Source *)
Inductive source := STags (q : kvmap) | SExpr (e : option expression).

(* the closure; calling a nil func panics *)
Definition tefn := kvmap -> outcome bool.
Definition call (f : option tefn) (m : kvmap) : outcome bool := match f with Some g => g m | None => Panic end.
Definition positive : tefn := fun _ => Ok true.

Fixpoint is_prefix (p s : bytes) : bool :=
  match p, s with
  | [], _ => true
  | x :: p', y :: s' => byte_eqb x y && is_prefix p' s'
  | _, [] => false
  end.
Definition is_suffix (p s : bytes) : bool := is_prefix (rev p) (rev s).
Fixpoint contains (s p : bytes) : bool :=
  is_prefix p s || match s with [] => false | _ :: s' => contains s' p end.

Definition OP_LT : bytes := [x3c].            Definition OP_GT : bytes := [x3e].
Definition OP_LE : bytes := [x3c; x3d].       Definition OP_GE : bytes := [x3e; x3d].
Definition OP_NE : bytes := [x21; x3d].       Definition OP_EQ : bytes := [x3d].
Definition OP_LIKE : bytes := [x4c; x49; x4b; x45].
Definition OP_CONTAINS : bytes := [x43; x4f; x4e; x54; x41; x49; x4e; x53].
Definition OP_PREFIX : bytes := [x50; x52; x45; x46; x49; x58].
Definition OP_SUFFIX : bytes := [x53; x55; x46; x46; x49; x58].
Definition FN_UPPER : bytes := [x55; x50; x50; x45; x52].
Definition FN_LOWER : bytes := [x4c; x4f; x57; x45; x52].
Definition PROBE : bytes := [x61; x62; x63].   (* "abc" *)

(* tagseval.go buildTagCond, case CMP_LIKE: `_, err = path.Match(cn.Value, "abc")` (was `_, err :=` before the fix) *)
Definition code_from_like_shadow : bool := false.

Section WithOracles.
  Variable upper lower : bytes -> bytes.                 (* strings.ToUpper / ToLower *)
  Variable pmatch : bytes -> bytes -> option bool.       (* path.Match(pattern, name): None = ErrBadPattern *)

  (* buildTagIdent: None = error *)
  Fixpoint build_ident (id : ident) : option (kvmap -> bytes) :=
    match id with
    | Ident operand params =>
        match params with
        | [] => Some (fun m => get_or_empty operand m)
        | [p] => match build_ident p with
                 | None => None
                 | Some fint =>
                     let fn := upper operand in
                     if bytes_eqb fn FN_UPPER then Some (fun m => upper (fint m))
                     else if bytes_eqb fn FN_LOWER then Some (fun m => lower (fint m))
                     else None
                 end
        | _ => None
        end
    end.

  Section Variant.
  Variable sh : bool.     (* the LIKE probe's err is shadowed (see the head of the file) *)

  (* buildTagCond: returns None on error, else the new teb.tef (given the current one) *)
  Definition build_cond (c : cond) (cur : option tefn) : option (option tefn) :=
    match build_ident (c_ident c) with
    | None => None
    | Some tvf =>
        let op := upper (c_op c) in
        let v := c_value c in
        if bytes_eqb op OP_LT then Some (Some (fun m => Ok (bytes_ltb (tvf m) v)))
        else if bytes_eqb op OP_GT then Some (Some (fun m => Ok (bytes_ltb v (tvf m))))
        else if bytes_eqb op OP_LE then Some (Some (fun m => Ok (bytes_leb (tvf m) v)))
        else if bytes_eqb op OP_GE then Some (Some (fun m => Ok (bytes_leb v (tvf m))))
        else if bytes_eqb op OP_NE then Some (Some (fun m => Ok (negb (bytes_eqb (tvf m) v))))
        else if bytes_eqb op OP_EQ then Some (Some (fun m => Ok (bytes_eqb (tvf m) v)))
        else if bytes_eqb op OP_LIKE then
          match pmatch v PROBE with
          | None => if sh then Some cur   (* `_, err := path.Match` shadows err: no error is returned, tef stays *)
                    else None             (* the probe's error is returned *)
          | Some _ => Some (Some (fun m => Ok (match pmatch v (tvf m) with Some b => b | None => false end)))
          end
        else if bytes_eqb op OP_CONTAINS then Some (Some (fun m => Ok (contains (tvf m) v)))
        else if bytes_eqb op OP_PREFIX then Some (Some (fun m => Ok (is_prefix v (tvf m))))
        else if bytes_eqb op OP_SUFFIX then Some (Some (fun m => Ok (is_suffix v (tvf m))))
        else None
    end.

  Definition and_f (f0 f1 : option tefn) : tefn :=
    fun m => match call f0 m with Ok true => call f1 m | o => o end.
  Definition or_f (f0 f1 : option tefn) : tefn :=
    fun m => match call f0 m with Ok false => call f1 m | o => o end.
  Definition not_f (f : option tefn) : tefn :=
    fun m => match call f m with Ok b => Ok (negb b) | o => o end.

  (* buildXCond / buildXConds / buildOrConds *)
  Fixpoint build_xcond (xc : xcond) (cur : option tefn) : option (option tefn) :=
    match xc with
    | XC neg body =>
        let r := match body with
                 | BCond c => build_cond c cur
                 | BExpr ors =>
                     (fix build_ors (l : list (list xcond)) (cur : option tefn) : option (option tefn) :=
                        match l with
                        | [] => Some (Some positive)
                        | ands :: rest =>
                            let r0 := (fix build_xconds (cn : list xcond) (cur : option tefn) : option (option tefn) :=
                                         match cn with
                                         | [] => Some (Some positive)
                                         | [x] => build_xcond x cur
                                         | x :: tl => match build_xcond x cur with
                                                      | None => None
                                                      | Some efd0 => match build_xconds tl efd0 with
                                                                     | None => None
                                                                     | Some efd1 => Some (Some (and_f efd0 efd1))
                                                                     end
                                                      end
                                         end) ands cur in
                            match r0 with
                            | None => None
                            | Some efd0 => match rest with
                                           | [] => Some efd0
                                           | _ => match build_ors rest efd0 with
                                                  | None => None
                                                  | Some efd1 => Some (Some (or_f efd0 efd1))
                                                  end
                                           end
                            end
                        end) ors cur
                 end in
        match r with
        | None => None
        | Some f => if neg then Some (Some (not_f f)) else Some f
        end
    end.

  Fixpoint build_xconds (cn : list xcond) (cur : option tefn) : option (option tefn) :=
    match cn with
    | [] => Some (Some positive)
    | [x] => build_xcond x cur
    | x :: tl => match build_xcond x cur with
                 | None => None
                 | Some efd0 => match build_xconds tl efd0 with
                                | None => None
                                | Some efd1 => Some (Some (and_f efd0 efd1))
                                end
                 end
    end.

  Fixpoint build_ors (l : list (list xcond)) (cur : option tefn) : option (option tefn) :=
    match l with
    | [] => Some (Some positive)
    | ands :: rest =>
        match build_xconds ands cur with
        | None => None
        | Some efd0 => match rest with
                       | [] => Some efd0
                       | _ => match build_ors rest efd0 with
                              | None => None
                              | Some efd1 => Some (Some (or_f efd0 efd1))
                              end
                       end
        end
    end.

  (* BuildTagsExpFuncBySource: None = error; Some None = a nil func without an error *)
  Definition build_source_v (s : source) : option (option tefn) :=
    match s with
    | STags q => Some (Some (fun m => Ok (map_subset q m)))
    | SExpr None => Some (Some positive)
    | SExpr (Some e) => build_ors e None
    end.
  End Variant.
  (* the code *)
  Definition build_source : source -> option (option tefn) := build_source_v code_from_like_shadow.

  (* ---- reference meaning of a tag expression ---- *)
  Fixpoint ref_ident (id : ident) (m : kvmap) : bytes :=
    match id with
    | Ident operand params =>
        match params with
        | [p] => if bytes_eqb (upper operand) FN_UPPER then upper (ref_ident p m) else lower (ref_ident p m)
        | _ => get_or_empty operand m
        end
    end.
  Fixpoint ident_wf (id : ident) : bool :=
    match id with
    | Ident operand params =>
        match params with
        | [] => true
        | [p] => ident_wf p && (bytes_eqb (upper operand) FN_UPPER || bytes_eqb (upper operand) FN_LOWER)
        | _ => false
        end
    end.
  Definition known_op (op : bytes) : bool :=
    existsb (bytes_eqb op) [OP_LT; OP_GT; OP_LE; OP_GE; OP_NE; OP_EQ; OP_LIKE; OP_CONTAINS; OP_PREFIX; OP_SUFFIX].
  Definition cond_wf (c : cond) : bool := ident_wf (c_ident c) && known_op (upper (c_op c)).
  (* every LIKE pattern is well-formed for path.Match *)
  Definition cond_like_ok (c : cond) : bool :=
    if bytes_eqb (upper (c_op c)) OP_LIKE then (match pmatch (c_value c) PROBE with Some _ => true | None => false end) else true.
  (* a condition the builder must accept: well-formed, and its LIKE pattern (if any) is one path.Match accepts *)
  Definition cond_ok (c : cond) : bool := cond_wf c && cond_like_ok c.
  Definition ref_cond (c : cond) (m : kvmap) : bool :=
    let x := ref_ident (c_ident c) m in
    let v := c_value c in
    let op := upper (c_op c) in
    if bytes_eqb op OP_LT then bytes_ltb x v
    else if bytes_eqb op OP_GT then bytes_ltb v x
    else if bytes_eqb op OP_LE then bytes_leb x v
    else if bytes_eqb op OP_GE then bytes_leb v x
    else if bytes_eqb op OP_NE then negb (bytes_eqb x v)
    else if bytes_eqb op OP_EQ then bytes_eqb x v
    else if bytes_eqb op OP_LIKE then (match pmatch v x with Some b => b | None => false end)
    else if bytes_eqb op OP_CONTAINS then contains x v
    else if bytes_eqb op OP_PREFIX then is_prefix v x
    else is_suffix v x.

  (* generic traversal: all conditions satisfy p *)
  Fixpoint xcond_all (p : cond -> bool) (xc : xcond) : bool :=
    match xc with
    | XC _ (BCond c) => p c
    | XC _ (BExpr ors) => forallb (forallb (xcond_all p)) ors
    end.
  Definition expr_all (p : cond -> bool) (e : expression) : bool := forallb (forallb (xcond_all p)) e.

  Fixpoint ref_xcond (xc : xcond) (m : kvmap) : bool :=
    match xc with
    | XC neg body =>
        let b := match body with
                 | BCond c => ref_cond c m
                 | BExpr ors => match ors with [] => true | _ => existsb (forallb (fun x => ref_xcond x m)) ors end
                 end in
        if neg then negb b else b
    end.
  (* an OR of ANDs; the (unparsable) empty OR is true, as in buildOrConds *)
  Definition ref_expr (e : expression) (m : kvmap) : bool :=
    match e with [] => true | _ => existsb (forallb (fun x => ref_xcond x m)) e end.
End WithOracles.
