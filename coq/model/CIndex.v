(* Model of pkg/tmindex/cindex.go for ONE partition: the list of chunk infos (claimed timestamp
   hull, root of the sparse index, last indexed position, corrupted flag) and the operations
   onWrite, getPosForGreaterOrEqualTime, getPosForLessTime, rebuildIndex(Int), syncChunks/lightFill/apply,
   readData.  The per-chunk index is the flat record list of model/TmTree.v.

   The parameter fix_zero selects the repair of "0 means unset" in rebuildIndexInt (segment max starts
   at MinInt64): true = the code as it is, false = the code before the repair (segment max starts at 0).
   Definitions only; lemmas are in proofs/CIndexP.v. *)
From LR Require Import lib.Base model.TmTree.
Open Scope Z_scope.

Definition max_int64 : Z := 9223372036854775807.
Definition min_int64 : Z := -9223372036854775808.
Definition max_uint32 : Z := 4294967295.
Definition sparse_space : Z := 250.                       (* sparseSpace *)
Definition u32_sub (a b : Z) : Z := (a - b) mod 4294967296.

Record chk_info := mkinfo {
  k_id : Z;                      (* chunk id *)
  k_min : Z; k_max : Z;          (* MinTs, MaxTs: the claimed hull *)
  k_root : option (list rec);    (* None: IdxRoot.IndexId == 0 *)
  k_last : Z;                    (* lastRec *)
  k_bad : bool;                  (* idxCorrupted *)
  k_partial : bool               (* HullPartial: the info was created by a write notification for a chunk that already had
                                    records, its hull covers the written records only; until rebuildIndex has scanned the
                                    chunk it is REPORTED (getRecordsInfo: SyncChunks, GetRecordsInfo) with an unlimited
                                    time range. Never set in the variant without the repair C02-write-after-index-loss *)
}.
(* chkInfo.getRecordsInfo: the time range the index reports for the chunk *)
Definition k_rmin (k : chk_info) : Z := if k_partial k then min_int64 else k_min k.
Definition k_rmax (k : chk_info) : Z := if k_partial k then max_int64 else k_max k.
Definition cindex := list chk_info.        (* sortedChunks of the partition; [] = partition unknown *)

Definition hull_update (k : chk_info) (mn mx : Z) : chk_info :=   (* chkInfo.update *)
  mkinfo (k_id k) (if mn <? k_min k then mn else k_min k) (if k_max k <? mx then mx else k_max k)
         (k_root k) (k_last k) (k_bad k) (k_partial k).
Definition make_corrupted (k : chk_info) : chk_info :=
  mkinfo (k_id k) (k_min k) (k_max k) None (k_last k) true (k_partial k).

Fixpoint find_chunk (ci : cindex) (cid : Z) : option chk_info :=
  match ci with
  | [] => None
  | k :: tl => if k_id k =? cid then Some k else find_chunk tl cid
  end.
Fixpoint replace_chunk (ci : cindex) (k' : chk_info) : cindex :=
  match ci with
  | [] => []
  | k :: tl => if k_id k =? k_id k' then k' :: tl else k :: replace_chunk tl k'
  end.

Inductive wres := WOk | WCorrupted.     (* nil / ErrTmIndexCorrupted *)
Definition wres_eqb (a b : wres) : bool := match a, b with WOk, WOk => true | WCorrupted, WCorrupted => true | _, _ => false end.

(* cindex.onWrite, the part that works on the chunk's info once it is located / created
   (`l` already carries the extended hull); skip_lock = the TryLock on the chunk failed *)
Definition on_write_chunk (skip_lock new_chk : bool) (l : chk_info) (first lastr mn mx : Z) : chk_info * wres :=
  if skip_lock then (l, WOk)
  else if k_bad l then (l, WCorrupted)
  else if new_chk && (0 <? first) then (make_corrupted l, WCorrupted)
  else if (0 <? k_last l) && (u32_sub lastr (k_last l) <? sparse_space) then (l, WOk)
  else
    let p0 := mkrec mn first in
    let p1 := mkrec mx lastr in
    match k_root l with
    | None =>
        if sparse_space * 20 <? u32_sub lastr (k_last l) then (make_corrupted l, WCorrupted)
        else (mkinfo (k_id l) (k_min l) (k_max l) (Some (flat_add [] p0 p1)) lastr false (k_partial l), WOk)
    | Some rs =>
        (mkinfo (k_id l) (k_min l) (k_max l) (Some (flat_add rs p0 p1)) lastr false (k_partial l), WOk)
    end.

(* cindex.onWrite(src, firstRec, lastRec, {cid, mn, mx}): the partition is unknown, or its last chunk is
   another one => a fresh info (new chunk); otherwise the last info's hull is extended *)
Definition ci_on_write (fix_partial skip_lock : bool) (ci : cindex) (first lastr cid mn mx : Z) : cindex * wres :=
  let fresh := mkinfo cid mn mx None 0 false (fix_partial && (0 <? first)) in
  match ci with
  | [] => let '(k', r) := on_write_chunk skip_lock true fresh first lastr mn mx in ([k'], r)
  | _ =>
      let l := last ci fresh in
      if negb (k_id l =? cid) then
        let '(k', r) := on_write_chunk skip_lock true fresh first lastr mn mx in (ci ++ [k'], r)
      else
        let '(k', r) := on_write_chunk skip_lock false (hull_update l mn mx) first lastr mn mx in (removelast ci ++ [k'], r)
  end.

(* answers of the two position queries *)
Inductive pres := PPos (p : Z) | PNotFound | POutOfRange | PCorrupted.
Definition pres_eqb (a b : pres) : bool :=
  match a, b with
  | PPos x, PPos y => x =? y
  | PNotFound, PNotFound => true
  | POutOfRange, POutOfRange => true
  | PCorrupted, PCorrupted => true
  | _, _ => false
  end.

(* getPosForGreaterOrEqualTime *)
Definition pos_ge (ci : cindex) (cid ts : Z) : pres :=
  match find_chunk ci cid with
  | None => PNotFound
  | Some k =>
      if k_max k <? ts then POutOfRange
      else if ts <=? k_min k then PPos 0
      else if k_bad k then PCorrupted
      else match k_root k with
           | None => PCorrupted                       (* cc.grEq: index not found *)
           | Some rs => match flat_gr_eq rs ts with
                        | ARec r => PPos (r_idx r)
                        | AAll => PPos 0
                        | AErr => PCorrupted
                        end
           end
  end.

(* getPosForLessTime *)
Definition pos_lt (ci : cindex) (cid ts : Z) : pres :=
  match find_chunk ci cid with
  | None => PNotFound
  | Some k =>
      if k_max k <=? ts then PPos max_uint32
      else if ts <=? k_min k then POutOfRange
      else if k_bad k then PCorrupted
      else match k_root k with
           | None => PPos max_uint32                  (* cc.less error: "start from the end" *)
           | Some rs => match flat_less rs ts with
                        | ARec r => PPos (r_idx r)
                        | _ => PPos max_uint32
                        end
           end
  end.

(* ---- rebuildIndexInt: scan the chunk, one interval per sparseSpace records ---- *)
Section Rebuild.
  Variable fix_zero : bool.

  Definition seg_init : Z * Z := (max_int64, if fix_zero then min_int64 else 0).   (* RecordsInfo{MinTs: MaxInt64, MaxTs: MinInt64}; before the repair RecordsInfo{MinTs: MaxInt64} *)
  Definition apply_ts (ri : Z * Z) (ts : Z) : Z * Z :=                            (* RecordsInfo.ApplyTs *)
    ((if ts <? fst ri then ts else fst ri), (if snd ri <? ts then ts else snd ri)).

  Definition write_index_interval (root : list rec) (seg : Z * Z) (pos0 pos1 : Z) : list rec :=
    if pos0 =? pos1 then root else flat_add root (mkrec (fst seg) pos0) (mkrec (snd seg) pos1).

  (* the scanning loop; `data` = the timestamps still to read *)
  Fixpoint rebuild_loop (data : list Z) (root : list rec) (rinfo seg : Z * Z) (pos0 pos1 : Z) : (Z * Z) * list rec :=
    match data with
    | [] => (rinfo, write_index_interval root seg pos0 pos1)
    | ts :: tl =>
        let rinfo' := apply_ts rinfo ts in
        let seg' := apply_ts seg ts in
        let pos1' := pos1 + 1 in
        if pos1' - pos0 <? sparse_space then rebuild_loop tl root rinfo' seg' pos0 pos1'
        else rebuild_loop tl (write_index_interval root seg' pos0 pos1') rinfo' seg_init pos1' pos1'
    end.

  (* (hull, root); an empty chunk gives the zero RecordsInfo and no root *)
  Definition rebuild_int (data : list Z) : (Z * Z) * option (list rec) :=
    match data with
    | [] => ((0, 0), None)
    | ts0 :: _ =>
        let root0 := flat_add [] (mkrec ts0 0) (mkrec ts0 0) in
        let '(ri, root) := rebuild_loop data root0 (ts0, ts0) seg_init 0 0 in
        (ri, Some root)
    end.

  (* cindex.rebuildIndex(src, chk, force=false) — force=true on a live index removes the whole index
     file shared with other chunks and is not modelled *)
  Definition ci_rebuild (ci : cindex) (cid : Z) (data : list Z) : cindex :=
    match find_chunk ci cid with
    | None => ci
    | Some k =>
        let alive := match k_root k with Some _ => negb (k_bad k) | None => false end in
        if alive then ci
        else
          let '(ri, root) := rebuild_int data in
          replace_chunk ci (hull_update (mkinfo (k_id k) (k_min k) (k_max k) root 0 false false) (fst ri) (snd ri))
    end.
End Rebuild.

(* ---- syncChunks: chunks the index does not know get a hull from their first and last record (lightFill);
        known ones keep their info; infos of chunks that no longer exist are dropped ---- *)
Definition light_fill (cid : Z) (data : list Z) : chk_info :=
  match data with
  | [] => mkinfo cid max_int64 0 None 0 false false
  | ts1 :: _ => let ts2 := last data ts1 in
                if ts2 <? ts1 then mkinfo cid ts2 ts1 None 0 false false else mkinfo cid ts1 ts2 None 0 false false
  end.
Definition ci_sync (ci : cindex) (cks : list (Z * list Z)) : cindex :=
  map (fun ck => match find_chunk ci (fst ck) with Some k => k | None => light_fill (fst ck) (snd ck) end) cks.

(* a clean shutdown and start: close() writes the infos to cindex.dat (exported fields only: id, hull, root;
   makeCorrupted has emptied the root of a corrupted info) and init() loads them, so lastRec and the corrupted
   flag start from zero *)
Definition restart_info (k : chk_info) : chk_info :=
  if k_partial k then mkinfo (k_id k) (k_min k) (k_max k) None 0 true true   (* the mark is saved; a loaded marked info is made
                                                                               corrupted again, so that writes ask for its rebuild *)
  else mkinfo (k_id k) (k_min k) (k_max k) (if k_bad k then None else k_root k) 0 false false.
Definition ci_restart (ci : cindex) : cindex := map restart_info ci.

(* cindex.readData: None = error (corrupted / no index) *)
Definition ci_read_data (ci : cindex) (cid : Z) : option (list rec) :=
  match find_chunk ci cid with
  | None => None
  | Some k => if k_bad k then None
              else match k_root k with None => None | Some rs => Some (read_data_of (flat_traversal rs)) end
  end.
