(* TIndex.v — the tag index hold/lock protocol (pkg/tindex/inmem.go) and its clients
   (pkg/partition/partition.go Write, GetJournal, GetJournals, Partitions, Truncate,
   deleteJournal, truncateGlobally; pkg/cursor close; tmirebuilder.serve; ppipe clean-up)
   as a transition system: every Lock()..Unlock() region of inmem.go is one atomic step,
   a spin-loop iteration is one step that leaves the state unchanged.  Definitions only. *)
From LR Require Import lib.Base.

(* ------------------------------------------------------------------ the index *)

(* tagsDesc.  A partition source id is its position in creation order (newSrc() never repeats);
   a deleted descriptor stays in the list with t_live = false: visits keep *pointers* to
   descriptors and decrement them after they left the maps. *)
Record tdesc := { t_tag : nat; t_readers : Z; t_excl : bool; t_live : bool }.
Definition tix := list tdesc.

Definition add_rd (d : Z) (td : tdesc) : tdesc :=
  {| t_tag := t_tag td; t_readers := t_readers td + d; t_excl := t_excl td; t_live := t_live td |}.
Definition set_excl (b : bool) (td : tdesc) : tdesc :=
  {| t_tag := t_tag td; t_readers := t_readers td; t_excl := b; t_live := t_live td |}.
Definition set_dead (td : tdesc) : tdesc :=
  {| t_tag := t_tag td; t_readers := t_readers td; t_excl := t_excl td; t_live := false |}.

Fixpoint upd (ix : tix) (p : nat) (f : tdesc -> tdesc) : tix :=
  match ix, p with
  | [], _ => []
  | td :: tl, O => f td :: tl
  | td :: tl, S p' => td :: upd tl p' f
  end.

(* smap[src] *)
Definition get (ix : tix) (p : nat) : option tdesc :=
  match nth_error ix p with
  | Some td => if t_live td then Some td else None
  | None => None
  end.

(* tmap[tags]: the live descriptor with this tag line *)
Definition has_tag (ix : tix) (tag p : nat) : bool :=
  match get ix p with Some td => Nat.eqb (t_tag td) tag | None => false end.
Definition find_tag (ix : tix) (tag : nat) : option nat := find (has_tag ix tag) (seq 0 (length ix)).

Definition tag_of (ix : tix) (p : nat) : nat :=
  match nth_error ix p with Some td => t_tag td | None => 0 end.

Inductive ares := ASpin | AGot (p : nat) | ANotFound.

(* getOrCreateJournal: one iteration of its loop *)
Definition acq_tags (ix : tix) (tag : nat) (create : bool) : tix * ares :=
  match find_tag ix tag with
  | Some p =>
      match get ix p with
      | Some td => if t_excl td then (ix, ASpin) else (upd ix p (add_rd 1), AGot p)
      | None => (ix, ANotFound)
      end
  | None =>
      if create
      then (ix ++ [{| t_tag := tag; t_readers := 1; t_excl := false; t_live := true |}], AGot (length ix))
      else (ix, ANotFound)
  end.

(* GetJournalTags(src, lock): one iteration *)
Definition acq_id (ix : tix) (p : nat) (lock : bool) : tix * ares :=
  match get ix p with
  | None => (ix, ANotFound)
  | Some td => if t_excl td then (ix, ASpin) else ((if lock then upd ix p (add_rd 1) else ix), AGot p)
  end.

(* Release: None = panic *)
Definition release (ix : tix) (p : nat) : option tix :=
  match get ix p with
  | None => Some ix
  | Some td => if t_excl td then None else if (t_readers td <=? 0)%Z then None else Some (upd ix p (add_rd (-1)))
  end.

Definition lockx (ix : tix) (p : nat) : tix * bool :=
  match get ix p with
  | None => (ix, false)
  | Some td => if negb (t_excl td) && (t_readers td =? 1)%Z then (upd ix p (set_excl true), true) else (ix, false)
  end.

(* UnlockExclusively: None = panic *)
Definition unlockx (ix : tix) (p : nat) : option tix :=
  match get ix p with
  | None => Some ix
  | Some td => if negb (t_excl td) || negb (t_readers td =? 1)%Z then None else Some (upd ix p (set_excl false))
  end.

Inductive dres := DOk | DNotFound | DWrongState.
Definition delete (ix : tix) (p : nat) : tix * dres :=
  match get ix p with
  | None => (ix, DNotFound)
  | Some td => if t_excl td then (upd ix p set_dead, DOk) else (ix, DWrongState)
  end.

(* the selection pass of both visit flavours: matching, not exclusive.  A tags condition is
   abstracted to the list of tag lines it accepts. *)
Definition selectable (ix : tix) (m : list nat) (p : nat) : bool :=
  match get ix p with
  | Some td => existsb (Nat.eqb (t_tag td)) m && negb (t_excl td)
  | None => false
  end.
Definition sel (ix : tix) (m : list nat) : list nat := filter (selectable ix m) (seq 0 (length ix)).

(* readers++ / readers-- through descriptor pointers (no map lookup, no checks) *)
Definition inc_all (ix : tix) (l : list nat) : tix := fold_left (fun ix p => upd ix p (add_rd 1)) l ix.
Definition dec_ptr (ix : tix) (l : list nat) : tix := fold_left (fun ix p => upd ix p (add_rd (-1))) l ix.

(* one iteration of the acquire loop of visitWaitingIfLocked for element p *)
Inductive wres := WRemoved | WSpin | WGot (ix' : tix).
Definition wacq (ix : tix) (p : nat) : wres :=
  match get ix p with
  | None => WRemoved
  | Some td => if t_excl td then WSpin else WGot (upd ix p (add_rd 1))
  end.

(* NOT the code: the variant of that iteration which tests "was the partition removed while
   visiting" by looking the descriptor's TAG LINE up in tmap instead of its source id in smap
   (seeded change C14-4).  It reads the flags through the pointer, as the Go does.  Used only in
   props/C14.v to show what the lookup by source id buys (C14_removed_check_by_tags_refuted): after
   Delete nobody ever clears the exclusive flag of the removed descriptor (UnlockExclusively finds
   nothing in smap), so once the tag line is re-created this variant waits for ever. *)
Definition wacq_by_tag (ix : tix) (p : nat) : wres :=
  match nth_error ix p with
  | None => WRemoved
  | Some td =>
      match find_tag ix (t_tag td) with
      | None => WRemoved
      | Some _ => if t_excl td then WSpin else WGot (upd ix p (add_rd 1))
      end
  end.

(* ------------------------------------------------------------------ clients *)

(* Client procedures.  Journal-controller results, journal sizes and context cancellation are
   external: they are parameters of the procedure (chosen by the generator / quantified in the
   theorems).
   PWrite tag create    : Write (create = true), partition.go:355 GetJournal-by-tags bracket (false):
                          acquire by tags; use; Release
   PById p lock         : GetJournalTags(p, lock) [; use; Release]: partition.GetJournal (cursor by
                          state.Src), tmirebuilder.serve, cleanupTsIndex; lock = false: ppipe clean-up
   PVisit skip norel m abort : Visit with flags, visitor returns false at callback number `abort`;
                          with VF_DO_NOT_RELEASE the client keeps every visited partition and
                          releases them afterwards.  Partitions() = PVisit false false.
   PQuery m limit failat: GetJournals (waiting, VF_DO_NOT_RELEASE; Journals.GetOrCreate fails at
                          callback number failat; limit) followed by the cursor's life and close
   PTrunc m zero szpos glob cancel ofail gfail : (ofail: tags whose journal fails to open in the visitor of
                          the first phase - the partition is left alone; gfail: tags whose journal fails to
                          open in truncateGlobally - acquired by GetJournalTags, released at once) Truncate: skipping visit; a visited partition whose tag is in
                          `zero` has size 0 and goes through deleteJournal (the size re-check under
                          the exclusive lock says "> 0" for tags in szpos); the others are kept for
                          truncateGlobally (run when glob); ctx is cancelled at callback `cancel` *)
Inductive proc :=
| PWrite (tag : nat) (create : bool)
| PById (p : nat) (lock : bool)
| PVisit (skip norel : bool) (m : list nat) (abort : option nat)
| PQuery (m : list nat) (limit : nat) (failat : option nat)
| PTrunc (m zero szpos : list nat) (glob : bool) (cancel : option nat) (ofail gfail : list nat).

(* The one place where the model follows a choice of the code under repair: does GetJournals
   release the partition whose journal failed to open (proposed_fixes/C14-getjournals-leak.diff)?
   false = the code as it is.  Flip to true when the fix is applied; every proof in
   proofs/TIndexP.v and props/C14.v is written for both values. *)
Definition gj_releases_failed : bool := true.

(* The second such place: the limit test of GetJournals, made AFTER the journal was added to res.
   true = the code as repaired (proposed_fixes/C06-select-limit-off-by-one.diff): `len(res) > maxLimit`,
   exactly maxLimit partitions are served, the (maxLimit+1)-th is acquired, added, and the visit is
   refused (everything in res released).  false = the code before: `len(res) == maxLimit`, a
   condition matching exactly maxLimit partitions was refused.  n = len(res) after the insertion. *)
Definition gj_limit_inclusive : bool := true.
Definition limit_hit_g (incl : bool) (n limit : nat) : bool := if incl then Nat.ltb limit n else Nat.eqb n limit.
Definition limit_hit (n limit : nat) : bool := limit_hit_g gj_limit_inclusive n limit.

Inductive djst := DjLock | DjSize | DjUnlockSz | DjDelete | DjUnlock2.

Inductive ctl :=
| CIdle
| CAcqT (tag : nat) (create : bool)
| CAcqI (p : nat) (lock : bool)
| CHold (l : list nat)
| CRel (l : list nat)
| CSel
| CNext
| CTry (x : nat)
| CCb (x : nat)
| CDj (x : nat) (st : djst) (glob : bool)
| CFin
| CGNext
| CGAcq (x : nat)
| CGCb (x : nat)
| CGRel (x : nat)
| CRelF (x : nat).     (* GetJournals (repaired) releasing the partition whose journal failed to open *)

(* local variables of a visit: vstd entries not yet reached, entries visited, GetJournals' res,
   Truncate's sortedInfos, number of callbacks made, error flag *)
Record frame := { f_rest : list nat; f_vis : list nat; f_res : list nat; f_gl : list nat; f_n : nat; f_err : bool }.
Definition frame0 : frame := {| f_rest := []; f_vis := []; f_res := []; f_gl := []; f_n := 0; f_err := false |}.

(* a_lost: ghost — acquisitions the client no longer has any reference to (never to be released) *)
Record actor := { a_prog : list proc; a_cur : proc; a_ctl : ctl; a_f : frame; a_lost : list nat }.

Definition p_skip (p : proc) : bool :=
  match p with PVisit s _ _ _ => s | PTrunc _ _ _ _ _ _ _ => true | _ => false end.
Definition p_norel (p : proc) : bool :=
  match p with PVisit _ n _ _ => n | PQuery _ _ _ => true | _ => false end.
Definition p_m (p : proc) : list nat :=
  match p with PVisit _ _ m _ => m | PQuery m _ _ => m | PTrunc m _ _ _ _ _ _ => m | _ => [] end.
Definition is_visit (p : proc) : bool :=
  match p with PVisit _ _ _ _ | PQuery _ _ _ | PTrunc _ _ _ _ _ _ _ => true | _ => false end.
Definition is_trunc (p : proc) : bool := match p with PTrunc _ _ _ _ _ _ _ => true | _ => false end.
Definition is_query (p : proc) : bool := match p with PQuery _ _ _ => true | _ => false end.

Fixpoint remove1 (x : nat) (l : list nat) : list nat :=
  match l with [] => [] | y :: t => if Nat.eqb x y then t else y :: remove1 x t end.

(* Go map iteration order: the next element is chosen by the schedule (order oracle) *)
Definition pick (c : nat) (l : list nat) : option (nat * list nat) :=
  match l with
  | [] => None
  | y :: t => if existsb (Nat.eqb c) l then Some (c, remove1 c l) else Some (y, t)
  end.

Definition mem (x : nat) (l : list nat) : bool := existsb (Nat.eqb x) l.

Definition opt_is (o : option nat) (n : nat) : bool := match o with Some k => Nat.eqb k n | None => false end.

Inductive sres := Moved | Spun | Halted.

Definition with_ctl (a : actor) (c : ctl) : actor :=
  {| a_prog := a_prog a; a_cur := a_cur a; a_ctl := c; a_f := a_f a; a_lost := a_lost a |}.
Definition with_cf (a : actor) (c : ctl) (f : frame) : actor :=
  {| a_prog := a_prog a; a_cur := a_cur a; a_ctl := c; a_f := f; a_lost := a_lost a |}.

Definition f_set_rest (f : frame) (r : list nat) : frame :=
  {| f_rest := r; f_vis := f_vis f; f_res := f_res f; f_gl := f_gl f; f_n := f_n f; f_err := f_err f |}.
Definition f_visit (f : frame) (r : list nat) (x : nat) : frame :=
  {| f_rest := r; f_vis := f_vis f ++ [x]; f_res := f_res f; f_gl := f_gl f; f_n := f_n f; f_err := f_err f |}.
Definition f_count (f : frame) : frame :=
  {| f_rest := f_rest f; f_vis := f_vis f; f_res := f_res f; f_gl := f_gl f; f_n := S (f_n f); f_err := f_err f |}.
Definition f_fail (f : frame) : frame :=
  {| f_rest := f_rest f; f_vis := f_vis f; f_res := f_res f; f_gl := f_gl f; f_n := S (f_n f); f_err := true |}.
Definition f_keep (f : frame) (x : nat) (err : bool) : frame :=
  {| f_rest := f_rest f; f_vis := f_vis f; f_res := f_res f ++ [x]; f_gl := f_gl f; f_n := S (f_n f); f_err := err |}.
Definition f_glob (f : frame) (x : nat) : frame :=
  {| f_rest := f_rest f; f_vis := f_vis f; f_res := f_res f; f_gl := x :: f_gl f; f_n := f_n f; f_err := f_err f |}.
Definition f_set_gl (f : frame) (l : list nat) : frame :=
  {| f_rest := f_rest f; f_vis := f_vis f; f_res := f_res f; f_gl := l; f_n := f_n f; f_err := f_err f |}.

Definition start (p : proc) : ctl :=
  match p with
  | PWrite t c => CAcqT t c
  | PById x l => CAcqI x l
  | _ => CSel
  end.

(* end of a Truncate callback: `return ctx.Err() == nil` *)
Definition trunc_cont (a : actor) : actor :=
  match a_cur a with
  | PTrunc _ _ _ _ cancel _ _ =>
      let f := a_f a in
      with_cf a (if opt_is cancel (f_n f) then CFin else CNext) (f_count f)
  | _ => with_ctl a CIdle
  end.

Definition dj_done (a : actor) (x : nat) (g : bool) : actor :=
  if g then with_ctl a (CGRel x) else trunc_cont a.

(* what follows the final release pass of a visit *)
Definition after_visit (a : actor) : actor :=
  let f := a_f a in
  match a_cur a with
  | PVisit _ norel _ _ => with_ctl a (if norel then CHold (f_vis f) else CIdle)
  | PQuery _ _ _ => with_ctl a (if f_err f then CRel (f_res f) else CHold (f_res f))
  | PTrunc _ _ _ glob _ _ _ => with_ctl a (if glob then CGNext else CIdle)
  | _ => with_ctl a CIdle
  end.

Definition fin_list (a : actor) : list nat :=
  let f := a_f a in
  if p_skip (a_cur a)
  then (if p_norel (a_cur a) then f_rest f else f_vis f ++ f_rest f)
  else (if p_norel (a_cur a) then [] else f_vis f).

(* the visitor callback of the current procedure, for element x *)
Definition callback (ix : tix) (a : actor) (x : nat) : actor :=
  let f := a_f a in
  match a_cur a with
  | PVisit _ _ _ abort => with_cf a (if opt_is abort (f_n f) then CFin else CNext) (f_count f)
  | PQuery _ limit failat =>
      if opt_is failat (f_n f)
      then (* Journals.GetOrCreate failed: x is neither in res nor released (unless repaired) *)
        if gj_releases_failed then with_cf a (CRelF x) (f_fail f)
        else {| a_prog := a_prog a; a_cur := a_cur a; a_ctl := CFin; a_f := f_fail f; a_lost := a_lost a ++ [x] |}
      else if limit_hit (S (length (f_res f))) limit
           then with_cf a CFin (f_keep f x true)
           else with_cf a CNext (f_keep f x false)
  | PTrunc _ zero _ _ _ ofail _ =>
      if mem (tag_of ix x) ofail then trunc_cont a     (* Journals.GetOrCreate failed: `return ctx.Err() == nil` *)
      else if mem (tag_of ix x) zero then with_ctl a (CDj x DjLock false)
      else trunc_cont (with_cf a (a_ctl a) (f_glob f x))
  | _ => with_ctl a CIdle
  end.

(* one atomic step of actor a; c = order oracle.  Result: index, actor, panicked?, kind *)
Definition astep (ix : tix) (a : actor) (c : nat) : tix * actor * bool * sres :=
  let f := a_f a in
  match a_ctl a with
  | CIdle =>
      match a_prog a with
      | [] => (ix, a, false, Halted)
      | p :: rest => (ix, {| a_prog := rest; a_cur := p; a_ctl := start p; a_f := frame0; a_lost := a_lost a |}, false, Moved)
      end
  | CAcqT t cr =>
      match acq_tags ix t cr with
      | (_, ASpin) => (ix, a, false, Spun)
      | (ix', AGot p) => (ix', with_ctl a (CHold [p]), false, Moved)
      | (_, ANotFound) => (ix, with_ctl a CIdle, false, Moved)
      end
  | CAcqI p lk =>
      match acq_id ix p lk with
      | (_, ASpin) => (ix, a, false, Spun)
      | (ix', AGot _) => (ix', with_ctl a (if lk then CHold [p] else CIdle), false, Moved)
      | (_, ANotFound) => (ix, with_ctl a CIdle, false, Moved)
      end
  | CHold l => (ix, with_ctl a (match l with [] => CIdle | _ => CRel l end), false, Moved)
  | CRel [] => (ix, with_ctl a CIdle, false, Moved)
  | CRel (x :: l) =>
      let a' := with_ctl a (match l with [] => CIdle | _ => CRel l end) in
      match release ix x with
      | Some ix' => (ix', a', false, Moved)
      | None => (ix, a', true, Moved)
      end
  | CSel =>
      let l := sel ix (p_m (a_cur a)) in
      if p_skip (a_cur a)
      then (inc_all ix l, with_cf a CNext (f_set_rest f l), false, Moved)
      else (ix, with_cf a CNext (f_set_rest f l), false, Moved)
  | CNext =>
      match pick c (f_rest f) with
      | None => (ix, with_ctl a CFin, false, Moved)
      | Some (x, rest) =>
          if p_skip (a_cur a)
          then (ix, with_cf a (CCb x) (f_visit f rest x), false, Moved)
          else match wacq ix x with
               | WRemoved => (ix, with_cf a CNext (f_set_rest f rest), false, Moved)
               | WSpin => (ix, with_cf a (CTry x) (f_set_rest f rest), false, Moved)
               | WGot ix' => (ix', with_cf a (CCb x) (f_visit f rest x), false, Moved)
               end
      end
  | CTry x =>
      match wacq ix x with
      | WRemoved => (ix, with_ctl a CNext, false, Moved)
      | WSpin => (ix, a, false, Spun)
      | WGot ix' => (ix', with_cf a (CCb x) (f_visit f (f_rest f) x), false, Moved)
      end
  | CCb x => (ix, callback ix a x, false, Moved)
  | CDj x DjLock g =>
      match lockx ix x with
      | (ix', true) => (ix', with_ctl a (CDj x DjSize g), false, Moved)
      | (_, false) => (ix, dj_done a x g, false, Moved)
      end
  | CDj x DjSize g =>
      let szpos := match a_cur a with PTrunc _ _ sz _ _ _ _ => sz | _ => [] end in
      (ix, with_ctl a (CDj x (if mem (tag_of ix x) szpos then DjUnlockSz else DjDelete) g), false, Moved)
  | CDj x DjUnlockSz g =>
      match unlockx ix x with
      | Some ix' => (ix', dj_done a x g, false, Moved)
      | None => (ix, dj_done a x g, true, Moved)
      end
  | CDj x DjDelete g => (fst (delete ix x), with_ctl a (CDj x DjUnlock2 g), false, Moved)
  | CDj x DjUnlock2 g =>
      match unlockx ix x with
      | Some ix' => (ix', dj_done a x g, false, Moved)
      | None => (ix, dj_done a x g, true, Moved)
      end
  | CFin => (dec_ptr ix (fin_list a), after_visit a, false, Moved)
  | CGNext =>
      match f_gl f with
      | [] => (ix, with_ctl a CIdle, false, Moved)
      | x :: l => (ix, with_cf a (CGAcq x) (f_set_gl f l), false, Moved)
      end
  | CGAcq x =>
      match acq_id ix x true with
      | (_, ASpin) => (ix, a, false, Spun)
      | (ix', AGot _) => (ix', with_ctl a (CGCb x), false, Moved)
      | (_, ANotFound) => (ix, with_ctl a CGNext, false, Moved)
      end
  | CGCb x =>
      (* truncateGlobally: Journals.GetOrCreate; when it fails: Release, continue *)
      let gfail := match a_cur a with PTrunc _ _ _ _ _ _ gf => gf | _ => [] end in
      (ix, with_ctl a (if mem (tag_of ix x) gfail then CGRel x else CDj x DjLock true), false, Moved)
  | CGRel x =>
      match release ix x with
      | Some ix' => (ix', with_ctl a CGNext, false, Moved)
      | None => (ix, with_ctl a CGNext, true, Moved)
      end
  | CRelF x =>
      match release ix x with
      | Some ix' => (ix', with_ctl a CFin, false, Moved)
      | None => (ix, with_ctl a CFin, true, Moved)
      end
  end.

(* ------------------------------------------------------------------ the system *)

Record state := { s_ix : tix; s_acts : list actor; s_panic : bool }.

Fixpoint set_nth {A : Type} (l : list A) (i : nat) (v : A) : list A :=
  match l, i with
  | [], _ => []
  | _ :: tl, O => v :: tl
  | x :: tl, S i' => x :: set_nth tl i' v
  end.

Definition mstep_f (s : state) (i c : nat) : state * sres :=
  match nth_error (s_acts s) i with
  | None => (s, Halted)
  | Some a =>
      let '(ix', a', pn, r) := astep (s_ix s) a c in
      ({| s_ix := ix'; s_acts := set_nth (s_acts s) i a'; s_panic := s_panic s || pn |}, r)
  end.
Definition mstep (s : state) (ic : nat * nat) : state := fst (mstep_f s (fst ic) (snd ic)).

(* a schedule: which actor takes the next atomic step, and the order-oracle value it uses *)
Definition schedule := list (nat * nat).
Definition trun (sched : schedule) (s : state) : state := fold_left mstep sched s.

Definition actor0 (prog : list proc) : actor :=
  {| a_prog := prog; a_cur := PById 0 false; a_ctl := CIdle; a_f := frame0; a_lost := [] |}.
Definition init (ix0 : tix) (progs : list (list proc)) : state :=
  {| s_ix := ix0; s_acts := map actor0 progs; s_panic := false |}.

(* ------------------------------------------------------------------ ghost: who holds what *)

Definition vis_held (a : actor) : list nat :=
  let f := a_f a in
  match a_cur a with
  | PVisit skip _ _ _ => if skip then f_vis f ++ f_rest f else f_vis f
  | PQuery _ _ _ => f_res f ++ (match a_ctl a with CCb x | CRelF x => [x] | _ => [] end)
  | PTrunc _ _ _ _ _ _ _ => f_vis f ++ f_rest f
  | _ => []
  end.

(* the outstanding acquisitions of an actor, as a multiset *)
Definition held (a : actor) : list nat :=
  a_lost a ++
  match a_ctl a with
  | CHold l | CRel l => l
  | CNext | CTry _ | CCb _ | CFin | CRelF _ => vis_held a
  | CDj x _ false => vis_held a
  | CDj x _ true | CGCb x | CGRel x => [x]
  | _ => []
  end.

Definition cnt (p : nat) (l : list nat) : nat := count_occ Nat.eq_dec l p.
Definition holds (a : actor) (p : nat) : nat := cnt p (held a).
Definition hsum (acts : list actor) (p : nat) : nat := list_sum (map (fun a => holds a p) acts).

(* the actor that has p locked exclusively (between a successful LockExclusively and the
   matching UnlockExclusively / removal) *)
Definition locker (a : actor) : option nat :=
  match a_ctl a with
  | CDj x DjLock _ => None
  | CDj x _ _ => Some x
  | _ => None
  end.

Definition finished (a : actor) : bool :=
  match a_ctl a, a_prog a with CIdle, [] => true | _, _ => false end.
Definition all_finished (s : state) : bool := forallb finished (s_acts s).

(* the initial index: partitions present after start-up, nobody uses them *)
Definition clean_td (td : tdesc) : bool := t_live td && negb (t_excl td) && (t_readers td =? 0)%Z.
Definition clean (ix : tix) : Prop :=
  forallb clean_td ix = true /\ NoDup (map t_tag ix).

(* ------------------------------------------------------------------ the users of the index, call by call *)

(* The USERS of the index as the sequences of tindex calls they make (one caller; used by the
   operation-level theorems C14_user_* of props/C14.v; the system-level procedures PWrite / PQuery
   above are the same disciplines inside the transition system).
   cursor.newCursor: GetJournals acquires every partition the condition selects (nobody is locking:
   the waiting visit = inc_all over the selection); if the filter cannot be built or the position
   cannot be applied, releaseJournals releases each of them once and no cursor exists; otherwise the
   cursor owns them until close() releases each once.
   partition.Service.Write: GetOrCreateJournal; Journals.GetOrCreate fails -> Release, return;
   write rounds; whatever ends the loop (all written, the first record refused, the iterator
   failing after accepted records) -> Release after the loop.
   u_new_cursor_v6 / u_write_g true are NOT the code: the seeded changes C14-6 (position error path
   calls cur.close() and then releaseJournals) and C14-7 (the iterator-failure branch returns
   without Release); they carry the refutations only. *)
Fixpoint rel_all (ix : tix) (l : list nat) : option tix :=
  match l with
  | [] => Some ix
  | p :: t => match release ix p with Some ix' => rel_all ix' t | None => None end
  end.

Inductive cur_out := CurOk | CurFilterErr | CurPosErr.
Definition u_new_cursor (ix : tix) (m : list nat) (o : cur_out) : option (tix * list nat) :=
  let srcs := sel ix m in
  let ix1 := inc_all ix srcs in
  match o with
  | CurOk => Some (ix1, srcs)
  | CurFilterErr | CurPosErr => match rel_all ix1 srcs with Some ix2 => Some (ix2, []) | None => None end
  end.
Definition u_close (ix : tix) (srcs : list nat) : option tix := rel_all ix srcs.
Definition u_new_cursor_v6 (ix : tix) (m : list nat) (o : cur_out) : option (tix * list nat) :=
  let srcs := sel ix m in
  let ix1 := inc_all ix srcs in
  match o with
  | CurOk => Some (ix1, srcs)
  | CurFilterErr => match rel_all ix1 srcs with Some ix2 => Some (ix2, []) | None => None end
  | CurPosErr =>
      match rel_all ix1 srcs with
      | Some ix2 => match rel_all ix2 srcs with Some ix3 => Some (ix3, []) | None => None end
      | None => None
      end
  end.

Inductive wr_out := WrOk | WrOpenErr | WrFirstErr | WrMiddleErr.
Definition u_write_g (v7 : bool) (ix : tix) (tag : nat) (o : wr_out) : option tix :=
  match acq_tags ix tag true with
  | (ix1, AGot p) =>
      match o with
      | WrOpenErr => release ix1 p
      | WrMiddleErr => if v7 then Some ix1 else release ix1 p
      | WrFirstErr | WrOk => release ix1 p
      end
  | (_, _) => Some ix
  end.
Definition u_write := u_write_g false.
Definition u_write_v7 := u_write_g true.

(* the freshly created, unused partition of a tag line; the one-partition index with count r *)
Definition fresh (tag : nat) : tdesc := {| t_tag := tag; t_readers := 0; t_excl := false; t_live := true |}.
Definition ixu (r : Z) : tix := [{| t_tag := 0; t_readers := r; t_excl := false; t_live := true |}].

Definition unlocked (ix : tix) : Prop := forall p td, get ix p = Some td -> t_excl td = false.
Definition nonneg (ix : tix) : Prop := forall p td, get ix p = Some td -> (0 <= t_readers td)%Z.

