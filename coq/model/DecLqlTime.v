(* Model of the front end of pkg/lql/datetime.go parseLqlDateTime: strings.Trim(dt0, " "),
   strings.ToLower, then parseRalativeDateTime (the guard `len(dt) == 0 || dt[0] != '-'`, the
   unit `dt[len(dt)-1]`, the number text `dt[1:len(dt)-1]`) in checked style.  strconv.ParseFloat is
   a parameter (does the number text parse).  ToLower is represented by lower_kw: the code looks only
   at the first byte ('-'), the last byte (m, h, d; the two non-ASCII runes with an ASCII lower case
   give i and k) and the emptiness of the text.  Definitions only. *)
From LR Require Import lib.Base lib.DecLib model.DecUtf8.

Local Open Scope Z_scope.

(* Ok tt = a relative time was recognised; Err = not a relative literal (the caller goes on with the
   constants, the absolute formats and the integer form, all of which are total library calls) *)
Definition lql_rel_time (parse_float : bytes -> bool) (dt0 : bytes) : outcome unit :=
  let dt := lower_kw (trim_sp dt0) in
  if blen dt =? 0 then Err else
  c0 <- at_ dt 0 ;;
  if negb (byte_eqb c0 x2d) then Err else
  dim <- at_ dt (blen dt - 1) ;;
  if byte_eqb dim x6d || byte_eqb dim x68 || byte_eqb dim x64 then
    num <- slice dt 1 (blen dt - 1) ;;
    if parse_float num then Ok tt else Err
  else Err.
