(* Wait — executable model of "a reader at the end of a stream is woken by new data":
   (A) the reader side: reading a journal to its end and the position it is left with
       (github.com/logrange/range journal.JIterator.Get/Next over chunkfs.cIterator, which is what
       /repo/pkg/cursor uses for queries without RANGE and what the pipe workers use: variant reload = true;
       /repo/pkg/partition/jiterator.go + cselector.go getPosForward for RANGE queries has the same shape
       and keeps the position of the end-of-data decision: variant reload = false),
   (B) the wait protocol: crsr.WaitNewData -> Chunks().WaitForNewData (chunkListener.waitData) against the chunk
       writer's flush (cntCfrmd store, then chunkListener.OnNewData).
   Definitions only. *)
From LR Require Import lib.Base.

(* ------------------------------------------------------------------ (A) the reader *)

(* Every time the reader code looks at the chunk's confirmed record count it may see a larger value than the
   time before (a flush can fall between any two looks). The reader is therefore modelled as a function of the
   sequence of values it sees, tagged by the call that looks:
     OS  chunk iterator SetPos (clamps the requested position to the count)
     OG  chunk iterator Get    (end-of-data decision)
     OC  chunk Count()         (journal iterator, after the chunk iterator reported EOF in the last chunk)
     ON  chunk iterator Next *)
Inductive okind := OS | OG | OC | ON.
Definition okind_eqb (a b : okind) : bool :=
  match a, b with OS, OS | OG, OG | OC, OC | ON, ON => true | _, _ => false end.
Definition trace := list (okind * nat).

Definition take (k : okind) (tr : trace) : option (nat * trace) :=
  match tr with
  | (k', c) :: tl => if okind_eqb k k' then Some (c, tl) else None
  | [] => None
  end.

(* journal iterator over the last chunk: position, is a chunk iterator open, does it hold a fetched record *)
Record rd := { r_pos : nat; r_open : bool; r_cached : bool }.

Inductive gres := GRec (i : nat) | GEof | GBad.   (* GBad: the trace does not fit the calls made *)

(* JIterator.Get. reload = the position left at EOF is a fresh Count() (the journal iterator of the dependency)
   instead of the position the end-of-data decision was made at (/repo's own iterator for RANGE queries, which
   takes the same look but restores the position the chunk iterator reported EOF at). *)
Definition rd_get (reload : bool) (r : rd) (tr : trace) : gres * rd * trace :=
  (* ensureChkIt: open the chunk iterator at r_pos; cIterator.SetPos(p) returns at once if p is its position (0
     for a new iterator), otherwise clamps p to the count *)
  let opened :=
    if r_open r then Some (r, tr)
    else match take OS tr with
         | Some (c, tr') =>
             let p := if r_pos r =? 0 then 0 else Nat.min (r_pos r) c in
             Some ({| r_pos := p; r_open := true; r_cached := false |}, tr')
         | None => None
         end in
  match opened with
  | None => (GBad, r, tr)
  | Some (r1, tr1) =>
      match take OG tr1 with
      | None => (GBad, r1, tr1)
      | Some (c, tr2) =>
          if r_cached r1 then (GRec (r_pos r1), r1, tr2)
          else if r_pos r1 <? c then (GRec (r_pos r1), {| r_pos := r_pos r1; r_open := true; r_cached := true |}, tr2)
          else
            (* EOF of the chunk iterator: advanceChunk closes it, no later chunk exists, the iterator is left
               closed at "the end of the last chunk" *)
            match take OC tr2 with
            | None => (GBad, r1, tr2)
            | Some (c', tr3) =>
                (GEof, {| r_pos := if reload then c' else r_pos r1; r_open := false; r_cached := false |}, tr3)
            end
      end
  end.

(* JIterator.Next: Get, then (if a chunk iterator is open) step it. *)
Definition rd_next (reload : bool) (r : rd) (tr : trace) : bool * rd * trace :=
  match rd_get reload r tr with
  | (GBad, r', tr') => (false, r', tr')
  | (GEof, r', tr') => (true, r', tr')
  | (GRec _, r', tr') =>
      match take ON tr' with
      | None => (false, r', tr')
      | Some (_, tr'') => (true, {| r_pos := S (r_pos r'); r_open := true; r_cached := false |}, tr'')
      end
  end.

(* the read loop of Query / Service.Write: Get; deliver; Next; ... until EOF. Returns the delivered record
   indices, the reader state, the rest of the trace and whether the trace fitted. *)
Fixpoint read_loop (fuel : nat) (reload : bool) (r : rd) (tr : trace) : list nat * rd * trace * bool :=
  match fuel with
  | O => ([], r, tr, false)
  | S f =>
      match rd_get reload r tr with
      | (GBad, r', tr') => ([], r', tr', false)
      | (GEof, r', tr') => ([], r', tr', true)
      | (GRec i, r', tr') =>
          match rd_next reload r' tr' with
          | (false, r'', tr'') => ([i], r'', tr'', false)
          | (true, r'', tr'') =>
              let '(l, rf, trf, ok) := read_loop f reload r'' tr'' in (i :: l, rf, trf, ok)
          end
      end
  end.

(* Release (crsr.WaitNewData releases the iterators before it captures their positions) *)
Definition rd_release (r : rd) : rd := {| r_pos := r_pos r; r_open := r_open r; r_cached := false |}.

(* several read-to-end rounds (a wait in between): per round the delivered indices and the position left *)
Fixpoint read_rounds (n : nat) (fuel : nat) (reload : bool) (r : rd) (tr : trace) : list (list nat * nat) * trace * bool :=
  match n with
  | O => ([], tr, true)
  | S m =>
      let '(l, r', tr', ok) := read_loop fuel reload r tr in
      if ok then
        let '(rest, trf, okf) := read_rounds m fuel reload (rd_release r') tr' in ((l, r_pos r') :: rest, trf, okf)
      else ([(l, r_pos r')], tr', false)
  end.

(* the values seen never decrease *)
Fixpoint mono_from (c : nat) (tr : trace) : Prop :=
  match tr with
  | [] => True
  | (_, c') :: tl => c <= c' /\ mono_from c' tl
  end.

(* does the reader re-read the count for the position it leaves at EOF?
   journal.JIterator of the dependency github.com/logrange/range (queries without RANGE, pipe workers): yes *)
Definition code_reloads_count : bool := true.
(* /repo/pkg/partition/jiterator.go + cselector.go getPosForward (queries with RANGE): no -- Get restores the position
   at which the chunk iterator reported EOF, getPosForward answers with the count its decision was made on *)
Definition code_reloads_count_range : bool := false.

(* ------------------------------------------------------------------ (B) the wait protocol, one partition, one waiter *)

(* phases of chunkListener.waitData for the waiter goroutine that crsr.WaitNewData starts for this partition;
   cap = curId, the position it compares with *)
Inductive wph :=
| WIdle                  (* no wait in progress *)
| WInc (cap : nat)       (* position captured (it.Pos() at goroutine creation), before atomic waiters++ *)
| WChk (cap : nat)       (* before the locked check-and-register *)
| WSleep (cap : nat)     (* registered, blocked in select *)
| WWoken (cap : nat)     (* its channel was closed by OnNewData; loops to the check *)
| WRet                   (* returned nil: cancel() wakes the reader *)
| WGone.                 (* left through ctx.Done (time-out, or another partition woke the reader) *)

(* a flush in progress: after the cntCfrmd store, OnNewData first loads `waiters` without the lock, then locks and
   closes every registered channel *)
Inductive tph := TLoad | TClose.

Record ps := {
  cf : nat;            (* cntCfrmd of the last chunk *)
  wcnt : nat;          (* chunkListener.waiters *)
  reg : bool;          (* this waiter's channel is in dwChnls *)
  toks : list tph;     (* flushes between their count store and the end of OnNewData *)
  wp : wph
}.

Inductive wlabel :=
| LStart (pos : nat)   (* the reader, at EOF with nothing read, starts a wait with its position *)
| LFlushTo (c : nat)   (* chunk writer: cntCfrmd := c (only if larger) *)
| LTokLoad (k : nat)   (* OnNewData of the k-th flush in progress: load waiters; return if 0 *)
| LTokClose (k : nat)  (* ... lock, close the registered channels *)
| LWaiter              (* the waiter goroutine's next step *)
| LCancel.             (* ctx done while blocked: unregister, leave *)

Definition set_wp (s : ps) (w : wph) : ps := {| cf := cf s; wcnt := wcnt s; reg := reg s; toks := toks s; wp := w |}.

Fixpoint remove_tok (k : nat) (l : list tph) : list tph :=
  match l, k with
  | [], _ => []
  | _ :: tl, O => tl
  | x :: tl, S j => x :: remove_tok j tl
  end.
Fixpoint set_tok (k : nat) (v : tph) (l : list tph) : list tph :=
  match l, k with
  | [], _ => []
  | _ :: tl, O => v :: tl
  | x :: tl, S j => x :: set_tok j v tl
  end.

Definition wstep (s : ps) (l : wlabel) : ps :=
  match l with
  | LStart pos =>
      match wp s with
      | WIdle | WRet | WGone => set_wp s (WInc pos)
      | _ => s
      end
  | LFlushTo c =>
      if cf s <? c then {| cf := c; wcnt := wcnt s; reg := reg s; toks := toks s ++ [TLoad]; wp := wp s |} else s
  | LTokLoad k =>
      match nth_error (toks s) k with
      | Some TLoad =>
          if wcnt s =? 0
          then {| cf := cf s; wcnt := wcnt s; reg := reg s; toks := remove_tok k (toks s); wp := wp s |}
          else {| cf := cf s; wcnt := wcnt s; reg := reg s; toks := set_tok k TClose (toks s); wp := wp s |}
      | _ => s
      end
  | LTokClose k =>
      match nth_error (toks s) k with
      | Some TClose =>
          {| cf := cf s; wcnt := wcnt s; reg := false; toks := remove_tok k (toks s);
             wp := match wp s with WSleep cap => if reg s then WWoken cap else WSleep cap | w => w end |}
      | _ => s
      end
  | LWaiter =>
      match wp s with
      | WInc cap => {| cf := cf s; wcnt := S (wcnt s); reg := reg s; toks := toks s; wp := WChk cap |}
      | WChk cap =>
          (* under cl.lock: lro := (last chunk, Count()); curId.Less(lro) => return nil; else curId = lro, register *)
          if cap <? cf s
          then {| cf := cf s; wcnt := pred (wcnt s); reg := reg s; toks := toks s; wp := WRet |}
          else {| cf := cf s; wcnt := wcnt s; reg := true; toks := toks s; wp := WSleep (cf s) |}
      | WWoken cap => set_wp s (WChk cap)
      | _ => s
      end
  | LCancel =>
      match wp s with
      | WSleep _ => {| cf := cf s; wcnt := pred (wcnt s); reg := false; toks := toks s; wp := WGone |}
      | _ => s
      end
  end.

Fixpoint wrun (s : ps) (sched : list wlabel) : ps :=
  match sched with
  | [] => s
  | l :: tl => wrun (wstep s l) tl
  end.

Definition winit (c : nat) : ps := {| cf := c; wcnt := 0; reg := false; toks := []; wp := WIdle |}.

(* finishing the oldest flush in progress *)
Definition finish_tok (s : ps) : ps := wstep (wstep s (LTokLoad 0)) (LTokClose 0).

(* ---- fan-in: one waiter per partition under the reader; the reader is woken when any of them returns ---- *)
Fixpoint mstep (ss : list ps) (i : nat) (l : wlabel) : list ps :=
  match ss, i with
  | [], _ => []
  | s :: tl, O => wstep s l :: tl
  | s :: tl, S j => s :: mstep tl j l
  end.
Fixpoint mrun (ss : list ps) (sched : list (nat * wlabel)) : list ps :=
  match sched with
  | [] => ss
  | (i, l) :: tl => mrun (mstep ss i l) tl
  end.
Definition reader_woken (ss : list ps) : bool :=
  existsb (fun s => match wp s with WRet => true | _ => false end) ss.

(* ---- canonical schedules of the scenarios the harness drives on the real server ---- *)
Inductive wscen :=
| WsBefore        (* the event is readable before the reader looks: no wait *)
| WsHeld          (* it becomes readable between the position capture and the check-and-register *)
| WsSleeping      (* it becomes readable while the waiter is registered and asleep *)
| WsLateFlush     (* written (not readable) while the waiter is held; readable after it has registered *)
| WsNone.         (* nothing is written: time-out *)

(* returns (woken, final state) for a reader at position pos = confirmed count, one new event *)
Definition scen_sched (pos : nat) (sc : wscen) : list wlabel :=
  match sc with
  | WsBefore => [LFlushTo (S pos); LTokLoad 0; LStart pos; LWaiter; LWaiter]
  | WsHeld => [LStart pos; LFlushTo (S pos); LTokLoad 0; LWaiter; LWaiter]
  | WsSleeping => [LStart pos; LWaiter; LWaiter; LFlushTo (S pos); LTokLoad 0; LTokClose 0; LWaiter; LWaiter]
  | WsLateFlush => [LStart pos; LWaiter; LWaiter; LFlushTo (S pos); LTokLoad 0; LTokClose 0; LWaiter; LWaiter]
  | WsNone => [LStart pos; LWaiter; LWaiter; LCancel]
  end.
Definition scen_woken (pos : nat) (sc : wscen) : bool :=
  match wp (wrun (winit pos) (scen_sched pos sc)) with WRet => true | _ => false end.

(* ------------------------------------------------------------------ (C) the client's stream reader (api/client.go Select) *)

(* Select in stream mode sends a request, hands the events of the answer to the handler and continues with
   `qr = &res.NextQueryRequest` -- the request the server returned (cursor id and the concrete position the cursor was
   left at), also when the answer carried no events (an empty, timed-out wait).
   A partition is a growing log of records 0, 1, 2, ...; a request names a position: symbolic `tail` (resolved to the
   current end when the server builds the cursor) or a concrete index. One round of the loop: `before` records are
   appended in the gap before the request reaches the server, `during` records while it is served (the waiting request is
   woken by them, part B); the answer carries everything readable from the position (the batch limit only splits it
   over rounds; it is not modelled), the next request is the concrete position behind them. *)
Inductive spos := STail | SAt (i : nat).
Definition resolve (p : spos) (n : nat) : nat := match p with STail => n | SAt i => i end.

(* advance = the client takes the next request from every answer (the code); false = only from answers with events *)
Fixpoint sel_run (advance : bool) (req : spos) (n : nat) (rounds : list (nat * nat)) : list nat :=
  match rounds with
  | [] => []
  | (before, during) :: tl =>
      let n1 := n + before in
      let p := resolve req n1 in
      let n2 := n1 + during in
      let got := seq p (n2 - p) in
      let req' := if advance || negb (Nat.eqb (length got) 0) then SAt (p + length got) else req in
      got ++ sel_run advance req' n2 tl
  end.

Definition appended (rounds : list (nat * nat)) : nat := fold_right (fun r a => fst r + snd r + a) 0 rounds.

(* does the client continue from the answer's next request after an empty answer? (true = the code) *)
Definition code_select_advances : bool := true.

(* ------------------------------------------------------------------ (D) a reader over no partition *)

(* The wait loop of Querier.Query / ServerQuerier.query:
     for limit > 0 && err == nil { _, _, err = cur.Get; ...; if err == io.EOF && nothing read && WaitTimeout > 0 {
         err = cur.WaitNewData(ctx with the time-out); if err != nil { err = nil; break } } }
   on the cursor over no partitions (pkg/cursor/null.go emptyCursor; the source expression matches nothing): Get
   answers io.EOF every time. WaitNewData has nothing to wait on: it returns when the context is done, with its error
   (waits_for_ctx = true, the code) -- the variant that answers nil at once is false.
   The loop is run with fuel; the result is the number of rounds after which it is left (None: not within the fuel).
   `timeout_round k`: the context of the k-th WaitNewData is done by the time it returns (with waits_for_ctx every
   one is, by definition of waiting for it). *)
Fixpoint empty_wait_loop (waits_for_ctx : bool) (fuel : nat) : option nat :=
  match fuel with
  | O => None
  | S f =>
      (* Get = io.EOF, nothing read: WaitNewData *)
      if waits_for_ctx then Some 1                   (* ctx.Err() <> nil: err = nil; break -- the empty answer at the time-out *)
      else option_map S (empty_wait_loop waits_for_ctx f)   (* nil: err = nil, the loop goes on with the next Get *)
  end.

(* the continuation request of the answer: the state of the empty cursor keeps the query (keeps_query = true, the code),
   so the reader's next request is the same query from the beginning -- in part (C) this is `SAt 0` for a log that had
   no records, the n = 0 instance of sel_run; the variant with an empty state has no query to continue with *)
Definition empty_continuation {Q : Type} (keeps_query : bool) (q : Q) : option Q := if keeps_query then Some q else None.

Definition code_empty_waits_for_ctx : bool := true.
Definition code_empty_keeps_query : bool := true.

(* ------------------------------------------------------------------ (E) a waiting reader with a filter (WHERE / RANGE) *)

(* One reader over several partitions with a filter above them (pkg/cursor/fiterator.go over model.Mixer over the journal
   iterators; with RANGE the iterators are /repo's partition.JIterator with the chunk selector's cached status of each chunk).
   A source is what the reader has not read yet of one partition: the match flags of its unread records (true = the
   filter accepts the record), the Mixer's eof flag for it (set when the source answered EOF; a flagged source is not asked
   again until Release clears the flag) and the selector's cached status of its last chunk (fs_out: "no record of this
   chunk is in the range", as computed when the chunk was last looked at).
   The querier's loop: Get through the filter; at EOF with nothing read: WaitNewData = Release (of the filter, which must
   reach the mixers and iterators below it), then sleep until some partition has records behind the reader's position
   (any record, matching or not: part B), then Get again.
   Two places where this can go wrong are variant flags (true = the code):
     reaches:   the Release issued by WaitNewData reaches the sources below the filter (clears the eof flags);
     refreshes: the selector recomputes the cached status of a chunk that has grown. *)
Record fsrc := { fs_rest : list bool; fs_eof : bool; fs_out : bool }.

Fixpoint scan (rest : list bool) : bool * list bool :=
  match rest with
  | [] => (false, [])
  | true :: tl => (true, tl)
  | false :: tl => scan tl
  end.

(* one source asked by the mixer *)
Definition src_get (refreshes : bool) (f : fsrc) : bool * fsrc :=
  if fs_eof f then (false, f)
  else if fs_out f && negb refreshes
  then (false, {| fs_rest := []; fs_eof := true; fs_out := true |})     (* stale "out": the position steps past the new records *)
  else match scan (fs_rest f) with
       | (true, tl) => (true, {| fs_rest := tl; fs_eof := false; fs_out := false |})
       | (false, _) => (false, {| fs_rest := []; fs_eof := true; fs_out := fs_out f |})
       end.

(* Get of the filtered reader: the first source that has a matching record delivers it; the records the filter rejects on
   the way are consumed *)
Fixpoint get_all (refreshes : bool) (l : list fsrc) : bool * list fsrc :=
  match l with
  | [] => (false, [])
  | f :: tl => let '(r, f') := src_get refreshes f in
               if r then (true, f' :: tl)
               else let '(r2, tl') := get_all refreshes tl in (r2, f' :: tl')
  end.

Definition clear_eof (f : fsrc) : fsrc := {| fs_rest := fs_rest f; fs_eof := false; fs_out := fs_out f |}.

(* one round of the loop after a wake-up: Release, Get *)
Definition fround (reaches refreshes : bool) (l : list fsrc) : bool * list fsrc :=
  get_all refreshes (if reaches then map clear_eof l else l).

(* WaitNewData would return at once: some partition has records behind the reader's position *)
Definition fwoken (l : list fsrc) : bool := existsb (fun f => match fs_rest f with [] => false | _ => true end) l.
(* matching records not read yet *)
Definition unread_matching (l : list fsrc) : nat := fold_right (fun f a => count_occ Bool.bool_dec (fs_rest f) true + a) 0 l.

Fixpoint frounds (reaches refreshes : bool) (n : nat) (l : list fsrc) : bool * list fsrc :=
  match n with
  | O => (false, l)
  | S m => let '(r, l') := fround reaches refreshes l in if r then (true, l') else frounds reaches refreshes m l'
  end.

Definition code_release_reaches : bool := true.
Definition code_status_refreshes : bool := true.

(* ------------------------------------------------------------------ (F) the request's WaitTimeout *)
(* both queriers refuse a request whose WaitTimeout lies outside [0 .. QueryMaxWaitTimeout] before anything else *)
Definition max_wait_timeout : Z := 60%Z.
Definition wait_timeout_ok (w : Z) : bool := (0 <=? w)%Z && (w <=? max_wait_timeout)%Z.
