(* The LQL parser: participle v0.2.1 (nodes.go, context.go) running the grammar of the struct tags in
   /repo/pkg/lql/parser.go:87-212, specialised struct by struct. Definitions only.

   participle semantics kept by the model (each was read off nodes.go):
   * a node returns (out, err); out = nil without error is "no match" and leaves the cursor alone.
     `RNo` is that outcome, `ROk a rest` a match, `RErr n` an error raised after the current context
     advanced n tokens.
   * sequence: first element no match => no match; a later element no match => error; the values of
     the elements are concatenated, and a sequence all of whose elements produced no value is "no match"
     (this is why `SELECT` alone yields a statement with no Select).
   * group `( )?` and `{ }` run their content on a branch. An error in the branch is fatal only when the
     branch advanced more than `lookahead` = 1 token (parseContext.Stop); otherwise the group is over,
     the cursor is back at the group's start, and the values collected so far (never empty: strct and
     capture always return a value with an error) still count as output of the group.
   * disjunction: same rule per alternative; when every alternative fails softly the first error is
     returned with the cursor not advanced.
   * a literal "X" matches a token by value whatever its type; for tokens of type Keyword the comparison
     is strings.EqualFold (CaseInsensitive("Keyword")), otherwise exact.
   * captured values are converted when the struct is complete (Capture methods, strconv.ParseInt base 0
     for int fields); a failure there is an error of the struct. The model raises it where the value is
     read: in every place the grammar has, the error is fatal either way. *)
From LR Require Import lib.Base model.LqlAst model.LqlLex.
From Coq Require Import Strings.String.
Local Open Scope string_scope.
Local Open Scope list_scope.

Inductive pres (A : Type) := RNo | ROk (a : A) (rest : list token) | RErr (n : nat).
Arguments RNo {A}. Arguments ROk {A}. Arguments RErr {A}.

(* tokens consumed between ts and its suffix rest *)
Definition used (ts rest : list token) : nat := List.length ts - List.length rest.

Definition is_ty (ty : tokty) (t : token) : bool := tokty_eqb (t_ty t) ty.

(* literal "s" against a token *)
Definition lit (s : string) (t : token) : bool :=
  match t_ty t with
  | TKeyword => fold_eq (t_val t) (B s)
  | _ => bytes_eqb (t_val t) (B s)
  end.

(* group ( ... )? around a result computed at ts: (value, produced some output) *)
Definition opt {A : Type} (r : pres A) (ts : list token) : pres (option A * bool) :=
  match r with
  | RNo => ROk (None, false) ts
  | ROk a rest => ROk (Some a, true) rest
  | RErr n => if Nat.ltb 1 n then RErr n else ROk (None, true) ts
  end.

(* sequence  "kw" <p> *)
Definition seq_kw {A : Type} (kw : string) (p : list token -> pres A) (ts : list token) : pres A :=
  match ts with
  | t :: r =>
      if lit kw t then
        match p r with
        | RNo => RErr 1
        | RErr n => RErr (1 + n)
        | ROk a r' => ROk a r'
        end
      else RNo
  | [] => RNo
  end.

(* a single token of one of the given types, captured *)
Definition p_tok (tys : list tokty) (ts : list token) : pres bytes :=
  match ts with
  | t :: r => if existsb (fun ty => is_ty ty t) tys then ROk (t_val t) r else RNo
  | [] => RNo
  end.

(* ---- strconv.ParseInt(s, 0, 64) on a Number token: sign, then octal if it starts with 0, else decimal ---- *)
Fixpoint digits_val (base : Z) (s : bytes) (acc : Z) : option Z :=
  match s with
  | [] => Some acc
  | b :: r =>
      let d := (Z.of_N (bn b) - 48)%Z in
      if (0 <=? d)%Z && (d <? base)%Z then digits_val base r (acc * base + d)%Z else None
  end.

Definition parse_int (s : bytes) : option Z :=
  let '(neg, body) := match s with
                      | b :: r => if is_byte 45 b then (true, r) else if is_byte 43 b then (false, r) else (false, s)
                      | [] => (false, s)
                      end in
  match body with
  | [] => None
  | b :: r =>
      let v := if is_byte 48 b then digits_val 8 r 0 else digits_val 10 body 0 in
      match v with
      | None => None
      | Some n =>
          let z := if neg then (- n)%Z else n in
          if (z <? - 9223372036854775808)%Z || (9223372036854775807 <? z)%Z then None else Some z
      end
  end.

Section Parser.
  (* Capture methods of the grammar's value types (environment, section 7 of DESIGN.md) *)
  Variable parse_tags : bytes -> option tagset.   (* TagsVal.Capture: tag.Parse of the whole {..} token *)
  Variable parse_time : bytes -> option Z.        (* DateTime.Capture: parseLqlDateTime(..).UnixNano() *)
  Variable parse_size : bytes -> option N.        (* Size.Capture: humanize.ParseBytes *)

  (* the operator literals of Condition.Op *)
  Definition op_lits : list string := ["<"; ">"; ">="; "<="; "!="; "="; "CONTAINS"; "PREFIX"; "SUFFIX"; "LIKE"]%string.
  Definition is_op (t : token) : bool := existsb (fun s => lit s t) op_lits.

  (* Identifier:  (@Ident|@Keyword) ("(" @@ {"," @@} ")")?
     Condition:   @@ @(op) (@String|@Ident|@Number)
     XCondition:  [@"NOT"] ( @@ | "(" @@ ")" )
     OrCondition: @@ { "AND" @@ }
     Expression:  @@ { "OR" @@ } *)
  Fixpoint p_ident (fuel : nat) (ts : list token) : pres ident :=
    match fuel with O => RErr 0 | S f =>
      match ts with
      | t :: r =>
          if is_ty TIdent t || is_ty TKeyword t then
            match p_params f r with
            | RNo => ROk (Ident (t_val t) INil) r
            | ROk ps r' => ROk (Ident (t_val t) ps) r'
            | RErr n => if Nat.ltb 1 n then RErr (1 + n) else ROk (Ident (t_val t) INil) r
            end
          else RNo
      | [] => RNo
      end
    end
  with p_params (fuel : nat) (ts : list token) : pres idlist :=
    match fuel with O => RErr 0 | S f =>
      match ts with
      | t :: r =>
          if lit "(" t then
            match p_ident f r with
            | RNo => RErr 1
            | RErr n => RErr (1 + n)
            | ROk i r1 =>
                match p_ptail f r1 with
                | RNo => RErr (used ts r1)
                | RErr n => RErr (used ts r1 + n)
                | ROk tl r2 =>
                    match r2 with
                    | t2 :: r3 => if lit ")" t2 then ROk (ICons i tl) r3 else RErr (used ts r2)
                    | [] => RErr (used ts r2)
                    end
                end
            end
          else RNo
      | [] => RNo
      end
    end
  with p_ptail (fuel : nat) (ts : list token) : pres idlist :=
    match fuel with O => RErr 0 | S f =>
      match ts with
      | t :: r =>
          if lit "," t then
            match p_ident f r with
            | RNo => ROk INil ts
            | RErr n => if Nat.ltb 1 (1 + n) then RErr (1 + n) else ROk INil ts
            | ROk i r1 =>
                match p_ptail f r1 with
                | RNo => RErr (used ts r1)
                | RErr n => RErr (used ts r1 + n)
                | ROk tl r2 => ROk (ICons i tl) r2
                end
            end
          else ROk INil ts
      | [] => ROk INil ts
      end
    end.

  Definition p_cond (fuel : nat) (ts : list token) : pres cond :=
    match p_ident fuel ts with
    | RNo => RNo
    | RErr n => RErr n
    | ROk id r1 =>
        match r1 with
        | t :: r2 =>
            if is_op t then
              match r2 with
              | v :: r3 =>
                  if is_ty TString v || is_ty TIdent v || is_ty TNumber v
                  then ROk (Cond id (t_val t) (t_val v)) r3
                  else RErr (used ts r2)
              | [] => RErr (used ts r2)
              end
            else RErr (used ts r1)
        | [] => RErr (used ts r1)
        end
    end.

  Fixpoint p_expr (fuel : nat) (ts : list token) : pres expr :=
    match fuel with O => RErr 0 | S f =>
      match p_orc f ts with
      | RNo => RNo
      | RErr n => RErr n
      | ROk o r =>
          (* { "OR" @@ }: one more round on a branch *)
          match r with
          | t :: r1 =>
              if lit "OR" t then
                match p_expr f r1 with
                | RNo => ROk (Or1 o) r
                | RErr n => if Nat.ltb 1 (1 + n) then RErr (used ts r + 1 + n) else ROk (Or1 o) r
                | ROk e r2 => ROk (OrS o e) r2
                end
              else ROk (Or1 o) r
          | [] => ROk (Or1 o) r
          end
      end
    end
  with p_orc (fuel : nat) (ts : list token) : pres orc :=
    match fuel with O => RErr 0 | S f =>
      match p_xc f ts with
      | RNo => RNo
      | RErr n => RErr n
      | ROk x r =>
          match r with
          | t :: r1 =>
              if lit "AND" t then
                match p_orc f r1 with
                | RNo => ROk (And1 x) r
                | RErr n => if Nat.ltb 1 (1 + n) then RErr (used ts r + 1 + n) else ROk (And1 x) r
                | ROk o r2 => ROk (AndS x o) r2
                end
              else ROk (And1 x) r
          | [] => ROk (And1 x) r
          end
      end
    end
  with p_xc (fuel : nat) (ts : list token) : pres xc :=
    match fuel with O => RErr 0 | S f =>
      let '(neg, r0) := match ts with
                        | t :: r => if lit "NOT" t then (true, r) else (false, ts)
                        | [] => (false, ts)
                        end in
      match p_body f r0 with
      | RNo => RErr (used ts r0)
      | RErr n => RErr (used ts r0 + n)
      | ROk b r1 => ROk (X neg b) r1
      end
    end
  with p_body (fuel : nat) (ts : list token) : pres body :=
    match fuel with O => RErr 0 | S f =>
      let alt2 (soft : bool) : pres body :=
        match ts with
        | t :: r =>
            if lit "(" t then
              match p_expr f r with
              | RNo => RErr 0 (* 1 token: soft, no alternative left *)
              | RErr n => if Nat.ltb 1 (1 + n) then RErr (1 + n) else RErr 0
              | ROk e r1 =>
                  match r1 with
                  | t2 :: r2 => if lit ")" t2 then ROk (BP e) r2 else (if Nat.ltb 1 (used ts r1) then RErr (used ts r1) else RErr 0)
                  | [] => if Nat.ltb 1 (used ts r1) then RErr (used ts r1) else RErr 0
                  end
              end
            else if soft then RErr 0 else RNo
        | [] => if soft then RErr 0 else RNo
        end in
      match p_cond f ts with
      | ROk c r => ROk (BC c) r
      | RNo => alt2 false
      | RErr n => if Nat.ltb 1 n then RErr n else alt2 true
      end
    end.

  (* The right-recursive p_expr/p_orc are the loops of the { } groups unrolled: the k-th round runs on
     its own branch that starts at the k-th OR/AND, which is what the recursive call sees. One
     difference must be undone: an error inside a later round is judged against that round's start,
     so the recursive result is already "fatal or absorbed"; the caller re-judges 1 + n, and n of an
     absorbed error never comes back (the callee returned ROk). *)

  (* Source:  @Tags | @@ *)
  Definition p_source (fuel : nat) (ts : list token) : pres source :=
    match ts with
    | t :: r =>
        if is_ty TTags t then
          match parse_tags (t_val t) with
          | Some tg => ROk (SrcTags tg) r
          | None => RErr 1
          end
        else
          match p_expr fuel ts with
          | ROk e r' => ROk (SrcExpr e) r'
          | RNo => RNo
          | RErr n => if Nat.ltb 1 n then RErr n else RErr 0
          end
    | [] =>
        match p_expr fuel ts with
        | ROk e r' => ROk (SrcExpr e) r'
        | RNo => RNo
        | RErr n => if Nat.ltb 1 n then RErr n else RErr 0
        end
    end.

  (* "KW" @Number into an int field *)
  Definition p_kw_int (kw : string) (ts : list token) : pres Z :=
    seq_kw kw (fun r => match p_tok [TNumber] r with
                        | ROk v r' => match parse_int v with Some z => ROk z r' | None => RErr 1 end
                        | RNo => RNo
                        | RErr n => RErr n
                        end) ts.

  (* "KW" @Number into a Size field *)
  Definition p_kw_size (kw : string) (ts : list token) : pres N :=
    seq_kw kw (fun r => match p_tok [TNumber] r with
                        | ROk v r' => match parse_size v with Some z => ROk z r' | None => RErr 1 end
                        | RNo => RNo
                        | RErr n => RErr n
                        end) ts.

  (* Position: (@"TAIL"|@"HEAD"|@String|@Ident) *)
  Definition p_position (ts : list token) : pres bytes :=
    match ts with
    | t :: r => if lit "TAIL" t || lit "HEAD" t || is_ty TString t || is_ty TIdent t then ROk (t_val t) r else RNo
    | [] => RNo
    end.

  (* Range: ("[")? (@String)? (":" @String "]")?   -- all optional: no output at all is "no match" *)
  Definition p_range (ts : list token) : pres range :=
    let '(a1, r1) := match ts with
                     | t :: r => if lit "[" t then (true, r) else (false, ts)
                     | [] => (false, ts)
                     end in
    let '(p1, a2, r2) := match r1 with
                         | t :: r => if is_ty TString t then (Some (t_val t), true, r) else (None, false, r1)
                         | [] => (None, false, r1)
                         end in
    let third : pres bytes :=
      match r2 with
      | t :: r =>
          if lit ":" t then
            match r with
            | v :: r' =>
                if is_ty TString v then
                  match r' with
                  | c :: r'' => if lit "]" c then ROk (t_val v) r'' else RErr 2
                  | [] => RErr 2
                  end
                else RErr 1
            | [] => RErr 1
            end
          else RNo
      | [] => RNo
      end in
    match opt third r2 with
    | RErr n => RErr (used ts r2 + n)
    | RNo => RErr 0
    | ROk (p2, a3) r3 =>
        if a1 || a2 || a3 then
          let conv (p : option bytes) : option (option Z) :=
            match p with
            | None => Some None
            | Some v => match parse_time v with Some z => Some (Some z) | None => None end
            end in
          match conv p1, conv p2 with
          | Some t1, Some t2 => ROk (Range t1 t2) r3
          | _, _ => RErr (used ts r3)
          end
        else RNo
    end.

  (* Select: (@String)? ("FROM" @@)? ("RANGE" @@)? ("WHERE" @@)? ("POSITION" @@)? ("OFFSET" @Number)? ("LIMIT" @Number)? *)
  Definition p_select (fuel : nat) (ts : list token) : pres select :=
    match opt (p_tok [TString] ts) ts with
    | RNo => RErr 0 | RErr n => RErr n
    | ROk (fmt, a1) r1 =>
    match opt (seq_kw "FROM" (p_source fuel) r1) r1 with
    | RNo => RErr 0 | RErr n => RErr (used ts r1 + n)
    | ROk (src, a2) r2 =>
    match opt (seq_kw "RANGE" p_range r2) r2 with
    | RNo => RErr 0 | RErr n => RErr (used ts r2 + n)
    | ROk (rng, a3) r3 =>
    match opt (seq_kw "WHERE" (p_expr fuel) r3) r3 with
    | RNo => RErr 0 | RErr n => RErr (used ts r3 + n)
    | ROk (whr, a4) r4 =>
    match opt (seq_kw "POSITION" p_position r4) r4 with
    | RNo => RErr 0 | RErr n => RErr (used ts r4 + n)
    | ROk (pos, a5) r5 =>
    match opt (p_kw_int "OFFSET" r5) r5 with
    | RNo => RErr 0 | RErr n => RErr (used ts r5 + n)
    | ROk (off, a6) r6 =>
    match opt (p_kw_int "LIMIT" r6) r6 with
    | RNo => RErr 0 | RErr n => RErr (used ts r6 + n)
    | ROk (lim, a7) r7 =>
        if a1 || a2 || a3 || a4 || a5 || a6 || a7
        then ROk (Select fmt src rng whr pos off lim) r7
        else RNo
    end end end end end end end.

  (* Describe: ("PARTITION" @Tags | "PIPE" @Ident) *)
  Definition p_describe (ts : list token) : pres describe :=
    match seq_kw "PARTITION" (p_tok [TTags]) ts with
    | ROk v r => match parse_tags v with Some tg => ROk (DPartition tg) r | None => RErr 2 end
    | RErr n => if Nat.ltb 1 n then RErr n else
                  match seq_kw "PIPE" (p_tok [TIdent]) ts with
                  | ROk v r => ROk (DPipe v) r
                  | RErr m => if Nat.ltb 1 m then RErr m else RErr 0
                  | RNo => RErr 0
                  end
    | RNo => match seq_kw "PIPE" (p_tok [TIdent]) ts with
             | ROk v r => ROk (DPipe v) r
             | RErr m => if Nat.ltb 1 m then RErr m else RErr 0
             | RNo => RNo
             end
    end.

  (* Partitions / Pipes: (@@)? ("OFFSET" @Number)? ("LIMIT" @Number)? *)
  Definition p_src_off_lim (fuel : nat) (ts : list token) : pres (option source * option Z * option Z) :=
    match opt (p_source fuel ts) ts with
    | RNo => RErr 0 | RErr n => RErr n
    | ROk (src, a1) r1 =>
    match opt (p_kw_int "OFFSET" r1) r1 with
    | RNo => RErr 0 | RErr n => RErr (used ts r1 + n)
    | ROk (off, a2) r2 =>
    match opt (p_kw_int "LIMIT" r2) r2 with
    | RNo => RErr 0 | RErr n => RErr (used ts r2 + n)
    | ROk (lim, a3) r3 =>
        if a1 || a2 || a3 then ROk (src, off, lim) r3 else RNo
    end end end.

  (* Show: ("PARTITIONS" (@@)? | "PIPES" (@@)?) *)
  Definition p_show (fuel : nat) (ts : list token) : pres show :=
    let inner (r : list token) : pres (option (option source * option Z * option Z)) :=
      match opt (p_src_off_lim fuel r) r with
      | ROk (v, _) r' => ROk v r'
      | RErr n => RErr n
      | RNo => RErr 0
      end in
    match seq_kw "PARTITIONS" inner ts with
    | ROk v r => ROk (Show (option_map (fun '(s, o, l) => Partitions s o l) v) None) r
    | RErr n => RErr n
    | RNo =>
        match seq_kw "PIPES" inner ts with
        | ROk v r => ROk (Show None (option_map (fun '(s, o, l) => Pipes s o l) v)) r
        | RErr n => RErr n
        | RNo => RNo
        end
    end.

  (* Truncate: (@"DRYRUN")? (@@)? ("MINSIZE" @Number)? ("MAXSIZE" @Number)? ("BEFORE" @String)? ("MAXDBSIZE" @Number)? *)
  Definition p_truncate (fuel : nat) (ts : list token) : pres truncate :=
    let '(dry, r0) := match ts with
                      | t :: r => if lit "DRYRUN" t then (true, r) else (false, ts)
                      | [] => (false, ts)
                      end in
    match opt (p_source fuel r0) r0 with
    | RNo => RErr 0 | RErr n => RErr (used ts r0 + n)
    | ROk (src, a1) r1 =>
    match opt (p_kw_size "MINSIZE" r1) r1 with
    | RNo => RErr 0 | RErr n => RErr (used ts r1 + n)
    | ROk (mn, a2) r2 =>
    match opt (p_kw_size "MAXSIZE" r2) r2 with
    | RNo => RErr 0 | RErr n => RErr (used ts r2 + n)
    | ROk (mx, a3) r3 =>
    match opt (seq_kw "BEFORE" (fun r => match p_tok [TString] r with
                                         | ROk v r' => match parse_time v with Some z => ROk z r' | None => RErr 1 end
                                         | RNo => RNo
                                         | RErr n => RErr n
                                         end) r3) r3 with
    | RNo => RErr 0 | RErr n => RErr (used ts r3 + n)
    | ROk (bf, a4) r4 =>
    match opt (p_kw_size "MAXDBSIZE" r4) r4 with
    | RNo => RErr 0 | RErr n => RErr (used ts r4 + n)
    | ROk (mdb, a5) r5 =>
        if dry || a1 || a2 || a3 || a4 || a5 then ROk (Truncate dry src mn mx bf mdb) r5 else RNo
    end end end end end.

  (* Pipe: "PIPE" @Ident ("FROM" @@)? ("WHERE" @@)? *)
  Definition p_pipe (fuel : nat) (ts : list token) : pres pipe :=
    match seq_kw "PIPE" (p_tok [TIdent]) ts with
    | RNo => RNo
    | RErr n => RErr n
    | ROk name r1 =>
    match opt (seq_kw "FROM" (p_source fuel) r1) r1 with
    | RNo => RErr 0 | RErr n => RErr (used ts r1 + n)
    | ROk (src, _) r2 =>
    match opt (seq_kw "WHERE" (p_expr fuel) r2) r2 with
    | RNo => RErr 0 | RErr n => RErr (used ts r2 + n)
    | ROk (whr, _) r3 => ROk (Pipe name src whr) r3
    end end end.

  (* Lql: ("SELECT" (@@)? | "DESCRIBE" (@@)? | "TRUNCATE" (@@)? | "SHOW" (@@)? | "CREATE" (@@)? | "DELETE" (@@)?)
     Create { Pipe `(@@)?` } and Delete { PipeName `("PIPE" @Ident)?` } consist of one optional group, which
     always "matches", so CREATE / DELETE alone give an (empty) Create / Delete struct. *)
  Definition p_lql (fuel : nat) (ts : list token) : pres lql :=
    let stmt {A} (kw : string) (p : list token -> pres A) (mk : option A -> lql) (k : unit -> pres lql) : pres lql :=
      match ts with
      | t :: r =>
          if lit kw t then
            match opt (p r) r with
            | ROk (v, _) r' => ROk (mk v) r'
            | RErr n => RErr (1 + n)
            | RNo => RErr 1
            end
          else k tt
      | [] => k tt
      end in
    stmt "SELECT" (p_select fuel) (fun v => match v with Some s => LSelect s | None => LNone end) (fun _ =>
    stmt "DESCRIBE" p_describe (fun v => match v with Some s => LDescribe s | None => LNone end) (fun _ =>
    stmt "TRUNCATE" (p_truncate fuel) (fun v => match v with Some s => LTruncate s | None => LNone end) (fun _ =>
    stmt "SHOW" (p_show fuel) (fun v => match v with Some s => LShow s | None => LNone end) (fun _ =>
    stmt "CREATE" (fun r => match opt (p_pipe fuel r) r with
                            | ROk (v, _) r' => ROk v r'
                            | RErr n => RErr n
                            | RNo => RErr 0
                            end) (fun v => match v with Some p => LCreate p | None => LNone end) (fun _ =>
    stmt "DELETE" (fun r => match opt (seq_kw "PIPE" (p_tok [TIdent]) r) r with
                            | ROk (v, _) r' => ROk v r'
                            | RErr n => RErr n
                            | RNo => RErr 0
                            end) (fun v => match v with Some p => LDelete p | None => LNone end) (fun _ => RNo)))))).

  (* ---- the entry points: Parser.ParseString = parse the root, then require EOF ---- *)
  Definition fuel_for (ts : list token) : nat := 8 * List.length ts + 8.

  Definition top {A : Type} (r : pres A) : option A :=
    match r with ROk a [] => Some a | _ => None end.

  Definition parse_expr_tokens (ts : list token) : option expr := top (p_expr (fuel_for ts) ts).
  Definition parse_source_tokens (ts : list token) : option source := top (p_source (fuel_for ts) ts).

  (* ParseLql after the grammar has run. The grammar accepts a statement keyword with nothing behind it and
     keeps no trace of it (LNone: every member nil). Variant [bare = true] is ParseLql before the repair: it
     returned that statement. The code's ParseLql ([code_bare_keyword_accepted] below): when no member is set,
     `strings.EqualFold(strings.TrimSpace(lql), "SELECT")` decides -- a bare SELECT is &Select{}, anything else
     is an error. Seen from the tokens (blanks are skipped by the lexer, a Keyword token carries the matched
     text): the text is one token of the Keyword class spelling SELECT. A quoted 'SELECT' is a String token that
     the literal "SELECT" of the grammar matches by value, so it reaches this point too -- and is rejected. *)
  Definition empty_select : select := Select None None None None None None None.
  Definition lql_post (bare : bool) (ts : list token) (l : lql) : option lql :=
    match l with
    | LNone =>
        if bare then Some LNone
        else match ts with
             | [Tok TKeyword v] => if fold_eq v (B "SELECT") then Some (LSelect empty_select) else None
             | _ => None
             end
    | _ => Some l
    end.
  Definition parse_lql_tokens_v (bare : bool) (ts : list token) : option lql :=
    match top (p_lql (fuel_for ts) ts) with
    | Some l => lql_post bare ts l
    | None => None
    end.
End Parser.

(* the variant of the code: a keyword-only text is no longer an (empty) statement *)
Definition code_bare_keyword_accepted : bool := false.
Definition parse_lql_tokens (parse_tags : bytes -> option tagset) (parse_time : bytes -> option Z)
  (parse_size : bytes -> option N) : list token -> option lql :=
  parse_lql_tokens_v parse_tags parse_time parse_size code_bare_keyword_accepted.

(* lql.ParseSource / lql.ParseExpr seen from the tokens: no token at all stands for the empty text,
   which means "no condition" *)
Definition parse_osource_tokens (parse_tags : bytes -> option tagset) (ts : list token) : option (option source) :=
  match ts with [] => Some None | _ => option_map Some (parse_source_tokens parse_tags ts) end.
Definition parse_oexpr_tokens (ts : list token) : option (option expr) :=
  match ts with [] => Some None | _ => option_map Some (parse_expr_tokens ts) end.

(* ---- text level: lexer, Unquote mapping, parser (Parser.ParseString) ---- *)
Section Text.
  Variable unq : bytes -> option bytes.           (* participle's unquote of a String token *)
  Variable parse_tags : bytes -> option tagset.
  Variable parse_time : bytes -> option Z.
  Variable parse_size : bytes -> option N.

  (* lql.ParseLql *)
  Definition parse_lql_text_v (bare : bool) (text : bytes) : option lql :=
    match tokenize unq text with
    | Some ts => parse_lql_tokens_v parse_tags parse_time parse_size bare ts
    | None => None
    end.
  Definition parse_lql_text : bytes -> option lql := parse_lql_text_v code_bare_keyword_accepted.
  (* lql.ParseExpr / lql.ParseSource: the empty text is "nothing" (outer None = error) *)
  Definition parse_expr_text (text : bytes) : option (option expr) :=
    match text with
    | [] => Some None
    | _ => match tokenize unq text with Some ts => option_map Some (parse_expr_tokens ts) | None => None end
    end.
  Definition parse_source_text (text : bytes) : option (option source) :=
    match text with
    | [] => Some None
    | _ => match tokenize unq text with Some ts => option_map Some (parse_source_tokens parse_tags ts) | None => None end
    end.
End Text.
