(* C03 — paged and resumed reading. Executable model of the read path behind Querier.Query:

     range/pkg/records/journal/iterator.go   JIterator (forward direction): ensureChkIt, advanceChunk,
                                             Get, Next, SetPos, with the chunk iterator position rules
                                             of chunkfs/citerator.go (SetPos clamps to [..count])
     pkg/model/iterator.go                   LogEventIterator with its reused LogEvent: Unmarshal does not
                                             clear Fields when the record has none (parameter `clear`)
     pkg/model/mixer.go + newCursor          the merge, flattened: "poll every source, pick one, cache the
                                             pick until Next" (the pick is a scheduler oracle `choose`)
     pkg/cursor/fiterator.go                 fiterator (valid flag, cached event, skip loop)
     pkg/cursor/cursor.go                    newCursor/applyPos/applyStatePos/ApplyState/State/commit/collectPos
     pkg/cursor/provider.go                  GetOrCreate / Release / eviction (sequential use)
     pkg/backend/querier.go, api/rpc/querier.go   the Query loop, limit clamping, the cache rule,
                                             NextQueryRequest
   and of the client that chains pages (api.Select and the resume kinds of the property).
   Definitions only. *)
From LR Require Import lib.Base.
From Coq Require Import Sorting.Sorted.

(* ------------------------------------------------------------------ stored data *)
Record event := mkEv { e_ts : Z; e_msg : bytes; e_flds : bytes }.   (* e_flds = [] <-> header bit 0 clear *)
Record chunk := mkCh { c_id : N; c_recs : list event }.
Definition journal := list chunk.                                   (* ascending chunk ids (Chunks() is sorted) *)
Record part := mkPart { p_src : bytes; p_tags : bytes; p_jrnl : journal }.
Definition store := list part.

Definition cnt (c : chunk) : N := N.of_nat (length (c_recs c)).
Definition recs (j : journal) : list event := flat_map c_recs j.

(* ------------------------------------------------------------------ journal.JIterator, forward *)
Record jit := mkJit { j_cid : N; j_idx : N; j_ci : option N; j_bad : bool }.
   (* j_ci = Some p: a chunk iterator is open on chunk j_cid at position p; j_bad: fuel ran out (never, see proofs) *)
Definition jit0 : jit := mkJit 0 0 None false.
Definition jit_pos (it : jit) : N * N := (j_cid it, j_idx it).

(* getChunkByIdOrGreater: the first chunk with id >= cid, else the last chunk, nil for an empty journal *)
Fixpoint chunk_ge (j : journal) (cid : N) : option chunk :=
  match j with
  | [] => None
  | c :: tl => if cid <=? c_id c then Some c
               else match chunk_ge tl cid with Some x => Some x | None => Some c end
  end%N.

Fixpoint find_chunk (j : journal) (cid : N) : option chunk :=
  match j with
  | [] => None
  | c :: tl => if (c_id c =? cid)%N then Some c else find_chunk tl cid
  end.

(* ensureChkIt (forward): bool = false is io.EOF *)
Definition ensure (j : journal) (it : jit) : jit * bool :=
  match j_ci it with
  | Some _ => (it, true)
  | None =>
      match chunk_ge j (j_cid it) with
      | None => (it, false)
      | Some chk =>
          if (c_id chk <? j_cid it)%N then (mkJit (c_id chk) (cnt chk) None (j_bad it), false)
          else
            let idx := if (j_cid it <? c_id chk)%N then 0%N else j_idx it in
            let p := N.min idx (cnt chk) in            (* ci.SetPos clamps; pos.Idx = ci.Pos() *)
            (mkJit (c_id chk) p (Some p) (j_bad it), true)
      end
  end.

(* chunk iterator Get at its position: the record, or None = io.EOF of the chunk *)
Definition ci_read (j : journal) (it : jit) : option event :=
  match j_ci it, find_chunk j (j_cid it) with
  | Some p, Some chk => nth_error (c_recs chk) (N.to_nat p)
  | _, _ => None
  end.

Definition advance (it : jit) : jit := mkJit (j_cid it + 1) 0 None (j_bad it).   (* closeChunk; CId++; Idx = 0 *)

(* the `for err == io.EOF` loop of Get; pre: a chunk iterator is open *)
Fixpoint get_loop (fuel : nat) (j : journal) (it : jit) : jit * option event :=
  match fuel with
  | O => (mkJit (j_cid it) (j_idx it) (j_ci it) true, None)
  | S f =>
      match ci_read j it with
      | Some e => (it, Some e)
      | None => let '(it', ok) := ensure j (advance it) in
                if ok then get_loop f j it' else (it', None)
      end
  end.

Definition jit_get (j : journal) (it : jit) : jit * option event :=       (* None = io.EOF *)
  let '(it1, ok) := ensure j it in
  if ok then get_loop (S (length j)) j it1 else (it1, None).

Definition jit_next (j : journal) (it : jit) : jit :=
  let '(it1, _) := jit_get j it in
  match j_ci it1 with
  | None => it1
  | Some p =>                                                   (* ci.Next: Get, pos++ when a record is there *)
      let p' := match ci_read j it1 with Some _ => (p + 1)%N | None => p end in
      mkJit (j_cid it1) p' (Some p') (j_bad it1)
  end.

Definition jit_set_pos (j : journal) (it : jit) (pos : N * N) : jit :=
  let '(cid, idx) := pos in
  if ((cid =? j_cid it) && (idx =? j_idx it))%N then it
  else
    let ci := if (cid =? j_cid it)%N then j_ci it else None in            (* closeChunk on another chunk *)
    let ci' := match ci with
               | Some p => Some (match find_chunk j cid with Some chk => N.min idx (cnt chk) | None => p end)
               | None => None
               end in
    mkJit cid idx ci' (j_bad it).

(* ---- partition.JIterator.Get (RANGE queries), the window between the chunk iterator's io.EOF and the chunk selector's look
   at the chunks: the chunk iterator has reported EOF on the journal as it was (`it` stands at the end of its chunk there);
   the selector sees the journal j', which a writer's flush may have extended meanwhile.
   `reresolve` = true, the code: the chunk is closed and the selector is asked about the position that was NOT read
   (ensureChkIt with the unchanged pos): it answers with that position in the chunk as it is now.
   `reresolve` = false, the code before that repair: advanceChunk first steps to {CId+1, 0}; with a following chunk in j'
   the iterator goes on there, without one the selector answers with the end of the last chunk as it is NOW, and
   `restore` = the position is put back to eofPos when that is a later end of the same chunk
   (`jit.pos.CId == eofPos.CId && jit.pos.Idx > eofPos.Idx`; the comparison the other way round never restores: false).
   (With `reresolve` the restore test is still in the code; it can no longer fire: the answer for an unchanged position in an
   existing chunk is never EOF with a larger index of that chunk.) *)
Definition eof_step (reresolve restore : bool) (j' : journal) (it : jit) : jit * bool :=
  let eofpos := jit_pos it in
  let asked := if reresolve then mkJit (j_cid it) (j_idx it) None (j_bad it) else advance it in
  let '(it', ok) := ensure j' asked in
  if ok then (it', true)
  else if restore && (j_cid it' =? fst eofpos)%N && (snd eofpos <? j_idx it')%N
       then (mkJit (fst eofpos) (snd eofpos) None (j_bad it'), false)
       else (it', false).

(* ---- chkSelector.getPosForward, the answer "nothing left to read": the position is the end of the last chunk. The
   selector has read the chunk's record count once, for its status (journal j); `reread` = false, the code: the answer
   carries that count (`np`, the number the position was checked against); `reread` = true: the count is read again when the
   answer is built (journal j2, which a flush may have extended meanwhile) *)
Definition end_answer (reread : bool) (j j2 : journal) (it : jit) : jit * bool :=
  match j_ci it with
  | Some _ => (it, true)
  | None =>
      match chunk_ge j (j_cid it) with
      | None => (it, false)
      | Some chk =>
          if (c_id chk <? j_cid it)%N
          then let n := if reread then match find_chunk j2 (c_id chk) with Some c2 => cnt c2 | None => cnt chk end else cnt chk in
               (mkJit (c_id chk) n None (j_bad it), false)
          else ensure j it
      end
  end.

(* ------------------------------------------------------------------ LogEventIterator *)
Record oev := mkOev { o_src : nat; o_ts : Z; o_msg : bytes; o_flds : bytes }.   (* a delivered event *)
Record lei := mkLei { l_it : jit; l_flds : bytes }.                            (* l_flds: Fields of the reused LogEvent *)

Definition obs (i : nat) (e : event) : oev := mkOev i (e_ts e) (e_msg e) (e_flds e).

(* LogEvent.Unmarshal on the reused struct: Fields is assigned only when the header bit is set *)
Definition unmarshal_flds (clear : bool) (prev : bytes) (e : event) : bytes :=
  match e_flds e with [] => if clear then [] else prev | f => f end.

Definition lei_get (clear : bool) (j : journal) (i : nat) (l : lei) : lei * option oev :=
  let '(it', r) := jit_get j (l_it l) in
  match r with
  | Some e => let f := unmarshal_flds clear (l_flds l) e in (mkLei it' f, Some (mkOev i (e_ts e) (e_msg e) f))
  | None => (mkLei it' (l_flds l), None)
  end.

Definition lei_next (j : journal) (l : lei) : lei := mkLei (jit_next j (l_it l)) [].     (* it.Next; le.Release() *)

(* ------------------------------------------------------------------ positions as carried by State.Pos *)
Definition posl := list (bytes * (N * N)).
Inductive pos_t := PHead | PTail | PList (l : posl).      (* "" / "head", "tail", "src=pos:src=pos..." *)
Definition tail_pos : N * N := (18446744073709551615, 4294967295)%N.

Fixpoint assoc_pos (s : bytes) (l : posl) : option (N * N) :=
  match l with
  | [] => None
  | (k, v) :: tl => if bytes_eqb k s then Some v else assoc_pos s tl
  end.

Definition pos_eqb (a b : N * N) : bool := (fst a =? fst b)%N && (snd a =? snd b)%N.
Definition posl_eqb : posl -> posl -> bool := list_eqb (pair_eqb bytes_eqb pos_eqb).
Definition pos_t_eqb (a b : pos_t) : bool :=
  match a, b with
  | PHead, PHead | PTail, PTail => true
  | PList x, PList y => posl_eqb x y
  | _, _ => false
  end.

(* ------------------------------------------------------------------ the cursor *)
Record cursor := mkCur {
  cu_id : N;
  cu_pos : pos_t;              (* state.Pos *)
  cu_leis : list lei;          (* one per partition of the store, in store order *)
  cu_sel : option oev;         (* Mixer: selected source and its cached event (st = 1|2), None: st = 0 *)
  cu_fit : option oev;         (* fiterator: valid + cached event *)
  cu_tick : nat;               (* number of selections made (input of the scheduler oracle) *)
  cu_bad : bool                (* fuel of the fiterator loop ran out (never) *)
}.

Section Query.
  Variable clear : bool.                       (* does LogEvent.Unmarshal clear Fields when the record has none *)
  Variable filtered : bool.                    (* WHERE or RANGE present: the cursor wraps the merge into a fiterator *)
  Variable flt : oev -> bool.                  (* fltF(&le) && fitInRange() *)
  Variable choose : nat -> list (option oev) -> nat.   (* which non-exhausted source the merge delivers next *)
  Variable strict : bool.                      (* GetOrCreate never re-positions a cached cursor (see get_or_create): true = the code *)

  (* Get on every source (Mixer.selectState down the tree) *)
  Fixpoint poll (st : store) (i : nat) (ls : list lei) : list lei * list (option oev) :=
    match st, ls with
    | p :: st', l :: ls' =>
        let '(l', r) := lei_get clear (p_jrnl p) i l in
        let '(ls'', rs) := poll st' (S i) ls' in (l' :: ls'', r :: rs)
    | _, _ => (ls, [])
    end.

  Fixpoint next_at (st : store) (i : nat) (ls : list lei) : list lei :=
    match st, ls with
    | p :: st', l :: ls' => match i with O => lei_next (p_jrnl p) l :: ls' | S i' => l :: next_at st' i' ls' end
    | _, _ => ls
    end.

  (* the iterator under the fiterator: a single LogEventIterator, or the merge *)
  Definition src_get (st : store) (c : cursor) : cursor * option oev :=
    match cu_sel c, (1 <? length (cu_leis c))%nat with
    | Some ev, true => (c, Some ev)                              (* st != 0: cached *)
    | _, _ =>
        let '(ls, heads) := poll st 0 (cu_leis c) in
        let k := if (1 <? length (cu_leis c))%nat then choose (cu_tick c) heads else O in   (* one source: no Mixer *)
        let r := match nth_error heads k with Some (Some ev) => Some ev | _ => None end in
        let sel := if (1 <? length (cu_leis c))%nat then r else None in     (* one source: no Mixer, nothing cached *)
        (mkCur (cu_id c) (cu_pos c) ls sel (cu_fit c) (S (cu_tick c)) (cu_bad c), r)
    end.

  Definition src_next (st : store) (c : cursor) : cursor :=
    let '(c1, r) := src_get st c in                              (* Mixer.Next: selectState; LogEventIterator.Next: it.Next does Get *)
    match r with
    | Some ev => mkCur (cu_id c1) (cu_pos c1) (next_at st (o_src ev) (cu_leis c1)) None (cu_fit c1) (cu_tick c1) (cu_bad c1)
    | None => mkCur (cu_id c1) (cu_pos c1) (cu_leis c1) None (cu_fit c1) (cu_tick c1) (cu_bad c1)
    end.

  Definition set_fit (c : cursor) (v : option oev) : cursor :=
    mkCur (cu_id c) (cu_pos c) (cu_leis c) (cu_sel c) v (cu_tick c) (cu_bad c).
  Definition set_bad (c : cursor) : cursor :=
    mkCur (cu_id c) (cu_pos c) (cu_leis c) (cu_sel c) (cu_fit c) (cu_tick c) true.

  (* fiterator.Get: `for !fit.valid { Get; valid = flt; if !valid { Next } }` *)
  Fixpoint fit_loop (fuel : nat) (st : store) (c : cursor) : cursor * option oev :=
    match fuel with
    | O => (set_bad c, None)
    | S f =>
        let '(c1, r) := src_get st c in
        match r with
        | None => (c1, None)
        | Some ev => if flt ev then (set_fit c1 (Some ev), Some ev)
                     else fit_loop f st (src_next st c1)
        end
    end.

  Definition total_events (st : store) : nat := fold_right (fun p a => length (recs (p_jrnl p)) + a)%nat O st.

  Definition cur_get (st : store) (c : cursor) : cursor * option oev :=
    if filtered then
      match cu_fit c with
      | Some ev => (c, Some ev)
      | None => fit_loop (S (total_events st)) st c
      end
    else src_get st c.

  Definition cur_next (st : store) (c : cursor) : cursor :=
    if filtered then set_fit (src_next st c) None else src_next st c.

  (* collectPos (canonical order: the store's) *)
  Fixpoint collect_pos (st : store) (ls : list lei) : posl :=
    match st, ls with
    | p :: st', l :: ls' => (p_src p, jit_pos (l_it l)) :: collect_pos st' ls'
    | _, _ => []
    end.

  (* State() + Release: the settling Get, then the positions *)
  Definition commit (st : store) (c : cursor) : cursor :=
    let '(c1, _) := cur_get st c in
    mkCur (cu_id c1) (PList (collect_pos st (cu_leis c1))) (cu_leis c1) (cu_sel c1) (cu_fit c1) (cu_tick c1) (cu_bad c1).

  (* applyStatePos: SetPos on every known source that the position names *)
  Fixpoint set_poss (st : store) (ls : list lei) (pl : posl) : list lei :=
    match st, ls with
    | p :: st', l :: ls' =>
        (match assoc_pos (p_src p) pl with
         | Some pos => mkLei (jit_set_pos (p_jrnl p) (l_it l) pos) (l_flds l)
         | None => l
         end) :: set_poss st' ls' pl
    | _, _ => ls
    end.
  Fixpoint set_all (st : store) (ls : list lei) (pos : N * N) : list lei :=
    match st, ls with
    | p :: st', l :: ls' => mkLei (jit_set_pos (p_jrnl p) (l_it l) pos) (l_flds l) :: set_all st' ls' pos
    | _, _ => ls
    end.

  (* newCursor + applyPos *)
  Definition new_cursor (st : store) (id : N) (pos : pos_t) : cursor :=
    let ls0 := map (fun _ => mkLei jit0 []) st in
    let ls := match pos with
              | PHead => set_all st ls0 (0, 0)%N
              | PTail => set_all st ls0 tail_pos
              | PList pl => set_poss st ls0 pl
              end in
    mkCur id pos ls None None O false.

  (* ApplyState on a cached cursor: None = error (the provider then builds a new cursor under a new id) *)
  Definition apply_state (st : store) (c : cursor) (pos : pos_t) : option cursor :=
    if pos_t_eqb (cu_pos c) pos then Some c
    else match pos with
         | PList pl => Some (mkCur (cu_id c) pos (set_poss st (cu_leis c) pl) (cu_sel c) (cu_fit c) (cu_tick c) (cu_bad c))
         | _ => None                                            (* "head"/"tail"/"" do not parse in applyStatePos *)
         end.

  (* ---------------------------------------------------------------- provider (sequential use) *)
  Record provider := mkProv { pv_cache : list (N * cursor); pv_next : N }.
  Definition prov0 : provider := mkProv [] 1.

  Fixpoint cache_get (id : N) (l : list (N * cursor)) : option cursor :=
    match l with
    | [] => None
    | (k, c) :: tl => if (k =? id)%N then Some c else cache_get id tl
    end.
  Fixpoint cache_del (id : N) (l : list (N * cursor)) : list (N * cursor) :=
    match l with
    | [] => []
    | (k, c) :: tl => if (k =? id)%N then cache_del id tl else (k, c) :: cache_del id tl
    end.
  Definition cache_put (id : N) (c : cursor) (l : list (N * cursor)) := (id, c) :: cache_del id l.

  Definition evict_all (pv : provider) : provider := mkProv [] (pv_next pv).     (* sweepByTime with every idle cursor expired *)

  (* GetOrCreate. `strict` = the provider closes and drops a cached cursor whose position differs from the requested
     one and builds a new one under the same id (the code); `strict = false` = the code before that repair, which
     re-positioned the cached cursor with ApplyState -> SetPos under the events it had read ahead *)
  Definition get_or_create (st : store) (pv : provider) (id : N) (pos : pos_t) (cache : bool) : provider * cursor :=
    let cached := if (0 <? id)%N then cache_get id (pv_cache pv) else None in
    let stale := match cached with Some c => strict && negb (pos_t_eqb (cu_pos c) pos) | None => false end in
    let hit := if stale then None else match cached with Some c => apply_state st c pos | None => None end in
    match hit with
    | Some c => (pv, c)
    | None =>
        let cache0 := if stale then cache_del id (pv_cache pv) else pv_cache pv in
        let failed_apply := match cached with Some _ => negb stale | None => false end in   (* ApplyState error: state.Id = 0 *)
        let fresh := orb (id =? 0)%N failed_apply in
        let id' := if fresh then pv_next pv else id in
        let nx := if fresh then (pv_next pv + 1)%N else pv_next pv in
        let c := new_cursor st id' pos in
        (mkProv (if cache then cache_put id' c cache0 else cache0) nx, c)
    end.

  (* Release: commit; the returned id is 0 when the cursor is not cached *)
  Definition release (st : store) (pv : provider) (c : cursor) : provider * cursor * N :=
    let c' := commit st c in
    match cache_get (cu_id c') (pv_cache pv) with
    | Some _ => (mkProv (cache_put (cu_id c') c' (pv_cache pv)) (pv_next pv), c', cu_id c')
    | None => (pv, c', 0%N)
    end.

  (* ---------------------------------------------------------------- Query *)
  Record request := mkReq { rq_id : N; rq_pos : pos_t; rq_limit : N; rq_wait : bool }.
  Record result := mkRes { rs_events : list oev; rs_id : N; rs_pos : pos_t; rs_ok : bool }.
  Definition query_max_limit : N := 10000.

  (* `for limit > 0 && err == nil { Get; append; limit--; Next }` *)
  Fixpoint page_loop (lim : nat) (st : store) (c : cursor) : cursor * list oev :=
    match lim with
    | O => (c, [])
    | S n =>
        let '(c1, r) := cur_get st c in
        match r with
        | None => (c1, [])
        | Some ev => let '(c2, evs) := page_loop n st (cur_next st c1) in (c2, ev :: evs)
        end
    end.

  Definition cursor_ok (c : cursor) : bool :=
    negb (cu_bad c) && forallb (fun l => negb (j_bad (l_it l))) (cu_leis c).

  Definition query (st : store) (pv : provider) (rq : request) : provider * result :=
    let limit := N.min (rq_limit rq) query_max_limit in
    let cache := orb (rq_wait rq) (negb (limit =? rq_limit rq)%N) in
    let '(pv1, c) := get_or_create st pv (rq_id rq) (rq_pos rq) cache in
    let '(c1, evs) := page_loop (N.to_nat limit) st c in
    let '(pv2, c2, id) := release st pv1 c1 in
    (pv2, mkRes evs id (cu_pos c2) (cursor_ok c2)).

  (* ---------------------------------------------------------------- appends between pages *)
  Record append := mkApp { a_part : nat; a_cid : N; a_evs : list event }.

  (* new records go to the last chunk (same id) or to a new chunk with a larger id; anything else is ignored *)
  Fixpoint jappend (j : journal) (cid : N) (evs : list event) : journal :=
    match j with
    | [] => [mkCh cid evs]
    | c :: tl =>
        match tl with
        | [] => if (c_id c =? cid)%N then [mkCh cid (c_recs c ++ evs)]
                else if (c_id c <? cid)%N then [c; mkCh cid evs] else [c]
        | _ => c :: jappend tl cid evs
        end
    end.

  Fixpoint append_at (st : store) (i : nat) (cid : N) (evs : list event) : store :=
    match st with
    | [] => []
    | p :: tl => match i with
                 | O => mkPart (p_src p) (p_tags p) (jappend (p_jrnl p) cid evs) :: tl
                 | S i' => p :: append_at tl i' cid evs
                 end
    end.
  Definition apply_appends (st : store) (l : list append) : store :=
    fold_left (fun s a => append_at s (a_part a) (a_cid a) (a_evs a)) l st.

  (* ---------------------------------------------------------------- the client chaining pages *)
  Inductive kind :=
  | RSame      (* NextQueryRequest as returned; the server still holds the cursor (if it cached it) *)
  | REvict     (* NextQueryRequest as returned; the server dropped its cursors meanwhile *)
  | RZero      (* NextQueryRequest with ReqId zeroed *)
  | RPosOnly   (* a fresh request carrying only the Pos string *)
  | RRetry.    (* the request of the previous page sent again (same ReqId, the earlier Pos) *)
  Record pstep := mkStep { s_kind : kind; s_limit : N; s_wait : bool; s_apps : list append }.

  Fixpoint run (st : store) (pv : provider) (cur prev : N * pos_t) (steps : list pstep) : list result :=
    match steps with
    | [] => []
    | s :: tl =>
        let st' := apply_appends st (s_apps s) in
        let pv1 := match s_kind s with REvict => evict_all pv | _ => pv end in
        let rq := match s_kind s with
                  | RSame | REvict => cur
                  | RZero | RPosOnly => (0%N, snd cur)
                  | RRetry => prev
                  end in
        let '(pv2, rs) := query st' pv1 (mkReq (fst rq) (snd rq) (s_limit s) (s_wait s)) in
        rs :: run st' pv2 (rs_id rs, rs_pos rs) rq tl
    end.

  Definition run_from (st : store) (start : pos_t) (steps : list pstep) : list result :=
    run st prov0 (0%N, start) (0%N, start) steps.

  Fixpoint final_store (st : store) (steps : list pstep) : store :=
    match steps with
    | [] => st
    | s :: tl => final_store (apply_appends st (s_apps s)) tl
    end.
End Query.

(* ------------------------------------------------------------------ vocabulary of the theorems *)
(* flat index of a position: how many records of the journal lie before it *)
Fixpoint before (j : journal) (cid : N) : nat :=
  match j with
  | [] => O
  | c :: tl => if (c_id c <? cid)%N then (length (c_recs c) + before tl cid)%nat else O
  end.
Definition flat (j : journal) (pos : N * N) : nat :=
  (before j (fst pos) + match find_chunk j (fst pos) with
                        | Some c => Nat.min (N.to_nat (snd pos)) (length (c_recs c))
                        | None => O
                        end)%nat.

Definition events_of (i : nat) (evs : list oev) : list oev := filter (fun e => Nat.eqb (o_src e) i) evs.
Definition part_events (st : store) (i : nat) : list event :=
  match nth_error st i with Some p => recs (p_jrnl p) | None => [] end.
Definition pos_of (st : store) (i : nat) (p : pos_t) : nat :=        (* records of partition i before the position *)
  match nth_error st i, p with
  | Some pt, PList pl => match assoc_pos (p_src pt) pl with Some pos => flat (p_jrnl pt) pos | None => O end
  | _, _ => O
  end.

(* the filter in effect: fltF && fitInRange when the cursor has a fiterator, nothing otherwise *)
Definition eff_flt (filtered : bool) (flt : oev -> bool) (ev : oev) : bool := if filtered then flt ev else true.
(* the merge picks a source that has an event whenever some source has one *)
Definition choose_valid (choose : nat -> list (option oev) -> nat) : Prop :=
  forall t hs k ev, nth_error hs k = Some (Some ev) -> exists ev', nth_error hs (choose t hs) = Some (Some ev').
(* the merge order is a function of the heads alone (it does not depend on how many selections the cursor has made
   before): true of model.GetEarliest over a fixed tree of sources; it is what makes a cursor built anew at a position
   merge like the cursor that stood there *)
Definition merge_by_heads (choose : nat -> list (option oev) -> nat) : Prop :=
  forall t t' hs, choose t hs = choose t' hs.
(* the last page came back with fewer events than its (clamped) limit: the read reached the end *)
Fixpoint last_page_short (steps : list pstep) (rs : list result) : Prop :=
  match steps, rs with
  | s :: tl, r :: rs' =>
      match tl with
      | [] => (length (rs_events r) < N.to_nat (N.min (s_limit s) query_max_limit))%nat
      | _ => last_page_short tl rs'
      end
  | _, _ => False
  end.
Definition no_retry (steps : list pstep) : Prop := Forall (fun s => s_kind s <> RRetry) steps.
Definition no_appends (steps : list pstep) : Prop := Forall (fun s => s_apps s = []) steps.
Definition wf_journal (j : journal) : Prop := StronglySorted (fun a b => (c_id a < c_id b)%N) j.
(* partitions have different sources; Chunks() of every journal is sorted by chunk id *)
Definition wf_store (st : store) : Prop := NoDup (map p_src st) /\ Forall (fun p => wf_journal (p_jrnl p)) st.

(* ------------------------------------------------------------------ instances used by the correspondence check *)
(* the merge of the implementation on stores whose timestamps are pairwise different: earliest head *)
Fixpoint min_head (i : nat) (heads : list (option oev)) (best : option (nat * Z)) : nat :=
  match heads with
  | [] => match best with Some (k, _) => k | None => O end
  | h :: tl =>
      let best' := match h, best with
                   | Some ev, Some (k, t) => if (o_ts ev <? t)%Z then Some (i, o_ts ev) else best
                   | Some ev, None => Some (i, o_ts ev)
                   | None, _ => best
                   end in
      min_head (S i) tl best'
  end.
Definition choose_min (_ : nat) (heads : list (option oev)) : nat := min_head 0 heads None.

Fixpoint is_prefix (p s : bytes) : bool :=
  match p, s with
  | [], _ => true
  | x :: p', y :: s' => byte_eqb x y && is_prefix p' s'
  | _ :: _, [] => false
  end.
Fixpoint contains (needle s : bytes) : bool :=
  is_prefix needle s || match s with [] => false | _ :: s' => contains needle s' end.

Inductive qfilter := FNone | FContains (needle : bytes) | FRange (lo hi : Z) | FBoth (needle : bytes) (lo hi : Z).
Definition has_filter (q : qfilter) : bool := match q with FNone => false | _ => true end.
Definition flt_of (q : qfilter) (ev : oev) : bool :=
  match q with
  | FNone => true
  | FContains n => contains n (o_msg ev)
  | FRange lo hi => (lo <=? o_ts ev)%Z && (o_ts ev <=? hi)%Z
  | FBoth n lo hi => contains n (o_msg ev) && (lo <=? o_ts ev)%Z && (o_ts ev <=? hi)%Z
  end.

(* the behaviour of the tree under check: true = LogEvent.Unmarshal resets Fields when the record has none (the
   code); false = it left Fields of the previous record in place (the code before the repair) *)
Definition repo_clears_fields : bool := true.
(* true = provider.GetOrCreate drops a cached cursor when the request names another Pos than the cursor's and builds a
   new one (the code); false = it re-positioned the cached cursor (the code before the repair) *)
Definition repo_strict_pos : bool := true.
(* partition.JIterator.Get after the chunk iterator's io.EOF: true = the selector is asked about the unread position (the
   code); false = the iterator stepped to the next chunk id first (the code before the repair of the roll-over finding) *)
Definition repo_reresolves_eof : bool := true.
(* true = the position of the first unread record is kept when the selector answers with a later end of the same chunk (the
   code, since /repo ee8da2c; it matters for the old stepping only) *)
Definition repo_restores_eof : bool := true.
(* false = the selector's "nothing left" answer carries the count the position was checked against (the code); true = it
   reads the chunk's count again *)
Definition repo_rereads_count : bool := false.
