(* Model of the position-string handling: journal.ParsePos (dependency; length 24, two hex numbers)
   and pkg/cursor/cursor.go applyPos = applyCornerPos + applyStatePos (strings.Split on ':' and
   '=', every element must have exactly two parts).  Checked slices.  Definitions only. *)
From LR Require Import lib.Base lib.DecLib model.DecUtf8 model.DecUnquote.

Local Open Scope Z_scope.

(* strconv.ParseUint(s, 16, _) for a non-empty s that cannot overflow: hex digits only *)
Fixpoint parse_hex (s : bytes) (acc : Z) : option Z :=
  match s with
  | [] => Some acc
  | b :: tl => match unhex b with Some x => parse_hex tl (acc * 16 + x) | None => None end
  end.

Definition parse_pos (s : bytes) : outcome (Z * Z) :=
  if blen s =? 0 then Ok (0, 0) else
  if negb (blen s =? 24) then Err else
  a <- slice s 0 16 ;;
  match parse_hex a 0 with
  | None => Err
  | Some cid =>
      b <- slice_from s 16 ;;
      match parse_hex b 0 with
      | None => Err
      | Some idx => Ok (cid, idx)
      end
  end.

Definition kw_tail : bytes := [x74;x61;x69;x6c].
Definition kw_head : bytes := [x68;x65;x61;x64].

(* applyStatePos: the list of (journal, pos) put into the map, in order *)
Fixpoint state_pos_go (vals : list bytes) (acc : list (bytes * (Z * Z))) : outcome (list (bytes * (Z * Z))) :=
  match vals with
  | [] => Ok (rev acc)
  | v :: tl =>
      match split_byte x3d v [] with
      | [j; p] => pos <- parse_pos p ;; state_pos_go tl ((j, pos) :: acc)
      | _ => Err
      end
  end.

(* applyPos: None = a corner position (head / tail / empty), Some l = the parsed state position *)
Definition apply_pos (p : bytes) : outcome (option (list (bytes * (Z * Z)))) :=
  let ps := lower_kw p in
  if bytes_eqb ps kw_tail || bytes_eqb ps kw_head || bytes_eqb ps [] then Ok None else
  l <- state_pos_go (split_byte x3a p []) [] ;; Ok (Some l).
