(* Model of what the server keeps across a stop and a start, and of the savers' file effects:
     pkg/tindex/inmem.go   saveStateUnsafe (WriteFile(tindex.dat.tmp), then Rename(tindex.dat.tmp -> tindex.dat)), loadState
                           (reads tindex.dat only), checkConsistency (a journal with data and no record: Init fails)
     pkg/tmindex/cindex.go cindex.dat: written by close() only, read and then removed by init() (a crash leaves no snapshot);
                           onWrite/update widen the hull in memory;
                           syncChunks/lightFill give an unknown chunk the hull (first, last record)
     pkg/pipe/ppipe.go     pipe<name>.dat (a pipe's position per source): rewritten in place by saveState after every batch;
                           read by newPPipe (Init), which ignores a file that does not parse: the pipe has no position
     pkg/pipe/service.go   pipes.dat: written (persister.savePipes: WriteFile(pipes.dat.tmp), Rename over pipes.dat) by
                           CreatePipe / DeletePipe when the definitions changed and by Shutdown(); read by Init (a file
                           that does not parse: Init fails)
     range chunk writer    acknowledged records sit in the writer's buffer until the flush timer fires;
     pkg/partition         Service.Shutdown syncs the chunk being written of every journal; a crash drops the buffers
     server/server.go      Start: Init of every component, on cancel Shutdown of every component, return.
   Definitions only.

   The behaviours above that were repaired in the code (sync at shutdown, tindex written aside and renamed, pipes saved
   on change and atomically, the time-index snapshot consumed at Init, a partition's directory removed before its index
   record) are switches of the model ([fixes]); the code is [code_fix] = all on. The earlier
   behaviour (tindex: Rename(tindex.dat -> tindex.bak) then WriteFile(tindex.dat) in place; pipes.dat written in place by
   Shutdown only; no sync at shutdown) stays expressible, so that props/C07.v can state what each repair bought.

   File contents are not bytes here: a file holds a value ([Whole v], what encoding/json wrote and reads back) or a
   proper prefix of an encoding ([Torn k], which does not parse - for the JSON objects/arrays written by the three savers
   the closing bracket is the last byte).  Partitions and pipes are numbers (tags and names are the harness's business),
   events are their timestamps, one chunk per partition. *)
From LR Require Import lib.Base.
Open Scope Z_scope.

Inductive fcontent (A : Type) := Whole (v : A) | Torn (k : nat).
Arguments Whole {A}. Arguments Torn {A}.
Definition decode {A} (c : fcontent A) : option A := match c with Whole v => Some v | Torn _ => None end.

Definition hull := (Z * Z)%type.
Definition snap := list (nat * hull).          (* cindex.dat: chunk id -> hull *)

Record disk := mkDisk {
  d_tdat : option (fcontent (list nat));       (* tindex.dat: the registered partitions *)
  d_tbak : option (fcontent (list nat));       (* tindex.bak *)
  d_cdat : option (fcontent snap);             (* cindex.dat *)
  d_pdat : option (fcontent (list nat));       (* pipes.dat: the pipe definitions *)
  d_jrnl : list (nat * (nat * list Z));        (* chunk files: partition -> (chunk id, flushed events) *)
  d_next : nat;                                (* not a file: the next fresh chunk id (chunk.NewId is time based) *)
  d_prog : list (nat * fcontent nat)           (* pipes/pipe<name>.dat, one per forwarding pipe, keyed by the pipe's number:
                                                  how many events of its source it has consumed.
                                                  Rewritten IN PLACE after every batch (persister.savePipeInfo) *)
}.

(* the running server *)
Record mem := mkMem {
  m_parts : list nat;                          (* tag index *)
  m_buf : list (nat * list Z);                 (* acknowledged, still in a chunk writer's buffer *)
  m_hull : snap;                               (* cindex in memory *)
  m_pipes : list nat;
  m_cur : list (nat * nat);                    (* partition -> id of the chunk being written *)
  m_prog : list (nat * nat);                   (* ppipe.partitions: pipe -> position in the source; no entry: the
                                                  position is taken from the next write notification *)
  m_phull : snap                               (* chunk infos marked HullPartial: the index learnt about the chunk from a write
                                                  while the chunk already held records; the range covers what was written since.
                                                  Such a chunk has NO entry in [m_hull]: it is reported with an unlimited range *)
}.

(* the repaired behaviours; the code is [code_fix], the code before the repairs [unrepaired] *)
Record fixes := mkFix { fx_sync : bool;       (* partition.Service.Shutdown syncs every journal *)
                        fx_atomic : bool;     (* tindex: write tindex.dat.tmp, then rename over tindex.dat *)
                        fx_pipes : bool;      (* pipes.dat saved (atomically) on every create / delete *)
                        fx_snap : bool;       (* cindex.dat is consumed (removed) by Init once it is loaded *)
                        fx_drop : bool;       (* deleteJournal removes the directory first, the tag-index record after it *)
                        fx_prog : bool;       (* not a repair: newPPipe ignores the error of loadPipeInfo (the code does) *)
                        fx_reg : bool;      (* the pipe definitions have a file of their own (registry.dat); off: they are in
                                                 pipes.dat, which is also pipe<name>.dat of the pipe named "s" ([reg_twin]) *)
                        fx_partial : bool }.  (* the HullPartial mark of a chunk info is written to cindex.dat (it is: not a
                                                 repair of this property's round, the code since /repo 9f7c658) *)
Definition code_fix : fixes := mkFix true true true true true true true true.
Definition unrepaired : fixes := mkFix false false false false false true false true.
(* the pipe (by its number) whose progress file has the name the definitions' file used to have *)
Definition reg_twin (n : nat) : bool := Nat.eqb n 5.

Definition empty_disk : disk := mkDisk None None None None [] O [].
Definition empty_mem : mem := mkMem [] [] [] [] [] [] [].

(* ---- association lists ---- *)
Fixpoint lookup {A} (p : nat) (l : list (nat * A)) : option A :=
  match l with [] => None | (q, v) :: tl => if Nat.eqb q p then Some v else lookup p tl end.
Fixpoint update {A} (p : nat) (v : A) (l : list (nat * A)) : list (nat * A) :=
  match l with
  | [] => [(p, v)]
  | (q, w) :: tl => if Nat.eqb q p then (q, v) :: tl else (q, w) :: update p v tl
  end.
Definition get_list (p : nat) (l : list (nat * list Z)) : list Z := match lookup p l with Some v => v | None => [] end.
Definition mem_nat (p : nat) (l : list nat) : bool := existsb (Nat.eqb p) l.

Definition zmin_list (d : Z) (l : list Z) : Z := fold_left Z.min l d.
Definition zmax_list (d : Z) (l : list Z) : Z := fold_left Z.max l d.
Definition widen (h : option hull) (ts : list Z) : option hull :=
  match ts, h with
  | [], _ => h
  | t :: tl, None => Some (zmin_list t tl, zmax_list t tl)
  | t :: tl, Some (a, b) => Some (zmin_list a ts, zmax_list b ts)
  end.

(* ---- tindex.saveStateUnsafe ---- *)
Definition set_tindex (d : disk) (dat bak : option (fcontent (list nat))) : disk :=
  mkDisk dat bak (d_cdat d) (d_pdat d) (d_jrnl d) (d_next d) (d_prog d).
(* the file-system effects of one save, in order *)
Inductive teff := TRenameBak | TWrite (c : fcontent (list nat)) | TWriteTmpRename (c : fcontent (list nat)).
Definition tsave_effs (fx : fixes) (d : disk) (m : list nat) : list teff :=
  if fx_atomic fx then [TWriteTmpRename (Whole m)]      (* WriteFile(tmp) leaves tindex.dat alone; the rename is atomic *)
  else (match d_tdat d with Some _ => [TRenameBak] | None => [] end) ++ [TWrite (Whole m)].
Definition tapply (e : teff) (d : disk) : disk :=
  match e with
  | TRenameBak => set_tindex d None (d_tdat d)
  | TWrite c => set_tindex d (Some c) (d_tbak d)
  | TWriteTmpRename c => match c with Whole _ => set_tindex d (Some c) (d_tbak d) | Torn _ => d end
  end.
Definition tsave (fx : fixes) (d : disk) (m : list nat) : disk := fold_left (fun d e => tapply e d) (tsave_effs fx d m) d.

(* a crash point: a prefix of the effects, the effect after it possibly begun (a WriteFile torn to k bytes) *)
Inductive crash_at : disk -> list teff -> disk -> Prop :=
| crash_here : forall d effs, crash_at d effs d
| crash_later : forall d e effs d', crash_at (tapply e d) effs d' -> crash_at d (e :: effs) d'
| crash_torn : forall d v effs k, crash_at d (TWrite (Whole v) :: effs) (tapply (TWrite (Torn k)) d)
| crash_torn_tmp : forall d v effs k, crash_at d (TWriteTmpRename (Whole v) :: effs) (tapply (TWriteTmpRename (Torn k)) d).

(* ---- steps of a session ---- *)
Inductive step := SWrite (p : nat) (ts : list Z) | SSync | SPipe (n : nat) | SDelPipe (n : nat)
                | SDrop (p : nat) | SDrain (n s t : nat)
                | SBlindWrite (p : nat) (ts : list Z).   (* a write that finds the chunk unknown to the time index *)

Definition events_of (p : nat) (j : list (nat * (nat * list Z))) : list Z :=
  match lookup p j with Some (_, evs) => evs | None => [] end.
Definition flush_all (m : mem) (d : disk) : mem * disk :=
  (mkMem (m_parts m) [] (m_hull m) (m_pipes m) (m_cur m) (m_prog m) (m_phull m),
   mkDisk (d_tdat d) (d_tbak d) (d_cdat d) (d_pdat d)
          (fold_left (fun j pb => match lookup (fst pb) (m_cur m) with
                                  | Some cid => update (fst pb) (cid, events_of (fst pb) j ++ snd pb) j
                                  | None => j     (* unreachable: a buffer belongs to an open chunk *)
                                  end) (m_buf m) (d_jrnl d))
          (d_next d) (d_prog d)).

(* persister.savePipes. Two objects, one file: while the definitions are kept in pipes.dat, writing them overwrites the
   positions of the pipe named "s" (what is there then does not parse as positions) *)
Definition clobber_twin (fx : fixes) (g : list (nat * fcontent nat)) : list (nat * fcontent nat) :=
  if fx_reg fx then g else map (fun nc => if reg_twin (fst nc) then (fst nc, Torn O) else nc) g.
Definition save_pipes (fx : fixes) (d : disk) (l : list nat) : disk :=
  mkDisk (d_tdat d) (d_tbak d) (d_cdat d) (Some (Whole l)) (d_jrnl d) (d_next d) (clobber_twin fx (d_prog d)).
Definition set_pipes (d : disk) (c : option (fcontent (list nat))) : disk :=
  mkDisk (d_tdat d) (d_tbak d) (d_cdat d) c (d_jrnl d) (d_next d) (d_prog d).

(* the states a crash inside persister.savePipes can leave: nothing yet / done; written in place also: torn at any k *)
Inductive pcrash_at (fx : fixes) (d : disk) (l : list nat) : disk -> Prop :=
| pcrash_before : pcrash_at fx d l d
| pcrash_done : pcrash_at fx d l (save_pipes fx d l)
| pcrash_torn : forall k, fx_pipes fx = false -> pcrash_at fx d l (set_pipes d (Some (Torn k))).

(* what the clients were told about a partition: its flushed events, then the acknowledged ones still buffered *)
Definition acked (m : mem) (d : disk) (p : nat) : list Z := events_of p (d_jrnl d) ++ get_list p (m_buf m).

Fixpoint remove_key {A} (p : nat) (l : list (nat * A)) : list (nat * A) :=
  match l with [] => [] | (q, v) :: tl => if Nat.eqb q p then remove_key p tl else (q, v) :: remove_key p tl end.

(* ---- deleteJournal: the two file-system effects of removing a partition, in order ---- *)
Inductive deff := DRemoveDir (p : nat) | DSaveIndex (parts : list nat).
Definition drop_effs (fx : fixes) (p : nat) (parts : list nat) : list deff :=
  if fx_drop fx then [DRemoveDir p; DSaveIndex parts] else [DSaveIndex parts; DRemoveDir p].
Definition dapply (fx : fixes) (e : deff) (d : disk) : disk :=
  match e with
  | DRemoveDir p => mkDisk (d_tdat d) (d_tbak d) (d_cdat d) (d_pdat d) (remove_key p (d_jrnl d)) (d_next d) (d_prog d)
  | DSaveIndex parts => tsave fx d parts
  end.
(* a crash between the effects (a crash inside the index save: [crash_at]) *)
Inductive dcrash_at (fx : fixes) : disk -> list deff -> disk -> Prop :=
| dcrash_here : forall d effs, dcrash_at fx d effs d
| dcrash_later : forall d e effs d', dcrash_at fx (dapply fx e d) effs d' -> dcrash_at fx d (e :: effs) d'.
Definition drop_data_first (fx : fixes) : bool :=
  match drop_effs fx O [] with DRemoveDir _ :: _ => true | _ => false end.

(* partition.Service.Write *)
Definition do_write (fx : fixes) (m : mem) (d : disk) (p : nat) (ts : list Z) : mem * disk :=
  let newp := negb (mem_nat p (m_parts m)) in
  let parts := if newp then m_parts m ++ [p] else m_parts m in
  let d' := if newp then tsave fx d parts else d in
  (* the chunk being written, or a new chunk file with a fresh id *)
  let cid := match lookup p (m_cur m) with Some c => c | None => d_next d' end in
  let d'' := match lookup p (m_cur m) with
             | Some _ => d'
             | None => mkDisk (d_tdat d') (d_tbak d') (d_cdat d') (d_pdat d') (d_jrnl d') (S (d_next d')) (d_prog d')
             end in
  (mkMem parts (update p (get_list p (m_buf m) ++ ts) (m_buf m))
         (match widen (lookup cid (m_hull m)) ts with Some h => update cid h (m_hull m) | None => m_hull m end)
         (m_pipes m) (update p cid (m_cur m)) (m_prog m) (m_phull m), d'').

Definition do_step (fx : fixes) (md : mem * disk) (s : step) : mem * disk :=
  let '(m, d) := md in
  match s with
  | SWrite p ts => do_write fx m d p ts
  | SSync => flush_all m d
  | SPipe n =>
      if mem_nat n (m_pipes m) then (m, d)
      else let ps := m_pipes m ++ [n] in
           (mkMem (m_parts m) (m_buf m) (m_hull m) ps (m_cur m) (m_prog m) (m_phull m), if fx_pipes fx then save_pipes fx d ps else d)
  | SDelPipe n =>
      if mem_nat n (m_pipes m) then
        let ps := filter (fun x => negb (Nat.eqb x n)) (m_pipes m) in
        (mkMem (m_parts m) (m_buf m) (m_hull m) ps (m_cur m) (m_prog m) (m_phull m), if fx_pipes fx then save_pipes fx d ps else d)
      else (m, d)                                (* NotFound: nothing changes, nothing is saved *)
  | SDrop p =>
      (* TRUNCATE removes every chunk, then deleteJournal: the directory is removed and TIndex.Delete takes the record out
         and saves the index ([drop_effs]: in which order); what the chunk writer still buffered goes with it *)
      if mem_nat p (m_parts m) then
        let parts := filter (fun x => negb (Nat.eqb x p)) (m_parts m) in
        (mkMem parts (remove_key p (m_buf m)) (m_hull m) (m_pipes m) (remove_key p (m_cur m)) (m_prog m) (m_phull m),
         fold_left (fun d e => dapply fx e d) (drop_effs fx p parts) d)
      else (m, d)
  | SBlindWrite p ts =>
      (* cindex.onWrite for a source the index does not know (no snapshot was loaded, nothing was asked yet) while the chunk
         already holds records (firstRec > 0): the info gets the range of this write only and the mark HullPartial - it is
         reported with an unlimited range, a rebuild is requested (and has not run: the rebuilder is held). A chunk that
         does not exist yet is simply created *)
      match lookup p (m_cur m) with
      | Some cid =>
          let '(m1, d1) := do_write fx m d p ts in
          (mkMem (m_parts m1) (m_buf m1) (remove_key cid (m_hull m)) (m_pipes m1) (m_cur m1) (m_prog m1)
                 (match widen (lookup cid (m_phull m)) ts with Some h => update cid h (m_phull m) | None => m_phull m end), d1)
      | None => do_write fx m d p ts
      end
  | SDrain n s t =>
      (* the worker of the pipe number n from partition s to partition t has run, started or woken by a write to s that is
         the only buffered data of s (the round of the harness), and caught up. Its position: the one in memory; none (new
         pipe, or the progress file was missing or did not parse at start): onWriteEvent takes the start of the notified
         write, i.e. the pipe begins after what is flushed now and what lies before is never forwarded. It writes to t -
         which registers t, even when there is nothing to forward - the flushed events of s from its position on, once and
         in order, and saves the new position: in memory and, in place, in its progress file - which, for the pipe named
         "s" and while the definitions are kept in pipes.dat, is the file of the definitions: they do not parse any more *)
      if mem_nat s (m_parts m) then
        let src := events_of s (d_jrnl d) in
        let pos := match lookup n (m_prog m) with Some k => k | None => length src end in
        let '(m1, d1) := do_write fx m d t (skipn pos src) in
        (mkMem (m_parts m1) (m_buf m1) (m_hull m1) (m_pipes m1) (m_cur m1) (update n (length src) (m_prog m1)) (m_phull m1),
         mkDisk (d_tdat d1) (d_tbak d1) (d_cdat d1)
                (if negb (fx_reg fx) && reg_twin n then Some (Torn O) else d_pdat d1)
                (d_jrnl d1) (d_next d1) (update n (Whole (length src)) (d_prog d1)))
      else (m, d)
  end.

Definition run_steps (fx : fixes) (md : mem * disk) (l : list step) : mem * disk := fold_left (do_step fx) l md.

(* ---- the end of a session: what is on disk when the process is gone ---- *)
(* graceful: every Shutdown runs (pipes.dat, the journals are synced, cindex.dat); then exit *)
(* cindex.saveDataToFile: every chunk info. One that is marked HullPartial is saved with its mark: the start that loads it
   asks for the rebuild again and reports the chunk with an unlimited range until then - in this model: the chunk has no
   entry, its hull is collected from the chunk. Without the mark in the file ([fx_partial] off) the narrow range is loaded
   as the chunk's range *)
Definition saved_hulls (fx : fixes) (m : mem) : snap := m_hull m ++ (if fx_partial fx then [] else m_phull m).

Definition graceful (fx : fixes) (m : mem) (d : disk) : disk :=
  let '(m1, d1) := if fx_sync fx then flush_all m d else (m, d) in
  mkDisk (d_tdat d1) (d_tbak d1) (Some (Whole (saved_hulls fx m1))) (Some (Whole (m_pipes m1))) (d_jrnl d1) (d_next d1) (clobber_twin fx (d_prog d1)).
(* SIGKILL: nothing runs *)
Definition killed (m : mem) (d : disk) : disk := d.

(* ---- file surgery: the crash-shaped states of the savers, made from a stopped directory ---- *)
Inductive surgery :=
| GTRenamed                (* tindex: after Rename, before WriteFile *)
| GTTorn (k : nat)         (* tindex: inside WriteFile *)
| GTOrphan (p : nat)       (* partition drop, crash between its two effects (which one came first: [fx_drop]) *)
| GCDrop | GCTorn (k : nat)
| GCStale                  (* cindex.dat as the previous clean shutdown left it *)
| GPTorn (k : nat) | GPDrop
| GProgTorn (t : nat) (k : nat)    (* a crash inside the in-place rewrite of the progress file of the pipe number t *)
(* not crash-shaped (no saver of the code leaves them): files damaged from outside, to run the loaders' refusals *)
| GDamageT (k : nat)               (* tindex.dat cut in place *)
| GDamageP (k : nat)               (* pipes.dat cut in place *)
| GRecordGone (p : nat).           (* the record of p taken out of tindex.dat, its directory untouched *)

(* with the atomic savers the torn file is the .tmp one and there is no rename window: tindex.dat / pipes.dat stay whole.
   [GTTorn] after a stop is a start that dies inside the save ending Init; [GPTorn] at a session end that is not graceful
   is a shutdown sequence that dies inside its first saver, the pipes save *)
Definition apply_surgery (fx : fixes) (prev_cdat : option (fcontent snap)) (d : disk) (g : surgery) : disk :=
  match g with
  | GTRenamed => if fx_atomic fx then d else
                 match d_tdat d with Some _ => set_tindex d None (d_tdat d) | None => d end
  | GTTorn k => if fx_atomic fx then d else
                match d_tdat d with Some _ => set_tindex d (Some (Torn k)) (d_tdat d) | None => d end
  | GTOrphan p => if fx_drop fx then        (* the directory is gone, the record is still there *)
                    mkDisk (d_tdat d) (d_tbak d) (d_cdat d) (d_pdat d) (remove_key p (d_jrnl d)) (d_next d) (d_prog d)
                  else match d_tdat d with   (* the record is gone, the directory is still there *)
                  | Some (Whole m) => set_tindex d (Some (Whole (filter (fun x => negb (Nat.eqb x p)) m))) (d_tbak d)
                  | _ => d
                  end
  | GCDrop => mkDisk (d_tdat d) (d_tbak d) None (d_pdat d) (d_jrnl d) (d_next d) (d_prog d)
  | GCTorn k => mkDisk (d_tdat d) (d_tbak d) (match d_cdat d with Some _ => Some (Torn k) | None => None end) (d_pdat d) (d_jrnl d) (d_next d) (d_prog d)
  | GCStale => mkDisk (d_tdat d) (d_tbak d) prev_cdat (d_pdat d) (d_jrnl d) (d_next d) (d_prog d)
  | GPTorn k => if fx_pipes fx then d else
                mkDisk (d_tdat d) (d_tbak d) (d_cdat d) (match d_pdat d with Some _ => Some (Torn k) | None => None end) (d_jrnl d) (d_next d) (d_prog d)
  | GProgTorn t k => match lookup t (d_prog d) with
                     | Some _ => mkDisk (d_tdat d) (d_tbak d) (d_cdat d) (d_pdat d) (d_jrnl d) (d_next d) (update t (Torn k) (d_prog d))
                     | None => d
                     end
  | GDamageT k => match d_tdat d with Some _ => set_tindex d (Some (Torn k)) (d_tbak d) | None => d end
  | GDamageP k => match d_pdat d with Some _ => set_pipes d (Some (Torn k)) | None => d end
  | GRecordGone p => match d_tdat d with
                     | Some (Whole m) => set_tindex d (Some (Whole (filter (fun x => negb (Nat.eqb x p)) m))) (d_tbak d)
                     | _ => d
                     end
  | GPDrop => if fx_pipes fx then d else mkDisk (d_tdat d) (d_tbak d) (d_cdat d) None (d_jrnl d) (d_next d) (d_prog d)
  end.

(* ---- start ---- *)
Definition has_data (pe : nat * (nat * list Z)) : bool := match snd (snd pe) with [] => false | _ => true end.
Definition with_data (d : disk) : list nat := map fst (filter has_data (d_jrnl d)).

(* tindex.Init: loadState + checkConsistency; None = Init fails, the server does not start *)
Definition tindex_init (d : disk) : option (list nat) :=
  match d_tdat d with
  | None => if forallb (fun j => mem_nat j []) (with_data d) then Some [] else None
  | Some c => match decode c with
              | Some m => if forallb (fun j => mem_nat j m) (with_data d) then Some m else None
              | None => None
              end
  end.
Definition pipes_init (d : disk) : option (list nat) :=
  match d_pdat d with None => Some [] | Some c => decode c end.
Definition cindex_init (d : disk) : snap :=
  match d_cdat d with Some (Whole s) => s | _ => [] end.

(* lightFill (through syncChunks, e.g. by DESCRIBE PARTITION): an unknown chunk gets the hull (first, last record) *)
Definition light_hull (evs : list Z) : option hull :=
  match evs with
  | [] => None
  | t :: _ => let l := last evs t in Some (Z.min t l, Z.max t l)
  end.
Definition light_fill (j : list (nat * (nat * list Z))) (s : snap) : snap :=
  fold_left (fun s pe => let '(_, (cid, evs)) := pe in
                         match lookup cid s with
                         | Some _ => s
                         | None => match light_hull evs with Some h => update cid h s | None => s end
                         end) j s.

(* syncChunks with the real chunk list: a snapshot entry whose chunk file is gone is dropped *)
Definition prune (j : list (nat * (nat * list Z))) (s : snap) : snap :=
  filter (fun ch => existsb (fun pe => Nat.eqb (fst (snd pe)) (fst ch)) j) s.

(* newPPipe -> loadPipeInfo for every pipe: a progress file that does not parse gives an error, which newPPipe ignores:
   the pipe has no position then. ([fx_prog] off: the error is returned and pipe.Service.Init fails) *)
Definition prog_fold (fx : fixes) (g : list (nat * fcontent nat)) : option (list (nat * nat)) :=
  fold_right (fun tc acc => match acc, snd tc with
                            | Some l, Whole n => Some ((fst tc, n) :: l)
                            | Some l, Torn _ => if fx_prog fx then Some l else None
                            | None, _ => None
                            end) (Some []) g.
Definition prog_init (fx : fixes) (d : disk) : option (list (nat * nat)) := prog_fold fx (d_prog d).

Definition start (fx : fixes) (d : disk) : option (mem * disk) :=
  match prog_init fx d with None => None | Some prog =>
  match tindex_init d, pipes_init d with
  | Some parts, Some pipes =>
      (* chunk files nothing was ever flushed to are empty: the journal scan removes them *)
      let j := filter has_data (d_jrnl d) in
      (* the snapshot is consumed: cindex.init removes cindex.dat once the attempt to load it is over *)
      let d0 := mkDisk (d_tdat d) (d_tbak d) (if fx_snap fx then None else d_cdat d) (d_pdat d) j (d_next d) (d_prog d) in
      Some (mkMem parts [] (light_fill j (prune j (cindex_init d))) pipes (map (fun pe => (fst pe, fst (snd pe))) j) prog [],
            tsave fx d0 parts)           (* checkConsistency ends with saveStateUnsafe *)
  | _, _ => None
  end end.

(* ---- what a client sees ---- *)
(* RANGE [lo:hi] on a partition: the chunk is skipped when the index says its newest record is older than lo or its oldest
   one newer than hi (chkSelector.updatePoss, case 1);
   otherwise the records are filtered (timestamps increasing, bounds between timestamps: everything else is C02) *)
Definition in_range (lo hi t : Z) : bool := (lo <=? t) && (t <=? hi).
Definition range_query (h : option hull) (evs : list Z) (lo hi : Z) : list Z :=
  match h with
  | Some (a, b) => if (b <? lo) || (hi <? a) then [] else filter (in_range lo hi) evs
  | None => filter (in_range lo hi) evs
  end.

(* [OBlind]: the server started and nothing was asked of it before the session's first step (a query would let the time
   index learn the chunks the snapshot does not know; the session is about what a write finds) *)
Inductive obs := ORefused | OStarted (parts : list (option (list Z))) (pipes : list nat) (ranges : list (list Z)) | OBlind.

Definition hull_of (p : nat) (m : mem) : option hull :=
  match lookup p (m_cur m) with Some cid => lookup cid (m_hull m) | None => None end.
Definition observe (np : nat) (lo hi : Z) (m : mem) (d : disk) : obs :=
  OStarted (map (fun p => if mem_nat p (m_parts m) then Some (events_of p (d_jrnl d)) else None) (seq 0 np))
           (m_pipes m)
           (map (fun p => if mem_nat p (m_parts m) then range_query (hull_of p m) (events_of p (d_jrnl d)) lo hi else [])
                (seq 0 np)).

(* ---- scenarios: sessions of one directory ---- *)
Record session := mkSession { ss_steps : list step; ss_graceful : bool; ss_surgery : list surgery }.

Fixpoint run_sessions (fx : fixes) (np : nat) (lo hi : Z) (d : disk) (l : list session) : list obs :=
  match start fx d with
  | None => [ORefused]
  | Some (m, d0) =>
      observe np lo hi m d0 ::
      match l with
      | [] => []
      | s :: tl =>
          let '(m1, d1) := run_steps fx (m, d0) (ss_steps s) in
          let d2 := if ss_graceful s then graceful fx m1 d1 else killed m1 d1 in
          let d3 := fold_left (apply_surgery fx (d_cdat d1)) (ss_surgery s) d2 in
          run_sessions fx np lo hi d3 tl
      end
  end.

(* ---- vocabulary of the statements ---- *)
(* what the clients were told: registered partitions, acknowledged events (flushed or not: [acked]), pipe definitions *)
(* a running server and its directory agree: the tag index is saved, every journal with data and every buffer belongs
   to a registered partition, there is one buffer per partition and it belongs to the chunk being written *)
Definition bufs_ok (m : mem) : Prop :=
  NoDup (map fst (m_buf m)) /\ forall p, In p (map fst (m_buf m)) -> lookup p (m_cur m) <> None.
Definition consistent (m : mem) (d : disk) : Prop :=
  d_tdat d = Some (Whole (m_parts m)) /\
  (forall p, In p (with_data d) -> In p (m_parts m)) /\
  (forall p, lookup p (m_buf m) <> None -> In p (m_parts m)) /\
  bufs_ok m.
(* one chunk per partition (a limit of the model, not of the code) *)
Definition keys_nodup (d : disk) : Prop := NoDup (map fst (d_jrnl d)).
