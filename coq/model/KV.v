(* Model of /repo/pkg/utils/kvstring/kvstring.go at byte level: RemoveCurlyBraces, SplitString (with the
   separators '=' and ',' every caller passes), TrimSpaces, ToMap.  strconv.Unquote is an oracle
   (a function argument; its hypotheses live in proofs/KVP.v).  Definitions only. *)
From LR Require Export lib.Base.

Definition QUOTE : byte := x22.  Definition BSL : byte := x5c.  Definition EQ : byte := x3d.
Definition COMMA : byte := x2c.  Definition SP : byte := x20.   Definition LBR : byte := x7b.
Definition RBR : byte := x7d.    Definition BQ : byte := x60.

(* kvstring.SplitString(str, '=', ',', buf).  [cur] is the current piece reversed, [acc] the finished
   pieces reversed, [expKv] = (expCC == kvSep).  A backslash inside a string skips the next byte; the text
   ending inside a string (also after a skipping backslash) is an error. *)
Fixpoint split_go (s : bytes) (inStr expKv : bool) (cur : bytes) (acc : list bytes) : outcome (list bytes) :=
  match s with
  | [] => if inStr then Err else Ok (rev (rev cur :: acc))
  | c :: tl =>
      if byte_eqb c QUOTE then split_go tl (negb inStr) expKv (c :: cur) acc
      else if byte_eqb c BSL && inStr then
        match tl with
        | [] => Err
        | d :: tl' => split_go tl' inStr expKv (d :: c :: cur) acc
        end
      else if (byte_eqb c EQ || byte_eqb c COMMA) && negb inStr then
        if Bool.eqb (byte_eqb c EQ) expKv then split_go tl inStr (negb expKv) [] (rev cur :: acc) else Err
      else split_go tl inStr expKv (c :: cur) acc
  end.
Definition split_string (s : bytes) : outcome (list bytes) := split_go s false true [] [].

(* kvstring.TrimSpaces: only ' ' is a blank *)
Fixpoint drop_sp (s : bytes) : bytes :=
  match s with c :: tl => if byte_eqb c SP then drop_sp tl else s | [] => [] end.
Definition trim (s : bytes) : bytes := rev (drop_sp (rev (drop_sp s))).

(* kvstring.RemoveCurlyBraces: leading blanks and '{' are skipped and counted; from the end blanks are
   skipped and '}' un-counted while the count is >= 0, never consuming the first remaining byte
   (loop condition tidx > idx); error if only that first byte is left or the count is not back at 0 *)
Fixpoint lead (s : bytes) (cnt : nat) : bytes * nat :=
  match s with
  | c :: tl => if byte_eqb c SP then lead tl cnt else if byte_eqb c LBR then lead tl (S cnt) else (s, cnt)
  | [] => ([], cnt)
  end.
(* r = the remaining bytes reversed; None = the count went negative *)
Fixpoint trail (r : bytes) (cnt : option nat) : bytes * option nat :=
  match r with
  | [] => (r, cnt)
  | [c] => (r, cnt)
  | c :: tl => match cnt with
               | None => (r, cnt)
               | Some n => if byte_eqb c SP then trail tl cnt
                           else if byte_eqb c RBR then trail tl (match n with O => None | S n' => Some n' end)
                           else (r, cnt)
               end
  end.
Definition remove_curly (s : bytes) : outcome bytes :=
  let '(s', cnt) := lead s 0 in
  match s' with
  | [] => if Nat.eqb cnt 0 then Ok [] else Err
  | _ => let '(r, cnt') := trail (rev s') (Some cnt) in
         match r, cnt' with
         | [_], _ => Err
         | _, Some 0 => Ok (rev r)
         | _, _ => Err
         end
  end.

(* the test "len(v) > 0 and v[0] is a double quote or a back quote" that guards strconv.Unquote *)
Definition starts_quoted (v : bytes) : bool :=
  match v with c :: _ => byte_eqb c QUOTE || byte_eqb c BQ | [] => false end.

(* a Go map[string]string, canonically: association list strictly increasing by key *)
Definition kvmap := list (bytes * bytes).
Fixpoint map_put (k v : bytes) (m : kvmap) : kvmap :=
  match m with
  | [] => [(k, v)]
  | (k', v') :: tl => if bytes_ltb k k' then (k, v) :: m
                      else if bytes_eqb k k' then (k, v) :: tl
                      else (k', v') :: map_put k v tl
  end.
Fixpoint map_get (k : bytes) (m : kvmap) : option bytes :=
  match m with
  | [] => None
  | (k', v') :: tl => if bytes_eqb k k' then Some v' else map_get k tl
  end.
(* mp[k] = v in text order: a later pair overwrites an earlier one with the same name *)
Definition map_of_pairs (l : list (bytes * bytes)) : kvmap :=
  fold_left (fun m kv => map_put (fst kv) (snd kv) m) l [].

Definition pair_eqb2 (a b : bytes * bytes) : bool := bytes_eqb (fst a) (fst b) && bytes_eqb (snd a) (snd b).
Definition kvmap_eqb (a b : kvmap) : bool := list_eqb pair_eqb2 a b.

(* scanner state after a piece: Some inStr', or None if the piece holds a separator outside a string or
   ends in a skipping backslash.  A piece is [neutral] if SplitString passes over it without splitting and
   comes out in the state it went in with (outside a string). *)
Fixpoint scan (s : bytes) (inStr : bool) : option bool :=
  match s with
  | [] => Some inStr
  | c :: tl =>
      if byte_eqb c QUOTE then scan tl (negb inStr)
      else if byte_eqb c BSL && inStr then
        match tl with
        | [] => None
        | _ :: tl' => scan tl' inStr
        end
      else if (byte_eqb c EQ || byte_eqb c COMMA) && negb inStr then None
      else scan tl inStr
  end.
Definition neutral (s : bytes) : bool := match scan s false with Some false => true | _ => false end.

Definition first_is (c : byte) (s : bytes) : bool := match s with x :: _ => byte_eqb x c | [] => false end.
Definition last_is (c : byte) (s : bytes) : bool := first_is c (rev s).
(* no blank at either end (TrimSpaces is the identity) *)
Definition trimmed (s : bytes) : bool := negb (first_is SP s) && negb (last_is SP s).
Definition has (c : byte) (s : bytes) : bool := existsb (byte_eqb c) s.

Section WithUnquote.
  Variable unquote : bytes -> option bytes.

  Definition unq (v : bytes) : outcome bytes :=
    if starts_quoted v then match unquote v with Some u => Ok u | None => Err end else Ok v.

  (* the loop of ToMap up to the map insertion: trimmed name, trimmed and possibly unquoted value *)
  Fixpoint pairs_of (l : list bytes) : outcome (list (bytes * bytes)) :=
    match l with
    | [] => Ok []
    | [_] => Err
    | k :: v :: tl =>
        match trim k with
        | [] => Err
        | k' => match unq (trim v) with
                | Ok v' => match pairs_of tl with Ok r => Ok ((k', v') :: r) | _ => Err end
                | _ => Err
                end
        end
    end.

  Definition to_pairs (s : bytes) : outcome (list (bytes * bytes)) :=
    match remove_curly s with
    | Ok [] => Ok []
    | Ok fine => match split_string fine with Ok l => pairs_of l | _ => Err end
    | _ => Err
    end.

  (* kvstring.ToMap (and tag.Parse up to the printing of the line) *)
  Definition to_map (s : bytes) : outcome kvmap :=
    match to_pairs s with Ok l => Ok (map_of_pairs l) | _ => Err end.
End WithUnquote.

(* finite-table oracles for the correspondence check: the harness records the answers of the real
   strconv functions for exactly the arguments the implementation passed; an argument that is not in the
   table yields a poison answer, so that a model that asks a different question disagrees *)
Definition POISON : bytes := [xff; x00; xff; x50; x4f; x49; x53; x4f; x4e].
Fixpoint tbl_find {A : Type} (t : list (bytes * A)) (k : bytes) : option A :=
  match t with
  | [] => None
  | (k', a) :: tl => if bytes_eqb k k' then Some a else tbl_find tl k
  end.
Definition tbl_unquote (t : list (bytes * option bytes)) (s : bytes) : option bytes :=
  match tbl_find t s with Some r => r | None => Some POISON end.
Definition tbl_quote (t : list (bytes * bytes)) (s : bytes) : bytes :=
  match tbl_find t s with Some r => r | None => POISON end.
