(* Model of pkg/partition: iwrapper (iwrapper.go) and Service.Write (partition.go), of the write path of
   api/rpc.ServerIngestor.write, and of the read-back path (journal iterator -> LogEventIterator ->
   result event with the partition's tag line and Fields.AsKVString).  Also the specification the
   refinement theorem C01_readback is stated against, and the transition system of K concurrent
   writers (atomic step = one Journal.Write call).  Definitions only.

   Parameters (subjects of other properties, kept abstract here):
     fparse : field.NewFieldsFromKVString                      (C08)
     norm   : tindex.GetOrCreateJournal's identity of a partition: tags text -> canonical tag line
              of the partition, Err when the text is rejected    (C06)
     as_kv  : field.Fields.AsKVString                           (C08) *)
From LR Require Import lib.Base model.XBinary model.LogEvent model.Wire model.Journal.
Open Scope Z_scope.

(* ---------- iwrapper over a model.Iterator (a state machine serving LogEvents) ---------- *)
(* iw.maxRecSize > 0 && int64(WritableSize()) > iw.maxRecSize; [mr] = 0: not limited *)
Definition too_big (mr : Z) (e : levent) : bool := (0 <? mr) && (mr <? Z.of_nat (writable_size e)).

Section IWrapper.
Variable T : Type.
Variable lit_get : T -> T * outcome (option levent).   (* model.Iterator.Get: event | io.EOF | another error *)
Variable lit_next : T -> T.
Variable mr : Z.                                        (* iw.maxRecSize *)

(* iwrapper.Get: its `read` flag is never set, so every call asks the wrapped iterator; an error of the wrapped
   iterator is handed through; an event whose record would exceed the limit is refused with ErrRecordTooBig
   (before anything is marshalled); otherwise the event is marshalled into a buffer of WritableSize() bytes *)
Definition iw_get (s : T) : T * outcome (option bytes) :=
  match lit_get s with
  | (s', Ok (Some e)) => if too_big mr e then (s', Err) else (s', Ok (Some (marshal_into (writable_size e) e)))
  | (s', Ok None) => (s', Ok None)
  | (s', Err) => (s', Err)
  | (s', Panic) => (s', Panic)
  | (s', OutOfFuel) => (s', OutOfFuel)
  end.
Definition iw_next (s : T) : T := lit_next s.
End IWrapper.

(* pos.Idx - uint32(n) *)
Definition u32_sub (a : N) (n : nat) : N := ((a + 4294967296 - (N.of_nat n mod 4294967296)) mod 4294967296)%N.

(* WriteEvent: StartPos, EndPos *)
Definition wevent := (jpos * jpos)%type.

(* Service.Write, the loop, over the record iterator [g]/[nx] (the iwrapper):
   for { n, pos, err1 := jrnl.Write(&iw); if n > 0 { ...StartPos = pos - n on the first round; EndPos = pos };
         if err1 != nil { if n <= 0 { err = ... }; break };
         if _, err1 = iw.Get(); err1 != nil { if err1 != io.EOF { err = ... }; break } }
   result: journal, iterator, write event (if any record was written), failed? *)
Section ServiceLoop.
Variable St : Type.
Variable g : St -> St * outcome (option bytes).
Variable nx : St -> St.

Fixpoint sw_loop (rounds fuel : nat) (cfg : jcfg) (j : journal) (s : St) (we : option wevent)
  : outcome (journal * St * option wevent * bool) :=
  match rounds with
  | O => OutOfFuel
  | S rd =>
      obind (journal_write St g nx fuel cfg j s) (fun '(j', s', n, pos, e) =>
        let we' := if (0 <? n)%nat then
                     Some (match we with
                           | None => (fst pos, u32_sub (snd pos) n)
                           | Some (st, _) => st
                           end, pos)
                   else we in
        match e with
        | WNil =>
            match g s' with
            | (s'', Ok (Some _)) => sw_loop rd fuel cfg j' s'' we'
            | (s'', Ok None) => Ok (j', s'', we', false)
            | (s'', Err) => Ok (j', s'', we', true)
            | (_, Panic) => Panic
            | (_, OutOfFuel) => OutOfFuel
            end
        | _ => Ok (j', s', we', (n <=? 0)%nat)
        end)
  end.
End ServiceLoop.

(* ---------- the two iterators that are handed to Service.Write ---------- *)
(* a plain slice of LogEvents (what a direct caller of Service.Write passes) *)
Definition ls_get (l : list levent) : list levent * outcome (option levent) :=
  match l with
  | [] => (l, Ok None)
  | e :: _ => (l, Ok (Some e))
  end.
Definition ls_next (l : list levent) : list levent := tl l.

(* ---------- the server: partitions by canonical tag line ---------- *)
Definition server := list (bytes * journal).

Fixpoint srv_get (s : server) (k : bytes) : journal :=
  match s with
  | [] => []
  | (k', j) :: tl => if bytes_eqb k' k then j else srv_get tl k
  end.
Fixpoint srv_set (s : server) (k : bytes) (j : journal) : server :=
  match s with
  | [] => [(k, j)]
  | (k', j') :: tl => if bytes_eqb k' k then (k', j) :: tl else (k', j') :: srv_set tl k j
  end.

(* one write request *)
Record wop := { w_tags : bytes; w_flds : bytes; w_evs : list api_event }.
(* its observable result: acknowledged (no error)?, the write event *)
Record wres := { r_ack : bool; r_we : option wevent }.

Section WithEnv.
Variable fparse : bytes -> outcome bytes.
Variable norm : bytes -> outcome bytes.
Variable as_kv : bytes -> bytes.

(* Service.Write(tags, it): GetOrCreateJournal(tags) fails => error, nothing written; otherwise the loop runs
   over the iwrapper around [it], whose limit is Service.maxRecordSize() *)
Definition svc_write (T : Type) (g : T -> T * outcome (option levent)) (nx : T -> T)
    (fuel : nat) (cfg : jcfg) (srv : server) (tags : bytes) (it : T) : outcome (server * wres) :=
  match norm tags with
  | Ok key =>
      obind (sw_loop T (iw_get T g (w_limit cfg)) (iw_next T nx) fuel fuel cfg (srv_get srv key) it None) (fun '(j', _, we, failed) =>
        Ok (srv_set srv key j', {| r_ack := negb failed; r_we := we |}))
  | Err => Ok (srv, {| r_ack := false; r_we := None |})
  | Panic => Panic
  | OutOfFuel => OutOfFuel
  end.

(* ServerIngestor.write: wpIterator.init(body); on success Journals.Write(wpi.tags, &wpi).
   [eof_on_error] selects the packet iterator: false = the code, true = the iterator before its repair *)
Definition ingest_v (eof_on_error : bool) (fuel : nat) (cfg : jcfg) (srv : server) (body : bytes) : outcome (server * wres) :=
  match wp_init fparse body with
  | Ok (tags, it) => svc_write wpit (wp_get_v fparse eof_on_error) wp_next fuel cfg srv tags it
  | Err => Ok (srv, {| r_ack := false; r_we := None |})
  | Panic => Panic
  | OutOfFuel => OutOfFuel
  end.
Definition ingest : nat -> jcfg -> server -> bytes -> outcome (server * wres) := ingest_v false.

(* a client Write over RPC: clntIngestor.Write encodes the packet, the server ingests it *)
Definition rpc_write (fuel : nat) (cfg : jcfg) (srv : server) (op : wop) : outcome (server * wres) :=
  ingest fuel cfg srv (encode_wp (w_tags op) (w_flds op) (w_evs op)).

(* a direct call of partition.Service.Write with a slice of LogEvents *)
Definition direct_write (fuel : nat) (cfg : jcfg) (srv : server) (tags : bytes) (evs : list levent) : outcome (server * wres) :=
  svc_write (list levent) ls_get ls_next fuel cfg srv tags evs.

(* a history of write requests *)
Inductive req := RpcW (op : wop) | DirW (tags : bytes) (evs : list levent) | RawW (body : bytes).

Definition do_req (fuel : nat) (cfg : jcfg) (srv : server) (r : req) : outcome (server * wres) :=
  match r with
  | RpcW op => rpc_write fuel cfg srv op
  | DirW tags evs => direct_write fuel cfg srv tags evs
  | RawW body => ingest fuel cfg srv body
  end.

Fixpoint run (fuel : nat) (cfg : jcfg) (srv : server) (rs : list req) : outcome (server * list wres) :=
  match rs with
  | [] => Ok (srv, [])
  | r :: tl =>
      obind (do_req fuel cfg srv r) (fun '(srv', res) =>
      obind (run fuel cfg srv' tl) (fun '(srv'', l) => Ok (srv'', res :: l)))
  end.

(* ---------- a clean stop and start of the server ---------- *)
(* partition.Service.Shutdown syncs the last chunk of every journal (full chunks were synced when the writer moved on),
   the restarted server finds every record it acknowledged confirmed in the chunk files: nothing but the confirmed
   counts changes.  A history with clean restarts is a list of segments; the server is restarted between two segments
   and after the last one. *)
Definition restart (srv : server) : server := map (fun kj => (fst kj, flush (snd kj))) srv.

Fixpoint run_segs (fuel : nat) (cfg : jcfg) (srv : server) (segs : list (list req)) : outcome (server * list wres) :=
  match segs with
  | [] => Ok (srv, [])
  | sg :: tl =>
      obind (run fuel cfg srv sg) (fun '(srv1, res) =>
      obind (run_segs fuel cfg (restart srv1) tl) (fun '(srv2, l) => Ok (srv2, res ++ l)))
  end.

(* ---------- reading a partition back ---------- *)
(* result event as the queriers build it: timestamp, message, the partition's tag line, fields as kv text *)
Record revent := { rv_ts : Z; rv_msg : bytes; rv_tags : bytes; rv_flds : bytes }.
Definition revent_eqb (a b : revent) : bool :=
  Z.eqb (rv_ts a) (rv_ts b) && bytes_eqb (rv_msg a) (rv_msg b) && bytes_eqb (rv_tags a) (rv_tags b) &&
  bytes_eqb (rv_flds a) (rv_flds b).

Definition to_revent (key : bytes) (e : levent) : revent :=
  {| rv_ts := le_ts e; rv_msg := le_msg e; rv_tags := key; rv_flds := as_kv (le_flds e) |}.

(* unfiltered forward read of the whole partition [key] (after the flush) *)
Definition read_back (cfg : jcfg) (srv : server) (key : bytes) : outcome (list revent) :=
  obind (read_records cfg (flat (srv_get srv key))) (fun recs =>
  obind (lei_read le_zero recs) (fun les => Ok (map (to_revent key) les))).

(* ---------- the specification: a partition is the list of its acknowledged events ---------- *)
Definition in_int64 (z : Z) : Prop := -9223372036854775808 <= z < 9223372036854775808.

(* the LogEvent a request's event denotes: write-level fields ++ the event's own fields *)
Definition spec_levent (wf : bytes) (e : api_event) : levent :=
  {| le_ts := ae_ts e; le_msg := ae_msg e; le_flds := wf ++ field_parse fparse (ae_flds e) |}.

(* the partition and the events of a request whose tags and write-level fields are accepted *)
Definition spec_batch (r : req) : option (bytes * list levent) :=
  match r with
  | RpcW op =>
      match fparse (w_flds op), norm (w_tags op) with
      | Ok wf, Ok k => Some (k, map (spec_levent wf) (w_evs op))
      | _, _ => None
      end
  | DirW tags evs =>
      match norm tags with
      | Ok k => Some (k, evs)
      | _ => None
      end
  | RawW _ => None
  end.

(* the events of a batch up to the first one whose record exceeds the write limit; whether there is such an event *)
Fixpoint fit_prefix (mr : Z) (evs : list levent) : list levent :=
  match evs with
  | [] => []
  | e :: tl => if too_big mr e then [] else e :: fit_prefix mr tl
  end.
Definition has_big (mr : Z) (evs : list levent) : bool := existsb (too_big mr) evs.

(* which requests the specification expects to be acknowledged: tags and fields accepted and no record of the
   batch above the limit (such a record could not be served back) *)
Definition spec_ack (cfg : jcfg) (r : req) : bool :=
  match spec_batch r with
  | Some (_, evs) => negb (has_big (w_limit cfg) evs)
  | None => false
  end.

(* the events a request adds to partition [key]: the whole batch when it is acknowledged; of a batch that is
   rejected because of an oversize event, the events before that one (the write path is streaming: they are
   stored, unacknowledged, and readable); nothing otherwise *)
Definition spec_req (cfg : jcfg) (key : bytes) (r : req) : list levent :=
  match spec_batch r with
  | Some (k, evs) => if bytes_eqb k key then fit_prefix (w_limit cfg) evs else []
  | None => []
  end.
Definition spec_content (cfg : jcfg) (key : bytes) (rs : list req) : list revent :=
  map (to_revent key) (concat (map (spec_req cfg key) rs)).

End WithEnv.

(* ---------- K concurrent writers on one journal ---------- *)
(* Every writer runs Service.Write's loop on its own slice of events; one atomic step of writer w is
   one iteration of that loop: one jrnl.Write call (the chunk writer's lock) followed by the writer's
   private iw.Get (which also tells whether the writer goes on, is done, or fails on an oversize event).  [log] is a ghost: which writer appended which record, in journal order. *)
Record writer := { wr_it : list levent; wr_done : bool; wr_failed : bool }.
Record cstate := { cs_j : journal; cs_ws : list writer; cs_log : list (nat * bytes) }.

Definition set_nth {A : Type} (n : nat) (x : A) (l : list A) : list A := firstn n l ++ x :: skipn (S n) l.

Definition cstep (fuel : nat) (cfg : jcfg) (st : cstate) (w : nat) : outcome cstate :=
  match nth_error (cs_ws st) w with
  | None => Ok st
  | Some wr =>
      if wr_done wr then Ok st else
      let g := iw_get (list levent) ls_get (w_limit cfg) in
      obind (journal_write (list levent) g (iw_next (list levent) ls_next) fuel cfg (cs_j st) (wr_it wr))
        (fun '(j', it', n, _, e) =>
          let newrecs := skipn (length (flat (cs_j st))) (flat j') in
          let log' := cs_log st ++ map (fun r => (w, r)) newrecs in
          let fin := match e with
                     | WNil => match g it' with (_, Ok (Some _)) => false | _ => true end
                     | _ => true
                     end in
          let failed := match e with
                        | WNil => match g it' with (_, Ok _) => false | _ => true end
                        | _ => (n <=? 0)%nat
                        end in
          Ok {| cs_j := j'; cs_ws := set_nth w {| wr_it := it'; wr_done := fin; wr_failed := failed |} (cs_ws st); cs_log := log' |})
  end.

Fixpoint crun (fuel : nat) (cfg : jcfg) (st : cstate) (sched : list nat) : outcome cstate :=
  match sched with
  | [] => Ok st
  | w :: tl => obind (cstep fuel cfg st w) (fun st' => crun fuel cfg st' tl)
  end.

Definition cinit (j : journal) (batches : list (list levent)) : cstate :=
  {| cs_j := j; cs_ws := map (fun b => {| wr_it := b; wr_done := false; wr_failed := false |}) batches; cs_log := [] |}.

(* the records writer w has appended so far, in journal order *)
Definition written_by (w : nat) (log : list (nat * bytes)) : list bytes :=
  map snd (filter (fun p => Nat.eqb (fst p) w) log).
