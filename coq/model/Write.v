(* Model of pkg/partition: iwrapper (iwrapper.go) and Service.Write (partition.go), of the write path of
   api/rpc.ServerIngestor.write, and of the read-back path (journal iterator -> LogEventIterator ->
   result event with the partition's tag line and Fields.AsKVString).  Also the specification the
   refinement theorem C01_readback is stated against, and the transition system of K concurrent
   writers (atomic step = one Journal.Write call).  Definitions only.

   Parameters (subjects of other properties, kept abstract here):
     fparse : field.NewFieldsFromKVString                      (C08)
     norm   : tindex.GetOrCreateJournal's identity of a partition: tags text -> canonical tag line
              of the partition, Err when the text is rejected    (C06)
     as_kv  : field.Fields.AsKVString                           (C08) *)
From LR Require Import lib.Base model.XBinary model.LogEvent model.Wire model.Journal.
Open Scope Z_scope.

(* ---------- iwrapper over a model.Iterator (a state machine serving LogEvents) ---------- *)
Section IWrapper.
Variable T : Type.
Variable lit_get : T -> T * outcome levent.
Variable lit_next : T -> T.

(* iwrapper.Get: its `read` flag is never set, so every call asks the wrapped iterator and marshals
   the event into a buffer of WritableSize() bytes *)
Definition iw_get (s : T) : T * outcome bytes :=
  match lit_get s with
  | (s', Ok e) => (s', Ok (marshal_into (writable_size e) e))
  | (s', Err) => (s', Err)
  | (s', Panic) => (s', Panic)
  | (s', OutOfFuel) => (s', OutOfFuel)
  end.
Definition iw_next (s : T) : T := lit_next s.

(* pos.Idx - uint32(n) *)
Definition u32_sub (a : N) (n : nat) : N := ((a + 4294967296 - (N.of_nat n mod 4294967296)) mod 4294967296)%N.

(* WriteEvent: StartPos, EndPos *)
Definition wevent := (jpos * jpos)%type.

(* Service.Write, the loop: for { n, pos, err1 := jrnl.Write(&iw); if n > 0 { ...StartPos = pos - n on the first
   round; EndPos = pos }; if err1 != nil { if n <= 0 { err = ... }; break }; if iw.Get() fails { break } }
   result: journal, iterator, write event (if any record was written), failed? *)
Fixpoint sw_loop (rounds fuel : nat) (cfg : jcfg) (j : journal) (s : T) (we : option wevent)
  : outcome (journal * T * option wevent * bool) :=
  match rounds with
  | O => OutOfFuel
  | S rd =>
      obind (journal_write T iw_get iw_next fuel cfg j s) (fun '(j', s', n, pos, e) =>
        let we' := if (0 <? n)%nat then
                     Some (match we with
                           | None => (fst pos, u32_sub (snd pos) n)
                           | Some (st, _) => st
                           end, pos)
                   else we in
        match e with
        | WNil =>
            match iw_get s' with
            | (s'', Ok _) => sw_loop rd fuel cfg j' s'' we'
            | (s'', Err) => Ok (j', s'', we', false)
            | (_, Panic) => Panic
            | (_, OutOfFuel) => OutOfFuel
            end
        | _ => Ok (j', s', we', (n <=? 0)%nat)
        end)
  end.
End IWrapper.

(* ---------- the two iterators that are handed to Service.Write ---------- *)
(* a plain slice of LogEvents (what a direct caller of Service.Write passes) *)
Definition ls_get (l : list levent) : list levent * outcome levent :=
  match l with
  | [] => (l, Err)
  | e :: _ => (l, Ok e)
  end.
Definition ls_next (l : list levent) : list levent := tl l.

(* ---------- the server: partitions by canonical tag line ---------- *)
Definition server := list (bytes * journal).

Fixpoint srv_get (s : server) (k : bytes) : journal :=
  match s with
  | [] => []
  | (k', j) :: tl => if bytes_eqb k' k then j else srv_get tl k
  end.
Fixpoint srv_set (s : server) (k : bytes) (j : journal) : server :=
  match s with
  | [] => [(k, j)]
  | (k', j') :: tl => if bytes_eqb k' k then (k', j) :: tl else (k', j') :: srv_set tl k j
  end.

(* one write request *)
Record wop := { w_tags : bytes; w_flds : bytes; w_evs : list api_event }.
(* its observable result: acknowledged (no error)?, the write event *)
Record wres := { r_ack : bool; r_we : option wevent }.

Section WithEnv.
Variable fparse : bytes -> outcome bytes.
Variable norm : bytes -> outcome bytes.
Variable as_kv : bytes -> bytes.

(* Service.Write(tags, it): GetOrCreateJournal(tags) fails => error, nothing written *)
Definition svc_write (T : Type) (g : T -> T * outcome levent) (nx : T -> T)
    (fuel : nat) (cfg : jcfg) (srv : server) (tags : bytes) (it : T) : outcome (server * wres) :=
  match norm tags with
  | Ok key =>
      obind (sw_loop T g nx fuel fuel cfg (srv_get srv key) it None) (fun '(j', _, we, failed) =>
        Ok (srv_set srv key j', {| r_ack := negb failed; r_we := we |}))
  | Err => Ok (srv, {| r_ack := false; r_we := None |})
  | Panic => Panic
  | OutOfFuel => OutOfFuel
  end.

(* ServerIngestor.write: wpIterator.init(body); on success Journals.Write(wpi.tags, &wpi) *)
Definition ingest (fuel : nat) (cfg : jcfg) (srv : server) (body : bytes) : outcome (server * wres) :=
  match wp_init fparse body with
  | Ok (tags, it) => svc_write wpit (wp_get fparse) wp_next fuel cfg srv tags it
  | Err => Ok (srv, {| r_ack := false; r_we := None |})
  | Panic => Panic
  | OutOfFuel => OutOfFuel
  end.

(* a client Write over RPC: clntIngestor.Write encodes the packet, the server ingests it *)
Definition rpc_write (fuel : nat) (cfg : jcfg) (srv : server) (op : wop) : outcome (server * wres) :=
  ingest fuel cfg srv (encode_wp (w_tags op) (w_flds op) (w_evs op)).

(* a direct call of partition.Service.Write with a slice of LogEvents *)
Definition direct_write (fuel : nat) (cfg : jcfg) (srv : server) (tags : bytes) (evs : list levent) : outcome (server * wres) :=
  svc_write (list levent) ls_get ls_next fuel cfg srv tags evs.

(* a history of write requests *)
Inductive req := RpcW (op : wop) | DirW (tags : bytes) (evs : list levent) | RawW (body : bytes).

Definition do_req (fuel : nat) (cfg : jcfg) (srv : server) (r : req) : outcome (server * wres) :=
  match r with
  | RpcW op => rpc_write fuel cfg srv op
  | DirW tags evs => direct_write fuel cfg srv tags evs
  | RawW body => ingest fuel cfg srv body
  end.

Fixpoint run (fuel : nat) (cfg : jcfg) (srv : server) (rs : list req) : outcome (server * list wres) :=
  match rs with
  | [] => Ok (srv, [])
  | r :: tl =>
      obind (do_req fuel cfg srv r) (fun '(srv', res) =>
      obind (run fuel cfg srv' tl) (fun '(srv'', l) => Ok (srv'', res :: l)))
  end.

(* ---------- reading a partition back ---------- *)
(* result event as the queriers build it: timestamp, message, the partition's tag line, fields as kv text *)
Record revent := { rv_ts : Z; rv_msg : bytes; rv_tags : bytes; rv_flds : bytes }.
Definition revent_eqb (a b : revent) : bool :=
  Z.eqb (rv_ts a) (rv_ts b) && bytes_eqb (rv_msg a) (rv_msg b) && bytes_eqb (rv_tags a) (rv_tags b) &&
  bytes_eqb (rv_flds a) (rv_flds b).

Definition to_revent (key : bytes) (e : levent) : revent :=
  {| rv_ts := le_ts e; rv_msg := le_msg e; rv_tags := key; rv_flds := as_kv (le_flds e) |}.

(* unfiltered forward read of the whole partition [key] (after the flush) *)
Definition read_back (cfg : jcfg) (srv : server) (key : bytes) : outcome (list revent) :=
  obind (read_records cfg (flat (srv_get srv key))) (fun recs =>
  obind (lei_read le_zero recs) (fun les => Ok (map (to_revent key) les))).

(* ---------- the specification: a partition is the list of its acknowledged events ---------- *)
Definition in_int64 (z : Z) : Prop := -9223372036854775808 <= z < 9223372036854775808.

(* the LogEvent a request's event denotes: write-level fields ++ the event's own fields *)
Definition spec_levent (wf : bytes) (e : api_event) : levent :=
  {| le_ts := ae_ts e; le_msg := ae_msg e; le_flds := wf ++ field_parse fparse (ae_flds e) |}.

(* the events a request adds to partition [key] when it is acknowledged *)
Definition spec_req (key : bytes) (r : req) : list levent :=
  match r with
  | RpcW op =>
      match fparse (w_flds op), norm (w_tags op) with
      | Ok wf, Ok k => if bytes_eqb k key then map (spec_levent wf) (w_evs op) else []
      | _, _ => []
      end
  | DirW tags evs =>
      match norm tags with
      | Ok k => if bytes_eqb k key then evs else []
      | _ => []
      end
  | RawW _ => []
  end.
Definition spec_content (key : bytes) (rs : list req) : list revent :=
  map (to_revent key) (concat (map (spec_req key) rs)).

(* which requests the specification expects to be acknowledged *)
Definition spec_ack (r : req) : bool :=
  match r with
  | RpcW op => match fparse (w_flds op), norm (w_tags op) with Ok _, Ok _ => true | _, _ => false end
  | DirW tags _ => match norm tags with Ok _ => true | _ => false end
  | RawW _ => false
  end.

End WithEnv.

(* ---------- K concurrent writers on one journal ---------- *)
(* Every writer runs Service.Write's loop on its own slice of events; one atomic step of writer w is
   one iteration of that loop: one jrnl.Write call (the chunk writer's lock) followed by the writer's
   private iw.Get.  [log] is a ghost: which writer appended which record, in journal order. *)
Record writer := { wr_it : list levent; wr_done : bool; wr_failed : bool }.
Record cstate := { cs_j : journal; cs_ws : list writer; cs_log : list (nat * bytes) }.

Definition set_nth {A : Type} (n : nat) (x : A) (l : list A) : list A := firstn n l ++ x :: skipn (S n) l.

Definition cstep (fuel : nat) (cfg : jcfg) (st : cstate) (w : nat) : outcome cstate :=
  match nth_error (cs_ws st) w with
  | None => Ok st
  | Some wr =>
      if wr_done wr then Ok st else
      obind (journal_write (list levent) (iw_get (list levent) ls_get) (iw_next (list levent) ls_next) fuel cfg (cs_j st) (wr_it wr))
        (fun '(j', it', n, _, e) =>
          let newrecs := skipn (length (flat (cs_j st))) (flat j') in
          let log' := cs_log st ++ map (fun r => (w, r)) newrecs in
          let fin := match e with
                     | WNil => match ls_get it' with (_, Ok _) => false | _ => true end
                     | _ => true
                     end in
          let failed := match e with WNil => false | _ => (n <=? 0)%nat end in
          Ok {| cs_j := j'; cs_ws := set_nth w {| wr_it := it'; wr_done := fin; wr_failed := failed |} (cs_ws st); cs_log := log' |})
  end.

Fixpoint crun (fuel : nat) (cfg : jcfg) (st : cstate) (sched : list nat) : outcome cstate :=
  match sched with
  | [] => Ok st
  | w :: tl => obind (cstep fuel cfg st w) (fun st' => crun fuel cfg st' tl)
  end.

Definition cinit (j : journal) (batches : list (list levent)) : cstate :=
  {| cs_j := j; cs_ws := map (fun b => {| wr_it := b; wr_done := false; wr_failed := false |}) batches; cs_log := [] |}.

(* the records writer w has appended so far, in journal order *)
Definition written_by (w : nat) (log : list (nat * bytes)) : list bytes :=
  map snd (filter (fun p => Nat.eqb (fst p) w) log).
