(* Model of the write path that feeds the time index (pkg/partition/iwrapper.go min/max,
   partition.go Service.Write + onWriteCIndex, tmirebuilder.go as a request queue) and of the
   range read path (cselector.go updatePoss / checkPosOrAdvance / getPosForward, jiterator.go,
   pkg/cursor/cursor.go open bounds, fiterator.go), for ONE partition.

   A `variant` selects between the code as it was before the four C02 repairs and the code as it is:
     fix_lb   : chkSelector.updatePoss asks the index for t1-1 (guarding MinInt64) instead of t1
     fix_zero : iwrapper / rebuildIndexInt do not treat timestamp 0 as "unset"
     fix_open : an omitted lower RANGE bound means MinInt64 instead of 0
     fix_partial : an info that cindex.onWrite creates for a chunk that already had records is marked HullPartial
                (reported with an unlimited time range until the rebuild has scanned the chunk; CIndex.k_partial)
   All four repairs are in /repo, so `impl_variant`, the one the correspondence check compares the
   implementation with and the theorems of props/C02.v are about, is `fixed_variant`. The variants with a
   flag switched off describe the code before the corresponding repair; they are kept for the theorems
   that say what each repair bought (props/C02.v, `..._without_..._repair_refuted`).
   Definitions only; lemmas are in proofs/SelectorP.v. *)
From LR Require Import lib.Base model.TmTree model.CIndex.
Open Scope Z_scope.

Record variant := mkvariant { fix_lb : bool; fix_zero : bool; fix_open : bool; fix_partial : bool }.
(* /repo before the repairs C02-lower-bound, C02-zero-unset, C02-open-lower-bound *)
Definition unrepaired_variant : variant := mkvariant false false false false.
Definition fixed_variant : variant := mkvariant true true true true.
(* >>> the variant the implementation in /repo is <<< *)
Definition impl_variant : variant := fixed_variant.

(* ---- iwrapper.Get: running min/max of the timestamps handed to the journal during one Service.Write ---- *)
Record iw_state := mkiw { iw_min : Z; iw_max : Z; iw_set : bool }.
Definition iw_init : iw_state := mkiw 0 0 false.
Definition iw_get (fz : bool) (s : iw_state) (ts : Z) : iw_state :=
  if fz then
    if iw_set s then mkiw (Z.min (iw_min s) ts) (Z.max (iw_max s) ts) true else mkiw ts ts true
  else
    mkiw (if (ts <? iw_min s) || (iw_min s =? 0) then ts else iw_min s)
         (if (iw_max s <? ts) || (iw_max s =? 0) then ts else iw_max s) true.

(* ---- the partition: chunks (id, timestamps of the records in stored order), its cindex, and the
        chunk ids queued at the index rebuilder ---- *)
Record pstate := mkp { p_chunks : list (Z * list Z); p_ci : cindex; p_queue : list Z }.
Definition p_init : pstate := mkp [] [] [].

Fixpoint chunk_data (cks : list (Z * list Z)) (cid : Z) : list Z :=
  match cks with
  | [] => []
  | (c, d) :: tl => if c =? cid then d else chunk_data tl cid
  end.
Fixpoint has_chunk (cks : list (Z * list Z)) (cid : Z) : bool :=
  match cks with [] => false | (c, _) :: tl => (c =? cid) || has_chunk tl cid end.
Fixpoint append_data (cks : list (Z * list Z)) (cid : Z) (tss : list Z) : list (Z * list Z) :=
  match cks with
  | [] => [(cid, tss)]
  | (c, d) :: tl => if c =? cid then (c, d ++ tss) :: tl else (c, d) :: append_data tl cid tss
  end.
Definition enqueue (q : list Z) (cid : Z) : list Z := if existsb (Z.eqb cid) q then q else q ++ [cid].

(* one jrnl.Write of a Service.Write call: the records that went into chunk `cid`, and whether the
   TryLock of cindex.onWrite failed *)
Record seg := mkseg { sg_cid : Z; sg_skip : bool; sg_ts : list Z }.

(* Service.Write loop: per journal write, extend the running min/max, then onWriteCIndex *)
Fixpoint run_segs (v : variant) (st : pstate) (iw : iw_state) (segs : list seg) : pstate :=
  match segs with
  | [] => st
  | sg :: tl =>
      match sg_ts sg with
      | [] => run_segs v st iw tl
      | _ =>
          let iw' := fold_left (iw_get (fix_zero v)) (sg_ts sg) iw in
          let first := Z.of_nat (length (chunk_data (p_chunks st) (sg_cid sg))) in
          let lastr := first + Z.of_nat (length (sg_ts sg)) - 1 in
          let '(ci', res) := ci_on_write (fix_partial v) (sg_skip sg) (p_ci st) first lastr (sg_cid sg) (iw_min iw') (iw_max iw') in
          let q' := match res with WCorrupted => enqueue (p_queue st) (sg_cid sg) | WOk => p_queue st end in
          run_segs v (mkp (append_data (p_chunks st) (sg_cid sg) (sg_ts sg)) ci' q') iw' tl
      end
  end.

(* ---- chkSelector ---- *)
Record chk_status := mkst { s_min : Z; s_max : Z; s_cnt : Z }.

(* updatePoss for the chunk whose RecordsInfo is (cid, mn, mx); returns the window and whether
   RebuildIndex was requested *)
Definition update_poss (v : variant) (ci : cindex) (t1 t2 : Z) (cid mn mx cnt : Z) : chk_status * bool :=
  if (t2 <? mn) || (mx <? t1) then (mkst max_uint32 max_uint32 cnt, false)
  else
    let '(lo, rb1) :=
      if mn <=? t1 then
        let a := if fix_lb v then (if t1 =? min_int64 then PPos 0 else pos_ge ci cid (t1 - 1)) else pos_ge ci cid t1 in
        match a with PPos p => (p, false) | _ => (0, true) end
      else (0, false) in
    let '(hi, rb2) :=
      if t2 <=? mx then
        match pos_lt ci cid t2 with PPos p => (p, false) | _ => (max_uint32, true) end
      else (max_uint32, false) in
    (mkst lo hi cnt, rb1 || rb2).

(* checkPosOrAdvance *)
Definition check_pos_or_advance (st : chk_status) (pos : Z) : Z * bool :=
  let pos := if pos <? s_min st then s_min st else pos in
  if (s_cnt st <=? pos) || (s_max st <? pos) then (s_cnt st, false) else (pos, true).

(* the records a forward JIterator delivers from one chunk when it enters it at position 0: it starts
   at the adjusted position np and steps while pos <= maxPos (Next's window test) and pos < count
   (EOF of the chunk iterator), i.e. exactly the positions np <= pos <= maxPos of the chunk *)
Fixpoint number_from {A} (i : Z) (l : list A) : list (Z * A) :=
  match l with [] => [] | x :: tl => (i, x) :: number_from (i + 1) tl end.
Definition jit_chunk (st : chk_status) (data : list Z) : list (Z * Z) :=
  let '(np, ok) := check_pos_or_advance st 0 in
  if ok then filter (fun pt => (np <=? fst pt) && (fst pt <=? s_max st)) (number_from 0 data) else [].

(* effective bounds of `RANGE [o1:o2]` (cursor.newCursor) *)
Definition eff_t1 (v : variant) (o1 : option Z) : Z := match o1 with Some t => t | None => if fix_open v then min_int64 else 0 end.
Definition eff_t2 (o2 : option Z) : Z := match o2 with Some t => t | None => max_int64 end.
Definition fit_in_range (t1 t2 ts : Z) : bool := (t1 <=? ts) && (ts <=? t2).      (* fiterator.fitInRange *)

(* a delivered event: (chunk id, position, timestamp) *)
Definition ev := (Z * Z * Z)%type.
Definition tag_chunk (cid : Z) (l : list (Z * Z)) : list ev := map (fun pt => (cid, fst pt, snd pt)) l.

(* a fresh forward range iterator read to the end: SyncChunks, a window per chunk, the walk, the filter.
   Returns the delivered events and the state after (chunks made known by the sync, rebuilds requested) *)
Fixpoint read_chunks (v : variant) (ci : cindex) (t1 t2 : Z) (infos : cindex) (cks : list (Z * list Z)) (q : list Z)
  : list ev * list Z :=
  match infos, cks with
  | k :: itl, (cid, data) :: ctl =>
      let '(st, rb) := update_poss v ci t1 t2 (k_id k) (k_rmin k) (k_rmax k) (Z.of_nat (length data)) in
      let q' := if rb then enqueue q cid else q in
      let '(evs, q'') := read_chunks v ci t1 t2 itl ctl q' in
      (tag_chunk cid (filter (fun pt => fit_in_range t1 t2 (snd pt)) (jit_chunk st data)) ++ evs, q'')
  | _, _ => ([], q)
  end.

Definition range_read (v : variant) (st : pstate) (o1 o2 : option Z) : list ev * pstate :=
  let t1 := eff_t1 v o1 in
  let t2 := eff_t2 o2 in
  let ci' := ci_sync (p_ci st) (p_chunks st) in
  let '(evs, q') := read_chunks v ci' t1 t2 ci' (p_chunks st) (p_queue st) in
  (evs, mkp (p_chunks st) ci' q').

(* ---- a forward range read that starts from a SAVED POSITION (chunk id, record index): a query continued from
   NextQueryRequest.Pos (cursor.applyStatePos -> JIterator.SetPos -> chkSelector.getPosForward). The selector takes
   the first chunk whose id is not smaller than the position's; the record index counts only if that chunk IS the
   position's chunk - when the chunk was removed meanwhile (TRUNCATE) the position denotes the first record of the
   next existing chunk. `carry` = true describes a selector that takes the index over into that next chunk (refuted in
   props/C02.v); the code is carry = false. The windows are computed for every chunk of the journal (a fresh
   selector's rebuildChunkStatuses), so the effect on the index state is that of range_read. ---- *)
Definition jit_chunk_from (st : chk_status) (data : list Z) (idx : Z) : list (Z * Z) :=
  let '(np, ok) := check_pos_or_advance st idx in
  if ok then filter (fun pt => (np <=? fst pt) && (fst pt <=? s_max st)) (number_from 0 data) else [].
Fixpoint read_chunks_from (carry : bool) (v : variant) (ci : cindex) (t1 t2 : Z) (pc pi : Z) (started : bool)
  (infos : cindex) (cks : list (Z * list Z)) (q : list Z) : list ev * list Z :=
  match infos, cks with
  | k :: itl, (cid, data) :: ctl =>
      let '(st, rb) := update_poss v ci t1 t2 (k_id k) (k_rmin k) (k_rmax k) (Z.of_nat (length data)) in
      let q' := if rb then enqueue q cid else q in
      if negb started && (cid <? pc) then read_chunks_from carry v ci t1 t2 pc pi false itl ctl q'
      else
        let idx := if started then 0 else if carry || (cid =? pc) then pi else 0 in
        let '(evs, q'') := read_chunks_from carry v ci t1 t2 pc pi true itl ctl q' in
        (tag_chunk cid (filter (fun pt => fit_in_range t1 t2 (snd pt)) (jit_chunk_from st data idx)) ++ evs, q'')
  | _, _ => ([], q)
  end.
Definition range_read_from (carry : bool) (v : variant) (st : pstate) (pc pi : Z) (o1 o2 : option Z) : list ev * pstate :=
  let t1 := eff_t1 v o1 in
  let t2 := eff_t2 o2 in
  let ci' := ci_sync (p_ci st) (p_chunks st) in
  let '(evs, q') := read_chunks_from carry v ci' t1 t2 pc pi false ci' (p_chunks st) (p_queue st) in
  (evs, mkp (p_chunks st) ci' q').
(* TRUNCATE removes the k oldest chunks of the journal; the index learns about it at the next SyncChunks *)
Definition truncate (k : nat) (st : pstate) : pstate := mkp (skipn k (p_chunks st)) (p_ci st) (p_queue st).

(* the unbounded read of the same partition, and the property's filter *)
Definition read_all (st : pstate) : list ev :=
  flat_map (fun ck => tag_chunk (fst ck) (number_from 0 (snd ck))) (p_chunks st).
Definition in_range_opt (o1 o2 : option Z) (e : ev) : bool :=
  (match o1 with Some t => t <=? snd e | None => true end) && (match o2 with Some t => snd e <=? t | None => true end).

(* ---- histories ---- *)
Inductive op :=
| HBatch (segs : list seg)                 (* one Service.Write *)
| HServe                                   (* the rebuilder serves everything queued (RebuildIndex force=false) *)
| HSync                                    (* TsIndexer.SyncChunks with the journal's chunks *)
| HDrop                                    (* the cindex of the partition is lost (restart without cindex files) *)
| HRead (o1 o2 : option Z)                 (* a range query read to the end *)
| HRestart                                 (* clean shutdown and start: the index is saved and loaded, the rebuilder's queue is lost *)
| HDescribe.                               (* Service.GetParitionInfo: SyncChunks, then a (forced) rebuild request for every
                                              chunk whose index cannot be counted *)

Definition serve (v : variant) (st : pstate) : pstate :=
  mkp (p_chunks st)
      (fold_left (fun ci cid => if has_chunk (p_chunks st) cid then ci_rebuild (fix_zero v) ci cid (chunk_data (p_chunks st) cid) else ci)
                 (p_queue st) (p_ci st))
      [].

(* the rebuilder serving the queue while the last records of some chunks are still in the chunk writer's buffer
   (Service.Write has returned and onWriteCIndex has accounted for them, the flush has not happened yet):
   rebuildIndexInt scans only the readable prefix, `seen` gives its length per chunk (a chunk not listed is
   scanned completely). serve = serve_seen with nothing listed (proofs/SelectorP.v serve_seen_nil). *)
Fixpoint seen_of (seen : list (Z * Z)) (cid : Z) (dflt : nat) : nat :=
  match seen with
  | [] => dflt
  | (c, n) :: tl => if c =? cid then Z.to_nat n else seen_of tl cid dflt
  end.
Definition serve_seen (v : variant) (st : pstate) (seen : list (Z * Z)) : pstate :=
  mkp (p_chunks st)
      (fold_left (fun ci cid => if has_chunk (p_chunks st) cid
                                then let d := chunk_data (p_chunks st) cid in
                                     ci_rebuild (fix_zero v) ci cid (firstn (seen_of seen cid (length d)) d)
                                else ci)
                 (p_queue st) (p_ci st))
      [].

Definition describe (st : pstate) : pstate :=
  let ci' := ci_sync (p_ci st) (p_chunks st) in
  mkp (p_chunks st) ci'
      (fold_left (fun q ck => match ci_read_data ci' (fst ck) with None => enqueue q (fst ck) | Some _ => q end)
                 (p_chunks st) (p_queue st)).

Definition step (v : variant) (st : pstate) (o : op) : pstate :=
  match o with
  | HBatch segs => run_segs v st iw_init segs
  | HServe => serve v st
  | HSync => mkp (p_chunks st) (ci_sync (p_ci st) (p_chunks st)) (p_queue st)
  | HDrop => mkp (p_chunks st) [] []
  | HRead o1 o2 => snd (range_read v st o1 o2)
  | HRestart => mkp (p_chunks st) (ci_restart (p_ci st)) []
  | HDescribe => describe st
  end.
Definition run (v : variant) (h : list op) : pstate := fold_left (step v) h p_init.

(* the property, as a statement about a variant of the model *)
Definition int64_ok (z : Z) : Prop := min_int64 <= z <= max_int64.
Definition seg_ok (sg : seg) : Prop := Forall int64_ok (sg_ts sg).
Definition op_ok (o : op) : Prop :=
  match o with
  | HBatch segs => Forall seg_ok segs
  | HRead o1 o2 => (forall t, o1 = Some t -> int64_ok t) /\ (forall t, o2 = Some t -> int64_ok t)
  | _ => True
  end.
Definition complete_at (v : variant) (st : pstate) (o1 o2 : option Z) : Prop :=
  fst (range_read v st o1 o2) = filter (in_range_opt o1 o2) (read_all st).

(* ---- a long-lived chkSelector: what a cached RANGE cursor that is continued across reads holds
        (cselector.go: cs.stats, getChunkStatus, rebuildChunkStatuses) ----
   The status of a chunk (window and the record count it was computed for) is cached per chunk id. It is
   recomputed for ALL chunks (after SyncChunks) when the chunk is not in the cache or the number of chunks
   differs from the number of cached statuses, and for THIS chunk (from GetRecordsInfo) when the chunk's
   record count differs from the cached one.
   `lazy` = true describes a refresh that is skipped when the cached upper position is not limited
   (maxPos = MaxUint32), which includes the "whole chunk out of range" window [MaxUint32..MaxUint32]; the
   code is `lazy = false`; the other variant is kept for the refutation in props/C02.v. *)
Definition sel_cache := list (Z * chk_status).
Fixpoint sel_find (sel : sel_cache) (cid : Z) : option chk_status :=
  match sel with
  | [] => None
  | (c, s) :: tl => if c =? cid then Some s else sel_find tl cid
  end.
Fixpoint sel_set (sel : sel_cache) (cid : Z) (s' : chk_status) : sel_cache :=
  match sel with
  | [] => []
  | (c, s) :: tl => if c =? cid then (c, s') :: tl else (c, s) :: sel_set tl cid s'
  end.

(* rebuildChunkStatuses, after SyncChunks: the i-th RecordsInfo with the i-th chunk *)
Fixpoint sel_statuses (v : variant) (ci : cindex) (t1 t2 : Z) (infos : cindex) (cks : list (Z * list Z)) (q : list Z)
  : sel_cache * list Z :=
  match infos, cks with
  | k :: itl, (cid, data) :: ctl =>
      let '(s, rb) := update_poss v ci t1 t2 (k_id k) (k_rmin k) (k_rmax k) (Z.of_nat (length data)) in
      let q' := if rb then enqueue q cid else q in
      let '(sel, q'') := sel_statuses v ci t1 t2 itl ctl q' in
      ((k_id k, s) :: sel, q'')
  | _, _ => ([], q)
  end.
Definition sel_rebuild (v : variant) (t1 t2 : Z) (st : pstate) : sel_cache * pstate :=
  let ci' := ci_sync (p_ci st) (p_chunks st) in
  let '(sel, q') := sel_statuses v ci' t1 t2 ci' (p_chunks st) (p_queue st) in
  (sel, mkp (p_chunks st) ci' q').

(* getChunkStatus for the chunk (cid, cnt records) *)
Definition get_chunk_status (lazy : bool) (v : variant) (t1 t2 : Z) (sel : sel_cache) (st : pstate) (cid cnt : Z)
  : sel_cache * pstate :=
  match sel_find sel cid with
  | None => sel_rebuild v t1 t2 st
  | Some s =>
      if negb (Nat.eqb (length (p_chunks st)) (length sel)) then sel_rebuild v t1 t2 st
      else if s_cnt s =? cnt then (sel, st)
      else if lazy && (s_max s =? max_uint32) then (sel_set sel cid (mkst (s_min s) (s_max s) cnt), st)
      else match find_chunk (p_ci st) cid with                 (* GetRecordsInfo *)
           | Some k =>
               let '(s', rb) := update_poss v (p_ci st) t1 t2 cid (k_rmin k) (k_rmax k) cnt in
               (sel_set sel cid s', mkp (p_chunks st) (p_ci st) (if rb then enqueue (p_queue st) cid else p_queue st))
           | None => (sel_set sel cid (mkst (s_min s) (s_max s) cnt), st)
           end
  end.

(* the selector asked for the status of every chunk of the journal, in journal order (what a read to the
   end from the first chunk does; the harness hook VC02Selector.Windows does exactly this) *)
Fixpoint sel_walk_from (lazy : bool) (v : variant) (t1 t2 : Z) (cks : list (Z * list Z)) (sel : sel_cache) (st : pstate)
  : sel_cache * pstate :=
  match cks with
  | [] => (sel, st)
  | (cid, data) :: tl =>
      let '(sel', st') := get_chunk_status lazy v t1 t2 sel st cid (Z.of_nat (length data)) in
      sel_walk_from lazy v t1 t2 tl sel' st'
  end.
Definition sel_walk (lazy : bool) (v : variant) (t1 t2 : Z) (sel : sel_cache) (st : pstate) : sel_cache * pstate :=
  sel_walk_from lazy v t1 t2 (p_chunks st) sel st.
Definition sel_windows (sel : sel_cache) (cks : list (Z * list Z)) : list (option chk_status) :=
  map (fun ck => sel_find sel (fst ck)) cks.
(* the windows a FRESH selector computes in the same state *)
Definition fresh_windows (v : variant) (t1 t2 : Z) (st : pstate) : list (option chk_status) :=
  sel_windows (fst (sel_walk false v t1 t2 [] st)) (p_chunks st).

(* one selector continued across reads: it is asked for all windows, then a sub-history happens, then it is
   asked again, ... ; the statement "at every read its windows are those of a fresh selector in that state" *)
Fixpoint session_ok (lazy : bool) (v : variant) (t1 t2 : Z) (st : pstate) (sel : sel_cache) (hs : list (list op)) : Prop :=
  let r := sel_walk lazy v t1 t2 sel st in
  sel_windows (fst r) (p_chunks st) = fresh_windows v t1 t2 st /\
  match hs with
  | [] => True
  | h :: tl => session_ok lazy v t1 t2 (fold_left (step v) h (snd r)) (fst r) tl
  end.

(* ---- the snapshot file cindex.dat and a CRASH (the process dies without close()) ----
   cindex.close() writes the infos to cindex.dat at a clean shutdown only; cindex.init() loads the file and REMOVES it,
   so while the server runs there is no snapshot on disk and a crash leaves none: the next start knows nothing (HDrop)
   and collects the information from the chunks again. `keep` = true describes an init() that leaves the loaded file in
   place (refuted in props/C02.v: after a clean restart, more writes and a crash, the stale snapshot is loaded again).
   The state is the partition's state and what cindex.dat holds. *)
Inductive lop := LOp (o : op) | LCrash.
Definition lstep (keep : bool) (v : variant) (s : pstate * option cindex) (o : lop) : pstate * option cindex :=
  let '(st, snap) := s in
  match o with
  | LOp HRestart => (step v st HRestart, if keep then Some (ci_restart (p_ci st)) else None)
  | LOp HDrop => (step v st HDrop, None)                       (* the index directory is lost altogether *)
  | LOp o' => (step v st o', snap)
  | LCrash => (mkp (p_chunks st) (match snap with Some c => c | None => [] end) [], snap)
  end.
Definition lrun (keep : bool) (v : variant) (ops : list lop) (s : pstate * option cindex) : pstate * option cindex :=
  fold_left (lstep keep v) ops s.
(* a crash seen as an operation of the histories of the theorems: the index is lost *)
Definition crash_as_drop (o : lop) : op := match o with LOp o' => o' | LCrash => HDrop end.
