(* The cursor over the mixer tree (pkg/cursor/cursor.go): fiterator (WHERE / RANGE filter with its
   one-event buffer), newCursor, applyPos, Offset with iterateToPos, the page loop of Querier.Query with
   the closing State()/collectPos, and the partition limit of Service.GetJournals.
   Loops whose termination is not structural (fiterator.Get, iterateToPos) take fuel; None = fuel exhausted
   (the Go loops forever). Definitions only. *)
From LR Require Import lib.Base model.Iter model.Mixer.
Open Scope Z_scope.

(* the filter of a query: accepted payload ids (None: no WHERE, everything passes) and the time range checked by
   fitInRange (without RANGE it is [MinTimestamp .. MaxTimestamp]) *)
Record flt := mkFlt { f_acc : option (list nat); f_min : Z; f_max : Z }.
Definition MinTimestamp : Z := -9223372036854775808.   (* model.MinTimestamp = math.MinInt64 *)
Definition MaxTimestamp : Z := 9223372036854775807.

Definition accepts (f : flt) (x : item) : bool :=
  (match f_acc f with None => true | Some ids => existsb (Nat.eqb (snd (fst x))) ids end)
  && (it_ts x >=? f_min f) && (it_ts x <=? f_max f).

(* crsr: `it` is the tree, wrapped into a fiterator (buffer le, flag valid) iff the query has WHERE or RANGE;
   n = len(jDescs) *)
Record cursor := mkCur { cu_tree : mtree; cu_flt : option flt; cu_le : option item; cu_valid : bool; cu_n : nat }.

Definition cu_with_tree (c : cursor) (t : mtree) : cursor := mkCur t (cu_flt c) (cu_le c) (cu_valid c) (cu_n c).

(* Next: fiterator.Next = it.Next, valid = false *)
Definition cu_next (c : cursor) : cursor :=
  mkCur (mx_next (cu_tree c)) (cu_flt c) (cu_le c) (match cu_flt c with Some _ => false | None => cu_valid c end) (cu_n c).

(* Get: fiterator.Get returns the buffered event while valid; otherwise it pulls from the tree and skips
   (in the current direction) until an accepted event or io.EOF *)
Fixpoint fi_get (fuel : nat) (f : flt) (c : cursor) : option (cursor * option item) :=
  if cu_valid c then Some (c, cu_le c)
  else match fuel with
       | O => None
       | S fl =>
           let '(t, r) := mx_get (cu_tree c) in
           match r with
           | None => Some (mkCur t (cu_flt c) None false (cu_n c), None)
           | Some x =>
               if accepts f x then Some (mkCur t (cu_flt c) (Some x) true (cu_n c), Some x)
               else fi_get fl f (cu_next (mkCur t (cu_flt c) (Some x) false (cu_n c)))
           end
       end.

Definition cu_get (fuel : nat) (c : cursor) : option (cursor * option item) :=
  match cu_flt c with
  | None => let '(t, r) := mx_get (cu_tree c) in Some (cu_with_tree c t, r)
  | Some f => fi_get fuel f c
  end.

Definition cu_release (c : cursor) : cursor := cu_with_tree c (mx_release (cu_tree c)).

(* The two places where the cursor code was repaired, as variant flags (true = the code as it stands):
   drop:   fiterator.SetBackward forwards the call and drops its one-event buffer (valid = false), so that the next Get
           goes through the tree again; false = the buffer and the valid flag stay (the code before the repair);
   settle: crsr.Offset starts (for offs <> 0) with a settling Get; false = it starts with Next at once. *)
Definition code_drops_buffer : bool := true.
Definition code_settles_offset : bool := true.

Definition cu_set_backward_v (drop : bool) (b : bool) (c : cursor) : cursor :=
  mkCur (mx_set_backward b (cu_tree c)) (cu_flt c) (cu_le c)
        (if drop then (match cu_flt c with Some _ => false | None => cu_valid c end) else cu_valid c) (cu_n c).
Definition cu_set_backward : bool -> cursor -> cursor := cu_set_backward_v code_drops_buffer.
Definition cu_current_pos (c : cursor) : option (Z * Z) := mx_current_pos (cu_tree c).

Definition pos_eqb (a b : option (Z * Z)) : bool :=
  match a, b with
  | Some (a1, a2), Some (b1, b2) => (a1 =? b1) && (a2 =? b2)
  | None, None => true
  | _, _ => false
  end.

(* iterateToPos: only for merged cursors and a known position; Get, compare CurrentPos, Next, forever *)
Fixpoint iterate_loop (fuel gfuel : nat) (c : cursor) (pos : option (Z * Z)) : option cursor :=
  match fuel with
  | O => None
  | S fl =>
      match cu_get gfuel c with
      | None => None
      | Some (c1, None) => Some c1
      | Some (c1, Some _) => if pos_eqb (cu_current_pos c1) pos then Some c1 else iterate_loop fl gfuel (cu_next c1) pos
      end
  end.
Definition iterate_to_pos (fuel : nat) (c : cursor) (pos : option (Z * Z)) : option cursor :=
  if (Nat.leb (cu_n c) 1) || (match pos with None => true | Some _ => false end) then Some c
  else iterate_loop fuel fuel c pos.

(* the loop `for offs > 0 { Next; offs--; Get; if err { pos = unknown; break }; pos = CurrentPos }` *)
Fixpoint offset_loop (fuel : nat) (k : nat) (c : cursor) (pos : option (Z * Z)) : option (cursor * option (Z * Z)) :=
  match k with
  | O => Some (c, pos)
  | S k' =>
      match cu_get fuel (cu_next c) with
      | None => None
      | Some (c1, None) => Some (c1, None)
      | Some (c1, Some _) => offset_loop fuel k' c1 (cu_current_pos c1)
      end
  end.

Definition cu_offset_v (settle drop : bool) (fuel : nat) (offs : Z) (c : cursor) : option cursor :=
  if offs =? 0 then Some c
  else
    (* the settling Get at the top of Offset: with a filter the tree may stand on an event the filter rejects *)
    match (if settle then option_map fst (cu_get fuel c) else Some c) with
    | None => None
    | Some c0 =>
        if offs >? 0 then option_map fst (offset_loop fuel (Z.to_nat offs) c0 None)
        else
          let k := Z.to_nat (- offs) in
          match cu_get fuel c0 with
          | None => None
          | Some (c1, r) =>
              let pos := cu_current_pos c1 in
              let c2 := cu_set_backward_v drop true c1 in
              let start :=
                match r with
                | None => match cu_get fuel c2 with
                          | None => None
                          | Some (c3, _) => Some (c3, cu_current_pos c3, Nat.pred k)
                          end
                | Some _ => match iterate_to_pos fuel c2 pos with
                            | None => None
                            | Some c3 => Some (c3, pos, k)
                            end
                end in
              match start with
              | None => None
              | Some (c3, pos3, k3) =>
                  match offset_loop fuel k3 c3 pos3 with
                  | None => None
                  | Some (c4, pos4) => iterate_to_pos fuel (cu_set_backward_v drop false c4) pos4
                  end
              end
          end
    end.
Definition cu_offset : nat -> Z -> cursor -> option cursor := cu_offset_v code_settles_offset code_drops_buffer.

(* ---- newCursor *)
Inductive posspec := PHead | PTail | PAt (l : list (nat * (Z * Z))).

Fixpoint lookup_pos (l : list (nat * (Z * Z))) (tag : nat) : option (Z * Z) :=
  match l with
  | [] => None
  | (t, p) :: tl => if Nat.eqb t tag then Some p else lookup_pos tl tag
  end.

Definition apply_pos (p : posspec) (t : mtree) : mtree :=
  match p with
  | PHead => mx_map_leaves (fun _ l => l_set_pos 0 0 l) t
  | PTail => mx_map_leaves (fun _ l => l_set_pos MaxU64 MaxU32 l) t
  | PAt m => mx_map_leaves (fun tag l => match lookup_pos m tag with Some (cid, idx) => l_set_pos cid idx l | None => l end) t
  end.

(* Service.GetJournals: the visit stops with an error as soon as the result holds more than maxLimit partitions
   (`len(res) > maxLimit` after adding the partition met): maxLimit partitions are served, maxLimit+1 and more refused *)
Fixpoint get_journals_f {A : Type} (maxl : nat) (visit acc : list A) : option (list A) :=
  match visit with
  | [] => Some acc
  | x :: tl => let acc1 := acc ++ [x] in
               if Nat.ltb maxl (length acc1) then None else get_journals_f maxl tl acc1
  end.
Definition get_journals {A : Type} (maxl : nat) (matching : list A) : option (list A) := get_journals_f maxl matching [].
(* the comparison before its repair: `len(res) == maxLimit` after adding the partition -- exactly maxLimit matching
   partitions were refused although the limit (and the error text) allow them *)
Fixpoint get_journals_f_eq {A : Type} (maxl : nat) (visit acc : list A) : option (list A) :=
  match visit with
  | [] => Some acc
  | x :: tl => let acc1 := acc ++ [x] in
               if Nat.eqb (length acc1) maxl then None else get_journals_f_eq maxl tl acc1
  end.
Definition get_journals_eq {A : Type} (maxl : nat) (matching : list A) : option (list A) := get_journals_f_eq maxl matching [].
Definition merge_limit : nat := 50.

(* the same visit when opening a partition's journal can fail (Journals.GetOrCreate returns an error: I/O fault, no file
   descriptors): the visitor records the error and stops the visit; GetJournals then releases what it collected and
   returns the error. `opens x = false`: the journal of x cannot be opened. *)
Fixpoint get_journals_of {A : Type} (opens : A -> bool) (maxl : nat) (visit acc : list A) : option (list A) :=
  match visit with
  | [] => Some acc
  | x :: tl => if opens x
               then let acc1 := acc ++ [x] in
                    if Nat.ltb maxl (length acc1) then None else get_journals_of opens maxl tl acc1
               else None
  end.
Definition get_journals_o {A : Type} (opens : A -> bool) (maxl : nat) (matching : list A) : option (list A) :=
  get_journals_of opens maxl matching [].

(* tindex Visit (inmem.go visitWaitingIfLocked) walks over a snapshot of the matching partitions taken at its start; a
   partition that was removed from the index after the snapshot (TRUNCATE dropped it, Delete) is skipped when the walk
   reaches it, the walk goes on with the next one. `removed x`: x is gone when the visit reaches it. *)
Definition get_journals_r {A : Type} (removed opens : A -> bool) (maxl : nat) (snapshot : list A) : option (list A) :=
  get_journals_o opens maxl (filter (fun x => negb (removed x)) snapshot).

(* srcs: the matching sources in the order newCursor's map iteration meets them *)
Definition new_cursor (srcs : list (nat * leaf)) (f : option flt) (p : posspec) : option cursor :=
  match get_journals merge_limit srcs with
  | None => None
  | Some l =>
      match build_tree (map (fun s => MLeaf (fst s) (snd s)) l) with
      | None => None                                  (* errNoSources *)
      | Some t => Some (mkCur (apply_pos p t) f None false (length l))
      end
  end.

(* newCursor when opening a source can fail: the error of GetJournals refuses the cursor *)
Definition new_cursor_o (opens : nat * leaf -> bool) (srcs : list (nat * leaf)) (f : option flt) (p : posspec) : option cursor :=
  match get_journals_o opens merge_limit srcs with
  | None => None
  | Some l =>
      match build_tree (map (fun s => MLeaf (fst s) (snd s)) l) with
      | None => None
      | Some t => Some (mkCur (apply_pos p t) f None false (length l))
      end
  end.

(* ---- Querier.Query: Offset, then up to `limit` times Get/Next; then State() (a settling Get, collectPos), Release *)
Fixpoint page_loop (fuel : nat) (limit : nat) (c : cursor) : option (cursor * list item) :=
  match limit with
  | O => Some (c, [])
  | S l' =>
      match cu_get fuel c with
      | None => None
      | Some (c1, None) => Some (c1, [])
      | Some (c1, Some x) =>
          match page_loop fuel l' (cu_next c1) with
          | None => None
          | Some (c2, xs) => Some (c2, x :: xs)
          end
      end
  end.

Definition positions (c : cursor) : list (nat * (Z * Z)) := map (fun tl => (fst tl, l_pos (snd tl))) (mx_leaves (cu_tree c)).

Definition query_v (settle drop : bool) (fuel : nat) (c : cursor) (offs : Z) (limit : nat) : option (cursor * list item * list (nat * (Z * Z))) :=
  match cu_offset_v settle drop fuel offs c with
  | None => None
  | Some c1 =>
      match page_loop fuel limit c1 with
      | None => None
      | Some (c2, xs) =>
          match cu_get fuel c2 with
          | None => None
          | Some (c3, _) => Some (cu_release c3, xs, positions c3)
          end
      end
  end.
Definition query : nat -> cursor -> Z -> nat -> option (cursor * list item * list (nat * (Z * Z))) :=
  query_v code_settles_offset code_drops_buffer.

(* ---- scripted runs of a cursor (the direct runs of the correspondence check, and the interleavings of C04) *)
Inductive cop := OGet | ONext | ORelease | OSetBackward (b : bool) | OOffset (k : Z) | OPos.
Inductive cobs := RItem (x : option item) | RPos (p : option (Z * Z)) | RUnit | RHang.

Fixpoint run_ops (fuel : nat) (c : cursor) (ops : list cop) : list cobs :=
  match ops with
  | [] => []
  | o :: tl =>
      match o with
      | OGet => match cu_get fuel c with
                | None => [RHang]
                | Some (c1, r) => RItem r :: run_ops fuel c1 tl
                end
      | ONext => RUnit :: run_ops fuel (cu_next c) tl
      | ORelease => RUnit :: run_ops fuel (cu_release c) tl
      | OSetBackward b => RUnit :: run_ops fuel (cu_set_backward b c) tl
      | OOffset k => match cu_offset fuel k c with
                     | None => [RHang]
                     | Some c1 => RUnit :: run_ops fuel c1 tl
                     end
      | OPos => RPos (cu_current_pos c) :: run_ops fuel c tl
      end
  end.
