(* Correspondence checker for C09: the model's Service.Truncate is run on the partition layout and the
   parameters the implementation was given; what the implementation reported (cmdTruncate lines), what
   became of every partition (chunk ids left / gone) and what parked readers were delivered afterwards
   are compared with the model's answers. *)
From LR Require Export lib.Base model.Truncate.
Open Scope N_scope.

(* one line of the TRUNCATE report: key, size after, size removed, records after, records removed,
   chunks, deleted *)
Definition line := (N * N * N * N * N * N * bool)%type.
Definition line_of (ti : info) : line :=
  (i_key ti, i_asize ti, usub (i_bsize ti) (i_asize ti), i_arecs ti, usub (i_brecs ti) (i_arecs ti), i_chunks ti, i_deleted ti).
Definition line_key (l : line) : N := let '(k, _, _, _, _, _, _) := l in k.
Definition line_eqb (a b : line) : bool :=
  let '(a1, a2, a3, a4, a5, a6, a7) := a in let '(b1, b2, b3, b4, b5, b6, b7) := b in
  (a1 =? b1) && (a2 =? b2) && (a3 =? b3) && (a4 =? b4) && (a5 =? b5) && (a6 =? b6) && Bool.eqb a7 b7.

(* the callback order depends on Go's map order for the partitions reported at once: compare sorted by key *)
Fixpoint ins_line (l : line) (ls : list line) : list line :=
  match ls with
  | [] => [l]
  | x :: tl => if line_key l <=? line_key x then l :: ls else x :: ins_line l tl
  end.
Definition sort_lines (ls : list line) : list line := fold_right ins_line [] ls.

(* what became of a partition: the ids of the chunks it still has, or gone *)
Inductive oslot := OKept (ids : list N) | OGone.
Definition oslot_of (s : slot) : oslot :=
  match s with Kept p => OKept (map c_id (p_chunks p)) | Dropped _ _ => OGone end.
Definition oslot_eqb (a b : oslot) : bool :=
  match a, b with
  | OKept x, OKept y => list_eqb N.eqb x y
  | OGone, OGone => true
  | _, _ => false
  end.

(* a reader parked at journal position (cid, idx) of partition number pi before the run, and the
   timestamps it was delivered afterwards *)
Definition parked := (nat * N * nat * list Z)%type.
Definition parked_ok (sl : list slot) (r : parked) : bool :=
  let '(pi, cid, idx, seen) := r in
  match nth_error sl pi with
  | Some (Kept p) => list_eqb Z.eqb (reader_next (p_chunks p) cid idx) seen
  | Some (Dropped _ _) => match seen with [] => true | _ => false end
  | None => false
  end.

Inductive case :=
| KTrunc (tp : tparams) (st : list part) (report : list line) (after : list oslot) (readers : list parked)
(* one partition, a writer appending the chunks w (flushed) when deleteJournal asks for the exclusive lock:
   fired = the writer ran (deleteJournal was reached), after = what became of the partition *)
| KRace (tp : tparams) (p : part) (w : list chunk) (fired : bool) (after : oslot)
(* a statement whose source condition the tag-condition builder refuses: answered = cmdTruncate returned a report
   instead of an error; after = what became of every partition *)
| KTruncRefused (tp : tparams) (st : list part) (answered : bool) (after : list oslot)
(* a statement of which only the report could be observed (the server fell over right after it) *)
| KTruncReport (tp : tparams) (st : list part) (report : list line)
(* after a start without the snapshot of the time index: the range SyncChunks reports for a chunk with these records *)
| KLightHull (ts : list Z) (mn mx : Z).

Definition check (c : case) : bool :=
  match c with
  | KTrunc tp st report after readers =>
      let '(sl, infos) := Truncate code_incl tp st in
      list_eqb line_eqb (sort_lines (map line_of infos)) report &&
      list_eqb oslot_eqb (map oslot_of sl) after &&
      forallb (parked_ok sl) readers
  | KRace tp p w fired after =>
      let '(s, f) := visit_one_w code_incl tp p (if fired then w else []) in
      Bool.eqb f fired && oslot_eqb (oslot_of s) after
  | KTruncRefused tp st answered after =>
      match TruncateStmt code_incl false tp st with
      | None => negb answered && list_eqb oslot_eqb (map (fun p => oslot_of (Kept p)) st) after
      | Some _ => false
      end
  | KTruncReport tp st report =>
      list_eqb line_eqb (sort_lines (map line_of (snd (Truncate code_incl tp st)))) report
  | KLightHull ts mn mx =>
      let h := light_hull code_lightfill_swaps_both ts in ((fst h =? mn) && (snd h =? mx))%Z
  end.

Definition mismatches (l : list case) : list nat := mismatches_of check l.
