(* Correspondence checker for C19: the model is run on the operation history the implementation
   executed; the implementation's observations are compared with the model's. *)
From LR Require Export lib.Base model.PipeReg.

Definition opt_pipe_eqb := option_eqb pipe_eqb.
Definition t3_eqb (a b : bytes * bytes * bytes) : bool :=
  let '(a1, a2, a3) := a in let '(b1, b2, b3) := b in bytes_eqb a1 b1 && bytes_eqb a2 b2 && bytes_eqb a3 b3.
Definition lst_eqb (a b : Z * Z * list bytes) : bool :=
  let '(a1, a2, a3) := a in let '(b1, b2, b3) := b in Z.eqb a1 b1 && Z.eqb a2 b2 && list_eqb bytes_eqb a3 b3.

Definition obs_eqb (a b : obs) : bool :=
  match a, b with
  | RBool x, RBool y => Bool.eqb x y
  | REnsure x, REnsure y => opt_pipe_eqb x y
  | RList x, RList y => option_eqb lst_eqb x y
  | RDescribe x, RDescribe y => option_eqb t3_eqb x y
  | RUnit, RUnit => true
  | _, _ => false
  end.

Inductive case :=
| KHist (ops : list op) (observed : list obs)
| KRace (k : nat) (successes : nat) (present_after : bool)
| KERace (k : nat) (successes : nat) (present_after : bool).   (* k concurrent ensure calls, one definition *)

(* a complete schedule for k racing creators: everybody checks, then everybody inserts *)
Definition full_sched (k : nat) : list nat := seq 0 k ++ seq 0 k.

Definition check (c : case) : bool :=
  match c with
  | KHist ops observed => list_eqb obs_eqb (snd (run (fun r => r) [] ops)) observed
  | KRace k succ pres =>
      let s := crun (full_sched k) {| c_present := false; c_pc := repeat 0 k |} in
      Nat.eqb (count_pc 2 s) succ && Bool.eqb (c_present s) pres
  | KERace k succ pres =>
      let s := erun true (efull_sched k) (einit k) in
      forallb epc_done (e_pc s) && Nat.eqb (count_ok s) succ && Bool.eqb (e_present s) pres
  end.

Definition mismatches (l : list case) : list nat := mismatches_of check l.
