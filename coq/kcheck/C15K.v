(* Correspondence checker for C15: the model (model/Provider.v over the pointer ring of
   model/CList.v, the variant of provider.go the theorems of props/C15.v are about: `code_variant`)
   is run on the step history the real cursor.Provider executed; after every step
   the result of the step and a snapshot (cached ids, per-cursor release count, net acquisitions
   per partition) are compared with what the implementation showed. *)
From LR Require Export lib.Base model.CList model.Provider.

Definition snap := (list N * list nat * list Z)%type.
Definition snapshot (np : nat) (s : prov) : snap := (cached_ids s, rel_counts s, acq_counts s np).

Definition res_eqb (a b : res) : bool :=
  match a, b with
  | RHit x, RHit y => Nat.eqb x y
  | RNew x, RNew y => Nat.eqb x y
  | RRefused, RRefused | RMiss, RMiss | RNewErr, RNewErr | REmpty, REmpty
  | RInserted, RInserted | RInsRefused, RInsRefused | RDone, RDone | RNone, RNone => true
  | RReleased i p, RReleased j q => N.eqb i j && pos_eqb p q
  | _, _ => false
  end.

Definition snap_eqb (a b : snap) : bool :=
  let '(a1, a2, a3) := a in let '(b1, b2, b3) := b in
  list_eqb N.eqb a1 b1 && list_eqb Nat.eqb a2 b2 && list_eqb Z.eqb a3 b3.

(* a step whose intermediate state the implementation cannot show (between newCursor and the
   insertion into the cache) carries no snapshot *)
Definition obs := (res * option snap)%type.
Definition obs_eqb (model : res * snap) (seen : obs) : bool :=
  res_eqb (fst model) (fst seen) &&
  match snd seen with None => true | Some sn => snap_eqb (snd model) sn end.

Fixpoint run_obs (np : nat) (s : prov) (ops : list op) : list (res * snap) * bool :=
  match ops with
  | [] => ([], false)
  | o :: t =>
    match step code_variant s o with
    | Ok (s', r) => let '(l, p) := run_obs np s' t in ((r, snapshot np s') :: l, p)
    | _ => ([], true)
    end
  end.

Fixpoint all2 {A B : Type} (f : A -> B -> bool) (a : list A) (b : list B) : bool :=
  match a, b with
  | [], [] => true
  | x :: a', y :: b' => f x y && all2 f a' b'
  | _, _ => false
  end.

Inductive case :=
| KScript (max : nat) (idle busyto : Z) (np : nat) (ops : list op) (observed : list obs) (panicked : bool)
          (disc : bool)   (* the harness's verdict on the client discipline (no id requested again while in flight, unless cached and busy): it tags the input distribution *)
| KStress.     (* concurrent stress run: oracle only, nothing to compare *)

Definition check (c : case) : bool :=
  match c with
  | KScript max idle busyto np ops observed panicked disc =>
      let '(l, p) := run_obs np (init max idle busyto) ops in
      all2 obs_eqb l observed && Bool.eqb p panicked && Bool.eqb (disciplined code_variant (init max idle busyto) ops) disc
  | KStress => true
  end.

Definition mismatches (l : list case) : list nat := mismatches_of check l.
