(* Correspondence checker for C15: the model (model/Provider.v over the pointer ring of
   model/CList.v, the variant of provider.go the theorems of props/C15.v are about: `code_variant`)
   is run on the step history the real cursor.Provider executed; after every step
   the result of the step and a snapshot (cached ids, per-cursor release count, net acquisitions
   per partition) are compared with what the implementation showed. *)
From LR Require Export lib.Base model.CList model.Provider model.Querier.

Definition snap := (list N * list nat * list Z)%type.
Definition snapshot (np : nat) (s : prov) : snap := (cached_ids s, rel_counts s, acq_counts s np).

Definition res_eqb (a b : res) : bool :=
  match a, b with
  | RHit x, RHit y => Nat.eqb x y
  | RNew x, RNew y => Nat.eqb x y
  | RRefused, RRefused | RMiss, RMiss | RNewErr, RNewErr | REmpty, REmpty
  | RInserted, RInserted | RInsRefused, RInsRefused | RDone, RDone | RNone, RNone => true
  | RReleased i p, RReleased j q => N.eqb i j && pos_eqb p q
  | _, _ => false
  end.

Definition snap_eqb (a b : snap) : bool :=
  let '(a1, a2, a3) := a in let '(b1, b2, b3) := b in
  list_eqb N.eqb a1 b1 && list_eqb Nat.eqb a2 b2 && list_eqb Z.eqb a3 b3.

(* a step whose intermediate state the implementation cannot show (between newCursor and the
   insertion into the cache) carries no snapshot *)
Definition obs := (res * option snap)%type.
Definition obs_eqb (model : res * snap) (seen : obs) : bool :=
  res_eqb (fst model) (fst seen) &&
  match snd seen with None => true | Some sn => snap_eqb (snd model) sn end.

Fixpoint run_obs (np : nat) (s : prov) (ops : list op) : list (res * snap) * bool :=
  match ops with
  | [] => ([], false)
  | o :: t =>
    match step code_variant s o with
    | Ok (s', r) => let '(l, p) := run_obs np s' t in ((r, snapshot np s') :: l, p)
    | _ => ([], true)
    end
  end.

Fixpoint all2 {A B : Type} (f : A -> B -> bool) (a : list A) (b : list B) : bool :=
  match a, b with
  | [], [] => true
  | x :: a', y :: b' => f x y && all2 f a' b'
  | _, _ => false
  end.

(* ---- end-to-end cases: request sequences through the real ServerQuerier / backend.Querier. The harness sees the calls
   the queriers make on the provider (GetOrCreate, Release, in the order the provider served them); the model runs the
   blocks of model/Querier.v. Compared: what GetOrCreate / Release answered, and after every call the cached ids and
   the net acquisitions per partition. ---- *)
Definition mkq (w l : Z) (i q : N) (qr : qres) (p : pos) (f : N) : qreq :=
  {| q_wait := w; q_limit := l; q_id := i; q_query := q; q_qr := qr; q_pos := p; q_fresh := f |}.

Definition esnap := (list N * list Z)%type.
Definition esnap_ok (np : nat) (s : prov) (o : option esnap) : bool :=
  match o with
  | None => true
  | Some (ids, acq) => list_eqb N.eqb (cached_ids s) ids && list_eqb Z.eqb (acq_counts s np) acq
  end.

Definition qout_eqb (a b : qout) : bool :=
  match a, b with
  | QoRejected, QoRejected | QoEmpty, QoEmpty | QoRefused, QoRefused | QoErr, QoErr => true
  | QoOk i, QoOk j => N.eqb i j
  | _, _ => false
  end.
Definition oqout_eqb (a b : option qout) : bool :=
  match a, b with
  | None, None => true
  | Some x, Some y => qout_eqb x y
  | _, _ => false
  end.

Inductive qitem :=
| QStart (r : nat) (early0 : bool) (rq : qreq) (over : option qout) (sn : option esnap)
    (* the request up to the return of GetOrCreate; over = Some: it was answered without getting a cursor *)
| QFinish (r : nat) (k : N) (e : read_end) (out : qout) (sn : option esnap)
    (* k records read, the loop ended normally or on a read fault, Release *)
| QOp (o : op) (sn : option esnap).                               (* OTick / OSweepTime / OSweepSize / OShutdown *)

(* the steps an item stands for: a request that is over at its start still makes a whole block (the rest does nothing) *)
Definition item_ops (it : qitem) : list op :=
  match it with
  | QStart r e rq over _ =>
    match gate e rq with
    | GRun c => start_ops r rq c ++ (match over with Some _ => finish_ops r 0 | None => [] end)
    | _ => []
    end
  | QFinish r k e _ _ => finish_ops_v false r k e
  | QOp o _ => [o]
  end.

Fixpoint run_q (np : nat) (s : prov) (items : list qitem) : bool :=
  match items with
  | [] => true
  | it :: l =>
    match steps code_variant s (item_ops it) with
    | Ok (s', rs) =>
      (match it with
       | QStart r e rq over _ =>
         match gate e rq with
         | GReject => oqout_eqb over (Some QoRejected)
         | GEmpty => oqout_eqb over (Some QoEmpty)
         | GRun _ => oqout_eqb (start_out (firstn 3 rs)) over
         end
       | QFinish _ _ _ out _ => qout_eqb (finish_out rs) out
       | QOp _ _ => true
       end)
      && esnap_ok np s' (match it with QStart _ _ _ _ sn | QFinish _ _ _ _ sn | QOp _ sn => sn end)
      && run_q np s' l
    | _ => false
    end
  end.

Inductive case :=
| KScript (max : nat) (idle busyto : Z) (np : nat) (ops : list op) (observed : list obs) (panicked : bool)
          (disc : bool)   (* the harness's verdict on the client discipline (no id requested again while in flight, unless cached and busy): it tags the input distribution *)
| KQuery (max : nat) (idle busyto : Z) (np : nat) (items : list qitem)
| KStress.     (* concurrent stress run: oracle only, nothing to compare *)

Definition check (c : case) : bool :=
  match c with
  | KScript max idle busyto np ops observed panicked disc =>
      let '(l, p) := run_obs np (init max idle busyto) ops in
      all2 obs_eqb l observed && Bool.eqb p panicked && Bool.eqb (disciplined code_variant (init max idle busyto) ops) disc
  | KQuery max idle busyto np items =>
      run_q np (init max idle busyto) items && paired (flat_map item_ops items)
  | KStress => true
  end.

Definition mismatches (l : list case) : list nat := mismatches_of check l.
