(* Correspondence checker for C16: the cursor model (Offset with iterateToPos, fiterator, mixer tree, both journal
   iterators with their chunk-edge position rules) is run on the stored layout, the source order the real cursor
   had, the filter, position, offset and limit of the request (or the operations of the script), and compared with
   the events and positions the implementation returned. *)
From LR Require Export lib.CursorK.

Definition case := CursorK.case.
Definition check := CursorK.check.
Definition mismatches (l : list case) : list nat := mismatches_of check l.
