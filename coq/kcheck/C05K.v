(* Correspondence checker for C05: the model (lexer, participle parser, closure builder, fiterator) is
   run on the text and events the implementation was run on; the observations are compared.
   Library functions the models are parameterised by are instantiated with the executable
   stand-ins of lib/GoStr.v (path.Match, unquote, ASCII case mapping) and, for parseLqlDateTime,
   with the table of values the harness sampled from the real function. *)
From LR Require Export lib.Base lib.GoStr model.LqlAst model.LqlLex model.LqlParse model.LqlEval.

Inductive wres := WTrue | WFalse | WPanic.
Inductive wobs := WParseErr | WBuildErr | WOk (rs : list wres).
Definition ev3 := (Z * bytes * bytes)%type.

Inductive case :=
| KWhere (text : bytes) (times : list (bytes * option Z)) (events : list ev3) (obs : wobs)
| KLex (text : bytes) (raw mapped : option (list (tokty * bytes)))
| KMatch (pat name : bytes) (res : option bool)
| KQuery (text : bytes) (times : list (bytes * option Z)) (stored : list ev3) (returned : option (list ev3))
(* SELECT FROM {p} RANGE [lo:hi] WHERE e: the filter iterator on the explicit range (newFIterator with a time range) *)
| KQueryRange (text : bytes) (times : list (bytes * option Z)) (stored : list ev3) (lo hi : Z) (returned : option (list ev3))
(* SELECT FROM {p} WHERE e POSITION tail OFFSET -n (n <= number of matching events): the cursor walks the filter
   iterator backward over n matching events and reads forward from there: the last n events of the filtered result *)
| KQueryTail (text : bytes) (times : list (bytes * option Z)) (stored : list ev3) (n : nat) (returned : option (list ev3))
(* the request carries Offset k >= 0 and Limit n: the cursor steps over k matching events and delivers at most n: events
   k .. k+n-1 of the filtered result *)
| KQuerySlice (text : bytes) (times : list (bytes * option Z)) (stored : list ev3) (k n : nat) (returned : option (list ev3)).

Definition wres_eqb (a b : wres) : bool :=
  match a, b with WTrue, WTrue | WFalse, WFalse | WPanic, WPanic => true | _, _ => false end.
Definition wobs_eqb (a b : wobs) : bool :=
  match a, b with
  | WParseErr, WParseErr | WBuildErr, WBuildErr => true
  | WOk x, WOk y => list_eqb wres_eqb x y
  | _, _ => false
  end.
Definition ev3_eqb (a b : ev3) : bool :=
  let '(t1, m1, f1) := a in let '(t2, m2, f2) := b in Z.eqb t1 t2 && bytes_eqb m1 m2 && bytes_eqb f1 f2.
Definition tk_eqb (a b : tokty * bytes) : bool := tokty_eqb (fst a) (fst b) && bytes_eqb (snd a) (snd b).

(* lql.ParseExpr: the empty text is "no expression"; None = error *)
Definition expr_of_text : bytes -> option (option expr) := parse_expr_text go_unquote.

Definition mk_build (times : list (bytes * option Z)) (e : option expr) : option wef :=
  build_where path_match ascii_upper ascii_lower (assoc_opt times) e.

Definition res_of (o : outcome bool) : wres :=
  match o with Ok true => WTrue | Ok false => WFalse | _ => WPanic end.
Definition to_event (e : ev3) : event := let '(t, m, f) := e in Event t m f.

Definition run_where (text : bytes) (times : list (bytes * option Z)) (events : list ev3) : wobs :=
  match expr_of_text text with
  | None => WParseErr
  | Some e =>
      match mk_build times e with
      | None => WBuildErr
      | Some w => WOk (map (fun e => res_of (call w (to_event e))) events)
      end
  end.


Definition run_query (text : bytes) (times : list (bytes * option Z)) (stored : list ev3) : option (list event) :=
  match expr_of_text text with
  | None => None
  | Some e =>
      match mk_build times e with
      | None => None
      | Some None => None
      | Some (Some f) =>
          (* SELECT ... WHERE e without RANGE: the filter iterator on the default range of newFIterator *)
          match fit_query f (map to_event stored) with
          | Ok l => Some l
          | _ => None
          end
      end
  end.

Definition run_query_range (text : bytes) (times : list (bytes * option Z)) (stored : list ev3) (lo hi : Z) : option (list event) :=
  match expr_of_text text with
  | None => None
  | Some e =>
      match mk_build times e with
      | Some (Some f) =>
          match fit_drain (S (List.length stored)) f lo hi (map to_event stored) with
          | Ok l => Some l
          | _ => None
          end
      | _ => None
      end
  end.
Definition lastn {A} (n : nat) (l : list A) : list A := skipn (List.length l - n) l.
Definition proj3 (o : option (list event)) : option (list ev3) := option_map (map (fun e => (ev_ts e, ev_msg e, ev_fields e))) o.

Definition toks_proj (o : option (list token)) : option (list (tokty * bytes)) :=
  option_map (map (fun t => (t_ty t, t_val t))) o.

Definition check (c : case) : bool :=
  match c with
  | KWhere text times events obs => wobs_eqb (run_where text times events) obs
  | KLex text raw mapped =>
      option_eqb (list_eqb tk_eqb) (toks_proj (lex text)) raw &&
      option_eqb (list_eqb tk_eqb) (toks_proj (tokenize go_unquote text)) mapped
  | KMatch pat name res => option_eqb Bool.eqb (path_match pat name) res
  | KQuery text times stored returned =>
      option_eqb (list_eqb ev3_eqb) (option_map (map (fun e => (ev_ts e, ev_msg e, ev_fields e))) (run_query text times stored)) returned
  | KQueryRange text times stored lo hi returned =>
      option_eqb (list_eqb ev3_eqb) (proj3 (run_query_range text times stored lo hi)) returned
  | KQueryTail text times stored n returned =>
      option_eqb (list_eqb ev3_eqb) (proj3 (option_map (lastn n) (run_query text times stored))) returned
  | KQuerySlice text times stored k n returned =>
      option_eqb (list_eqb ev3_eqb) (proj3 (option_map (fun l => firstn n (skipn k l)) (run_query text times stored))) returned
  end.

Definition mismatches (l : list case) : list nat := mismatches_of check l.
