(* Correspondence checker for C14: the model (model/TIndex.v, the same mstep_f the theorems are
   about) is advanced actor by actor exactly as the harness scheduler advanced the real
   tindex.Service / partition.Service; after every scheduler step the observation (where the
   actor parked, or that it is spinning) and the (src, tag, readers, exclusive) table of the live
   partitions read through the hook are compared with the model's state. *)
From LR Require Export lib.Base model.TIndex.

Inductive obs :=
| OSpin                               (* the call is in a retry loop (time.Sleep(1ms)) *)
| OPark (code : nat) (l : list nat)   (* 0 idle/returned; 1 holding l; 2 visitor callback for [x];
                                         3 deleteJournal's size check under the exclusive lock;
                                         4 truncateGlobally holding [x] *)
| OPanic
| OHalt
| OFuel.

Fixpoint insert_sorted (x : nat) (l : list nat) : list nat :=
  match l with [] => [x] | y :: t => if Nat.leb x y then x :: l else y :: insert_sorted x t end.
Definition sort_nat (l : list nat) : list nat := fold_right insert_sorted [] l.

Definition park_of (a : actor) : option obs :=
  match a_ctl a with
  | CIdle => Some (OPark 0 [])
  | CHold l => Some (OPark 1 (sort_nat l))
  | CCb x => Some (OPark 2 [x])
  | CDj x DjSize _ => Some (OPark 3 [x])
  | CGCb x => Some (OPark 4 [x])
  | _ => None
  end.

(* run actor i until it parks, spins, panics or has nothing left to do *)
Fixpoint advance (fuel : nat) (s : state) (i c : nat) : state * obs :=
  match fuel with
  | O => (s, OFuel)
  | S k =>
      let '(s', r) := mstep_f s i c in
      match r with
      | Spun => (s', OSpin)
      | Halted => (s', OHalt)
      | Moved =>
          if s_panic s' then (s', OPanic)
          else match nth_error (s_acts s') i with
               | Some a => match park_of a with Some o => (s', o) | None => advance k s' i c end
               | None => (s', OHalt)
               end
      end
  end.

Definition snap_row := (nat * nat * Z * bool)%type.
Fixpoint snap_from (p : nat) (ix : tix) : list snap_row :=
  match ix with
  | [] => []
  | td :: tl => if t_live td then (p, t_tag td, t_readers td, t_excl td) :: snap_from (S p) tl else snap_from (S p) tl
  end.
Definition snapshot (s : state) : list snap_row := snap_from 0 (s_ix s).

Definition row_eqb (a b : snap_row) : bool :=
  let '(p1, t1, r1, e1) := a in let '(p2, t2, r2, e2) := b in
  Nat.eqb p1 p2 && Nat.eqb t1 t2 && Z.eqb r1 r2 && Bool.eqb e1 e2.

Definition obs_eqb (a b : obs) : bool :=
  match a, b with
  | OSpin, OSpin | OPanic, OPanic | OHalt, OHalt => true
  | OPark c1 l1, OPark c2 l2 => Nat.eqb c1 c2 && list_eqb Nat.eqb l1 l2
  | _, _ => false
  end.

(* One observation: actor i ran until it parked / was seen spinning; hint = the partition the
   harness saw it arrive at (the Go map iteration order is resolved by the observation). *)
Inductive kev := KEv (i : nat) (hint : option nat) (o : obs).

(* One scheduler step: the resumed actor's observation first, then the observations of the actors
   that were spinning (each was made to pass the tindex lock once); then the table read through
   the hook (None after a panic: the service lock stays locked).  A "fused" group holds the
   observations of several actors resumed one after the other without a table read in between
   (Delete by the lock holder, then GetOrCreateJournal of writers), then the spinners: what the
   spinners did in the meantime commutes with those steps (they touch reader counts only, no
   exclusive flag), and every order of the later observations is tried anyway. *)
Definition group := (list kev * option (list snap_row))%type.

(* order-oracle values to try: the observed partition if there is one; for an actor observed
   spinning in a waiting visit, every element it has not reached yet (the harness cannot see
   which one it waits for); the model state is therefore a set of candidates *)
Definition choices (s : state) (i : nat) (hint : option nat) (o : obs) : list nat :=
  match hint with
  | Some c => [c]
  | None =>
      match o, nth_error (s_acts s) i with
      | OSpin, Some a =>
          match a_ctl a, p_skip (a_cur a), f_rest (a_f a) with
          | (CNext | CCb _), false, (_ :: _) as r => r
          | _, _, _ => [0]
          end
      | _, _ => [0]
      end
  end.

Definition snap_ok (sn : option (list snap_row)) (s : state) : bool :=
  match sn with None => true | Some l => list_eqb row_eqb (snapshot s) l end.

Definition ev_step (ev : kev) (s : state) : list state :=
  let '(KEv i hint o) := ev in
  flat_map (fun c => let '(s', o') := advance 200 s i c in
                     if obs_eqb o' o then [s'] else []) (choices s i hint o).

Definition run_evs (evs : list kev) (ss : list state) : list state :=
  fold_left (fun ss ev => flat_map (ev_step ev) ss) evs ss.

Fixpoint insert_all {A : Type} (x : A) (l : list A) : list (list A) :=
  match l with
  | [] => [[x]]
  | y :: t => (x :: l) :: map (cons y) (insert_all x t)
  end.
Fixpoint perms {A : Type} (l : list A) : list (list A) :=
  match l with
  | [] => [[]]
  | x :: t => flat_map (insert_all x) (perms t)
  end.

Fixpoint first_nonempty {A : Type} (l : list (list A)) : list A :=
  match l with
  | [] => []
  | [] :: t => first_nonempty t
  | r :: _ => r
  end.

(* The spinners released by one step run concurrently in the implementation: their relative
   order is not observable and does matter in one situation (GetJournal without create racing
   with a creating GetOrCreateJournal for the same tag line after a deletion), so every order of
   the spinners' observations is tried, the harness' order first. *)
Definition group_step (g : group) (ss : list state) : list state :=
  let '(evs, sn) := g in
  match evs with
  | [] => ss
  | e :: rest =>
      first_nonempty (map (fun order => filter (snap_ok sn) (run_evs (e :: order) ss)) (perms rest))
  end.

Fixpoint replay (ss : list state) (gs : list group) : bool :=
  match gs with
  | [] => match ss with [] => false | _ => true end
  | g :: tl => replay (group_step g ss) tl
  end.

(* pre partitions (tags 0..pre-1) exist and are unused when the actors start *)
Definition ix_pre (pre : nat) : tix :=
  map (fun t => {| t_tag := t; t_readers := 0; t_excl := false; t_live := true |}) (seq 0 pre).

(* ---- raw API histories (one caller, deliberately including misuse) against the op functions ---- *)
Inductive rop := OAcqT (tag : nat) (create : bool) | OAcqI (p : nat) (lock : bool) | ORel (p : nat)
               | OLock (p : nat) | OUnlock (p : nat) | ODel (p : nat).
Inductive rres := RGot (p : nat) | RNotFound | RWouldSpin | RBool (b : bool) | RUnit | RPanic | RDel (d : nat).

Definition rres_eqb (a b : rres) : bool :=
  match a, b with
  | RGot p, RGot q => Nat.eqb p q
  | RNotFound, RNotFound | RWouldSpin, RWouldSpin | RUnit, RUnit | RPanic, RPanic => true
  | RBool x, RBool y => Bool.eqb x y
  | RDel x, RDel y => Nat.eqb x y
  | _, _ => false
  end.

Definition of_ares (r : ares) : rres := match r with ASpin => RWouldSpin | AGot p => RGot p | ANotFound => RNotFound end.

Definition run_op (ix : tix) (o : rop) : tix * rres :=
  match o with
  | OAcqT t c => let '(ix', r) := acq_tags ix t c in (ix', of_ares r)
  | OAcqI p l => let '(ix', r) := acq_id ix p l in (ix', of_ares r)
  | ORel p => match release ix p with Some ix' => (ix', RUnit) | None => (ix, RPanic) end
  | OLock p => let '(ix', b) := lockx ix p in (ix', RBool b)
  | OUnlock p => match unlockx ix p with Some ix' => (ix', RUnit) | None => (ix, RPanic) end
  | ODel p => let '(ix', d) := delete ix p in (ix', RDel (match d with DOk => 0 | DNotFound => 1 | DWrongState => 2 end))
  end.

Fixpoint replay_ops (ix : tix) (l : list (rop * rres * list snap_row)) : bool :=
  match l with
  | [] => true
  | (o, r, sn) :: tl =>
      let '(ix', r') := run_op ix o in
      rres_eqb r' r && list_eqb row_eqb (snap_from 0 ix') sn && replay_ops ix' tl
  end.

(* ---- end-to-end sessions: the USERS of the index on a real server (cursor provider / newCursor /
   cursor close, partition.Service.Write, Truncate, DESCRIBE PARTITION, SHOW PARTITIONS), one client,
   operation after operation.  Every operation is one client procedure of the model, run by its own
   actor with the same mstep_f: to its end (hold = false: the actor is idle again), or, for a query
   whose cursor stays in the provider's cache, until it holds its partitions (hold = true: CHold;
   a later step (i, false) is the cursor's close).  The order-oracle value is irrelevant here (the
   table after the whole operation does not depend on the visiting order).  The table read
   through the hook after the operation is compared. ---- *)
Definition sess_done (hold : bool) (a : actor) : bool :=
  match a_ctl a, hold with
  | CHold _, true => true
  | CIdle, false => match a_prog a with [] => true | _ => false end
  | _, _ => false
  end.

Fixpoint run_to (fuel : nat) (s : state) (i : nat) (hold : bool) : option state :=
  match fuel with
  | O => None
  | S k =>
      let '(s', r) := mstep_f s i 0 in
      match r with
      | Moved =>
          if s_panic s' then None
          else match nth_error (s_acts s') i with
               | Some a => if sess_done hold a then Some s' else run_to k s' i hold
               | None => None
               end
      | _ => None     (* a retry or nothing to do: a single client never waits *)
      end
  end.

Definition sess_step := (nat * bool * option (list snap_row))%type.

Fixpoint replay_sess (s : state) (l : list sess_step) : bool :=
  match l with
  | [] => true
  | (i, hold, sn) :: tl =>
      match run_to 400 s i hold with
      | Some s' => snap_ok sn s' && replay_sess s' tl
      | None => false
      end
  end.

(* the table of a server on which all activity has stopped (C14_balanced: every count is zero and
   nothing is exclusive in a state where every actor has finished) *)
Definition quiet_row (r : snap_row) : bool := let '(_, _, rd, ex) := r in Z.eqb rd 0 && negb ex.

Inductive case :=
| KRun (pre : nat) (progs : list (list proc)) (evs : list group)
| KOps (pre : nat) (l : list (rop * rres * list snap_row))
| KSess (progs : list (list proc)) (l : list sess_step)
| KQuiet (rows : list snap_row).

Definition check (c : case) : bool :=
  match c with
  | KRun pre progs evs => replay [init (ix_pre pre) progs] evs
  | KOps pre l => replay_ops (ix_pre pre) l
  | KSess progs l => replay_sess (init [] progs) l
  | KQuiet rows => forallb quiet_row rows
  end.

Definition mismatches (l : list case) : list nat := mismatches_of check l.
