(* Correspondence checker for C12: lexer, parser and printers of the model against lql.ParseLql /
   ParseExpr / ParseSource and the String() printers, on the same texts. The value-level library
   functions (strconv.Quote, tag.Parse / Line, parseLqlDateTime, time.Time.String, humanize.ParseBytes)
   are instantiated with tables the harness sampled from the real functions for exactly the strings
   of the case; participle's unquote and path.Match with the executable stand-ins of lib/GoStr.v. *)
From LR Require Export lib.Base lib.GoStr model.LqlAst model.LqlLex model.LqlParse model.LqlPrint model.LqlEval.
From LR Require Export model.LqlTimeFmt.
From LR Require Import proofs.LqlParseP.
From LR Require Import proofs.LqlTimeFmtP.

Record env := Env {
  e_times : list (bytes * option Z);
  e_sizes : list (bytes * option N);
  e_tags : list (bytes * option tagset);
  e_lines : list (tagset * bytes);
  e_quotes : list (bytes * bytes);
  e_fmt : list (Z * bytes) }.

Fixpoint assoc_by {K V : Type} (eqb : K -> K -> bool) (tab : list (K * V)) (k : K) : option V :=
  match tab with
  | [] => None
  | (k', v) :: r => if eqb k k' then Some v else assoc_by eqb r k
  end.
Definition or_nil (o : option bytes) : bytes := match o with Some b => b | None => [] end.

Definition m_quote (e : env) (s : bytes) : bytes := or_nil (assoc (e_quotes e) s).
Definition m_line (e : env) (t : tagset) : bytes := or_nil (assoc_by tagset_eqb (e_lines e) t).
(* time points are printed by the model of DateTime.String() (model/LqlTimeFmt.v, the code's variant); the table
   e_fmt holds what the real DateTime.String() wrote (unquoted) for every time point of the case: fmt_ok compares *)
Definition m_fmt (e : env) (z : Z) : bytes := fmt_time z.
(* ... and what the real parseLqlDateTime made of that text (e_times has it when the printed statement lexes) is what
   the model of parseLqlDateTime makes of it (read_time: the function the time round-trip theorem is about) *)
Definition fmt_ok (e : env) : bool :=
  forallb (fun p => bytes_eqb (fmt_time (fst p)) (snd p) &&
                    match assoc (e_times e) (snd p) with
                    | Some r => option_eqb Z.eqb r (read_time (2026, 10, 1)%Z (snd p))
                    | None => true
                    end) (e_fmt e).
Definition m_tags (e : env) : bytes -> option tagset := assoc_opt (e_tags e).
Definition m_time (e : env) : bytes -> option Z := assoc_opt (e_times e).
Definition m_size (e : env) : bytes -> option N := assoc_opt (e_sizes e).

Definition parse_lql_text (e : env) : bytes -> option lql := LqlParse.parse_lql_text go_unquote (m_tags e) (m_time e) (m_size e).
Definition parse_expr_text : bytes -> option (option expr) := LqlParse.parse_expr_text go_unquote.
Definition parse_source_text (e : env) : bytes -> option (option source) := LqlParse.parse_source_text go_unquote (m_tags e).

Definition print_lql (e : env) (l : lql) : bytes := pr_lql (m_quote e) (m_line e) (m_fmt e) l.
Definition print_expr (e : env) (x : expr) : bytes := pr_expr (m_quote e) x.
Definition print_source (e : env) (s : source) : bytes := pr_source (m_quote e) (m_line e) s.

Inductive sobs := SErr | SOk (ast : lql) (printed : bytes) (re : option lql).
Inductive eobs := EErr | EOk (ast : expr) (printed : bytes) (re : option expr).
Inductive srobs := RSErr | RSOk (ast : source) (printed : bytes) (re : option source).
Inductive wres := WTrue | WFalse | WPanic.
Definition ev3 := (Z * bytes * bytes)%type.
(* CREATE PIPE: the conditions stored (printed From / Where) and the pipe's two functions, built from the
   stored texts as newPPipe does, applied to sample tag sets / events; None = the function does not build *)
Inductive pobs := PErr | POk (tagscond fltcond : bytes) (src : option (list wres)) (flt : option (list wres)).

Inductive case :=
| KStmt (text : bytes) (e : env) (obs : sobs)
| KExpr (text : bytes) (e : env) (obs : eobs)
| KSource (text : bytes) (e : env) (obs : srobs)
| KQuote (s q : bytes)
| KUnq (raw : bytes) (res : option bytes)
| KInt (text : bytes) (parsed : option Z) (printed_from : option Z)
| KPipe (text : bytes) (e : env) (tagsets : list tagset) (events : list ev3) (obs : pobs).

Definition wres_eqb (a b : wres) : bool :=
  match a, b with WTrue, WTrue | WFalse, WFalse | WPanic, WPanic => true | _, _ => false end.
Definition res_of (o : outcome bool) : wres :=
  match o with Ok true => WTrue | Ok false => WFalse | _ => WPanic end.

Definition toks_eqb : list token -> list token -> bool := list_eqb token_eqb.

(* the token image of the statement printers (what the round-trip theorem is stated on) is what the real
   lexer makes of the real printed text; not compared when the text has a `{` and two `}` (the greedy Tags
   class then spans more than the tag set: a recorded finding) *)
Definition count_byte (n : N) (s : bytes) : nat := List.length (filter (is_byte n) s).
Definition image_ok (e : env) (a : lql) (p : bytes) : bool :=
  if Nat.ltb 0 (count_byte 123 p) && Nat.ltb 1 (count_byte 125 p) then true
  else match tokenize go_unquote p with
       | Some ts => toks_eqb ts (tk_lql (m_line e) (m_fmt e) a)
       | None => false
       end.

Definition check_stmt (text : bytes) (e : env) (obs : sobs) : bool :=
  match parse_lql_text e text, obs with
  | None, SErr => true
  | Some a, SOk a' p re =>
      lql_eqb a a' && bytes_eqb (print_lql e a) p && option_eqb lql_eqb (parse_lql_text e p) re && image_ok e a p && fmt_ok e
  | _, _ => false
  end.

(* for expressions additionally: the parsed tree is well-formed in the sense of the round-trip theorem
   and the real lexer run on the real printed text yields the token image the theorem is stated on *)
Definition check_expr (text : bytes) (e : env) (obs : eobs) : bool :=
  match parse_expr_text text, obs with
  | None, EErr => true
  | Some None, EErr => match text with [] => true | _ => false end
  | Some (Some a), EOk a' p re =>
      expr_eqb a a' && bytes_eqb (print_expr e a) p &&
      option_eqb expr_eqb (match parse_expr_text p with Some (Some x) => Some x | _ => None end) re &&
      wf_expr a &&
      match tokenize go_unquote p with Some ts => toks_eqb ts (tk_expr a) | None => false end
  | _, _ => false
  end.

Definition check_source (text : bytes) (e : env) (obs : srobs) : bool :=
  match parse_source_text e text, obs with
  | None, RSErr => true
  | Some None, RSErr => match text with [] => true | _ => false end
  | Some (Some a), RSOk a' p re =>
      source_eqb a a' && bytes_eqb (print_source e a) p &&
      option_eqb source_eqb (match parse_source_text e p with Some (Some x) => Some x | _ => None end) re
  | _, _ => false
  end.

(* strconv.Quote(s) = q: starts with a double quote, is one String token -- alone and with text behind it --
   and unquotes to s (the hypotheses quote_head, quote_lex, vq_cond of the byte-level theorems) *)
Definition check_quote (s q : bytes) : bool :=
  match lex q with
  | Some [t] => tokty_eqb (t_ty t) TString && bytes_eqb (t_val t) q &&
                option_eqb bytes_eqb (go_unquote q) (Some s) &&
                match q with b :: _ => byte_eqb b x22 | [] => false end &&
                match lex_one (q ++ [x20; x41; x22]) with
                | Some (Some TString, n) => Nat.eqb n (List.length q)
                | _ => false
                end
  | _ => false
  end.

Definition check_pipe (text : bytes) (e : env) (tagsets : list tagset) (events : list ev3) (obs : pobs) : bool :=
  match parse_lql_text e text with
  | Some (LCreate (Some p)) =>
      let '(tc, fc) := pipe_conds_text (m_quote e) (m_line e) p in
      let src :=
        match parse_source_text e tc with
        | Some s =>
            match build_tags path_match ascii_upper ascii_lower s with
            | Some w => Some (map (fun t => res_of (tcall w t)) tagsets)
            | None => None
            end
        | None => None
        end in
      let flt :=
        match parse_expr_text fc with
        | Some x =>
            match build_where path_match ascii_upper ascii_lower (m_time e) x with
            | Some w => Some (map (fun '(t, m, f) => res_of (call w (Event t m f))) events)
            | None => None
            end
        | None => None
        end in
      match obs with
      | POk tc' fc' src' flt' =>
          bytes_eqb tc tc' && bytes_eqb fc fc' &&
          option_eqb (list_eqb wres_eqb) src src' && option_eqb (list_eqb wres_eqb) flt flt'
      | PErr => false
      end
  | _ => match obs with PErr => true | _ => false end
  end.

Definition check (c : case) : bool :=
  match c with
  | KStmt text e obs => check_stmt text e obs
  | KExpr text e obs => check_expr text e obs
  | KSource text e obs => check_source text e obs
  | KQuote s q => check_quote s q
  | KUnq raw res => option_eqb bytes_eqb (go_unquote raw) res
  (* strconv.ParseInt(text, 0, 64) = parsed; and, if given, text = fmt.Sprintf(%d, z) *)
  | KInt text parsed z =>
      option_eqb Z.eqb (parse_int text) parsed &&
      match z with Some z => bytes_eqb (pr_Z z) text | None => true end
  | KPipe text e tagsets events obs => check_pipe text e tagsets events obs
  end.

Definition mismatches (l : list case) : list nat := mismatches_of check l.
