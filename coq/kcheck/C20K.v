(* Correspondence checker for C20: the model (terms substitution, layout scanner, regexp matcher,
   time.Parse, adjustYear/adjustDate, first-match, parseLqlDateTime) is run on the texts the real
   code parsed; the instants (and the index of the claiming format) are compared. *)
From LR Require Export lib.Base model.GoTime model.Regex model.DateFmt model.LqlTime gen.DateTables model.LineParse.
Open Scope Z_scope.

(* the two compiled lists (NewParser), computed once *)
Definition known_c : list (option cfmt) := Eval vm_compute in map (compile_with terms_table) known_formats.
Definition lql_c : list (option cfmt) := Eval vm_compute in map (compile_with terms_table) lql_formats.
Definition the_list (lst : nat) : list (option cfmt) := match lst with O => known_c | _ => lql_c end.
Definition the_formats (lst : nat) : list bytes := match lst with O => known_formats | _ => lql_formats end.

Definition zz_eqb (a b : Z * Z) : bool := Z.eqb (fst a) (fst b) && Z.eqb (snd a) (snd b).
Definition res_eqb (a b : nat * (Z * Z)) : bool := Nat.eqb (fst a) (fst b) && zz_eqb (snd a) (snd b).
Definition term_eqb (a b : bytes * bytes * bytes) : bool :=
  bytes_eqb (fst (fst a)) (fst (fst b)) && bytes_eqb (snd (fst a)) (snd (fst b)) && bytes_eqb (snd a) (snd b).

Inductive case :=
(* the tables the running code has are the tables the proofs were run on *)
| KTables (terms : list (bytes * bytes * bytes)) (known lql : list bytes)
(* NewParser on one format: layout, regexp source, flags *)
| KCompile (f layout regexp : bytes) (has_loc has_year no_date : bool)
(* text = the k-th format of list lst written for c (the harness's own reading of the tokens);
   parser.Parse over the whole list on text ++ trailing *)
| KSelf (lst k : nat) (c : civil) (now : Z * Z * Z) (text trailing : bytes) (obs : option (nat * (Z * Z)))
(* NewParser(f).Parse(text) *)
| KOne (f : bytes) (now : Z * Z * Z) (text : bytes) (obs : option (Z * Z))
(* parser.Parse over a whole list on an arbitrary text *)
| KAll (lst : nat) (now : Z * Z * Z) (text : bytes) (obs : option (nat * (Z * Z)))
(* parseLqlDateTime on an absolute or integer literal: the int64 nanoseconds, None = error *)
| KLql (now : Z * Z * Z) (lit : bytes) (obs : option Z)
(* the same, lit = the k-th LQL format written for c, possibly with blanks around *)
| KLqlSelf (k : nat) (c : civil) (now : Z * Z * Z) (lit : bytes) (obs : option Z)
(* a relative literal: time.Now() was in [lo, hi] (Unix nanoseconds) around the call that returned obs *)
| KRel (lit : bytes) (lo hi obs slack : Z)
(* a named constant (minute / hour / day / week, any case, blanks around): time.Now() was in [lo, hi] around the call that returned obs *)
| KConst (lit : bytes) (lo hi obs : Z)
(* date.NewDefaultParser(usr...): the user's formats are asked first, then the collector's list *)
| KUser (usr : list bytes) (now : Z * Z * Z) (text : bytes) (obs : option (nat * (Z * Z)))
(* a file of lines read through the collector's line parser (default format list): the date of every record, None = zero time *)
| KLines (now : Z * Z * Z) (lines : list bytes) (obs : list (option (Z * Z))).

Definition lql_obs_ok (r : lres) (obs : option Z) : bool :=
  match r, obs with
  | LAbs v, Some o => Z.eqb v o
  | LErr, None => true
  | _, _ => false
  end.

Definition check (c : case) : bool :=
  match c with
  | KTables terms known lql =>
      list_eqb term_eqb terms terms_table && list_eqb bytes_eqb known known_formats && list_eqb bytes_eqb lql lql_formats
  | KCompile f layout regexp hl hy nd =>
      bytes_eqb (date_map terms_table f) layout && bytes_eqb (format_regexp terms_table f) regexp &&
      match compile_with terms_table f with
      | Some cf => Bool.eqb (cf_has_loc cf) hl && Bool.eqb (cf_has_year cf) hy && Bool.eqb (cf_no_date cf) nd
      | None => false
      end
  | KSelf lst k c now text trailing obs =>
      option_eqb bytes_eqb (render terms_table (nth k (the_formats lst) []) c) (Some text) &&
      option_eqb res_eqb (parse_all now (the_list lst) (text ++ trailing)) obs
  | KOne f now text obs =>
      match compile_with terms_table f with
      | Some cf => option_eqb zz_eqb (parse_one now cf text) obs
      | None => false
      end
  | KAll lst now text obs => option_eqb res_eqb (parse_all now (the_list lst) text) obs
  | KLql now lit obs => lql_obs_ok (lql_parse now lql_c lit) obs
  | KLqlSelf k c now lit obs =>
      option_eqb bytes_eqb (render terms_table (nth k lql_formats []) c) (Some (trim_sp lit)) &&
      lql_obs_ok (lql_parse now lql_c lit) obs
  | KRel lit lo hi obs slack =>
      match lql_parse (0, 0, 0) lql_c lit with
      | LRel d => (lo - d - slack <=? obs) && (obs <=? hi - d + slack)
      | _ => false
      end
  | KConst lit lo hi obs =>
      match lql_parse (0, 0, 0) lql_c lit with
      | LConst k => (const_lo k lo <=? obs) && (obs <=? const_hi k hi)
      | _ => false
      end
  | KUser usr now text obs =>
      option_eqb res_eqb (parse_all now (map (compile_with terms_table) usr ++ known_c) text) obs
  | KLines now lines obs => list_eqb (option_eqb zz_eqb) (snd (lp_run now known_c lp_init lines)) obs
  end.

Definition mismatches (l : list case) : list nat := mismatches_of check l.
