(* Correspondence checker for C04: the cursor model is run on the sources (in the order newCursor met them),
   the operations / the query the implementation executed, and compared with the implementation's answers. *)
From LR Require Export lib.CursorK.

Definition case := CursorK.case.
Definition check := CursorK.check.
Definition mismatches (l : list case) : list nat := mismatches_of check l.
