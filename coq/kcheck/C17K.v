(* Correspondence checker for C17: the model (model/Scanner.v, model/LineReader.v) is run on the
   schedule the harness drove the real scanner through; the model's observations are compared with
   what the consumer, the sleep hooks and the storage saw.

   The harness can only schedule the worker from one blocking point to the next, so a K-level event
   is a short fixed sequence of model events (every one executed by Scanner.step):
   The model runs with the code's reader (LineReader.code_reader_loops: readLine returns at EOF), the variant
   the theorems of props/C17.v are about.
     KRun      the worker, released from a sleep, performs ReadSlice turns (ERead) until it sleeps again,
               offers an event (then the consumer receives it at once: ETake) or returns;
     KConfirm  EConfirm; if it was accepted ESetOff, and the worker runs on as in KRun;
     KStop     EStop; EExit; EPersist (the persister's last write);   KCrash   EStop; EExit;
     KStart    ERestart, and the new worker runs as in KRun;
     KSync     ESync, and a worker it started runs as in KRun. *)
From LR Require Export lib.Base model.LineReader model.Scanner.

Inductive kev :=
| KAppend (bs : bytes)
| KRun
| KConfirm
| KPersist
| KStop
| KCrash
| KStart
| KReplace (id : nat) (content : bytes)
| KSync.

Definition obs_eqb (a b : obs) : bool :=
  match a, b with
  | OHand x, OHand y => list_eqb bytes_eqb x y
  | OConf x, OConf y => Bool.eqb x y
  | OOffset x, OOffset y => Nat.eqb x y
  | OPersisted x1 x2, OPersisted y1 y2 => Nat.eqb x1 y1 && Nat.eqb x2 y2
  | ORestart x, ORestart y => Nat.eqb x y
  | OSleep x, OSleep y => Bool.eqb x y
  | OExit, OExit => true
  | OFresh x, OFresh y => Nat.eqb x y
  | OOther x, OOther y => Nat.eqb x y
  | _, _ => false
  end.

Section K.
Variable B rpe : nat.

(* the worker runs until it blocks; an offered event is received at once *)
Definition go (s : st) : st * list obs :=
  let '(s1, o1) := run_reads code_reader_loops B rpe (S (S (length (wfile s)))) s in
  match ph s1 with
  | PSend _ => let '(s2, o2) := step code_reader_loops B rpe s1 ETake in (s2, o1 ++ o2)
  | _ => (s1, o1)
  end.

Definition seq2 (r : st * list obs) (f : st -> st * list obs) : st * list obs :=
  let '(s1, o1) := r in let '(s2, o2) := f s1 in (s2, o1 ++ o2).

(* [down]: no scanner process exists *)
Definition kstep (x : bool * st) (k : kev) : (bool * st) * list obs :=
  let '(down, s) := x in
  let st1 := step code_reader_loops B rpe in
  let lift (dn : bool) (r : st * list obs) := ((dn, fst r), snd r) in
  match k with
  | KAppend bs => lift down (st1 s (EAppend bs))
  | KRun => if down then (x, []) else lift false (go s)
  | KConfirm =>
      let '(s1, o1) := st1 s EConfirm in
      match o1 with
      | [OConf true] => lift down (seq2 (seq2 (s1, o1) (fun t => st1 t ESetOff)) go)
      | _ => lift down (s1, o1)
      end
  | KPersist => if down then (x, []) else lift false (st1 s EPersist)
  | KStop => if down then (x, []) else
      lift true (seq2 (seq2 (st1 s EStop) (fun t => st1 t EExit)) (fun t => st1 t EPersist))
  | KCrash => if down then (x, []) else lift true (seq2 (st1 s EStop) (fun t => st1 t EExit))
  | KStart => if down then lift false (seq2 (st1 s ERestart) go) else (x, [])
  | KReplace id c => lift down (st1 s (EReplace id c))
  | KSync => if down then (x, []) else
      let '(s1, o1) := st1 s ESync in
      match o1 with
      | [OFresh _] => lift false (seq2 (s1, o1) go)
      | _ => lift false (s1, o1)
      end
  end.

Fixpoint krun (x : bool * st) (ks : list kev) : list obs :=
  match ks with
  | [] => []
  | k :: tl => let '(x1, o1) := kstep x k in o1 ++ krun x1 tl
  end.

End K.

(* the scanner has not run yet: no process, no saved state, the file holds [content] *)
Definition blank (content : bytes) : st :=
  mkSt content 0 [] false 0 [] 0 [] 0 PDone false false true (mkDesc 0 0 0) None.

Inductive case :=
| KCase (B rpe : nat) (content : bytes) (kevs : list kev) (observed : list obs).

Definition check (c : case) : bool :=
  match c with
  | KCase B rpe content kevs observed => list_eqb obs_eqb (krun (buf_size B) rpe (true, blank content) kevs) observed
  end.

Definition mismatches (l : list case) : list nat := mismatches_of check l.
