(* Correspondence checker for C17: the model (model/Scanner.v, model/LineReader.v) is run on the
   schedule the harness drove the real scanner through; the model's observations are compared with
   what the consumer, the sleep hooks and the storage saw.

   The harness can only schedule the worker from one blocking point to the next, so a K-level event
   is a short fixed sequence of model events (every one executed by Scanner.step):
   The model runs the variant Scanner.code, the one the theorems of props/C17.v are about.
     KRun      the worker, released from its sleep (EWake; it may return here), performs ReadSlice turns (ERead)
               until it sleeps again, offers an event (then the consumer receives it at once: ETake) or returns;
     KConfirm  EConfirm; if it was accepted ESetOff, and the worker runs on as in KRun;
     KCollect w  ECollect w (collector.Run's Write call and what follows); if the event was confirmed as KConfirm;
     KStop     EStop; EExit; EPersist (the persister's last write);   KCrash   EStop; EExit;
     KStart    ERestart, and the new worker runs as in KRun;
     KSync     ESync, and a worker it started runs as in KRun.  If that worker is for a NEW file identity and the
               worker of the file that was at the path is still running, the latter goes on as a second machine:
               the same state seen on the file it has open (Scanner.own_file) after EStopOnEof - i.e. one of the
               schedules the theorems quantify over (C17_drain) -, driven by
     KOldRun / KOldConfirm   as KRun / KConfirm.  (The new worker is in a start state: C17_rotate.) A stop, a crash
               or a later rotation ends it as far as the model is concerned (the harness leaves it blocked). *)
From LR Require Export lib.Base model.LineReader model.Scanner.

Inductive kev :=
| KAppend (bs : bytes)
| KRun
| KConfirm
| KPersist
| KStop
| KCrash
| KStart
| KReplace (id : nat) (content : bytes)
| KSync
| KOldRun              (* the worker of the rotated-away file is released from its sleep *)
| KOldConfirm          (* ... its event is confirmed *)
| KCollect (w : wres). (* collector.Run is the consumer: one Write call with this outcome *)

Definition obs_eqb (a b : obs) : bool :=
  match a, b with
  | OHand x, OHand y => list_eqb bytes_eqb x y
  | OConf x, OConf y => Bool.eqb x y
  | OOffset x, OOffset y => Nat.eqb x y
  | OPersisted x1 x2, OPersisted y1 y2 => Nat.eqb x1 y1 && Nat.eqb x2 y2
  | ORestart x, ORestart y => Nat.eqb x y
  | OSleep x, OSleep y => Bool.eqb x y
  | OExit, OExit => true
  | OWrite x, OWrite y => Bool.eqb x y
  | OFresh x, OFresh y => Nat.eqb x y
  | OOther x, OOther y => Nat.eqb x y
  | _, _ => false
  end.

Section K.
Variable B rpe : nat.

(* the worker runs until it blocks; an offered event is received at once *)
Definition go (s0 : st) : st * list obs :=
  let '(s, o0) := step code B rpe s0 EWake in
  let '(s1, o1) := run_reads code B rpe (S (S (length (wfile s)))) s in
  match ph s1 with
  | PSend _ => let '(s2, o2) := step code B rpe s1 ETake in (s2, o0 ++ o1 ++ o2)
  | _ => (s1, o0 ++ o1)
  end.

Definition seq2 (r : st * list obs) (f : st -> st * list obs) : st * list obs :=
  let '(s1, o1) := r in let '(s2, o2) := f s1 in (s2, o1 ++ o2).

Definition alive (s : st) : bool := match ph s with PDone => false | _ => true end.

(* [down]: no scanner process exists; [old]: the worker of a file that was rotated away, a machine of its own on
   the file it has open, told to stop at EOF *)
Record kst := mkK { k_down : bool; k_cur : st; k_old : option st }.

Definition confirm_then (r : st * list obs) : st * list obs :=
  let '(s1, o1) := r in
  if existsb (fun o => match o with OConf true => true | _ => false end) o1
  then seq2 (seq2 (s1, o1) (fun t => step code B rpe t ESetOff)) go
  else (s1, o1).

Definition kstep (x : kst) (k : kev) : kst * list obs :=
  let st1 := step code B rpe in
  let s := k_cur x in
  let cur (dn : bool) (r : st * list obs) := (mkK dn (fst r) (k_old x), snd r) in
  let gone (dn : bool) (r : st * list obs) := (mkK dn (fst r) None, snd r) in
  match k with
  | KAppend bs => cur (k_down x) (st1 s (EAppend bs))
  | KRun => if k_down x then (x, []) else cur false (go s)
  | KConfirm => cur (k_down x) (confirm_then (st1 s EConfirm))
  | KCollect w => if k_down x then (x, []) else cur false (confirm_then (st1 s (ECollect w)))
  | KPersist => if k_down x then (x, []) else cur false (st1 s EPersist)
  | KStop => if k_down x then (x, []) else
      gone true (seq2 (seq2 (st1 s EStop) (fun t => st1 t EExit)) (fun t => st1 t EPersist))
  | KCrash => if k_down x then (x, []) else gone true (seq2 (st1 s EStop) (fun t => st1 t EExit))
  | KStart => if k_down x then gone false (seq2 (st1 s ERestart) go) else (x, [])
  | KReplace id c => cur (k_down x) (st1 s (EReplace id c))
  | KSync => if k_down x then (x, []) else
      let '(s1, o1) := st1 s ESync in
      match o1 with
      | [OFresh _] =>
          let old' := if negb (Nat.eqb (d_id (dsc s)) (fid s)) && alive s
                      then Some (fst (st1 (own_file s) EStopOnEof)) else k_old x in
          let r := seq2 (s1, o1) go in (mkK false (fst r) old', snd r)
      | _ => cur false (s1, o1)
      end
  | KOldRun =>
      match k_old x with
      | Some t => if k_down x then (x, []) else let r := go t in (mkK false s (Some (fst r)), snd r)
      | None => (x, [])
      end
  | KOldConfirm =>
      match k_old x with
      | Some t => if k_down x then (x, []) else let r := confirm_then (st1 t EConfirm) in (mkK false s (Some (fst r)), snd r)
      | None => (x, [OConf false])
      end
  end.

Fixpoint krun (x : kst) (ks : list kev) : list obs :=
  match ks with
  | [] => []
  | k :: tl => let '(x1, o1) := kstep x k in o1 ++ krun x1 tl
  end.

End K.

(* the scanner has not run yet: no process, no saved state, the file holds [content] *)
Definition blank (content : bytes) : st :=
  mkSt content 0 [] false 0 [] 0 [] 0 PDone false false false true (mkDesc 0 0 0) None.

Inductive case :=
| KCase (B rpe : nat) (content : bytes) (kevs : list kev) (observed : list obs)
(* the collector stream: Run hides Confirm() results, descriptor offsets and the offset a worker starts at *)
| KCaseC (B rpe : nat) (content : bytes) (kevs : list kev) (observed : list obs).

Definition visible_c (o : obs) : bool :=
  match o with OConf _ | OOffset _ | ORestart _ => false | _ => true end.

Definition check (c : case) : bool :=
  match c with
  | KCase B rpe content kevs observed => list_eqb obs_eqb (krun (buf_size B) rpe (mkK true (blank content) None) kevs) observed
  | KCaseC B rpe content kevs observed =>
      list_eqb obs_eqb (filter visible_c (krun (buf_size B) rpe (mkK true (blank content) None) kevs)) observed
  end.

Definition mismatches (l : list case) : list nat := mismatches_of check l.
