(* Correspondence checker for C02: the model (variant `impl_variant`) is run on the inputs the
   implementation was driven with; the implementation's observations are compared with the model's.

   KTree : a real ckindex tree (in-memory blocks) fed interval by interval; traversal after the last
           add and the grEq/less answers for a list of timestamps.
   KIw   : the real iwrapper's minTs/maxTs after one Write call.
   KCi   : a real TsIndexer (cindex + ckiCtrlr on files) driven call by call.
   KE2E  : an in-process server: write batches (as split into chunks by the journal), rebuilder
           serving, SyncChunks, loss of the index files, RANGE queries; after every step the
           per-chunk hull and index records, the rebuilder queue, and for queries the delivered
           events and the selector's windows. *)
From LR Require Export lib.Base model.TmTree model.TmTreeML model.CIndex model.Selector.
Open Scope Z_scope.

Definition pair_rec_eqb (a b : rec * rec) : bool := rec_eqb (fst a) (fst b) && rec_eqb (snd a) (snd b).
Definition lrec_eqb := list_eqb rec_eqb.
Definition z3_eqb (a b : Z * Z * Z) : bool :=
  let '(a1, a2, a3) := a in let '(b1, b2, b3) := b in (a1 =? b1) && (a2 =? b2) && (a3 =? b3).

(* run-length encoded timestamps *)
Definition rle := list (Z * nat).
Definition unrle (l : rle) : list Z := flat_map (fun p => repeat (fst p) (snd p)) l.

(* ---- cindex level ---- *)
Inductive ciop :=
| COnWrite (first lastr cid mn mx : Z)
| COnWriteSkip (first lastr cid mn mx : Z)   (* the same while a rebuild of the chunk holds its lock: the TryLock fails *)
| CPosGE (cid ts : Z)
| CPosLT (cid ts : Z)
| CReadData (cid : Z)
| CInfo (cid : Z)
| CRebuild (cid : Z) (data : rle)
| CSync (cks : list (Z * rle)).
Inductive ciobs :=
| BWrite (r : wres)
| BPos (p : pres)
| BData (d : option (list rec))
| BInfo (i : option (Z * Z))
| BUnit.
Definition ciobs_eqb (a b : ciobs) : bool :=
  match a, b with
  | BWrite x, BWrite y => wres_eqb x y
  | BPos x, BPos y => pres_eqb x y
  | BData x, BData y => option_eqb lrec_eqb x y
  | BInfo x, BInfo y => option_eqb (pair_eqb Z.eqb Z.eqb) x y
  | BUnit, BUnit => true
  | _, _ => false
  end.
Definition ci_step (ci : cindex) (o : ciop) : cindex * ciobs :=
  match o with
  | COnWrite f l c mn mx => let '(ci', r) := ci_on_write (fix_partial impl_variant) false ci f l c mn mx in (ci', BWrite r)
  | COnWriteSkip f l c mn mx => let '(ci', r) := ci_on_write (fix_partial impl_variant) true ci f l c mn mx in (ci', BWrite r)
  | CPosGE c ts => (ci, BPos (pos_ge ci c ts))
  | CPosLT c ts => (ci, BPos (pos_lt ci c ts))
  | CReadData c => (ci, BData (ci_read_data ci c))
  | CInfo c => (ci, BInfo (match find_chunk ci c with Some k => Some (k_rmin k, k_rmax k) | None => None end))
  | CRebuild c d => (ci_rebuild (fix_zero impl_variant) ci c (unrle d), BUnit)
  | CSync cks => (ci_sync ci (map (fun ck => (fst ck, unrle (snd ck))) cks), BUnit)
  end.
Fixpoint ci_run (ci : cindex) (ops : list ciop) : list ciobs :=
  match ops with
  | [] => []
  | o :: tl => let '(ci', b) := ci_step ci o in b :: ci_run ci' tl
  end.

(* ---- end to end ---- *)
Record eseg := mkeseg { es_cid : Z; es_ts : rle }.
Inductive eop :=
| EBatch (segs : list eseg)
| EBatchServe (segs : list eseg) (seen : list (Z * Z))
    (* one Service.Write, then the rebuilder serves the queue BEFORE the chunk writer has flushed the batch:
       `seen` = per chunk the number of records readable at that moment (what the rebuild scan sees) *)
| EServe
| ESync
| EDrop
| ERead (o1 o2 : option Z)
| ECRead (o1 o2 : option Z)   (* a read through a cached cursor that is continued: only its effect on the index state
                                 (SyncChunks, rebuild requests) is compared, which is that of a fresh read as long as
                                 nothing but write batches happens between the reads of the cursor; what it delivers is
                                 judged by the oracle *)
| EReadServed (o1 o2 : option Z)   (* a fresh read while the index rebuilder runs freely (not held by the harness): the
                                      state is observed after the rebuilder has gone idle, i.e. after it has served what
                                      the read asked for *)
| ETruncate (k : nat)              (* TRUNCATE has removed the k oldest chunks of the journal *)
| EPosRead (o1 o2 : option Z) (pc pi : Z)
    (* a fresh range query that starts from the saved position (chunk pc, record pi) and is read to the end: its events *)
| ERestart                         (* clean shutdown and start *)
| EDescribe                        (* Service.GetParitionInfo *)
| EDescribeServed                  (* the same while the rebuilder runs freely; observed when it is idle again *)
| ESelOpen (t1 t2 : Z)   (* a chkSelector for [t1,t2] is created, kept, and asked for the status of every chunk *)
| ESelAgain.             (* the kept selector is asked again (eo_windows = its answers) *)
(* projection of the state: per chunk of the journal (id, hull if the index knows the chunk, index records if readable) *)
Definition chunk_view := (Z * option (Z * Z) * option (list rec))%type.
Definition chunk_view_eqb (a b : chunk_view) : bool :=
  let '(a1, a2, a3) := a in let '(b1, b2, b3) := b in
  (a1 =? b1) && option_eqb (pair_eqb Z.eqb Z.eqb) a2 b2 && option_eqb lrec_eqb a3 b3.
Record eobs := mkeobs {
  eo_views : list chunk_view;
  eo_queue : list Z;                     (* rebuilder queue, sorted *)
  eo_events : list (Z * Z * Z);          (* ERead: delivered events as (chunk id, first pos, last pos) runs *)
  eo_windows : option (list (Z * Z * Z)) (* ERead with an explicit lower bound: (minPos, maxPos, count) per chunk of a
                                            fresh chkSelector for the same range (not observed for an open lower bound,
                                            whose numeric value is decided inside cursor.newCursor) *)
}.

Definition view_of (st : pstate) : list chunk_view :=
  map (fun ck => let cid := fst ck in
                 (cid, match find_chunk (p_ci st) cid with Some k => Some (k_rmin k, k_rmax k) | None => None end,
                  ci_read_data (p_ci st) cid)) (p_chunks st).
Fixpoint insert_sorted (x : Z) (l : list Z) : list Z :=
  match l with [] => [x] | y :: tl => if x <=? y then x :: l else y :: insert_sorted x tl end.
Definition sort_z (l : list Z) : list Z := fold_right insert_sorted [] l.

(* run-compress delivered events *)
Fixpoint runs_of (l : list ev) (cur : option (Z * Z * Z)) : list (Z * Z * Z) :=
  match l with
  | [] => match cur with Some r => [r] | None => [] end
  | (c, p, _) :: tl =>
      match cur with
      | Some (c0, lo, hi) => if (c =? c0) && (p =? hi + 1) then runs_of tl (Some (c0, lo, p))
                             else (c0, lo, hi) :: runs_of tl (Some (c, p, p))
      | None => runs_of tl (Some (c, p, p))
      end
  end.

Definition to_op (o : eop) : op :=
  match o with
  | EBatch segs => HBatch (map (fun s => mkseg (es_cid s) false (unrle (es_ts s))) segs)
  | EBatchServe segs _ => HBatch (map (fun s => mkseg (es_cid s) false (unrle (es_ts s))) segs)
  | EServe => HServe
  | ESync => HSync
  | EDrop => HDrop
  | ERead o1 o2 => HRead o1 o2
  | ECRead o1 o2 => HRead o1 o2
  | EReadServed o1 o2 => HRead o1 o2
  | ERestart => HRestart
  | ETruncate _ => HSync           (* not used: handled in e_check_step *)
  | EPosRead o1 o2 _ _ => HRead o1 o2
  | EDescribe => HDescribe
  | EDescribeServed => HDescribe
  | ESelOpen _ _ => HSync     (* not used: handled in e_check_step *)
  | ESelAgain => HSync
  end.

Definition windows_of (v : variant) (st : pstate) (o1 o2 : option Z) : list (Z * Z * Z) :=
  let ci' := ci_sync (p_ci st) (p_chunks st) in
  map (fun kc => let '(k, ck) := kc in
                 let s := fst (update_poss v ci' (eff_t1 v o1) (eff_t2 o2) (k_id k) (k_rmin k) (k_rmax k) (Z.of_nat (length (snd ck)))) in
                 (s_min s, s_max s, s_cnt s)) (combine ci' (p_chunks st)).

(* the kept selector: its range and its status cache *)
Definition sel_state := option (Z * Z * sel_cache).
Definition windows_of_cache (sel : sel_cache) (st : pstate) : option (list (Z * Z * Z)) :=
  fold_right (fun ck acc => match sel_find sel (fst ck), acc with
                            | Some s, Some l => Some ((s_min s, s_max s, s_cnt s) :: l)
                            | _, _ => None
                            end) (Some []) (p_chunks st).
Definition sel_obs (ss : Z * Z * sel_cache) (st : pstate) (b : eobs) : sel_state * pstate * bool :=
  let '(t1, t2, sel) := ss in
  let '(sel', st') := sel_walk false impl_variant t1 t2 sel st in
  (Some (t1, t2, sel'), st',
   match windows_of_cache sel' st, eo_windows b with
   | Some w, Some w' => list_eqb z3_eqb w w'
   | _, _ => false
   end).
Definition e_check_step (ss : sel_state) (st : pstate) (o : eop) (b : eobs) : sel_state * pstate * bool :=
  let ok_state st' := list_eqb chunk_view_eqb (view_of st') (eo_views b) && list_eqb Z.eqb (sort_z (p_queue st')) (eo_queue b) in
  match o with
  | ESelOpen t1 t2 => let '(ss', st', ok) := sel_obs (t1, t2, []) st b in (ss', st', ok && ok_state st')
  | ESelAgain => match ss with
                 | Some x => let '(ss', st', ok) := sel_obs x st b in (ss', st', ok && ok_state st')
                 | None => (None, st, false)
                 end
  | _ =>
    let st' := match o with
               | EBatchServe _ seen => serve_seen impl_variant (step impl_variant st (to_op o)) seen
               | EReadServed _ _ | EDescribeServed => serve impl_variant (step impl_variant st (to_op o))
               | ETruncate k => truncate k st
               | _ => step impl_variant st (to_op o)
               end in
    let ok_read :=
      match o with
      | EPosRead o1 o2 pc pi => list_eqb z3_eqb (runs_of (fst (range_read_from false impl_variant st pc pi o1 o2)) None) (eo_events b)
      | EReadServed o1 o2 => list_eqb z3_eqb (runs_of (fst (range_read impl_variant st o1 o2)) None) (eo_events b)
      | ERead o1 o2 =>
          list_eqb z3_eqb (runs_of (fst (range_read impl_variant st o1 o2)) None) (eo_events b)
          && match eo_windows b with Some w => list_eqb z3_eqb (windows_of impl_variant st o1 o2) w | None => true end
      | _ => true
      end in
    (match o with EDrop | ERestart => None | _ => ss end, st', ok_state st' && ok_read)
  end.
Fixpoint e_check (ss : sel_state) (st : pstate) (l : list (eop * eobs)) : bool :=
  match l with
  | [] => true
  | (o, b) :: tl => let '(ss', st', ok) := e_check_step ss st o b in ok && e_check ss' st' tl
  end.

Inductive case :=
| KTree (adds : list (rec * rec)) (qs : list Z) (trav : list (rec * rec)) (ge lt : list answer)
| KTreeML (adds : list (rec * rec)) (qs : list Z) (trav : list (rec * rec)) (ge lt : list answer)
| KTreeSteps (steps : list (list (rec * rec) * list Z * (Z * list (rec * rec)) * (list answer * list answer)))
    (* checkpoints of one tree: more adds, then the number of intervals, the last (up to) 45 intervals, grEq/less answers *)
| KIw (tss : list Z) (mn mx : Z)
| KCi (ops : list ciop) (obs : list ciobs)
| KE2E (hist : list (eop * eobs))
| KAdv (mn mx cnt pos : Z) (np : Z) (ok : bool).   (* chkStatus.checkPosOrAdvance *)

Definition ml_check (adds : list (rec * rec)) (qs : list Z) (trav : list (rec * rec)) (ge lt : list answer) : bool :=
  match tree_of adds with
  | None => match adds with [] => true | _ => false end
  | Some t =>
      list_eqb pair_rec_eqb (tree_traversal t) trav
      && list_eqb answer_eqb (map (tree_gr_eq t) qs) ge
      && list_eqb answer_eqb (map (tree_less t) qs) lt
  end.

Definition last_n {A} (n : nat) (l : list A) : list A := skipn (length l - n) l.
Fixpoint steps_check (ot : option tree) (steps : list (list (rec * rec) * list Z * (Z * list (rec * rec)) * (list answer * list answer))) : bool :=
  match steps with
  | [] => true
  | (adds, qs, (cnt, tail), (ge, lt)) :: rest =>
      let ot' := match ot, adds with
                 | None, (p0, p1) :: tl => Some (fold_left (fun t a => top_add t (fst a) (snd a)) tl (top_new p0 p1))
                 | None, [] => None
                 | Some t, _ => Some (fold_left (fun t a => top_add t (fst a) (snd a)) adds t)
                 end in
      match ot' with
      | None => false
      | Some t =>
          let tr := tree_traversal t in
          (Z.of_nat (length tr) =? cnt) && list_eqb pair_rec_eqb (last_n 45 tr) tail
          && list_eqb answer_eqb (map (tree_gr_eq t) qs) ge && list_eqb answer_eqb (map (tree_less t) qs) lt
          && steps_check ot' rest
      end
  end.

Definition check (c : case) : bool :=
  match c with
  | KTree adds qs trav ge lt =>
      (* within the validity of the flat list (<= 41 records, or append-only): the flat model AND the tree model *)
      let rs := fold_left (fun rs a => flat_add rs (fst a) (snd a)) adds [] in
      list_eqb pair_rec_eqb (flat_traversal rs) trav
      && list_eqb answer_eqb (map (flat_gr_eq rs) qs) ge
      && list_eqb answer_eqb (map (flat_less rs) qs) lt
      && ml_check adds qs trav ge lt
  | KTreeML adds qs trav ge lt => ml_check adds qs trav ge lt
  | KTreeSteps steps => steps_check None steps
  | KIw tss mn mx =>
      let s := fold_left (iw_get (fix_zero impl_variant)) tss iw_init in
      (iw_min s =? mn) && (iw_max s =? mx)
  | KCi ops obs => list_eqb ciobs_eqb (ci_run [] ops) obs
  | KE2E hist => e_check None p_init hist
  | KAdv mn mx cnt pos np ok =>
      let r := check_pos_or_advance (mkst mn mx cnt) pos in (fst r =? np) && Bool.eqb (snd r) ok
  end.

Definition mismatches (l : list case) : list nat := mismatches_of check l.
