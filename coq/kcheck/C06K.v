(* Correspondence checker for C06: the tindex identity model and the tag-expression compiler model are run on
   the histories / sources the real tindex service, lql.BuildTagsExpFuncBySource and an in-process server
   were run on.  strconv.Quote/Unquote, strings.ToUpper/ToLower and path.Match answers come from recorded tables. *)
From LR Require Export lib.Base model.KV model.Tags model.TagsEval model.TIndexId.

Definition utab := list (bytes * option bytes).
Definition qtab := list (bytes * bytes).
Definition ptab := list (bytes * list (bytes * option bool)).   (* pattern -> subject -> path.Match answer *)

Definition tbl_map (t : qtab) (s : bytes) : bytes := match tbl_find t s with Some r => r | None => POISON end.
Definition tbl_pmatch (t : ptab) (p s : bytes) : option bool :=
  match tbl_find t p with
  | Some row => match tbl_find row s with Some r => r | None => Some true end
  | None => Some true
  end.

Record oracles := { o_unq : utab; o_q : qtab; o_up : qtab; o_lo : qtab; o_pm : ptab }.

(* result of one visit: build error, panic, or the matching partitions *)
Inductive vres (A : Type) := VErr | VPanic | VOk (l : list A).
Arguments VErr {A}. Arguments VPanic {A}. Arguments VOk {A}.

Definition vres_eqb {A} (eqb : A -> A -> bool) (a b : vres A) : bool :=
  match a, b with
  | VErr, VErr => true | VPanic, VPanic => true
  | VOk x, VOk y => list_eqb eqb x y
  | _, _ => false
  end.

Definition model_visit {A} (o : oracles) (proj : desc -> A) (st : tstate) (s : source) : vres A :=
  match build_source (tbl_map (o_up o)) (tbl_map (o_lo o)) (tbl_pmatch (o_pm o)) s with
  | None => VErr
  | Some tef => match visit tef (t_map st) with
                | Ok l => VOk (map proj l)
                | _ => VPanic
                end
  end.

(* the observation of an answered call: the partition id (renamed), the returned tags, and whether
   GetJournalTags(id) finds the partition with the same tags (smap agrees with tmap) *)
Definition res_eqb (r : goc_result) (o : option (nat * kvmap * bool)) : bool :=
  match r, o with
  | GSrc s m, Some (s', m', bysrc) => Nat.eqb s s' && kvmap_eqb m m' && bysrc
  | GErr, None => true
  | _, _ => false
  end.

Fixpoint all2b {A B : Type} (f : A -> B -> bool) (a : list A) (b : list B) : bool :=
  match a, b with
  | [], [] => true
  | x :: a', y :: b' => f x y && all2b f a' b'
  | _, _ => false
  end.

Inductive case :=
(* one tindex service: GetOrCreateJournal(text) for every text, the flag says that the index file could not be
   written during that call (partition ids renamed to their order of first appearance, None = error), then
   Visit(source) for every source (ids of the visited partitions, increasing) *)
| KHist (o : oracles) (texts : list (bytes * bool)) (obs : list (option (nat * kvmap * bool))) (visits : list (source * vres nat))
(* lql.BuildTagsExpFuncBySource(source) applied to tag sets: None = build error, per set Some b / None = panic *)
| KEval (o : oracles) (s : source) (sets : list kvmap) (obs : option (list (option bool)))
(* in-process server: one write per text (ok?), then SHOW PARTITIONS / SELECT FROM source: the tag lines seen, sorted *)
| KE2E (o : oracles) (texts : list (bytes * bool)) (wrote : list bool) (visits : list (source * vres bytes))
(* one tindex service under GetOrCreateJournal / GetJournal (no creation) / Delete (of an exclusively locked
   partition, named by its renamed id): per operation the answer -- for a call or a look-up the partition, for a
   deletion (id, empty map, true); None = error; Some None = NotFound -- then Visit(source) for every source *)
| KOps (o : oracles) (ops : list hop) (obs : list (option (option (nat * kvmap * bool)))) (visits : list (source * vres nat))
(* k goroutines race GetOrCreateJournal on spellings of one new tag set: number of distinct ids returned,
   number of partitions afterwards *)
| KRace (o : oracles) (texts : list bytes) (distinct : nat) (parts : nat)
(* a call into the implementation panicked (fn = which call, on which input): the modelled functions never panic *)
| KPanicked (fn : bytes) (input : bytes).

Fixpoint insert_bytes (x : bytes) (l : list bytes) : list bytes :=
  match l with [] => [x] | y :: tl => if bytes_leb x y then x :: l else y :: insert_bytes x tl end.
Definition sort_bytes (l : list bytes) : list bytes := fold_right insert_bytes [] l.
Fixpoint dedup_sorted (l : list bytes) : list bytes :=
  match l with
  | x :: ((y :: _) as tl) => if bytes_eqb x y then dedup_sorted tl else x :: dedup_sorted tl
  | _ => l
  end.

Definition is_src (r : goc_result) : bool := match r with GSrc _ _ => true | _ => false end.
Definition src_of (r : goc_result) : list nat := match r with GSrc s _ => [s] | _ => [] end.

Definition check (c : case) : bool :=
  match c with
  | KHist o texts obs visits =>
      let '(st, rs) := run_f (tbl_quote (o_q o)) (tbl_unquote (o_unq o)) t_empty texts in
      all2b res_eqb rs obs &&
      forallb (fun v => vres_eqb Nat.eqb (model_visit o d_src st (fst v)) (snd v)) visits
  | KEval o s sets obs =>
      match build_source (tbl_map (o_up o)) (tbl_map (o_lo o)) (tbl_pmatch (o_pm o)) s, obs with
      | None, None => true
      | Some tef, Some l =>
          list_eqb (option_eqb Bool.eqb) (map (fun m => match call tef m with Ok b => Some b | _ => None end) sets) l
      | _, _ => false
      end
  | KE2E o texts wrote visits =>
      let '(st, rs) := run_f (tbl_quote (o_q o)) (tbl_unquote (o_unq o)) t_empty texts in
      list_eqb Bool.eqb (map is_src rs) wrote &&
      forallb (fun v =>
        vres_eqb bytes_eqb
          (match model_visit o (fun d => line (tbl_quote (o_q o)) (d_tags d)) st (fst v) with
           | VOk l => VOk (dedup_sorted (sort_bytes l)) | r => r end) (snd v)) visits
  | KOps o ops obs visits =>
      let '(st, rs) := run_ops (tbl_quote (o_q o)) (tbl_unquote (o_unq o)) t_empty ops in
      all2b (fun r ob => match r, ob with
                         | GNotFound, Some None => true
                         | GNotFound, _ => false
                         | _, Some None => false
                         | _, Some x => res_eqb r x
                         | _, None => res_eqb r None
                         end) rs obs &&
      forallb (fun v => vres_eqb Nat.eqb (model_visit o d_src st (fst v)) (snd v)) visits
  | KRace o texts distinct parts =>
      (* every order of the atomic steps gives the same ids; take the text order *)
      let '(st, rs) := run (tbl_quote (o_q o)) (tbl_unquote (o_unq o)) t_empty texts in
      Nat.eqb (length (nodup Nat.eq_dec (flat_map src_of rs))) distinct && Nat.eqb (length (t_map st)) parts
  | KPanicked _ _ => false
  end.

Definition mismatches (l : list case) : list nat := mismatches_of check l.
