(* Correspondence checker for C10: one case = one (pipe, source partition) pair of an end-to-end run on the
   real server. The harness records what was written to the source after the pipe was created, in journal
   order and grouped by the waves in which it drove the server, plus the special steps it took (two first
   writers with inverted notification order, clean restart, delete, idle time-out of the worker), and the
   events of the destination partition that carry this source's provenance. The model is run on the
   canonical schedule of that scenario with the code's filter setting. *)
From LR Require Export lib.Base model.PipeSync.

Inductive sop :=
| SWrite (b : list event)          (* a wave of writes made readable before their notifications go out *)
| SWriteLate (b : list event)      (* a wave made readable after the workers its notifications started are parked *)
| SRace (b1 b2 : list event)       (* two writers, first notifications of the source, b2's event delivered first; b1 readable before *)
| SRaceClamp (b1 b2 : list event)  (* the same with nothing readable when the worker starts *)
| SRestart
| SDelete
| SIdle                            (* the worker's 10 s wait expired and it finished *)
| SRearm (b : list event).         (* a write whose notification finds the worker charged; the wait expires before the flush; workerDone re-arms *)

Definition sched_of (o : sop) : list label :=
  match o with
  | SWrite b => [LWrite b; LFlush; LEnq 0; LDeliver] ++ works (length b + 6)
  | SWriteLate b => sched_write_late b
  | SRace b1 b2 => sched_race b1 b2
  | SRaceClamp b1 b2 => sched_race_clamp b1 b2
  | SRestart => [LRestart]
  | SDelete => [LDelete]
  | SIdle => [LTimeout; LWork]
  | SRearm b => [LWrite b; LEnq 0; LDeliver; LTimeout; LWork; LFlush] ++ works (length b + 8)
  end.

Definition dummy : event := {| e_ts := 0; e_msg := []; e_flds := []; e_keep := true |}.

(* pre: events of the source readable when the pipe was created (their content does not matter);
   tail: events acknowledged before the creation but not yet readable at that moment *)
Inductive case :=
| KSrc (tags : list (bytes * bytes)) (pre : nat) (tail : list event) (ops : list sop) (observed : list devent)
(* stale: the last events written (readable, acknowledged) before the pipe was created, whose WriteEvent was still
   in the channel at that moment *)
| KStale (tags : list (bytes * bytes)) (pre : nat) (stale : list event) (ops : list sop) (observed : list devent)
(* re-creation: a pipe of the same name existed before (created when the source held pre1 readable events + tail1, driven
   through ops1, which end with its deletion and the writes made while no pipe of that name existed); the pipe was created
   again when the source held pre2 events (all readable) and driven through ops2; observed = what the destination gained
   for this source since the re-creation *)
| KRe (tags : list (bytes * bytes)) (pre1 : nat) (tail1 : list event) (ops1 : list sop) (pre2 : nat) (ops2 : list sop) (observed : list devent).

Definition model_dst (tags : list (bytes * bytes)) (pre : nat) (tail : list event) (ops : list sop) : list devent :=
  dst (run code_applies_filter tags (init (repeat dummy pre ++ tail) pre) (flat_map sched_of ops)).

Definition model_dst_stale (tags : list (bytes * bytes)) (pre : nat) (stale : list event) (ops : list sop) : list devent :=
  dst (run code_applies_filter tags (init_stale (repeat dummy pre ++ stale) [(pre, pre + length stale)])
         ((LDeliver :: works (length stale + 6)) ++ flat_map sched_of ops)).

Definition model_state (tags : list (bytes * bytes)) (pre : nat) (tail : list event) (ops : list sop) : st :=
  run code_applies_filter tags (init (repeat dummy pre ++ tail) pre) (flat_map sched_of ops).

Definition model_dst_re (tags : list (bytes * bytes)) (s1 : st) (ops2 : list sop) : list devent :=
  dst (run code_applies_filter tags (recreate s1) (flat_map sched_of ops2)).

Definition check (c : case) : bool :=
  match c with
  | KRe tags pre1 tail1 ops1 pre2 ops2 observed =>
      let s1 := model_state tags pre1 tail1 ops1 in
      (length (log s1) =? pre2) && negb (alive s1) && list_eqb devent_eqb (model_dst_re tags s1 ops2) observed
  | KSrc tags pre tail ops observed => list_eqb devent_eqb (model_dst tags pre tail ops) observed
  | KStale tags pre stale ops observed => list_eqb devent_eqb (model_dst_stale tags pre stale ops) observed
  end.

Definition mismatches (l : list case) : list nat := mismatches_of check l.
