(* Correspondence checker for C10: one case = one (pipe, source partition) pair of an end-to-end run on the
   real server. The harness records what was written to the source after the pipe was created, in journal
   order and grouped by the waves in which it drove the server, plus the special steps it took (two first
   writers with inverted notification order, clean restart, delete, idle time-out of the worker), and the
   events of the destination partition that carry this source's provenance. The model is run on the
   canonical schedule of that scenario with the code's filter setting. *)
From LR Require Export lib.Base model.PipeSync.

Inductive sop :=
| SWrite (b : list event)          (* a wave of writes made readable before their notifications go out *)
| SWriteLate (b : list event)      (* a wave made readable after the workers its notifications started are parked *)
| SRace (b1 b2 : list event)       (* two writers, first notifications of the source, b2's event delivered first; b1 readable before *)
| SRaceClamp (b1 b2 : list event)  (* the same with nothing readable when the worker starts *)
| SRestart
| SDelete
| SIdle                            (* the worker's 10 s wait expired and it finished *)
| SRearm (b : list event)          (* a write whose notification finds the worker charged; the wait expires before the flush; workerDone re-arms *)
| SDropSource.                     (* TRUNCATE deleted the (fully copied, unheld) source partition and the pipes cleaner dropped its
                                      descriptor; what is written to these tags afterwards goes to a new partition *)

Definition sched_of (o : sop) : list label :=
  match o with
  | SWrite b => [LWrite b; LFlush; LEnq 0; LDeliver] ++ works (length b + 6)
  | SWriteLate b => sched_write_late b
  | SRace b1 b2 => sched_race b1 b2
  | SRaceClamp b1 b2 => sched_race_clamp b1 b2
  | SRestart => [LRestart]
  | SDelete => [LDelete]
  | SIdle => [LTimeout; LWork]
  | SRearm b => [LWrite b; LEnq 0; LDeliver; LTimeout; LWork; LFlush] ++ works (length b + 8)
  | SDropSource => []
  end.

(* fat = Some k: the destination refuses the copy of source record k every time (with the provenance fields it exceeds
   MaxRecordSize): whenever the worker is about to hand record k over, its quantum is a failed attempt (code_refuse) *)
Definition at_fat (fat : option nat) (s : st) : bool :=
  match fat, wrk s with
  | Some k, Some (WCopy cp) => cp =? k
  | _, _ => false
  end.

Fixpoint run_f (fat : option nat) (tags : list (bytes * bytes)) (s : st) (sched : list label) : st :=
  match sched with
  | [] => s
  | l :: tl =>
      let s1 := match l with
                | LWork => if at_fat fat s then step code_applies_filter tags s code_refuse else s
                | _ => s
                end in
      run_f fat tags (step code_applies_filter tags s1 l) tl
  end.

(* without such a record it is the model's run *)
Lemma run_f_none tags s sched : run_f None tags s sched = run code_applies_filter tags s sched.
Proof. revert s. induction sched as [|l tl IH]; intros s; [reflexivity|]. cbn [run_f run at_fat]. destruct l; apply IH. Qed.

(* a clean restart finds the worker parked (LRestart) or asleep between two attempts (stop_retrying), or the pipe deleted
   (restart_after_delete); a dropped source is a surgery on the state (model/PipeSync.v) *)
Definition exec_op (fat : option nat) (tags : list (bytes * bytes)) (s : st) (o : sop) : st :=
  match o with
  | SRestart => restart_after_delete code_saves_empty_registry (stop_retrying (run_f fat tags s [LRestart]))
  | SDropSource => drop_source s
  | _ => run_f fat tags s (sched_of o)
  end.

Definition run_ops (fat : option nat) (tags : list (bytes * bytes)) (s : st) (ops : list sop) : st :=
  fold_left (exec_op fat tags) ops s.

Definition dummy : event := {| e_ts := 0; e_msg := []; e_flds := []; e_keep := true |}.

(* pre: events of the source readable when the pipe was created (their content does not matter);
   tail: events acknowledged before the creation but not yet readable at that moment *)
Inductive case :=
| KSrc (tags : list (bytes * bytes)) (pre : nat) (tail : list event) (ops : list sop) (observed : list devent)
(* stale: the last events written (readable, acknowledged) before the pipe was created, whose WriteEvent was still
   in the channel at that moment *)
| KStale (tags : list (bytes * bytes)) (pre : nat) (stale : list event) (ops : list sop) (observed : list devent)
(* re-creation: a pipe of the same name existed before (created when the source held pre1 readable events + tail1, driven
   through ops1, which end with its deletion and the writes made while no pipe of that name existed); the pipe was created
   again when the source held pre2 events (all readable) and driven through ops2; observed = what the destination gained
   for this source since the re-creation *)
(* like KSrc, with a record (index fat in the source journal) whose copy the destination refuses *)
| KFat (tags : list (bytes * bytes)) (pre : nat) (tail : list event) (ops : list sop) (fat : nat) (observed : list devent)
| KRe (tags : list (bytes * bytes)) (pre1 : nat) (tail1 : list event) (ops1 : list sop) (pre2 : nat) (ops2 : list sop) (observed : list devent).

Definition model_dst (fat : option nat) (tags : list (bytes * bytes)) (pre : nat) (tail : list event) (ops : list sop) : list devent :=
  dst (run_ops fat tags (init (repeat dummy pre ++ tail) pre) ops).

Definition model_dst_stale (tags : list (bytes * bytes)) (pre : nat) (stale : list event) (ops : list sop) : list devent :=
  dst (run_ops None tags
         (run code_applies_filter tags (init_stale (repeat dummy pre ++ stale) [(pre, pre + length stale)]) (LDeliver :: works (length stale + 6)))
         ops).

Definition model_state (tags : list (bytes * bytes)) (pre : nat) (tail : list event) (ops : list sop) : st :=
  run_ops None tags (init (repeat dummy pre ++ tail) pre) ops.

Definition model_dst_re (tags : list (bytes * bytes)) (s1 : st) (ops2 : list sop) : list devent :=
  dst (run_ops None tags (recreate s1) ops2).

Definition check (c : case) : bool :=
  match c with
  | KRe tags pre1 tail1 ops1 pre2 ops2 observed =>
      let s1 := model_state tags pre1 tail1 ops1 in
      (length (log s1) =? pre2) && negb (alive s1) && list_eqb devent_eqb (model_dst_re tags s1 ops2) observed
  | KSrc tags pre tail ops observed => list_eqb devent_eqb (model_dst None tags pre tail ops) observed
  | KFat tags pre tail ops fat observed => list_eqb devent_eqb (model_dst (Some fat) tags pre tail ops) observed
  | KStale tags pre stale ops observed => list_eqb devent_eqb (model_dst_stale tags pre stale ops) observed
  end.

Definition mismatches (l : list case) : list nat := mismatches_of check l.
