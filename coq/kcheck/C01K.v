(* Correspondence checker for C01: the model functions the theorems of props/C01.v speak about are run
   on the inputs the implementation was driven with; the implementation's observations (recorded in
   the case) are compared with the model's. *)
From LR Require Export lib.Base model.XBinary model.LogEvent model.Wire model.Journal model.Write.
Open Scope Z_scope.

(* observation of a decoder: Ok value | Err | Panic *)
Definition outcome_eqb {A : Type} (eqb : A -> A -> bool) (a b : outcome A) : bool :=
  match a, b with
  | Ok x, Ok y => eqb x y
  | Err, Err => true
  | Panic, Panic => true
  | OutOfFuel, OutOfFuel => true
  | _, _ => false
  end.

(* tables standing for the parameter functions: filled by the harness from the real functions *)
Fixpoint tab_lookup (t : list (bytes * outcome bytes)) (k : bytes) : outcome bytes :=
  match t with
  | [] => Panic       (* a key the harness did not record: never equal to an implementation observation *)
  | (k', v) :: tl => if bytes_eqb k' k then v else tab_lookup tl k
  end.
Definition missing_kv : bytes := [x00; x21; x6d; x69; x73; x73; x69; x6e; x67; x21].
Fixpoint kv_lookup (t : list (bytes * bytes)) (k : bytes) : bytes :=
  match t with
  | [] => missing_kv
  | (k', v) :: tl => if bytes_eqb k' k then v else kv_lookup tl k
  end.

(* number of bytes consumed = len(buf) - len(rest) *)
Definition consumed {A : Type} (buf : bytes) (o : outcome (A * bytes)) : outcome (A * nat) :=
  match o with
  | Ok (a, rest) => Ok (a, (length buf - length rest)%nat)
  | Err => Err
  | Panic => Panic
  | OutOfFuel => OutOfFuel
  end.

Definition nn_eqb (a b : N * nat) : bool := N.eqb (fst a) (fst b) && Nat.eqb (snd a) (snd b).
Definition bn_eqb (a b : bytes * nat) : bool := bytes_eqb (fst a) (fst b) && Nat.eqb (snd a) (snd b).
Definition an_eqb (a b : api_event * nat) : bool := api_event_eqb (fst a) (fst b) && Nat.eqb (snd a) (snd b).
Definition evs_eqb (a b : list api_event * nat) : bool := list_eqb api_event_eqb (fst a) (fst b) && Nat.eqb (snd a) (snd b).

(* a script over a wpIterator: true = Get, false = Next; observation of every Get: Ok (Some event) | Ok None =
   io.EOF | Err = another error | Panic *)
Fixpoint wp_script (fp : bytes -> outcome bytes) (s : wpit) (ops : list bool) : list (outcome (option levent)) :=
  match ops with
  | [] => []
  | true :: tl => let '(s', r) := wp_get fp s in r :: wp_script fp s' tl
  | false :: tl => wp_script fp (wp_next s) tl
  end.

Definition req_fuel (r : req) : nat :=
  match r with
  | RpcW op => length (w_evs op)
  | DirW _ evs => length evs
  | RawW body => length body
  end.
Definition hist_fuel (rs : list req) : nat := S (S (S (fold_right Nat.max O (map req_fuel rs)))).

Definition pos_eqb (a b : jpos) : bool := N.eqb (fst a) (fst b) && N.eqb (snd a) (snd b).
Definition we_eqb (a b : wevent) : bool := pos_eqb (fst a) (fst b) && pos_eqb (snd a) (snd b).

(* writer ids of the records in journal order, validated against the model's step granularity:
   repeatedly the writer of the next observed record takes one model step, which must append exactly
   the records the observation shows next *)
Fixpoint validate_trace (fuel : nat) (cfg : jcfg) (st : cstate) (obs : list (nat * bytes)) : bool :=
  match fuel with
  | O => false
  | S f =>
      match obs with
      | [] => forallb (fun wr => match fit_prefix (w_limit cfg) (wr_it wr) with [] => true | _ => false end) (cs_ws st)
      | (w, _) :: _ =>
          match cstep (S (length obs)) cfg st w with
          | Ok st' =>
              let k := (length (cs_log st') - length (cs_log st))%nat in
              let newl := skipn (length (cs_log st)) (cs_log st') in
              (0 <? k)%nat &&
              list_eqb (fun a b => Nat.eqb (fst a) (fst b) && bytes_eqb (snd a) (snd b)) newl (firstn k obs) &&
              validate_trace f cfg st' (skipn k obs)
          | _ => false
          end
      end
  end.

(* write events: None = not observed for that request.  The implementation's chunk ids are clock values: both
   sides name a chunk by its 1-based rank among the non-empty chunks of the partition's final journal *)
Definition rank_of (j : journal) (cid : N) : N :=
  N.of_nat (length (filter (fun c => negb (N.eqb (chunk_count c) 0) && N.leb (c_id c) cid) j)).
Definition rank_we (j : journal) (w : wevent) : wevent :=
  let '((c1, i1), (c2, i2)) := w in ((rank_of j c1, i1), (rank_of j c2, i2)).
Definition req_journal (nt : bytes -> outcome bytes) (srv : server) (r : req) : journal :=
  match r with
  | DirW tags _ => match nt tags with Ok k => srv_get srv k | _ => [] end
  | RpcW op => match nt (w_tags op) with Ok k => srv_get srv k | _ => [] end
  | RawW _ => []
  end.
Fixpoint wes_ok (nt : bytes -> outcome bytes) (srv : server) (reqs : list req) (res : list wres) (wes : list (option (option wevent))) : bool :=
  match reqs, res, wes with
  | [], [], [] => true
  | rq :: reqs', r :: res', o :: wes' =>
      match o with
      | None => true
      | Some w => option_eqb we_eqb (option_map (rank_we (req_journal nt srv rq)) (r_we r)) w
      end && wes_ok nt srv reqs' res' wes'
  | _, _, _ => false
  end.

Inductive case :=
(* xbinary *)
| KVarint (n : N) (enc : bytes) (size : nat)                      (* MarshalUint, WritableUintSize *)
| KVarDec (buf : bytes) (obs : outcome (N * nat))                  (* UnmarshalUint on any buffer *)
| KBytesDec (buf : bytes) (obs : outcome (bytes * nat))            (* UnmarshalBytes on any buffer (under recover) *)
| KFixed (k : nat) (n : N) (enc : bytes)                           (* MarshalUint64/32 + Unmarshal *)
(* model.LogEvent *)
| KLeEnc (e : levent) (size : nat) (enc : bytes)                   (* WritableSize; Marshal into a buffer of that size *)
| KLeEncShort (e : levent) (sz : nat) (enc : bytes)                (* Marshal into a zeroed buffer of sz bytes, sz below WritableSize *)
| KLeDec (prev : levent) (buf : bytes) (obs : outcome levent)      (* Unmarshal into a reused struct *)
| KLeIter (recs : list bytes) (obs : outcome (list levent))        (* LogEventIterator Get/Next over records *)
(* rpc codecs *)
| KApiEnc (e : api_event) (enc : bytes)                            (* writeLogEvent *)
| KApiDec (buf : bytes) (obs : outcome (api_event * nat))          (* unmarshalLogEvent *)
| KWpEnc (tags flds : bytes) (evs : list api_event) (enc : bytes)  (* writePacket.WriteTo *)
| KEvsDec (buf : bytes) (obs : outcome (list api_event * nat))     (* unmarshalQueryResult, event list *)
| KEvsEnc (evs : list api_event) (enc : bytes)                     (* writeQueryResult, event list (prefix of the body) *)
| KWpIter (ftab : list (bytes * outcome bytes)) (buf : bytes) (init : outcome bytes) (ops : list bool) (obs : list (outcome (option levent)))
(* end to end *)
| KE2E (cfg : jcfg) (ftab ntab : list (bytes * outcome bytes)) (kvtab : list (bytes * bytes)) (reqs : list req)
       (acks : list bool) (wes : list (option (option wevent)))
       (reads : list (bytes * outcome (list revent))) (chunks : list (bytes * list N))
(* histories with clean restarts: segments of requests, the server stopped and started between them and before the reads *)
| KRestart (cfg : jcfg) (ftab ntab : list (bytes * outcome bytes)) (kvtab : list (bytes * bytes)) (segs : list (list req))
       (acks : list bool) (reads : list (bytes * outcome (list revent)))
(* concurrent writers on one partition: (writer, record) in journal order *)
| KConc (cfg : jcfg) (batches : list (list levent)) (obs : list (nat * bytes)).

Definition check (c : case) : bool :=
  match c with
  | KVarint n enc size =>
      bytes_eqb (marshal_uint n) enc && Nat.eqb (writable_uint_size n) size &&
      outcome_eqb nn_eqb (consumed enc (unmarshal_uint enc)) (Ok (n, length enc))
  | KVarDec buf obs => outcome_eqb nn_eqb (consumed buf (unmarshal_uint buf)) obs
  (* the dependency's xbinary.UnmarshalBytes called directly (the /repo decoders go through the guarded unmarshal_bytes) *)
  | KBytesDec buf obs => outcome_eqb bn_eqb (consumed buf (unmarshal_bytes_dep buf)) obs
  | KFixed k n enc =>
      bytes_eqb (marshal_fixed k n) enc && outcome_eqb nn_eqb (consumed enc (unmarshal_fixed k enc)) (Ok (n, k))
  | KLeEnc e size enc =>
      Nat.eqb (writable_size e) size && bytes_eqb (marshal_into (writable_size e) e) enc && bytes_eqb (marshal_le e) enc
  | KLeEncShort e sz enc => bytes_eqb (marshal_into sz e) enc
  | KLeDec prev buf obs => outcome_eqb levent_eqb (unmarshal_le prev buf) obs
  | KLeIter recs obs => outcome_eqb (list_eqb levent_eqb) (lei_read le_zero recs) obs
  | KApiEnc e enc => bytes_eqb (write_api_event e) enc
  | KApiDec buf obs => outcome_eqb an_eqb (consumed buf (unmarshal_api_event buf)) obs
  | KWpEnc tags flds evs enc => bytes_eqb (encode_wp tags flds evs) enc
  | KEvsDec buf obs => outcome_eqb evs_eqb (consumed buf (decode_events buf)) obs
  | KEvsEnc evs enc => bytes_eqb (encode_events evs) (firstn (length (encode_events evs)) enc)
  | KWpIter ftab buf init ops obs =>
      let fp := tab_lookup ftab in
      match wp_init fp buf with
      | Ok (tags, it) => outcome_eqb bytes_eqb (Ok tags) init && list_eqb (outcome_eqb (option_eqb levent_eqb)) (wp_script fp it ops) obs
      | Err => outcome_eqb bytes_eqb Err init
      | Panic => outcome_eqb bytes_eqb Panic init
      | OutOfFuel => false
      end
  | KE2E cfg ftab ntab kvtab reqs acks wes reads chunks =>
      match run (tab_lookup ftab) (tab_lookup ntab) (hist_fuel reqs) cfg [] reqs with
      | Ok (srv, res) =>
          list_eqb Bool.eqb (map r_ack res) acks &&
          wes_ok (tab_lookup ntab) srv reqs res wes &&
          forallb (fun '(k, obs) => outcome_eqb (list_eqb revent_eqb) (read_back (kv_lookup kvtab) cfg srv k) obs) reads &&
          forallb (fun '(k, cs) => list_eqb N.eqb (filter (fun n => negb (N.eqb n 0)) (map chunk_count (srv_get srv k))) cs) chunks
      | _ => false
      end
  | KRestart cfg ftab ntab kvtab segs acks reads =>
      match run_segs (tab_lookup ftab) (tab_lookup ntab) (hist_fuel (concat segs)) cfg [] segs with
      | Ok (srv, res) =>
          list_eqb Bool.eqb (map r_ack res) acks &&
          forallb (fun '(k, obs) => outcome_eqb (list_eqb revent_eqb) (read_back (kv_lookup kvtab) cfg (restart srv) k) obs) reads
      | _ => false
      end
  | KConc cfg batches obs => validate_trace (S (length obs)) cfg (cinit [] batches) obs
  end.

Definition mismatches (l : list case) : list nat := mismatches_of check l.
