(* Correspondence checker for C13: every case carries the input bytes handed to a real decoder
   of /repo (or to a Go standard-library function the models rely on) and the outcome observed
   under recover() and a watchdog: Ok value / Err (an error was returned) / Panic / OutOfFuel
   (no result within the deadline).  The model must predict the class and, when Ok, the value. *)
From LR Require Export lib.Base lib.DecLib model.DecXBinary model.DecKV model.DecFields model.DecUtf8 model.DecUnquote model.DecWire model.DecPos model.Json model.Formatter model.DecTree model.DecLqlTime.
From LR Require Export model.DecAdmin.

Local Open Scope Z_scope.

Definition z_eqb := Z.eqb.
Definition n_eqb := N.eqb.
Definition unit_eqb (a b : unit) : bool := true.
Definition nat_eqb := Nat.eqb.

(* strconv.Quote as observed by the harness on the values that needed quoting *)
Fixpoint qlookup (qt : list (bytes * bytes)) (v : bytes) : bytes :=
  match qt with
  | [] => []
  | (k, q) :: tl => if bytes_eqb k v then q else qlookup tl v
  end.

Definition ev3_eqb (a b : Z * bytes * bytes) : bool :=
  let '(t1, m1, f1) := a in let '(t2, m2, f2) := b in Z.eqb t1 t2 && bytes_eqb m1 m2 && bytes_eqb f1 f2.
Definition ev4_eqb (a b : Z * bytes * bytes * bytes) : bool :=
  let '(t1, m1, g1, f1) := a in let '(t2, m2, g2, f2) := b in Z.eqb t1 t2 && bytes_eqb m1 m2 && bytes_eqb g1 g2 && bytes_eqb f1 f2.
Definition qr_eqb (a b : N * bytes * bytes * (Z * Z * Z)) : bool :=
  let '(i1, q1, p1, (w1, o1, l1)) := a in let '(i2, q2, p2, (w2, o2, l2)) := b in
  N.eqb i1 i2 && bytes_eqb q1 q2 && bytes_eqb p1 p2 && Z.eqb w1 w2 && Z.eqb o1 o2 && Z.eqb l1 l2.

Definition proj_le (le : levent) : Z * bytes * bytes := (le_ts le, le_msg le, le_flds le).
Definition omap {A B} (f : A -> B) (o : outcome A) : outcome B :=
  match o with Ok a => Ok (f a) | Err => Err | Panic => Panic | OutOfFuel => OutOfFuel end.

Inductive case :=
| KUint (buf : bytes) (o : outcome (Z * N))
| KBytes (buf : bytes) (o : outcome (Z * bytes))
| KApiLe (buf : bytes) (o : outcome (Z * (Z * bytes * bytes * bytes)))
| KQr (buf : bytes) (o : outcome (Z * (N * bytes * bytes * (Z * Z * Z))))
| KWp (buf : bytes) (o : outcome (bytes * list (Z * bytes * bytes)))
| KLeU (prev buf : bytes) (o : outcome (Z * (Z * bytes * bytes)))
| KFromKv (s : bytes) (o : outcome bytes)
| KCheck (s : bytes) (o : outcome unit)
| KValue (f name : bytes) (o : outcome bytes)
| KAsKv (qt : list (bytes * bytes)) (f : bytes) (o : outcome bytes)
| KUnquote (s : bytes) (o : option bytes)
| KRune (s : bytes) (r size : Z)
| KLower (s kw : bytes) (eq : bool)
| KPos (s : bytes) (o : outcome (Z * Z))
| KApplyPos (s : bytes) (o : outcome unit)
| KFmtParse (s : bytes) (o : outcome (list (nat * bytes)))
| KFmtEval (qt : list (bytes * bytes)) (fmt msg fields tl : bytes) (o : outcome bytes)
| KEscape (s : bytes) (o : outcome bytes)
| KLqlRel (s : bytes) (floatok : bool) (o : outcome unit)
(* SHOW PARTITIONS OFFSET offset LIMIT limit on a server with n matching partitions: how many were listed *)
| KShowParts (n : nat) (offset limit : Z) (o : outcome nat)
| KSplit (s : bytes) (o : outcome (list bytes))
| KRcb (s : bytes) (o : outcome bytes)
| KTrim (s : bytes) (o : outcome bytes)
(* a raw request frame sent to the real server (function id 100 = ingestor write, 200 = querier query) and
   whether it was answered with ok (true) or with an error (false) *)
| KRpc (fn : nat) (body : bytes) (ok : bool)
| KOracleOnly (tag : nat).

Definition check (c : case) : bool :=
  match c with
  | KUint buf o => outcome_eqb (pair_eqb Z.eqb N.eqb) (unmarshal_uint buf) o
  (* the dependency's xbinary.UnmarshalBytes itself (environment since the repair: no /repo decoder calls it
     directly any more); the decoders below go through the guarded utils.UnmarshalBytes = unmarshal_bytes_g tree_guard *)
  | KBytes buf o => outcome_eqb (pair_eqb Z.eqb bytes_eqb) (unmarshal_bytes buf) o
  | KApiLe buf o =>
      outcome_eqb (pair_eqb Z.eqb ev4_eqb)
        (omap (fun '(n, le) => (n, (a_ts le, a_msg le, a_tags le, a_flds le))) (unmarshal_api_le tree_guard buf)) o
  | KQr buf o =>
      outcome_eqb (pair_eqb Z.eqb qr_eqb)
        (omap (fun '(n, q) => (n, (q_id q, q_query q, q_pos q, (q_wait q, q_offset q, q_limit q)))) (unmarshal_qr tree_guard buf)) o
  | KWp buf o =>
      outcome_eqb (pair_eqb bytes_eqb (list_eqb ev3_eqb))
        (omap (fun '(t, evs) => (t, map proj_le evs)) (wp_run tree_guard tree_fields_fx go_unquote buf)) o
  | KLeU prev buf o =>
      outcome_eqb (pair_eqb Z.eqb ev3_eqb)
        (omap (fun '(n, le) => (n, proj_le le)) (le_unmarshal tree_guard {| le_ts := 0; le_msg := []; le_flds := prev |} buf)) o
  | KFromKv s o => outcome_eqb bytes_eqb (fields_of_kv tree_fields_fx go_unquote s) o
  | KCheck s o => outcome_eqb unit_eqb (check s) o
  | KValue f name o => outcome_eqb bytes_eqb (value f name) o
  | KAsKv qt f o => outcome_eqb bytes_eqb (as_kv (qlookup qt) f) o
  | KUnquote s o => option_eqb bytes_eqb (go_unquote s) o
  | KRune s r size => pair_eqb Z.eqb Z.eqb (decode_rune s) (r, size)
  | KLower s kw eq => Bool.eqb (bytes_eqb (lower_kw s) kw) eq
  | KPos s o => outcome_eqb (pair_eqb Z.eqb Z.eqb) (parse_pos s) o
  | KApplyPos s o => outcome_eqb unit_eqb (omap (fun _ => tt) (apply_pos s)) o
  | KFmtParse s o => outcome_eqb (list_eqb (pair_eqb Nat.eqb bytes_eqb)) (format_parse s) o
  | KFmtEval qt fmt msg fields tl o =>
      outcome_eqb bytes_eqb
        (flds <- format_parse fmt ;; format_eval (qlookup qt) (fun _ _ => []) (fun _ _ => []) flds 0 msg fields tl []) o
  | KEscape s o => outcome_eqb bytes_eqb (escape_json s) o
  | KLqlRel s fok o => outcome_eqb unit_eqb (lql_rel_time (fun _ => fok) s) o
  | KShowParts n offset limit o => outcome_eqb Nat.eqb (parts_page code_guards_paging n offset limit) o
  (* kvstring.SplitString(s, '=', ',', nil), RemoveCurlyBraces, TrimSpaces: the scanners of C13_total_kvstring themselves *)
  | KSplit s o => outcome_eqb (list_eqb bytes_eqb) (split_string s c_eq c_comma) o
  | KRcb s o => outcome_eqb bytes_eqb (remove_curly_braces s) o
  | KTrim s o => outcome_eqb bytes_eqb (trim_spaces s) o
  (* the endpoints decode the body with the modelled decoders first: a body the model refuses is never acknowledged
     (the converse does not hold: the partition service / the cursor may still refuse what decodes) *)
  | KRpc fn body ok =>
      if Nat.eqb fn 100 then
        match wp_init tree_guard tree_fields_fx go_unquote body with Ok _ => true | Err => negb ok | _ => false end
      else if Nat.eqb fn 200 then
        match unmarshal_qr tree_guard body with Ok _ => true | Err => negb ok | _ => false end
      else true
  | KOracleOnly _ => true
  end.

Definition mismatches (l : list case) : list nat := mismatches_of check l.
