(* Correspondence checker for C03: the model is run on the store, the page script and the appends the
   implementation executed; every page the implementation returned (events, parsed Pos, whether a ReqId
   came back) is compared with the model's page. *)
From LR Require Export lib.Base model.Paging.

(* one observed page: events as (tags, ts, msg, fields), Pos parsed and sorted by source, ReqId <> 0 *)
Definition opage := (list (bytes * Z * bytes * bytes) * posl * bool)%type.

Definition tags_of (st : store) (i : nat) : bytes :=
  match nth_error st i with Some p => p_tags p | None => [] end.

Definition ev4_eqb (a b : bytes * Z * bytes * bytes) : bool :=
  let '(a1, a2, a3, a4) := a in let '(b1, b2, b3, b4) := b in
  bytes_eqb a1 b1 && Z.eqb a2 b2 && bytes_eqb a3 b3 && bytes_eqb a4 b4.

Definition page_of (st : store) (r : result) : option opage :=
  match rs_pos r with
  | PList pl => if rs_ok r
                then Some (map (fun e => (tags_of st (o_src e), o_ts e, o_msg e, o_flds e)) (rs_events r), pl, negb (rs_id r =? 0)%N)
                else None
  | _ => None
  end.

(* Positions of a RANGE query are compared modulo records outside the range: the implementation's
   partition.JIterator skips such records through the time-index windows of the chunks (not modelled, C02),
   so its position may be ahead of the model's by records that the filter would drop anyway. *)
Definition has_range (q : qfilter) : bool := match q with FRange _ _ | FBoth _ _ _ => true | _ => false end.
Definition in_range (q : qfilter) (e : event) : bool :=
  match q with
  | FRange lo hi | FBoth _ lo hi => (lo <=? e_ts e)%Z && (e_ts e <=? hi)%Z
  | _ => true
  end.
Definition pos_equiv (q : qfilter) (j : journal) (pm po : N * N) : bool :=
  if has_range q then
    let a := flat j pm in let b := flat j po in
    (a <=? b)%nat && forallb (fun e => negb (in_range q e)) (firstn (b - a) (skipn a (recs j)))
  else pos_eqb pm po.

Fixpoint posl_equiv (q : qfilter) (st : store) (a b : posl) : bool :=
  match st, a, b with
  | [], [], [] => true
  | p :: st', (s1, p1) :: a', (s2, p2) :: b' =>
      bytes_eqb s1 s2 && bytes_eqb s1 (p_src p) && pos_equiv q (p_jrnl p) p1 p2 && posl_equiv q st' a' b'
  | _, _, _ => false
  end.

Definition opage_eqb (q : qfilter) (st : store) (a b : opage) : bool :=
  let '(a1, a2, a3) := a in let '(b1, b2, b3) := b in
  list_eqb ev4_eqb a1 b1 && posl_equiv q st a2 b2 && Bool.eqb a3 b3.

(* the store each page is read from *)
Fixpoint stores (st : store) (steps : list pstep) : list store :=
  match steps with
  | [] => []
  | s :: tl => let st' := apply_appends st (s_apps s) in st' :: stores st' tl
  end.

Fixpoint pages_eqb (q : qfilter) (sts : list store) (ms : list (option opage)) (os : list opage) : bool :=
  match sts, ms, os with
  | [], [], [] => true
  | st :: sts', Some m :: ms', o :: os' => opage_eqb q st m o && pages_eqb q sts' ms' os'
  | _, _, _ => false
  end.

Definition check_run (st0 : store) (q : qfilter) (start : pos_t) (steps : list pstep) (observed : list opage) : bool :=
  let rs := run_from repo_clears_fields (has_filter q) (flt_of q) choose_min repo_strict_pos st0 start steps in
  pages_eqb q (stores st0 steps) (map (page_of st0) rs) observed.

(* a large single-partition store of generated events (timestamp 5000+i, message "k", no fields), given by its
   chunk layout; pages are given as (index of the first event, number of events) *)
Definition gen_ev (i : nat) : event := mkEv (5000 + Z.of_nat i) [x6b] [].
Fixpoint gen_chunks (off : nat) (l : list (N * N)) : journal :=
  match l with
  | [] => []
  | (id, n) :: tl => mkCh id (map gen_ev (seq off (N.to_nat n))) :: gen_chunks (off + N.to_nat n) tl
  end.

(* one flush placed in the window between a chunk iterator's io.EOF and the selector's look at the chunks (RANGE walks):
   the chunk layout (id, records) of the partition before and after the flush, and the position the reader went on from
   (where the first event lies that the page delivered from behind the data it had seen; the returned position when it
   delivered none). The model's eof_step, started at the end of the last chunk of `before`, answers with that position *)
Definition eofwin := (list (N * N) * list (N * N) * (N * N) * bool)%type.
Definition eof_ok (w : eofwin) : bool :=
  let '(before, after, pos, at_count) := w in
  match last (map Some before) None with
  | Some (cid, n) =>
      let it := mkJit cid n (Some n) false in
      if at_count
      then (* the flush came right after the selector had read the count for its status: its "nothing left" answer *)
           pos_eqb (jit_pos (fst (end_answer repo_rereads_count (gen_chunks 0 before) (gen_chunks 0 after) (advance it)))) pos
      else pos_eqb (jit_pos (fst (eof_step repo_reresolves_eof repo_restores_eof (gen_chunks 0 after) it))) pos
  | None => false
  end.

Inductive case :=
| KRun (st0 : store) (q : qfilter) (start : pos_t) (steps : list pstep) (observed : list opage)
| KRunW (st0 : store) (q : qfilter) (start : pos_t) (steps : list pstep) (observed : list opage) (wins : list eofwin)
| KBulk (src tags : bytes) (chunks : list (N * N)) (steps : list pstep) (observed : list (N * N * posl * bool)).

Definition check (c : case) : bool :=
  match c with
  | KRun st0 q start steps observed => check_run st0 q start steps observed
  | KRunW st0 q start steps observed wins => check_run st0 q start steps observed && forallb eof_ok wins
  | KBulk src tags chunks steps observed =>
      let st0 := [mkPart src tags (gen_chunks 0 chunks)] in
      let obs := map (fun o : N * N * posl * bool =>
                        let '(first, n, pl, idf) := o in
                        (map (fun i => (tags, e_ts (gen_ev i), e_msg (gen_ev i), e_flds (gen_ev i))) (seq (N.to_nat first) (N.to_nat n)), pl, idf)) observed in
      check_run st0 FNone PHead steps obs
  end.

Definition mismatches (l : list case) : list nat := mismatches_of check l.
