(* Correspondence checker for C03: the model is run on the store, the page script and the appends the
   implementation executed; every page the implementation returned (events, parsed Pos, whether a ReqId
   came back) is compared with the model's page. *)
From LR Require Export lib.Base model.Paging.

(* one observed page: events as (tags, ts, msg, fields), Pos parsed and sorted by source, ReqId <> 0 *)
Definition opage := (list (bytes * Z * bytes * bytes) * posl * bool)%type.

Inductive case :=
| KRun (st0 : store) (q : qfilter) (start : pos_t) (steps : list pstep) (observed : list opage).

Definition tags_of (st : store) (i : nat) : bytes :=
  match nth_error st i with Some p => p_tags p | None => [] end.

Definition ev4_eqb (a b : bytes * Z * bytes * bytes) : bool :=
  let '(a1, a2, a3, a4) := a in let '(b1, b2, b3, b4) := b in
  bytes_eqb a1 b1 && Z.eqb a2 b2 && bytes_eqb a3 b3 && bytes_eqb a4 b4.

Definition page_of (st : store) (r : result) : option opage :=
  match rs_pos r with
  | PList pl => if rs_ok r
                then Some (map (fun e => (tags_of st (o_src e), o_ts e, o_msg e, o_flds e)) (rs_events r), pl, negb (rs_id r =? 0)%N)
                else None
  | _ => None
  end.

Definition opage_eqb (a b : opage) : bool :=
  let '(a1, a2, a3) := a in let '(b1, b2, b3) := b in
  list_eqb ev4_eqb a1 b1 && posl_eqb a2 b2 && Bool.eqb a3 b3.

Definition check (c : case) : bool :=
  match c with
  | KRun st0 q start steps observed =>
      let rs := run_from repo_clears_fields (has_filter q) (flt_of q) choose_min st0 start steps in
      list_eqb (option_eqb opage_eqb) (map (page_of st0) rs) (map Some observed)
  end.

Definition mismatches (l : list case) : list nat := mismatches_of check l.
