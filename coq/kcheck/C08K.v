(* Correspondence checker for C08: the models of kvstring / tag / field are run on the texts and maps the
   real functions were run on; strconv.Quote/Unquote answers are taken from the tables the harness recorded
   (and each recorded answer is checked against the hypotheses the theorems make about them). *)
From LR Require Export lib.Base model.KV model.Tags model.Fields proofs.TagsP proofs.FieldsP.

Definition okvmap_eqb := option_eqb kvmap_eqb.
Definition obytes_eqb := option_eqb bytes_eqb.
Definition olist_eqb := option_eqb (list_eqb bytes_eqb).

Definition out_opt {A : Type} (o : outcome A) : option (option A) :=   (* Some None = error; None = panic/fuel *)
  match o with Ok a => Some (Some a) | Err => Some None | _ => None end.

Definition utab := list (bytes * option bytes).
Definition qtab := list (bytes * bytes).

Inductive case :=
(* kvstring.SplitString(s,'=',',') / RemoveCurlyBraces(s) / TrimSpaces(s) *)
| KSplit (s : bytes) (obs : option (list bytes))
| KCurly (s : bytes) (obs : option bytes)
| KTrim (s : bytes) (obs : bytes)
(* tag.Parse(s): None = error, Some (map sorted by name, Line()) *)
| KParse (s : bytes) (ut : utab) (qt : qtab) (obs : option (kvmap * bytes))
(* tag.MapToSet(pairs in this order).Line() = ln; tag.Parse(ln) = back (None = error) *)
| KLine (ord : kvmap) (ut : utab) (qt : qtab) (ln : bytes) (back : option kvmap)
(* field.NewFieldsFromKVString(s): None = error, Some binary *)
| KFParse (s : bytes) (ut : utab) (obs : option bytes)
(* Fields(f).AsKVString() = txt (None = panic); NewFieldsFromKVString(txt) = back *)
| KFPrint (f : bytes) (ut : utab) (qt : qtab) (txt : option bytes) (back : option bytes)
(* field.NewFieldsFromKVString(tag.MapToSet(pairs).Line()) = obs: what the pipe worker derives from a source tag line *)
| KProv (ord : kvmap) (ut : utab) (qt : qtab) (obs : option bytes)
(* in-process server: one event written with tag text tg, write-level field text wf and event-level field text ef;
   acked = the write was accepted; obs = (Tags, Fields) of the event as a query returns it *)
| KE2E (tg wf ef : bytes) (ut : utab) (qt : qtab) (acked : bool) (obs : option (bytes * bytes))
(* in-process server with a pipe: one event written with tag text tg, write-level field text wf and event-level field
   text ef into a source partition of the pipe; obs = the Fields text a query of the pipe's destination partition
   returns for the copied event *)
| KPipe (tg wf ef : bytes) (ut : utab) (qt : qtab) (obs : bytes)
(* model.NewFormatParser("{vars}").FormatStr(event with the binary field list f, tag line tl) = txt (None = panic);
   field.NewFieldsFromKVString(txt) = back; canon = tl is the line of a tag set (given as pairs) *)
| KVars (tl f : bytes) (ord : kvmap) (canon : bool) (ut : utab) (qt : qtab) (txt : option bytes) (back : option bytes)
(* strconv.Quote(v) = q, strconv.Unquote(q) = uq *)
| KQuote (v q : bytes) (uq : option bytes)
(* strconv.Unquote(s) = r *)
| KUnquote (s : bytes) (r : option bytes)
(* a call into the implementation panicked (fn = which call, on which input); of the modelled functions only
   AsKVString can panic, and that is reported through KFPrint *)
| KPanicked (fn : bytes) (input : bytes).

Definition check (c : case) : bool :=
  match c with
  | KSplit s obs => option_eqb olist_eqb (out_opt (split_string s)) (Some obs)
  | KCurly s obs => option_eqb obytes_eqb (out_opt (remove_curly s)) (Some obs)
  | KTrim s obs => bytes_eqb (trim s) obs
  | KParse s ut qt obs =>
      match to_map (tbl_unquote ut) s, obs with
      | Ok m, Some (m', ln) => kvmap_eqb m m' && bytes_eqb (line (tbl_quote qt) m) ln
      | Err, None => true
      | _, _ => false
      end
  | KLine ord ut qt ln back =>
      let m := map_of_pairs ord in
      bytes_eqb (line_ord (tbl_quote qt) ord) ln &&
      option_eqb okvmap_eqb (out_opt (to_map (tbl_unquote ut) ln)) (Some back) &&
      (* the instance of the round-trip theorem (C08_tags_partial): a safe canonical map comes back *)
      implb (tag_safe m) (okvmap_eqb back (Some m))
  | KFParse s ut obs => option_eqb obytes_eqb (out_opt (fields_of_kv (tbl_unquote ut) s)) (Some obs)
  | KFPrint f ut qt txt back =>
      match as_kv (tbl_quote qt) f, txt with
      | Ok t, Some t' => bytes_eqb t t' &&
                         option_eqb obytes_eqb (out_opt (fields_of_kv (tbl_unquote ut) t)) (Some back) &&
                         implb (fields_wf f) (obytes_eqb back (Some f))
      | Panic, None => true
      | _, _ => false
      end
  | KProv ord ut qt obs =>
      let m := map_of_pairs ord in
      option_eqb obytes_eqb (out_opt (fields_of_kv (tbl_unquote ut) (line_ord (tbl_quote qt) ord))) (Some obs) &&
      implb (tag_safe m && forallb prov_pair_ok m) (obytes_eqb obs (Some (enc_fields (flat m))))
  | KE2E tg wf ef ut qt acked obs =>
      match to_map (tbl_unquote ut) tg, fields_of_kv (tbl_unquote ut) wf with
      | Ok (kv :: m), Ok f1 =>
          let f2 := match fields_of_kv (tbl_unquote ut) ef with Ok f => f | _ => [] end in   (* field.Parse drops errors *)
          acked &&
          match obs, as_kv (tbl_quote qt) (f1 ++ f2) with
          | Some (tl, fl), Ok t => bytes_eqb tl (line (tbl_quote qt) (kv :: m)) && bytes_eqb fl t
          | _, _ => false
          end
      | _, _ => negb acked
      end
  | KPipe tg wf ef ut qt obs =>
      match to_map (tbl_unquote ut) tg, fields_of_kv (tbl_unquote ut) wf with
      | Ok (kv :: m), Ok f1 =>
          let f2 := field_parse (tbl_unquote ut) ef in
          match as_kv (tbl_quote qt) (pipe_fields (tbl_quote qt) (tbl_unquote ut) (f1 ++ f2) (kv :: m)) with
          | Ok t => bytes_eqb obs t
          | _ => false
          end
      | _, _ => false
      end
  | KVars tl f ord canon ut qt txt back =>
      let m := map_of_pairs ord in
      match vars_text (tbl_quote qt) tl f, txt with
      | Ok t, Some t' => bytes_eqb t t' &&
                         option_eqb obytes_eqb (out_opt (fields_of_kv (tbl_unquote ut) t)) (Some back) &&
                         (* the instance of C08_format_vars_partial *)
                         implb (canon && bytes_eqb tl (line (tbl_quote qt) m) && negb (is_nil m) && tag_safe m &&
                                forallb prov_pair_ok m && fields_wf f)
                               (obytes_eqb back (Some (enc_fields (flat m) ++ f)))
      | Panic, None => true
      | _, _ => false
      end
  | KQuote v q uq => quote_ok v q uq && quote_fact_ok v q && negb (has LF q)
  | KUnquote s r => unquote_fact_ok s r
  | KPanicked _ _ => false
  end.

Definition mismatches (l : list case) : list nat := mismatches_of check l.
