(* Correspondence checker for C11.
   KRead: the real journal iterator (the one cursors use) read to its end in several rounds over a journal whose
          chunks are interposed by the harness: every call that looks at the confirmed count is recorded with the
          value it sees (appends + flushes are injected between calls); the model reader consumes that trace.
   KWait: the real server, Query with WaitTimeout at the end of one partition, the write injected at a protocol
          point (schedule hook before WaitForNewData); observed: did the query return the event.
   KFan:  the same over n partitions under one reader, the write going to partition `target`.
   KRearm: a pipe whose worker's 10 s wait expires with a notification pending (model/PipeSync.v). *)
From LR Require Export lib.Base model.Wait model.PipeSync.

Inductive case :=
| KRead (p0 : nat) (tr : trace) (obs : list (list nat * nat))
| KWait (pos : nat) (sc : wscen) (woken : bool) (nev : nat)
| KFan (n target pos : nat) (sc : wscen) (woken : bool) (nev : nat)
| KRearm (b1 b2 : nat) (copied : nat)
| KRange (skipped : bool)
(* the real client's Select in stream mode from `tail` over a partition of n records; rounds: records appended in the
   gap before each request reaches the server / while it waits; delivered: what the handler received *)
| KSelect (n : nat) (rounds : list (nat * nat)) (delivered : list nat)
(* a waiting request over a source expression that matches no partition: did it return (within time-out + slack), with how
   many events, and did its continuation request carry the query *)
| KEmpty (returned : bool) (nev : nat) (continues : bool)
(* a waiting reader with a filter at the end of its partitions: per partition the match flags of the records appended during
   the wait, in order; out: the selector's cached status of the last chunk was "nothing in the range" (RANGE ahead of the
   stored data); returned: the request returned a (matching) event *)
| KFilt (out : bool) (srcs : list (list bool)) (returned : bool)
(* a request with WaitTimeout w at the end of a partition: did it start to wait (accepted), and was the event written then returned *)
| KTimeout (w : Z) (accepted woken : bool)
(* a waiting request cancelled while its waiters sleep: did it return; events delivered by the next request after a write *)
| KCancel (returned : bool) (nev : nat).   (* /repo's own journal iterator: a flush right before the last look of a read-to-end *)

Definition round_eqb (a b : list nat * nat) : bool := list_eqb Nat.eqb (fst a) (fst b) && Nat.eqb (snd a) (snd b).

(* every other partition's waiter is registered and asleep; the target partition follows the scenario *)
Fixpoint others (n target pos : nat) : list (nat * wlabel) :=
  match n with
  | O => []
  | S m => others m target pos ++ (if m =? target then [] else [(m, LStart pos); (m, LWaiter); (m, LWaiter)])
  end.
Definition fan_sched (n target pos : nat) (sc : wscen) : list (nat * wlabel) :=
  others n target pos ++ map (pair target) (scen_sched pos sc).

Definition mkev (i : nat) : event := {| e_ts := Z.of_nat i; e_msg := []; e_flds := []; e_keep := true |}.
Definition rearm_sched (b1 b2 : nat) : list label :=
  sched_write_late (map mkev (seq 0 b1)) ++
  [LWrite (map mkev (seq b1 b2)); LEnq 0; LDeliver; LTimeout; LWork] ++ works 6 ++ [LFlush] ++ works (b2 + 8).

Definition check (c : case) : bool :=
  match c with
  | KRead p0 tr obs =>
      match read_rounds (length obs) 4000 code_reloads_count {| r_pos := p0; r_open := false; r_cached := false |} tr with
      | (rounds, rest, ok) => ok && match rest with [] => true | _ => false end && list_eqb round_eqb rounds obs
      end
  | KWait pos sc woken nev =>
      Bool.eqb (scen_woken pos sc) woken && Nat.eqb nev (if woken then 1 else 0)
  | KFan n target pos sc woken nev =>
      Bool.eqb (reader_woken (mrun (repeat (winit pos) n) (fan_sched n target pos sc))) woken &&
      Nat.eqb nev (if woken then 1 else 0)
  | KRearm b1 b2 copied =>
      Nat.eqb (length (dst (run code_applies_filter [] (init [] 0) (rearm_sched b1 b2)))) copied
  | KRange skipped => Bool.eqb skipped code_reloads_count_range
  | KSelect n rounds delivered => list_eqb Nat.eqb (sel_run code_select_advances STail n rounds) delivered
  | KFilt out srcs returned =>
      Bool.eqb (fst (frounds code_release_reaches code_status_refreshes 3
                       (map (fun r => {| fs_rest := r; fs_eof := true; fs_out := out |}) srcs))) returned
  | KTimeout w accepted woken =>
      if wait_timeout_ok w then (if (0 <? w)%Z then accepted && woken else true) else negb accepted && negb woken
  | KCancel returned nev =>
      let s := wrun (winit 1) [LStart 1; LWaiter; LWaiter; LCancel] in
      returned && negb (reg s) && Nat.eqb (wcnt s) 0 && Nat.eqb nev (if scen_woken 1 WsBefore then 1 else 0)
  | KEmpty returned nev continues =>
      Bool.eqb (match empty_wait_loop code_empty_waits_for_ctx 1000 with Some _ => true | None => false end) returned &&
      Nat.eqb nev 0 &&
      Bool.eqb (match empty_continuation code_empty_keeps_query tt with Some _ => true | None => false end) (continues || negb returned)
  end.

Definition mismatches (l : list case) : list nat := mismatches_of check l.
